package vsched

import (
	"context"
	"fmt"
	"time"
)

// Chan is the shim for a Go channel of element type T.
type Chan[T any] struct {
	name   string
	cap    int
	buf    []T
	closed bool
	// parked plain senders/receivers and select cases, in arrival order
	sendq []*waiter[T]
	recvq []*waiter[T]
}

// waiter is one parked send or receive (possibly a case of a select).
type waiter[T any] struct {
	tick  int
	val   T    // value to send / received value
	ok    bool // receive: value came from a send (not from close)
	done  bool // completed by a partner
	group *selGroup
	idx   int // case index within the select
}

// selGroup ties the cases of one parked select together: at most one completes.
type selGroup struct {
	fired  bool
	chosen int
}

var chanSeq int

func NewChan[T any](capacity int) *Chan[T] {
	chanSeq++
	return &Chan[T]{cap: capacity, name: fmt.Sprintf("chan#%d", chanSeq)}
}

func (c *Chan[T]) live(q []*waiter[T]) []*waiter[T] {
	out := q[:0]
	for _, w := range q {
		if !w.done && (w.group == nil || !w.group.fired) {
			out = append(out, w)
		}
	}
	return out
}

func (c *Chan[T]) canSend() bool {
	c.recvq = c.live(c.recvq)
	return c.closed || len(c.buf) < c.cap || len(c.recvq) > 0
}

func (c *Chan[T]) canRecv() bool {
	c.sendq = c.live(c.sendq)
	return c.closed || len(c.buf) > 0 || len(c.sendq) > 0
}

// doSend performs a send that canSend() allows. Panics on closed channel like Go.
func (c *Chan[T]) doSend(v T) {
	if c.closed {
		panic("send on closed channel")
	}
	c.recvq = c.live(c.recvq)
	if len(c.buf) == 0 && len(c.recvq) > 0 {
		w := c.recvq[0] // FIFO, like the Go runtime's wait queues
		c.recvq = c.recvq[1:]
		w.val, w.ok, w.done = v, true, true
		if w.group != nil {
			w.group.fired, w.group.chosen = true, w.idx
		}
		return
	}
	c.buf = append(c.buf, v)
}

// doRecv performs a receive that canRecv() allows.
func (c *Chan[T]) doRecv() (v T, ok bool) {
	c.sendq = c.live(c.sendq)
	if len(c.buf) > 0 {
		v = c.buf[0]
		c.buf = c.buf[1:]
		// a parked sender can now move its value into the buffer
		if len(c.sendq) > 0 {
			w := c.sendq[0]
			c.sendq = c.sendq[1:]
			c.buf = append(c.buf, w.val)
			w.done = true
			if w.group != nil {
				w.group.fired, w.group.chosen = true, w.idx
			}
		}
		return v, true
	}
	if len(c.sendq) > 0 {
		w := c.sendq[0]
		c.sendq = c.sendq[1:]
		w.done = true
		if w.group != nil {
			w.group.fired, w.group.chosen = true, w.idx
		}
		return w.val, true
	}
	var zero T
	return zero, false // closed
}

// Send is `c <- v`.
func (c *Chan[T]) Send(v T) {
	s := must()
	if s.killing {
		return
	}
	if c == nil {
		s.park(&op{label: "send on nil channel", enabled: func() bool { return false }, run: func() {}})
		return
	}
	w := &waiter[T]{val: v}
	// Unbuffered rendezvous needs the sender to be visible to receivers while parked.
	c.sendq = append(c.sendq, w)
	s.park(&op{label: "send " + c.name, enabled: func() bool { return w.done || c.canSendExcluding(w) },
		run: func() {
			if w.done {
				return
			}
			c.remove(w)
			c.doSend(v)
		}})
}

// canSendExcluding: like canSend but for a sender that sits in sendq itself.
func (c *Chan[T]) canSendExcluding(w *waiter[T]) bool {
	c.recvq = c.live(c.recvq)
	return c.closed || len(c.buf) < c.cap || len(c.recvq) > 0
}

func (c *Chan[T]) remove(w *waiter[T]) {
	for i, x := range c.sendq {
		if x == w {
			c.sendq = append(c.sendq[:i], c.sendq[i+1:]...)
			break
		}
	}
	for i, x := range c.recvq {
		if x == w {
			c.recvq = append(c.recvq[:i], c.recvq[i+1:]...)
			break
		}
	}
}

// Recv2 is `v, ok := <-c`.
func (c *Chan[T]) Recv2() (T, bool) {
	s := must()
	var zero T
	if s.killing {
		return zero, false
	}
	if c == nil {
		s.park(&op{label: "receive on nil channel", enabled: func() bool { return false }, run: func() {}})
		return zero, false
	}
	w := &waiter[T]{}
	c.recvq = append(c.recvq, w)
	s.park(&op{label: "recv " + c.name, enabled: func() bool { return w.done || c.canRecvExcluding(w) },
		run: func() {
			if w.done {
				return
			}
			c.remove(w)
			w.val, w.ok = c.doRecv()
		}})
	return w.val, w.ok
}

func (c *Chan[T]) canRecvExcluding(w *waiter[T]) bool {
	c.sendq = c.live(c.sendq)
	return c.closed || len(c.buf) > 0 || len(c.sendq) > 0
}

// Recv is `<-c`.
func (c *Chan[T]) Recv() T { v, _ := c.Recv2(); return v }

// Close is `close(c)`.
func (c *Chan[T]) Close() {
	s := must()
	if s.killing {
		return
	}
	s.park(&op{label: "close " + c.name, enabled: func() bool { return true }, run: func() {
		if c.closed {
			panic("close of closed channel")
		}
		c.closed = true
	}})
}

// Len and Cap mirror the builtins.
func (c *Chan[T]) Len() int { return len(c.buf) }
func (c *Chan[T]) Cap() int { return c.cap }

// ---- select ----

// Case is one case of a select statement.
type Case interface {
	ready() bool
	fire() // perform the case (it is ready)
	enqueue(g *selGroup, idx int)
	dequeue()
	label() string
}

// RecvCase is `case v, ok := <-c`.
type RecvCase[T any] struct {
	c   *Chan[T]
	w   *waiter[T]
	Val T
	Ok  bool
}

func CaseRecv[T any](c *Chan[T]) *RecvCase[T] { return &RecvCase[T]{c: c} }

func (k *RecvCase[T]) ready() bool {
	if k.c == nil {
		return false
	}
	if k.w != nil && k.w.done {
		return true
	}
	return k.c.canRecv()
}
func (k *RecvCase[T]) fire() {
	if k.w != nil && k.w.done {
		k.Val, k.Ok = k.w.val, k.w.ok
		return
	}
	k.Val, k.Ok = k.c.doRecv()
}
func (k *RecvCase[T]) enqueue(g *selGroup, idx int) {
	if k.c == nil {
		return
	}
	k.w = &waiter[T]{group: g, idx: idx}
	k.c.recvq = append(k.c.recvq, k.w)
}
func (k *RecvCase[T]) dequeue() {
	if k.c != nil && k.w != nil {
		k.c.remove(k.w)
	}
}
func (k *RecvCase[T]) label() string { return "recv " + k.c.name }

// SendCase is `case c <- v`.
type SendCase[T any] struct {
	c *Chan[T]
	v T
	w *waiter[T]
}

func CaseSend[T any](c *Chan[T], v T) *SendCase[T] { return &SendCase[T]{c: c, v: v} }

func (k *SendCase[T]) ready() bool {
	if k.c == nil {
		return false
	}
	if k.w != nil && k.w.done {
		return true
	}
	return k.c.canSend()
}
func (k *SendCase[T]) fire() {
	if k.w != nil && k.w.done {
		return
	}
	k.c.doSend(k.v)
}
func (k *SendCase[T]) enqueue(g *selGroup, idx int) {
	if k.c == nil {
		return
	}
	k.w = &waiter[T]{val: k.v, group: g, idx: idx}
	k.c.sendq = append(k.c.sendq, k.w)
}
func (k *SendCase[T]) dequeue() {
	if k.c != nil && k.w != nil {
		k.c.remove(k.w)
	}
}
func (k *SendCase[T]) label() string { return "send " + k.c.name }

// DoneCase is `case <-ctx.Done()` (or any foreign close-only channel tied to a context).
type DoneCase struct{ ctx context.Context }

func CaseDone(ctx context.Context) *DoneCase { return &DoneCase{ctx} }
func (k *DoneCase) ready() bool              { return k.ctx.Err() != nil }
func (k *DoneCase) fire()                    {}
func (k *DoneCase) enqueue(*selGroup, int)   {}
func (k *DoneCase) dequeue()                 {}
func (k *DoneCase) label() string            { return "ctx.Done" }

// TimerCase is `case <-time.After(d)`.
type TimerCase struct {
	fired bool
	t     *timer
	d     time.Duration
}

func CaseAfter(d time.Duration) *TimerCase {
	k := &TimerCase{d: d}
	k.t = must().addTimer(d, fmt.Sprintf("after(%v)", d), func() { k.fired = true })
	return k
}
func (k *TimerCase) ready() bool            { return k.fired }
func (k *TimerCase) fire()                  {}
func (k *TimerCase) enqueue(*selGroup, int) {}
func (k *TimerCase) dequeue()               { k.t.dead = true } // an unused time.After timer is simply dropped
func (k *TimerCase) label() string          { return fmt.Sprintf("after %v", k.d) }

// Select blocks until one case can proceed and returns its index, or -1 when
// hasDefault and none is ready. Several ready cases are a choice point.
func Select(hasDefault bool, cases ...Case) int {
	s := must()
	if s.killing {
		return -1
	}
	chosen := -1
	g := &selGroup{}
	for i, k := range cases {
		k.enqueue(g, i)
	}
	readyIdx := func() []int {
		var r []int
		for i, k := range cases {
			if k.ready() {
				r = append(r, i)
			}
		}
		return r
	}
	lbl := "select{"
	for i, k := range cases {
		if i > 0 {
			lbl += ", "
		}
		lbl += k.label()
	}
	if hasDefault {
		lbl += ", default"
	}
	lbl += "}"
	s.park(&op{label: lbl,
		enabled: func() bool { return hasDefault || g.fired || len(readyIdx()) > 0 },
		run: func() {
			if g.fired { // a partner completed one of our parked cases
				chosen = g.chosen
				cases[chosen].fire()
			} else if r := readyIdx(); len(r) > 0 {
				i := 0
				if len(r) > 1 {
					i = s.choose(len(r), "select-case")
				}
				chosen = r[i]
				g.fired, g.chosen = true, chosen
				cases[chosen].fire()
			}
			for i, k := range cases {
				if i != chosen {
					k.dequeue()
				} else {
					k.dequeue()
				}
			}
		}})
	return chosen
}

// WaitDone is a bare `<-ctx.Done()`.
func WaitDone(ctx context.Context) {
	s := must()
	s.park(&op{label: "<-ctx.Done()", enabled: func() bool { return ctx.Err() != nil }, run: func() {}})
}
