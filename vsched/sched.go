// Package vsched is engine E3's runtime: a cooperative, controlled scheduler for
// real goroutine code whose synchronisation operations have been rewritten into
// calls to this package (cmd/instr). Every logical thread is a real goroutine
// parked on its own semaphore; exactly one runs at a time; every visible
// operation (channel op, select, lock, WaitGroup, context cancel, timer, spawn)
// is a scheduling point at which the explorer's choice function decides who runs
// next. Time is virtual: it advances only when no thread is enabled.
//
// This directory is compiled into the module under test through -overlay as
// github.com/c2FmZQ/ech/vsched (see scripts/build_instr.sh), so that both the
// rewritten library sources and the check harness can import it.
package vsched

import (
	"fmt"
	"runtime"
	"sort"
	"strings"
	"time"
)

// Base is virtual time zero.
var Base = time.Unix(1_700_000_000, 0)

type thread struct {
	id      int
	name    string
	wake    chan struct{}
	pending *op // operation the thread is parked on (nil while running)
	done    bool
	endAt   time.Duration // virtual time at which the thread finished
	blocked int           // clock tick at which it parked (for FIFO partner selection)
}

// op is a parked operation: enabled says whether it can complete now; run
// performs its effect (called by the scheduler while everything is parked).
type op struct {
	label   string
	enabled func() bool
	run     func()
}

type timer struct {
	at   time.Duration
	seq  int
	fire func()
	dead bool
	name string
}

// Chooser decides a choice point with n >= 2 options; kind describes it.
type Chooser func(n int, kind string) int

type Sched struct {
	threads  []*thread
	cur      *thread
	back     chan struct{}
	clock    time.Duration
	timers   []*timer
	tseq     int
	choose   Chooser
	steps    int
	MaxSteps int
	killing  bool
	tick     int
	// idleAdvances counts consecutive clock advances that enabled no thread (a periodic timer nobody listens to must not spin forever)
	idleAdvances int

	Panic     any    // first panic in any thread
	PanicInfo string // thread and stack
	Deadlock  string // non-empty: description of threads blocked forever at the end
	Livelock  bool   // step horizon exceeded
	Trace     []string
	TraceOn   bool
}

var cur *Sched

// Active reports whether a scheduler is running (harness helpers use it).
func Active() bool { return cur != nil }

func must() *Sched {
	if cur == nil {
		panic("vsched: operation outside a scheduled execution")
	}
	return cur
}

// Run executes main as thread 0 under the scheduler until every thread has
// finished or nothing can run. It returns the scheduler for inspection.
func Run(choose Chooser, maxSteps int, main func()) *Sched {
	return RunOpt(choose, maxSteps, false, main)
}

// RunOpt is Run with an optional textual trace of every scheduling step.
func RunOpt(choose Chooser, maxSteps int, traceOn bool, main func()) *Sched {
	s := &Sched{back: make(chan struct{}), choose: choose, MaxSteps: maxSteps, TraceOn: traceOn}
	if cur != nil {
		panic("vsched: nested Run")
	}
	cur = s
	defer func() { cur = nil }()
	s.spawn("main", main)
	s.loop()
	s.kill()
	return s
}

func (s *Sched) spawn(name string, f func()) *thread {
	t := &thread{id: len(s.threads), name: name, wake: make(chan struct{})}
	t.pending = &op{label: "start", enabled: func() bool { return true }, run: func() {}}
	s.threads = append(s.threads, t)
	go func() {
		<-t.wake
		defer func() {
			if p := recover(); p != nil {
				if s.Panic == nil {
					s.Panic = p
					buf := make([]byte, 4096)
					buf = buf[:runtime.Stack(buf, false)]
					s.PanicInfo = fmt.Sprintf("thread %d (%s): %s", t.id, t.name, buf)
				}
			}
			t.done = true
			t.endAt = s.clock
			t.pending = nil
			s.back <- struct{}{}
		}()
		if s.killing {
			return
		}
		f()
	}()
	return t
}

func (s *Sched) tracef(format string, a ...any) {
	if s.TraceOn {
		s.Trace = append(s.Trace, fmt.Sprintf("t=%v ", s.clock)+fmt.Sprintf(format, a...))
	}
}

// loop is the scheduler proper; it runs in the caller of Run.
func (s *Sched) loop() {
	for {
		if s.Panic != nil {
			return
		}
		var en []*thread
		for _, t := range s.threads {
			if !t.done && t.pending != nil && t.pending.enabled() {
				en = append(en, t)
			}
		}
		if len(en) == 0 {
			s.idleAdvances++
			if s.idleAdvances > 10000 || !s.advanceClock() {
				// nothing can ever run again
				var bl []string
				for _, t := range s.threads {
					if !t.done {
						bl = append(bl, fmt.Sprintf("thread %d (%s) blocked on %s", t.id, t.name, t.pending.label))
					}
				}
				if len(bl) > 0 {
					s.Deadlock = strings.Join(bl, "; ")
				}
				return
			}
			continue
		}
		s.idleAdvances = 0
		s.steps++
		if s.MaxSteps > 0 && s.steps > s.MaxSteps {
			s.Livelock = true
			return
		}
		// canonical order: the thread that ran last first if still enabled, then ascending ids
		sort.SliceStable(en, func(i, j int) bool {
			if (en[i] == s.cur) != (en[j] == s.cur) {
				return en[i] == s.cur
			}
			return en[i].id < en[j].id
		})
		pick := en[0]
		if len(en) > 1 {
			pick = en[s.choose(len(en), "thread")]
		}
		o := pick.pending
		pick.pending = nil
		s.cur = pick
		s.tracef("run thread %d (%s): %s", pick.id, pick.name, o.label)
		o.run()
		pick.wake <- struct{}{}
		<-s.back
	}
}

// advanceClock moves virtual time to the earliest pending timer and fires every
// timer due at that instant, in an order chosen by the explorer.
func (s *Sched) advanceClock() bool {
	var live []*timer
	for _, t := range s.timers {
		if !t.dead {
			live = append(live, t)
		}
	}
	s.timers = live
	if len(live) == 0 {
		return false
	}
	sort.SliceStable(live, func(i, j int) bool {
		if live[i].at != live[j].at {
			return live[i].at < live[j].at
		}
		return live[i].seq < live[j].seq
	})
	at := live[0].at
	if at > s.clock {
		s.clock = at
	}
	var due []*timer
	for _, t := range live {
		if t.at <= s.clock {
			due = append(due, t)
		}
	}
	for len(due) > 0 {
		i := 0
		if len(due) > 1 {
			i = s.choose(len(due), "timer-order")
		}
		t := due[i]
		due = append(due[:i], due[i+1:]...)
		if !t.dead {
			t.dead = true
			s.tracef("timer %s fires", t.name)
			t.fire()
		}
	}
	return true
}

func (s *Sched) addTimer(d time.Duration, name string, fire func()) *timer {
	if d < 0 {
		d = 0
	}
	s.tseq++
	t := &timer{at: s.clock + d, seq: s.tseq, fire: fire, name: name}
	s.timers = append(s.timers, t)
	return t
}

// park hands control to the scheduler until o has been performed.
func (s *Sched) park(o *op) {
	if s.killing {
		return
	}
	t := s.cur
	s.tick++
	t.blocked = s.tick
	t.pending = o
	s.back <- struct{}{}
	<-t.wake
	if s.killing {
		runtime.Goexit()
	}
}

// kill unwinds every goroutine still parked when the execution is over.
func (s *Sched) kill() {
	s.killing = true
	for _, t := range s.threads {
		if !t.done {
			t.wake <- struct{}{}
			<-s.back
		}
	}
}

// ---- API used by rewritten code and harnesses ----

// Go starts a new logical thread.
func Go(f func()) { GoNamed("go", f) }

func GoNamed(name string, f func()) {
	s := must()
	if s.killing {
		return
	}
	s.spawn(name, f)
	Yield("spawn " + name)
}

// Yield is a pure scheduling point.
func Yield(label string) {
	s := must()
	s.park(&op{label: label, enabled: func() bool { return true }, run: func() {}})
}

// WaitUntil blocks until pred (side-effect free, evaluated by the scheduler) holds.
func WaitUntil(label string, pred func() bool) {
	s := must()
	s.park(&op{label: label, enabled: pred, run: func() {}})
}

// Now is the virtual wall clock.
func Now() time.Time { return Base.Add(must().clock) }

// Elapsed is virtual time since the start of the execution.
func Elapsed() time.Duration { return must().clock }

// Sleep blocks for d of virtual time.
func Sleep(d time.Duration) {
	s := must()
	fired := false
	s.addTimer(d, fmt.Sprintf("sleep(%v)", d), func() { fired = true })
	s.park(&op{label: fmt.Sprintf("sleep %v", d), enabled: func() bool { return fired }, run: func() {}})
}

// Steps reports the number of scheduling steps taken.
func (s *Sched) Steps() int { return s.steps }

// Threads reports how many logical threads were created.
func (s *Sched) Threads() int { return len(s.threads) }

// ThreadEnd describes when a logical thread finished (Done false: it never did).
type ThreadEnd struct {
	ID   int
	Name string
	Done bool
	At   time.Duration
}

// ThreadEnds lists every logical thread with the virtual time at which it finished.
func (s *Sched) ThreadEnds() []ThreadEnd {
	var out []ThreadEnd
	for _, t := range s.threads {
		out = append(out, ThreadEnd{t.id, t.name, t.done, t.endAt})
	}
	return out
}

// AddTimer registers a callback at d from now in virtual time (harness use: e.g. a
// transport deadline). The callback runs in scheduler context.
func AddTimer(d time.Duration, name string, f func()) { must().addTimer(d, name, f) }

// ThreadID identifies the logical thread that is running (harness bookkeeping).
func ThreadID() int { return must().cur.id }
