package vsched

import "fmt"

// Choice is one recorded choice point of an execution.
type Choice struct {
	N      int    // number of options
	Picked int    // option taken (0 = default)
	Kind   string // "thread", "select-case", "timer-order", or harness-defined
}

// Execution is the record of one run.
type Execution struct {
	Choices []Choice
	Sched   *Sched
}

// Explorer walks the tree of choice vectors depth-first with a deviation bound:
// a deviation is any non-default choice (a preemption or non-canonical thread
// pick, a non-first ready select case, a non-first order of simultaneous timers,
// or a harness-defined alternative).
type Explorer struct {
	Bound    int
	MaxSteps int
	MaxExecs int // 0 = unlimited; when hit, Capped is set
	// Body runs one execution: it must call vsched.Run(x.Chooser(), ...) exactly once (or use x.Choose for its own choices) and check its oracle.
	Body func(x *Execution, choose Chooser)

	Executions   int
	ChoicePoints int
	MaxDepth     int
	Capped       bool
	Diverged     string
}

// Explore runs the exploration.
func (e *Explorer) Explore() {
	e.explore(nil)
}

func (e *Explorer) run(prefix []int) *Execution {
	x := &Execution{}
	pos := 0
	choose := func(n int, kind string) int {
		pick := 0
		if pos < len(prefix) {
			pick = prefix[pos]
			if pick >= n {
				if e.Diverged == "" {
					e.Diverged = fmt.Sprintf("replay diverged at choice %d: recorded option %d of a point that now has %d options (%s)", pos, pick, n, kind)
				}
				pick = 0
			}
		}
		pos++
		x.Choices = append(x.Choices, Choice{N: n, Picked: pick, Kind: kind})
		return pick
	}
	e.Body(x, choose)
	e.Executions++
	e.ChoicePoints += len(x.Choices)
	if len(x.Choices) > e.MaxDepth {
		e.MaxDepth = len(x.Choices)
	}
	return x
}

func (e *Explorer) explore(prefix []int) {
	if e.MaxExecs > 0 && e.Executions >= e.MaxExecs {
		e.Capped = true
		return
	}
	x := e.run(prefix)
	if e.Diverged != "" {
		return
	}
	cost := 0
	for _, p := range prefix {
		if p != 0 {
			cost++
		}
	}
	for i := len(prefix); i < len(x.Choices); i++ {
		if cost+1 > e.Bound {
			break
		}
		for alt := 1; alt < x.Choices[i].N; alt++ {
			np := make([]int, i+1)
			for k := 0; k < i; k++ {
				np[k] = x.Choices[k].Picked
			}
			np[i] = alt
			e.explore(np)
			if e.Capped || e.Diverged != "" {
				return
			}
		}
	}
}

// Replay runs exactly one execution with the given choice vector.
func (e *Explorer) Replay(vector []int) *Execution { return e.run(vector) }

// Vector extracts the choice vector of an execution (trailing defaults trimmed).
func (x *Execution) Vector() []int {
	v := make([]int, len(x.Choices))
	last := -1
	for i, c := range x.Choices {
		v[i] = c.Picked
		if c.Picked != 0 {
			last = i
		}
	}
	return v[:last+1]
}
