package vsched

import (
	"context"
	"sort"
	"strings"
	"testing"
	"time"
)

// lost-update toy: two threads do read-yield-write on a shared counter; the explorer must find both outcomes.
func TestExplorerFindsLostUpdate(t *testing.T) {
	outcomes := map[int]int{}
	e := &Explorer{Bound: 2, MaxSteps: 1000}
	e.Body = func(x *Execution, choose Chooser) {
		counter := 0
		var wg WaitGroup
		Run(choose, 1000, func() {
			for i := 0; i < 2; i++ {
				wg.Add(1)
				Go(func() {
					defer wg.Done()
					v := counter
					Yield("between read and write")
					counter = v + 1
				})
			}
			wg.Wait()
		})
		outcomes[counter]++
	}
	e.Explore()
	if outcomes[1] == 0 || outcomes[2] == 0 {
		t.Fatalf("outcomes %v after %d executions", outcomes, e.Executions)
	}
	t.Logf("executions=%d outcomes=%v", e.Executions, outcomes)
}

func TestChannelsSelectTimers(t *testing.T) {
	var logs []string
	e := &Explorer{Bound: 1, MaxSteps: 10000}
	e.Body = func(x *Execution, choose Chooser) {
		var log []string
		s := Run(choose, 10000, func() {
			ch := NewChan[int](0)
			done := NewChan[struct{}](0)
			ctx, cancel := WithTimeout(context.Background(), 5*time.Second)
			defer cancel()
			Go(func() {
				for v := range 3 {
					ch.Send(v)
				}
				ch.Close()
			})
			Go(func() {
				for {
					v, ok := ch.Recv2()
					if !ok {
						break
					}
					log = append(log, string(rune('a'+v)))
				}
				done.Close()
			})
			r := CaseRecv(done)
			switch Select(false, r, CaseDone(ctx), CaseAfter(10*time.Second)) {
			case 0:
				log = append(log, "done@"+Elapsed().String())
			case 1:
				log = append(log, "timeout")
			case 2:
				log = append(log, "after")
			}
		})
		if s.Deadlock != "" || s.Panic != nil {
			t.Fatalf("deadlock=%q panic=%v", s.Deadlock, s.Panic)
		}
		logs = append(logs, strings.Join(log, ""))
	}
	e.Explore()
	sort.Strings(logs)
	for _, l := range logs {
		if l != "abcdone@0s" {
			t.Fatalf("unexpected log %q", l)
		}
	}
	t.Logf("executions=%d", e.Executions)
}

func TestDeadlockDetected(t *testing.T) {
	s := Run(func(int, string) int { return 0 }, 100, func() {
		ch := NewChan[int](0)
		Go(func() { ch.Recv() })
		Go(func() { ch.Recv() })
		ch.Send(1)
	})
	if !strings.Contains(s.Deadlock, "recv") {
		t.Fatalf("deadlock not reported: %q", s.Deadlock)
	}
}
