package vsched

import (
	"context"
	"fmt"
	"time"
)

// Mutex is the shim for sync.Mutex.
type Mutex struct{ locked bool }

func (m *Mutex) Lock() {
	s := must()
	if s.killing {
		return
	}
	s.park(&op{label: "Lock", enabled: func() bool { return !m.locked }, run: func() { m.locked = true }})
}

func (m *Mutex) Unlock() {
	s := must()
	if s.killing {
		return
	}
	s.park(&op{label: "Unlock", enabled: func() bool { return true }, run: func() {
		if !m.locked {
			panic("sync: unlock of unlocked mutex")
		}
		m.locked = false
	}})
}

func (m *Mutex) TryLock() bool {
	s := must()
	ok := false
	s.park(&op{label: "TryLock", enabled: func() bool { return true }, run: func() {
		if !m.locked {
			m.locked, ok = true, true
		}
	}})
	return ok
}

// RWMutex is the shim for sync.RWMutex (writer preference is not modelled: any
// admissible acquisition order is explored).
type RWMutex struct {
	writer  bool
	readers int
}

func (m *RWMutex) Lock() {
	s := must()
	if s.killing {
		return
	}
	s.park(&op{label: "RWMutex.Lock", enabled: func() bool { return !m.writer && m.readers == 0 }, run: func() { m.writer = true }})
}

func (m *RWMutex) Unlock() {
	s := must()
	if s.killing {
		return
	}
	s.park(&op{label: "RWMutex.Unlock", enabled: func() bool { return true }, run: func() {
		if !m.writer {
			panic("sync: Unlock of unlocked RWMutex")
		}
		m.writer = false
	}})
}

func (m *RWMutex) RLock() {
	s := must()
	if s.killing {
		return
	}
	s.park(&op{label: "RWMutex.RLock", enabled: func() bool { return !m.writer }, run: func() { m.readers++ }})
}

func (m *RWMutex) RUnlock() {
	s := must()
	if s.killing {
		return
	}
	s.park(&op{label: "RWMutex.RUnlock", enabled: func() bool { return true }, run: func() {
		if m.readers <= 0 {
			panic("sync: RUnlock of unlocked RWMutex")
		}
		m.readers--
	}})
}

// WaitGroup is the shim for sync.WaitGroup.
type WaitGroup struct{ n int }

func (w *WaitGroup) Add(d int) {
	s := must()
	if s.killing {
		return
	}
	s.park(&op{label: fmt.Sprintf("WaitGroup.Add(%d)", d), enabled: func() bool { return true }, run: func() {
		w.n += d
		if w.n < 0 {
			panic("sync: negative WaitGroup counter")
		}
	}})
}

func (w *WaitGroup) Done() { w.Add(-1) }

func (w *WaitGroup) Wait() {
	s := must()
	if s.killing {
		return
	}
	s.park(&op{label: "WaitGroup.Wait", enabled: func() bool { return w.n == 0 }, run: func() {}})
}

// Go mirrors sync.WaitGroup.Go (Go 1.25); harmless if unused.
func (w *WaitGroup) Go(f func()) {
	w.Add(1)
	Go(func() { defer w.Done(); f() })
}

// Once is the shim for sync.Once.
type Once struct {
	done bool
	m    Mutex
}

func (o *Once) Do(f func()) {
	o.m.Lock()
	defer o.m.Unlock()
	if !o.done {
		o.done = true
		f()
	}
}

// ---- context ----

// WithCancel is context.WithCancel whose cancel is a visible scheduling step.
func WithCancel(parent context.Context) (context.Context, context.CancelFunc) {
	ctx, cancel := context.WithCancel(parent)
	return ctx, func() {
		s := must()
		if s.killing {
			cancel()
			return
		}
		s.park(&op{label: "cancel()", enabled: func() bool { return true }, run: func() { cancel() }})
	}
}

// WithTimeout is context.WithTimeout in virtual time. The returned context
// reports context.DeadlineExceeded as its cause and as its Err() when its own timer ended it (Canceled otherwise)
// (the standard library offers no way to construct a context whose Err is
// DeadlineExceeded without a real timer).
func WithTimeout(parent context.Context, d time.Duration) (context.Context, context.CancelFunc) {
	s := must()
	inner, cancel := context.WithCancelCause(parent)
	dl := Now().Add(d)
	if pd, ok := parent.Deadline(); ok && pd.Before(dl) {
		dl = pd
	}
	dc := &deadlineCtx{Context: inner, deadline: dl}
	var ctx context.Context = dc
	t := s.addTimer(d, fmt.Sprintf("ctx-timeout(%v)", d), func() {
		if inner.Err() == nil {
			dc.timedOut = true // ended by its own timer: Err() is DeadlineExceeded, as with the standard library
		}
		cancel(context.DeadlineExceeded)
	})
	return ctx, func() {
		if s.killing {
			cancel(context.Canceled)
			return
		}
		s.park(&op{label: "cancel()", enabled: func() bool { return true }, run: func() {
			t.dead = true
			cancel(context.Canceled)
		}})
	}
}

// deadlineCtx adds Deadline() to a cancel context; everything else (Done, Err, Value, and with it the
// standard library's cancellation propagation to children) is the embedded context's.
type deadlineCtx struct {
	context.Context
	deadline time.Time
	timedOut bool
}

// Err is context.DeadlineExceeded when the context's own timer ended it (the embedded cancel context says Canceled).
func (c *deadlineCtx) Err() error {
	if e := c.Context.Err(); e != nil {
		if c.timedOut {
			return context.DeadlineExceeded
		}
		return e
	}
	return nil
}

func (c *deadlineCtx) Deadline() (time.Time, bool) { return c.deadline, true }

// WithDeadline is context.WithDeadline in virtual time.
func WithDeadline(parent context.Context, at time.Time) (context.Context, context.CancelFunc) {
	return WithTimeout(parent, at.Sub(Now()))
}

// AfterFunc is context.AfterFunc: f runs in its own logical thread once ctx is done.
func AfterFunc(ctx context.Context, f func()) (stop func() bool) {
	stopped, started := false, false
	GoNamed("afterfunc", func() {
		s := must()
		s.park(&op{label: "afterfunc wait", enabled: func() bool { return stopped || ctx.Err() != nil }, run: func() {
			if !stopped {
				started = true
			}
		}})
		if started {
			f()
		}
	})
	return func() bool {
		s := must()
		res := false
		s.park(&op{label: "afterfunc stop", enabled: func() bool { return true }, run: func() {
			if !started && !stopped {
				stopped, res = true, true
			}
		}})
		return res
	}
}

// After is a bare time.After used outside select: returns a channel shim that receives once.
func After(d time.Duration) *Chan[time.Time] {
	c := NewChan[time.Time](1)
	s := must()
	s.addTimer(d, fmt.Sprintf("after(%v)", d), func() { c.buf = append(c.buf, Base.Add(s.clock)) })
	return c
}

// SleepCtx waits for d of virtual time or for ctx to end, whichever comes first; it
// reports whether the full duration elapsed.
func SleepCtx(ctx context.Context, d time.Duration) bool {
	k := CaseAfter(d)
	return Select(false, k, CaseDone(ctx)) == 0
}

// Ticker is the shim for time.Ticker: C receives a tick every d of virtual time
// (ticks are dropped while one is pending, like the real one).
type Ticker struct {
	C       *Chan[time.Time]
	d       time.Duration
	stopped bool
	t       *timer
}

func NewTicker(d time.Duration) *Ticker {
	if d <= 0 {
		panic("non-positive interval for NewTicker")
	}
	s := must()
	k := &Ticker{C: NewChan[time.Time](1), d: d}
	var arm func()
	arm = func() {
		k.t = s.addTimer(k.d, fmt.Sprintf("ticker(%v)", k.d), func() {
			if k.stopped {
				return
			}
			if len(k.C.buf) < k.C.cap {
				k.C.buf = append(k.C.buf, Base.Add(s.clock))
			}
			arm()
		})
	}
	arm()
	return k
}

func (k *Ticker) Stop() {
	k.stopped = true
	if k.t != nil {
		k.t.dead = true
	}
}

func (k *Ticker) Reset(d time.Duration) { k.d = d }

// Timer is the shim for time.Timer.
type Timer struct {
	C     *Chan[time.Time]
	t     *timer
	fired bool
}

func NewTimer(d time.Duration) *Timer {
	s := must()
	k := &Timer{C: NewChan[time.Time](1)}
	k.t = s.addTimer(d, fmt.Sprintf("timer(%v)", d), func() { k.fired = true; k.C.buf = append(k.C.buf, Base.Add(s.clock)) })
	return k
}

func (k *Timer) Stop() bool {
	was := !k.fired && !k.t.dead
	k.t.dead = true
	return was
}

func (k *Timer) Reset(d time.Duration) bool {
	was := k.Stop()
	s := must()
	k.fired = false
	k.t = s.addTimer(d, fmt.Sprintf("timer(%v)", d), func() { k.fired = true; k.C.buf = append(k.C.buf, Base.Add(s.clock)) })
	return was
}

// TimeAfterFunc is time.AfterFunc: f runs in its own logical thread after d.
func TimeAfterFunc(d time.Duration, f func()) *Timer {
	s := must()
	k := &Timer{C: nil}
	k.t = s.addTimer(d, fmt.Sprintf("afterfunc(%v)", d), func() {
		k.fired = true
		s.spawn("time.AfterFunc", f)
	})
	return k
}
