// Package workers runs a check's cases in single-threaded, memory-capped worker
// processes (ulimit -v) with a per-case hang watchdog, and aggregates their
// JSON-line results in the parent (DESIGN.md §2.1: untrusted-input runs).
package workers

import (
	"bufio"
	"bytes"
	"encoding/json"
	"fmt"
	"os"
	"os/exec"
	"runtime"
	"strings"
	"sync"
	"sync/atomic"
	"time"

	"verif/internal/ev"
)

// Result of one case, produced by the worker-side callback.
type Result struct {
	Outcome string // histogram class
	Viol    string // violation key ("" = none)
	What    string
	Replay  any
	Sample  any // optional: written out as an evidence sample
}

var (
	curIdx   atomic.Int64
	curStart atomic.Int64
)

// Serve is the worker side: runs run(idx) for idx = shard, shard+n, ... < total.
// describe(idx) must return a replayable description of case idx (used when it hangs).
func Serve(shard, nshards, total int, hang time.Duration, describe func(idx int) any, run func(idx int) Result) {
	runtime.GOMAXPROCS(1)
	w := bufio.NewWriterSize(os.Stdout, 1<<16)
	defer w.Flush()
	go func() {
		for {
			time.Sleep(200 * time.Millisecond)
			if st := curStart.Load(); st != 0 && time.Since(time.Unix(0, st)) > hang {
				idx := int(curIdx.Load())
				key := "hang"
				if m, ok := describe(idx).(map[string]any); ok && m["family"] != nil {
					key = fmt.Sprint("hang:", m["family"])
				}
				b, _ := json.Marshal(map[string]any{"violation": key, "what": fmt.Sprintf("case %d did not return within %v", idx, hang), "replay": describe(idx)})
				os.Stdout.Write(append(b, '\n'))
				os.Exit(3)
			}
		}
	}()
	outcomes := map[string]int{}
	n := 0
	for idx := shard; idx < total; idx += nshards {
		curIdx.Store(int64(idx))
		curStart.Store(time.Now().UnixNano())
		r := run(idx)
		curStart.Store(0)
		n++
		outcomes[r.Outcome]++
		if r.Viol != "" {
			b, _ := json.Marshal(map[string]any{"violation": r.Viol, "what": r.What, "replay": r.Replay})
			w.Write(append(b, '\n'))
		}
		if r.Sample != nil {
			b, _ := json.Marshal(map[string]any{"sample": r.Sample})
			w.Write(append(b, '\n'))
		}
	}
	b, _ := json.Marshal(map[string]any{"summary": true, "cases": n, "total": total, "outcomes": outcomes})
	w.Write(append(b, '\n'))
}

// ServeIter is Serve for case sets too large to materialise: iter enumerates ALL cases in a fixed
// order, calling yield(describe, run) for each; only the cases of this shard are executed.
func ServeIter(shard, nshards int, hang time.Duration, iter func(yield func(describe func() any, run func() Result))) {
	runtime.GOMAXPROCS(1)
	w := bufio.NewWriterSize(os.Stdout, 1<<16)
	defer w.Flush()
	var curDesc atomic.Value
	go func() {
		for {
			time.Sleep(200 * time.Millisecond)
			if st := curStart.Load(); st != 0 && time.Since(time.Unix(0, st)) > hang {
				key := "hang"
				var rp any
				if d, ok := curDesc.Load().(func() any); ok && d != nil {
					rp = d()
					if m, ok := rp.(map[string]any); ok && m["family"] != nil {
						key = fmt.Sprint("hang:", m["family"])
					}
				}
				b, _ := json.Marshal(map[string]any{"violation": key, "what": fmt.Sprintf("case %d did not return within %v", curIdx.Load(), hang), "replay": rp})
				os.Stdout.Write(append(b, '\n'))
				os.Exit(3)
			}
		}
	}()
	outcomes := map[string]int{}
	n, total := 0, 0
	iter(func(describe func() any, run func() Result) {
		idx := total
		total++
		if idx%nshards != shard {
			return
		}
		curIdx.Store(int64(idx))
		curDesc.Store(describe)
		curStart.Store(time.Now().UnixNano())
		r := run()
		curStart.Store(0)
		n++
		outcomes[r.Outcome]++
		if r.Viol != "" {
			b, _ := json.Marshal(map[string]any{"violation": r.Viol, "what": r.What, "replay": r.Replay})
			w.Write(append(b, '\n'))
		}
		if r.Sample != nil {
			b, _ := json.Marshal(map[string]any{"sample": r.Sample})
			w.Write(append(b, '\n'))
		}
	})
	b, _ := json.Marshal(map[string]any{"summary": true, "cases": n, "total": total, "outcomes": outcomes})
	w.Write(append(b, '\n'))
}

// frames condenses a Go crash report: its first lines, then every stack line that is not the runtime's own (the harness and
// library frames say what was being done), up to max bytes.
func frames(serr string, max int) string {
	lines := strings.Split(serr, "\n")
	var keep []string
	for i, l := range lines {
		if i < 6 || (strings.Contains(l, "/") && !strings.Contains(l, "/src/runtime/") && !strings.Contains(l, "/src/internal/runtime/")) || strings.HasPrefix(l, "goroutine ") {
			keep = append(keep, l)
		}
	}
	out := strings.Join(keep, "\n")
	if len(out) > max {
		out = out[:max]
	}
	return out
}

// Spawn is the parent side: starts the workers (`self <id> worker <tier> <i> <n>`),
// aggregates outcomes, samples and violations into r. hangKey maps a hang report
// to a violation key. It returns the number of cases executed.
func Spawn(r *ev.Run, id string, memKiB int, extraArgs ...string) (executed, total int) {
	self, err := os.Executable()
	if err != nil {
		ev.ToolError("%v", err)
	}
	n := min(runtime.NumCPU(), 16)
	type wres struct {
		out  string
		err  error
		code int
		serr string
	}
	results := make([]wres, n)
	var wg sync.WaitGroup
	var restarts atomic.Int64
	for i := 0; i < n; i++ {
		wg.Add(1)
		go func(i int) {
			defer wg.Done()
			args := strings.Join(extraArgs, " ")
			// A worker is a deterministic, single-threaded replay of its shard: a worker that dies without a verdict (killed, out of
			// address space under the cap while the machine is busy) is started once more. What the LIBRARY does to a worker - a
			// blow-up on one of its cases - happens again on the second attempt and is then reported; a death that does not repeat
			// was the environment's, and is counted in the evidence (worker_restarts).
			for attempt := 0; attempt < 2; attempt++ {
				cmd := exec.Command("bash", "-c", fmt.Sprintf("ulimit -v %d; exec %q %s worker %s %d %d %s", memKiB, self, id, r.Tier, i, n, args))
				cmd.Env = append(os.Environ(), "GOMAXPROCS=1", "GOGC=50")
				var serr bytes.Buffer
				cmd.Stderr = &serr
				out, err := cmd.Output()
				results[i] = wres{out: string(out), err: err, serr: serr.String()}
				if ee, ok := err.(*exec.ExitError); ok {
					results[i].code = ee.ExitCode()
				}
				if err == nil || results[i].code == 3 || strings.Contains(string(out), `"summary":true`) {
					break
				}
				if attempt == 0 {
					restarts.Add(1)
					fmt.Fprintf(os.Stderr, "worker %d of %s died without a verdict (%v); starting it once more. Its stderr began:\n%s\n", i, id, err, frames(serr.String(), 3000))
				}
			}
		}(i)
	}
	wg.Wait()
	if n := restarts.Load(); n > 0 {
		r.Set("worker_restarts", n)
	}
	for i, wr := range results {
		sawSummary, sawViolation := false, false
		for _, l := range strings.Split(wr.out, "\n") {
			if !strings.HasPrefix(l, "{") {
				continue
			}
			var m map[string]any
			if json.Unmarshal([]byte(l), &m) != nil {
				continue
			}
			switch {
			case m["summary"] == true:
				sawSummary = true
				total = int(m["total"].(float64))
				executed += int(m["cases"].(float64))
				for k, v := range m["outcomes"].(map[string]any) {
					r.Outcome(k, int64(v.(float64)))
				}
			case m["sample"] != nil:
				r.Sample(m["sample"])
			case m["violation"] != nil:
				sawViolation = true
				r.Violation(m["violation"].(string), fmt.Sprint(m["what"]), m["replay"])
			}
		}
		if !sawSummary && !(wr.code == 3 && sawViolation) {
			tail := frames(wr.serr, 4000)
			key := "worker-died"
			if strings.Contains(wr.serr, "out of memory") || strings.Contains(wr.serr, "cannot allocate") {
				key = "worker-out-of-memory"
			}
			r.Violation(key, fmt.Sprintf("worker %d exited with %v before finishing its shard (memory cap %d KiB); stderr:\n%s", i, wr.err, memKiB, tail), nil)
		}
	}
	return executed, total
}
