// Package memnet is a buffered in-memory net.Conn with scriptable chunking,
// cuts and errors, recording writes, Close and deadline calls (DESIGN.md §2.7).
package memnet

import (
	"errors"
	"io"
	"net"
	"os"
	"sync"
	"time"
)

// ErrStall is returned by a non-blocking Conn whose inbound buffer is empty and
// not ended: the harness asked for bytes the script never supplied.
var ErrStall = errors.New("memnet: no data (stall)")

type DeadlineCall struct {
	Kind string // "", "read", "write"
	T    time.Time
}

type Conn struct {
	mu   sync.Mutex
	cond *sync.Cond

	in    []byte
	inEnd error // once in is drained: return this (io.EOF or an error); nil = more may come
	Block bool  // block (instead of ErrStall) when empty and not ended
	// DataWithEnd: the Read that delivers the last buffered bytes of an ended stream returns them TOGETHER with the end error
	// (n > 0, err != nil), as io.Reader allows and some transports do
	DataWithEnd bool

	// ReadHook decides how many bytes (1..avail) a Read returns; nil = min(avail, len(p)).
	ReadHook func(avail, want int) int
	// WriteHook, if set, decides the result of a Write (n accepted, err). Accepted bytes are recorded.
	WriteHook func(p []byte) (int, error)

	TotalIn    int    // total bytes ever fed inbound
	Head       []byte // first 16 inbound bytes
	Out        []byte
	Writes     [][]byte
	Reads      int // number of transport Read calls
	CloseCount int
	Deadlines  []DeadlineCall
	rdl, wdl   time.Time
	peer       *Conn
	timer      *time.Timer
}

func New() *Conn {
	c := &Conn{}
	c.cond = sync.NewCond(&c.mu)
	return c
}

// Pipe returns two connected blocking conns (buffered: writes never block).
func Pipe() (*Conn, *Conn) {
	a, b := New(), New()
	a.Block, b.Block = true, true
	a.peer, b.peer = b, a
	return a, b
}

// Feed appends inbound bytes.
func (c *Conn) Feed(b []byte) {
	c.mu.Lock()
	c.in = append(c.in, b...)
	c.TotalIn += len(b)
	if len(c.Head) < 16 {
		c.Head = append(c.Head, b[:min(len(b), 16-len(c.Head))]...)
	}
	c.mu.Unlock()
	c.cond.Broadcast()
}

// End makes reads return err once the buffer is drained.
func (c *Conn) End(err error) {
	c.mu.Lock()
	c.inEnd = err
	c.mu.Unlock()
	c.cond.Broadcast()
}

// FirstHandshakeLen returns the declared length of the first handshake message if the
// stream starts with a handshake record, else -1.
func (c *Conn) FirstHandshakeLen() int {
	c.mu.Lock()
	defer c.mu.Unlock()
	if len(c.Head) < 9 || c.Head[0] != 22 {
		return -1
	}
	return int(c.Head[6])<<16 | int(c.Head[7])<<8 | int(c.Head[8])
}

func (c *Conn) FedTotal() int { c.mu.Lock(); defer c.mu.Unlock(); return c.TotalIn }

func (c *Conn) Pending() int { c.mu.Lock(); defer c.mu.Unlock(); return len(c.in) }

func (c *Conn) Read(p []byte) (int, error) {
	c.mu.Lock()
	defer c.mu.Unlock()
	c.Reads++
	for {
		if c.CloseCount > 0 {
			return 0, net.ErrClosed
		}
		if !c.rdl.IsZero() && !time.Now().Before(c.rdl) {
			return 0, os.ErrDeadlineExceeded
		}
		if len(c.in) > 0 {
			break
		}
		if c.inEnd != nil {
			return 0, c.inEnd
		}
		if !c.Block {
			return 0, ErrStall
		}
		c.cond.Wait()
	}
	if len(p) == 0 {
		return 0, nil
	}
	n := min(len(c.in), len(p))
	if c.ReadHook != nil {
		if k := c.ReadHook(n, len(p)); k >= 1 && k <= n {
			n = k
		}
	}
	copy(p, c.in[:n])
	c.in = c.in[n:]
	if c.DataWithEnd && len(c.in) == 0 && c.inEnd != nil {
		return n, c.inEnd
	}
	return n, nil
}

func (c *Conn) Write(p []byte) (int, error) {
	c.mu.Lock()
	if c.CloseCount > 0 {
		c.mu.Unlock()
		return 0, net.ErrClosed
	}
	if !c.wdl.IsZero() && !time.Now().Before(c.wdl) {
		c.mu.Unlock()
		return 0, os.ErrDeadlineExceeded
	}
	n, err := len(p), error(nil)
	if c.WriteHook != nil {
		n, err = c.WriteHook(p)
	}
	c.Out = append(c.Out, p[:n]...)
	c.Writes = append(c.Writes, append([]byte{}, p[:n]...))
	peer := c.peer
	c.mu.Unlock()
	if peer != nil && n > 0 {
		peer.Feed(p[:n])
	}
	return n, err
}

// HeldBytes is the heap the transport itself holds for what was written to it and what is still to be read (capacities, not
// lengths: a harness that measures what the code under test retains subtracts this).
func (c *Conn) HeldBytes() int {
	c.mu.Lock()
	defer c.mu.Unlock()
	n := cap(c.Out) + cap(c.in) + 24*cap(c.Writes)
	for _, w := range c.Writes {
		n += cap(w)
	}
	return n
}

func (c *Conn) Close() error {
	c.mu.Lock()
	c.CloseCount++
	peer := c.peer
	c.mu.Unlock()
	c.cond.Broadcast()
	if peer != nil {
		peer.End(io.EOF)
	}
	return nil
}

func (c *Conn) Closed() bool { c.mu.Lock(); defer c.mu.Unlock(); return c.CloseCount > 0 }

func (c *Conn) OutBytes() []byte { c.mu.Lock(); defer c.mu.Unlock(); return append([]byte{}, c.Out...) }

type addr struct{}

func (addr) Network() string { return "mem" }
func (addr) String() string  { return "mem" }

func (c *Conn) LocalAddr() net.Addr  { return addr{} }
func (c *Conn) RemoteAddr() net.Addr { return addr{} }

func (c *Conn) arm(t time.Time) {
	if c.timer != nil {
		c.timer.Stop()
		c.timer = nil
	}
	if !t.IsZero() {
		d := time.Until(t)
		if d <= 0 {
			c.cond.Broadcast()
			return
		}
		c.timer = time.AfterFunc(d, func() { c.cond.Broadcast() })
	}
}

func (c *Conn) SetDeadline(t time.Time) error {
	c.mu.Lock()
	c.Deadlines = append(c.Deadlines, DeadlineCall{"", t})
	c.rdl, c.wdl = t, t
	c.arm(t)
	c.mu.Unlock()
	c.cond.Broadcast()
	return nil
}

func (c *Conn) SetReadDeadline(t time.Time) error {
	c.mu.Lock()
	c.Deadlines = append(c.Deadlines, DeadlineCall{"read", t})
	c.rdl = t
	c.arm(t)
	c.mu.Unlock()
	c.cond.Broadcast()
	return nil
}

func (c *Conn) SetWriteDeadline(t time.Time) error {
	c.mu.Lock()
	c.Deadlines = append(c.Deadlines, DeadlineCall{"write", t})
	c.wdl = t
	c.mu.Unlock()
	return nil
}

// DeadlineCalls returns a copy of the recorded deadline calls.
func (c *Conn) DeadlineCalls() []DeadlineCall {
	c.mu.Lock()
	defer c.mu.Unlock()
	return append([]DeadlineCall{}, c.Deadlines...)
}
