// Package dohmem is an in-memory DNS-over-HTTPS responder installed behind the
// verif hook dns.VerifRoundTripper: no sockets, no hidden goroutines. The zone
// is a function from (name, type) to an answer; every query is logged.
package dohmem

import (
	"context"
	"fmt"
	"io"
	"net/http"
	"strconv"
	"sync"
	"sync/atomic"

	"verif/internal/dnsref"
)

// Answer is what the zone says for one question.
type Answer struct {
	RCode        int         // low 4 bits in the header; bits 4.. go to an OPT record's TTL (extended rcode)
	Records      []dnsref.RR // answer section
	Additional   []dnsref.RR
	HTTPStatus   int    // 0 = 200
	Raw          []byte // if non-nil, the HTTP body is exactly this (hostile bodies)
	NoLength     bool   // omit/garble the content-length header
	LengthHeader string // if set, the content-length header carries exactly this value
	TransportErr error  // fail the round trip
	// ContentEncoding, if set, is sent as the Content-Encoding header of a Raw body (the body bytes are sent as given)
	ContentEncoding string
	// EchoQuestion, if set, replaces the question section of the response (a server that answers ANOTHER question than the one
	// it was asked: a mix-up in a forwarder, an attacker on the path of a plain-HTTP hop)
	EchoQuestion *dnsref.Question
	// AfterOPT: additional records that FOLLOW the OPT record of an extended rcode (RFC 6891 does not give the OPT record a place)
	AfterOPT []dnsref.RR
	// NoQuestion: the response has no question section at all (the 12-octet header-only reply many servers send with FORMERR,
	// SERVFAIL, REFUSED, NOTIMP; legal, RFC 1035 4.1.1 QDCOUNT 0)
	NoQuestion bool
}

// Unparseable is the logged name of a query the independent codec could not parse.
const Unparseable = "<unparseable query>"

type Query struct {
	Name string
	Type uint16
	Seq  int
	Len  int // request body length
}

type Server struct {
	mu      sync.Mutex
	Zone    func(name string, qtype uint16) Answer
	Log     []Query
	OnQuery func(q Query) // optional scheduling/clock hook, called before answering
	// Delay, if set, runs with the request's context before the answer is produced (e.g. a scheduler-aware sleep that ends early
	// when the context does): a lookup in flight can be abandoned, as a real HTTP round trip can
	Delay func(ctx context.Context, q Query)
}

func (s *Server) Queries() []Query {
	s.mu.Lock()
	defer s.mu.Unlock()
	return append([]Query{}, s.Log...)
}

func (s *Server) Reset() { s.mu.Lock(); s.Log = nil; s.mu.Unlock() }

func (s *Server) RoundTrip(req *http.Request) (*http.Response, error) {
	body, _ := io.ReadAll(req.Body)
	req.Body.Close()
	q, err := dnsref.Decode(body)
	if err != nil || len(q.Q) != 1 {
		s.mu.Lock()
		s.Log = append(s.Log, Query{Name: Unparseable, Seq: len(s.Log), Len: len(body)})
		s.mu.Unlock()
		return resp(req, 400, []byte("bad query"), false), nil
	}
	s.mu.Lock()
	qq := Query{Name: q.Q[0].Name, Type: q.Q[0].Type, Seq: len(s.Log), Len: len(body)}
	s.Log = append(s.Log, qq)
	hook := s.OnQuery
	s.mu.Unlock()
	if hook != nil {
		hook(qq)
	}
	if s.Delay != nil {
		s.Delay(req.Context(), qq)
	}
	if err := req.Context().Err(); err != nil {
		return nil, err
	}
	a := s.Zone(q.Q[0].Name, q.Q[0].Type)
	if a.TransportErr != nil {
		return nil, a.TransportErr
	}
	if a.HTTPStatus != 0 && a.HTTPStatus != 200 {
		body := []byte(fmt.Sprint("status ", a.HTTPStatus))
		if a.Raw != nil {
			body = a.Raw // an error page of the server's choosing
		}
		return resp(req, a.HTTPStatus, body, a.NoLength), nil
	}
	if a.Raw != nil {
		rp := resp(req, 200, a.Raw, a.NoLength)
		if a.LengthHeader != "" {
			rp.Header.Set("content-length", a.LengthHeader)
			rp.ContentLength = -1
		}
		if a.ContentEncoding != "" {
			rp.Header.Set("content-encoding", a.ContentEncoding)
		}
		return rp, nil
	}
	m := &dnsref.Msg{ID: q.ID, Flags: 0x8180 | uint16(a.RCode&0xf), Q: q.Q}
	if a.EchoQuestion != nil {
		m.Q = []dnsref.Question{*a.EchoQuestion}
	}
	if a.NoQuestion {
		m.Q = nil
	}
	m.Sec[0] = a.Records
	m.Sec[2] = a.Additional
	if a.RCode > 15 {
		m.Sec[2] = append(m.Sec[2], dnsref.RR{Name: "", Type: dnsref.TypeOPT, Class: 1232, TTL: uint32(a.RCode>>4) << 24, Fields: dnsref.OPT()})
		m.Sec[2] = append(m.Sec[2], a.AfterOPT...)
	}
	return resp(req, 200, m.Encode(true), a.NoLength), nil
}

func resp(req *http.Request, status int, body []byte, noLength bool) *http.Response {
	h := http.Header{}
	h.Set("content-type", "application/dns-message")
	cl := int64(len(body))
	if !noLength {
		h.Set("content-length", strconv.Itoa(len(body)))
	} else {
		cl = -1
	}
	return &http.Response{StatusCode: status, Status: fmt.Sprintf("%d", status), Proto: "HTTP/1.1", ProtoMajor: 1, ProtoMinor: 1,
		Header: h, Body: newDribble(body), ContentLength: cl, Request: req}
}

// Mux routes requests to per-host servers, so that independent cases can run in
// parallel goroutines behind the single process-wide transport hook.
type Mux struct {
	mu      sync.RWMutex
	servers map[string]*Server
}

func NewMux() *Mux { return &Mux{servers: map[string]*Server{}} }

// Server returns (creating if needed) the server for host.
func (m *Mux) Server(host string) *Server {
	m.mu.Lock()
	defer m.mu.Unlock()
	s := m.servers[host]
	if s == nil {
		s = &Server{}
		m.servers[host] = s
	}
	return s
}

func (m *Mux) RoundTrip(req *http.Request) (*http.Response, error) {
	m.mu.RLock()
	s := m.servers[req.URL.Host]
	m.mu.RUnlock()
	if s == nil {
		return nil, fmt.Errorf("dohmem: no server for host %q", req.URL.Host)
	}
	return s.RoundTrip(req)
}

// dribble is the response body as a socket would deliver it: at most 97 bytes per Read, and the last bytes together with
// io.EOF (both are legal io.Reader behaviour; a caller that issues a single Read, or drops data returned with EOF, sees less).
type dribble struct {
	b      []byte
	closed bool
}

// OpenBodies counts response bodies handed out and not closed yet (every one must be closed by whoever consumed the response,
// whether it read the body or refused the response before reading it).
var OpenBodies atomic.Int64

func newDribble(b []byte) *dribble {
	OpenBodies.Add(1)
	return &dribble{b: b}
}

func (d *dribble) Close() error {
	if !d.closed {
		d.closed = true
		OpenBodies.Add(-1)
	}
	return nil
}

func (d *dribble) Read(p []byte) (int, error) {
	if len(d.b) == 0 {
		return 0, io.EOF
	}
	n := copy(p, d.b[:min(len(d.b), 97)])
	d.b = d.b[n:]
	if len(d.b) == 0 {
		return n, io.EOF
	}
	return n, nil
}
