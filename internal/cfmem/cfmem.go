// Package cfmem is an in-memory fake of the three Cloudflare API endpoints the
// publisher uses (zones by name, paged dns_records?type=HTTPS, PATCH
// dns_records/<id>), as an http.RoundTripper, logging every request and able to
// fail the k-th request of a call in several ways.
package cfmem

import (
	"bytes"
	"compress/gzip"
	"encoding/json"
	"fmt"
	"io"
	"net/http"
	"sort"
	"strconv"
	"strings"
)

type Record struct {
	ID       string
	Name     string
	Type     string // "" = HTTPS
	Priority int
	Target   string
	Value    string
	// Other holds the members of the record outside "data" as the API stores them (ttl, proxied, comment, ...): a PATCH that
	// carries any of them overwrites it, like the real API does. A record starts with a TTL set by hand (300).
	Other map[string]string
}

type Zone struct {
	ID      string
	Name    string
	Records []*Record
	// Status: "" = "active"; a zone that was added but whose name servers have not been switched yet is "pending" (its records
	// can be listed and edited like any other's). The zone listing honours the documented filters name, status and
	// account.id: a request that filters on a status gets the zones that have it.
	Status string
}

type Request struct {
	Method string
	Path   string
	Query  string
	Body   string
}

// API is the fake. Not safe for concurrent use (one per publisher, sequential calls).
type API struct {
	Zones []*Zone
	Log   []Request
	// FailAt: index (within the log since the last ResetCall) of the request to fail; -1 = none.
	FailAt   int
	FailKind string // "http400" | "success-false" | "success-false-no-errors" | "bad-json"
	// MaxPerPage > 0: the server caps the page size (it answers with fewer items per page than asked and says so in result_info.per_page)
	MaxPerPage int
	// OmitEmptyValue: a record without parameters is listed without the "value" member (omitempty on the server side)
	OmitEmptyValue bool
	// Hook, if set, runs at the start of every request with its index within the current call (e.g. to cancel the caller's context)
	Hook     func(idx int)
	callBase int
}

func New(zones []*Zone) *API { return &API{Zones: zones, FailAt: -1} }

// ResetCall marks the start of a PublishECH call for FailAt counting.
func (a *API) ResetCall() { a.callBase = len(a.Log) }

// CallLog returns the requests of the current call.
func (a *API) CallLog() []Request { return a.Log[a.callBase:] }

func jsonResp(req *http.Request, status int, body string) *http.Response {
	return &http.Response{StatusCode: status, Status: strconv.Itoa(status), Proto: "HTTP/1.1", ProtoMajor: 1, ProtoMinor: 1,
		Header: http.Header{"Content-Type": {"application/json"}}, Body: io.NopCloser(strings.NewReader(body)), ContentLength: int64(len(body)), Request: req}
}

// RoundTrip answers like the API behind a content-negotiating front end: a request that ASKS for gzip (an Accept-Encoding
// header the application set itself - the header a real http.Transport adds on its own, and undoes on its own, is added below
// this interface and never seen here) gets its answer gzip-encoded.
func (a *API) RoundTrip(req *http.Request) (*http.Response, error) {
	resp, err := a.roundTrip(req)
	if err != nil || resp == nil || !strings.Contains(req.Header.Get("Accept-Encoding"), "gzip") {
		return resp, err
	}
	plain, _ := io.ReadAll(resp.Body)
	var zb bytes.Buffer
	zw := gzip.NewWriter(&zb)
	zw.Write(plain)
	zw.Close()
	resp.Body = io.NopCloser(&zb)
	resp.ContentLength = int64(zb.Len())
	resp.Header.Set("Content-Encoding", "gzip")
	return resp, nil
}

func (a *API) roundTrip(req *http.Request) (*http.Response, error) {
	var body []byte
	if req.Body != nil {
		body, _ = io.ReadAll(req.Body)
		req.Body.Close()
	}
	idx := len(a.Log) - a.callBase
	a.Log = append(a.Log, Request{req.Method, req.URL.Path, req.URL.RawQuery, string(body)})
	if a.Hook != nil {
		a.Hook(idx)
	}
	if err := req.Context().Err(); err != nil {
		return nil, err
	}
	if idx == a.FailAt {
		switch a.FailKind {
		case "http400":
			return jsonResp(req, 400, `{"success":false,"errors":[{"code":9000,"message":"bad request"}]}`), nil
		case "success-false":
			return jsonResp(req, 200, `{"success":false,"errors":[{"code":10000,"message":"Authentication error"}],"result":null}`), nil
		case "success-false-no-errors":
			return jsonResp(req, 200, `{"success":false,"errors":[],"messages":[],"result":null}`), nil
		case "bad-json":
			return jsonResp(req, 200, `{"success":tru`), nil
		}
	}
	if !strings.HasPrefix(req.Header.Get("Authorization"), "Bearer ") {
		return jsonResp(req, 403, `{"success":false,"errors":[{"code":9109,"message":"no token"}]}`), nil
	}
	p := strings.TrimPrefix(req.URL.Path, "/client/v4/zones")
	q := req.URL.Query()
	switch {
	case req.Method == "GET" && p == "":
		type z struct {
			ID   string `json:"id"`
			Name string `json:"name"`
		}
		res := []z{}
		for _, zz := range a.Zones {
			// (zone names are matched without regard to letter case, as DNS names are; the canonical spelling is returned)
			st := zz.Status
			if st == "" {
				st = "active"
			}
			if (q.Get("name") == "" || strings.EqualFold(q.Get("name"), zz.Name)) && (q.Get("status") == "" || q.Get("status") == st) {
				res = append(res, z{zz.ID, zz.Name})
			}
		}
		return a.list(req, res, len(res), 1, 20), nil
	case req.Method == "GET" && strings.HasSuffix(p, "/dns_records"):
		zid := strings.Split(strings.Trim(p, "/"), "/")[0]
		page, _ := strconv.Atoi(q.Get("page"))
		per, _ := strconv.Atoi(q.Get("per_page"))
		if page < 1 {
			page = 1
		}
		if per < 1 {
			per = 100
		}
		if a.MaxPerPage > 0 && per > a.MaxPerPage {
			per = a.MaxPerPage
		}
		type rec struct {
			ID   string `json:"id"`
			Name string `json:"name"`
			Type string `json:"type"`
			TTL  int    `json:"ttl"`
			Data any    `json:"data"`
		}
		all := []rec{}
		known := false
		for _, zz := range a.Zones {
			known = known || zz.ID == zid
		}
		if !known || !strings.HasPrefix(p, "/"+zid+"/") {
			// like the real API: no listing for a zone id that does not exist (or an empty one)
			return jsonResp(req, 404, `{"success":false,"errors":[{"code":7003,"message":"Could not route to /zones/`+zid+`/dns_records, perhaps your object identifier is invalid?"}],"messages":[],"result":null}`), nil
		}
		for _, zz := range a.Zones {
			if zz.ID != zid {
				continue
			}
			for _, r := range zz.Records {
				rt := r.Type
				if rt == "" {
					rt = "HTTPS"
				}
				// the listing honours the documented filters it is SENT, not only the ones the library is known to send: name (also
				// spelled name.exact) restricts the listing to records of that name, as the real API does
				nameFilter := q.Get("name")
				if nameFilter == "" {
					nameFilter = q.Get("name.exact")
				}
				if nameFilter != "" && !strings.EqualFold(nameFilter, r.Name) {
					continue
				}
				if q.Get("type") == "" || q.Get("type") == rt {
					data := map[string]any{"priority": r.Priority, "target": r.Target, "value": r.Value}
					if a.OmitEmptyValue && r.Value == "" {
						delete(data, "value")
					}
					all = append(all, rec{r.ID, r.Name, rt, 1, data})
				}
			}
		}
		lo, hi := min((page-1)*per, len(all)), min(page*per, len(all))
		return a.list(req, all[lo:hi], len(all), page, per), nil
	case req.Method == "PATCH" && strings.Contains(p, "/dns_records/"):
		parts := strings.Split(strings.Trim(p, "/"), "/")
		zid, rid := parts[0], parts[2]
		var in struct {
			Data struct {
				Priority int    `json:"priority"`
				Target   string `json:"target"`
				Value    string `json:"value"`
			} `json:"data"`
		}
		if err := json.Unmarshal(body, &in); err != nil {
			return jsonResp(req, 400, `{"success":false,"errors":[{"code":9207,"message":"bad body"}]}`), nil
		}
		var members map[string]json.RawMessage
		json.Unmarshal(body, &members)
		for _, zz := range a.Zones {
			if zz.ID != zid {
				continue
			}
			for _, r := range zz.Records {
				if r.ID == rid {
					r.Priority, r.Target, r.Value = in.Data.Priority, in.Data.Target, in.Data.Value
					for k, v := range members {
						if k != "data" {
							if r.Other == nil {
								r.Other = map[string]string{}
							}
							r.Other[k] = string(v) // (a PATCH updates exactly the members it names)
						}
					}
					return jsonResp(req, 200, `{"success":true,"errors":[],"messages":[],"result":{"id":"`+rid+`"}}`), nil
				}
			}
		}
		return jsonResp(req, 404, `{"success":false,"errors":[{"code":81044,"message":"Record does not exist."}]}`), nil
	}
	return jsonResp(req, 404, `{"success":false,"errors":[{"code":7003,"message":"no route"}]}`), nil
}

// list renders a Cloudflare v4 list response: count is the number of items on this page,
// total_count the number of items over all pages.
func (a *API) list(req *http.Request, items any, total, page, per int) *http.Response {
	b, _ := json.Marshal(items)
	n := bytes.Count(b, []byte(`"id":`))
	pages := (total + per - 1) / per
	body := fmt.Sprintf(`{"success":true,"errors":[],"messages":[],"result":%s,"result_info":{"page":%d,"per_page":%d,"count":%d,"total_count":%d,"total_pages":%d}}`, b, page, per, n, total, pages)
	return jsonResp(req, 200, body)
}

// Snapshot renders the store for comparison.
func (a *API) Snapshot() map[string]string {
	m := map[string]string{}
	for _, z := range a.Zones {
		for _, r := range z.Records {
			key := z.Name + "|" + r.Name
			if r.Type != "" && r.Type != "HTTPS" {
				key += "#" + r.Type + "#" + r.ID
			}
			m[key] = fmt.Sprintf("%d|%s|%s", r.Priority, r.Target, r.Value)
		}
	}
	return m
}

// OtherMembers renders, per record, the members outside "data" that PATCH requests have set so far ("" = none).
func (a *API) OtherMembers() map[string]string {
	m := map[string]string{}
	for _, z := range a.Zones {
		for _, r := range z.Records {
			var ks []string
			for k := range r.Other {
				ks = append(ks, k)
			}
			sort.Strings(ks)
			var parts []string
			for _, k := range ks {
				parts = append(parts, k+"="+r.Other[k])
			}
			if len(parts) > 0 {
				m[z.Name+"|"+r.Name+"#"+r.ID] = strings.Join(parts, " ")
			}
		}
	}
	return m
}
