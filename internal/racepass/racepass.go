// Package racepass runs a check's supplementary free-running pass: `go test -race` of a small test package in which the
// harness bodies run on real goroutines. Such a pass SAMPLES schedules; it is reported separately in the evidence and never
// counted as exploration. A report is a real violation (the detector has no false positives); silence proves nothing.
package racepass

import (
	"os"
	"os/exec"
	"strings"

	"verif/internal/ev"
)

// Run executes TestRacePass of pkg (a path below the /verif module root) and files what it reports. subject says what runs
// concurrently, kind describes the sample for the evidence.
func Run(r *ev.Run, pkg, subject, kind string) {
	if os.Getenv("VERIF_RACE_PASS") == "0" {
		return
	}
	cmd := exec.Command("go", "test", "-race", "-tags", "verif", "-count=1", "-run", "TestRacePass", pkg)
	cmd.Dir = ev.Root()
	out, err := cmd.CombinedOutput()
	o := string(out)
	cut := func(marker string, n int) string {
		i := strings.Index(o, marker)
		return o[i:min(len(o), i+n)]
	}
	res := "no report (sampled: proves nothing)"
	switch {
	case strings.Contains(o, "WARNING: DATA RACE"):
		res = "DATA RACE reported"
		r.Violation("race-detector-report", "the race detector reports a data race in "+subject+":\n"+cut("WARNING: DATA RACE", 1500), nil)
	case strings.Contains(o, "fatal error: concurrent map"):
		res = "concurrent map access"
		r.Violation("race-detector-report", subject+" crash the process:\n"+cut("fatal error: concurrent map", 1500), nil)
	case strings.Contains(o, "REALSOCK:"):
		res = "real-socket behaviour differs"
		r.Violation("real-socket-behaviour", "over real loopback sockets ("+subject+"):\n"+cut("REALSOCK:", 800), nil)
	case strings.Contains(o, "IMPURE:"):
		res = "result differs under concurrency"
		r.Violation("concurrent-result-differs", "a call made while others run gives another result than the same call made alone ("+subject+"):\n"+cut("IMPURE:", 800), nil)
	case err != nil:
		res = "could not run: " + err.Error()
	}
	r.Set("supplementary_race_pass", map[string]any{"kind": kind + "; go test -race; sampled, not counted as exploration", "result": res})
}
