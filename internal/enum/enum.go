// Package enum is engine E1: deterministic odometers over finite domains and
// a deterministic parallel-for over case indices (DESIGN.md §2.3).
package enum

import (
	"runtime"
	"sync"
	"sync/atomic"
)

// Product is a mixed-radix odometer; Decode(i) gives the digit vector of case i.
type Product []int

func (p Product) Size() int {
	n := 1
	for _, d := range p {
		n *= d
	}
	return n
}

func (p Product) Decode(i int) []int {
	out := make([]int, len(p))
	for k := len(p) - 1; k >= 0; k-- {
		out[k] = i % p[k]
		i /= p[k]
	}
	return out
}

// ParallelFor runs f(i) for every i in [0,n) on all cores. f must be
// self-contained; order of execution is not significant to any oracle.
func ParallelFor(n int, f func(i int)) {
	w := runtime.GOMAXPROCS(0)
	if w > n {
		w = n
	}
	if w < 1 {
		w = 1
	}
	var next atomic.Int64
	var wg sync.WaitGroup
	for k := 0; k < w; k++ {
		wg.Add(1)
		go func() {
			defer wg.Done()
			for {
				i := int(next.Add(1) - 1)
				if i >= n {
					return
				}
				f(i)
			}
		}()
	}
	wg.Wait()
}

// Subsets calls f with every subset (as index list, ascending) of {0..n-1}.
func Subsets(n int, f func(idx []int)) {
	for m := 0; m < 1<<n; m++ {
		var idx []int
		for i := 0; i < n; i++ {
			if m&(1<<i) != 0 {
				idx = append(idx, i)
			}
		}
		f(idx)
	}
}

// Sequences calls f with every sequence of length 0..maxLen over alphabet size k.
func Sequences(k, maxLen int, f func(seq []int)) {
	var rec func(seq []int)
	rec = func(seq []int) {
		f(seq)
		if len(seq) == maxLen {
			return
		}
		for a := 0; a < k; a++ {
			rec(append(append([]int{}, seq...), a))
		}
	}
	rec(nil)
}

// Permutations calls f with every permutation of 0..n-1.
func Permutations(n int, f func(p []int)) {
	p := make([]int, n)
	for i := range p {
		p[i] = i
	}
	var rec func(k int)
	rec = func(k int) {
		if k == n {
			f(append([]int{}, p...))
			return
		}
		for i := k; i < n; i++ {
			p[k], p[i] = p[i], p[k]
			rec(k + 1)
			p[k], p[i] = p[i], p[k]
		}
	}
	rec(0)
}
