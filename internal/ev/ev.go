// Package ev is the reporting side of every check: evidence files, violation
// lines, replay artefacts and the known-findings protocol (DESIGN.md §5).
package ev

import (
	"encoding/json"
	"fmt"
	"os"
	"os/exec"
	"path/filepath"
	"sort"
	"strconv"
	"sync"
	"time"
)

// Root is the /verif directory (overridable for snapshots started by `vp run`).
// OutRoot is where evidence and replay files go: VERIF_OUT if set (scratch runs against a copy of the library, e.g. the
// seeded-change matrix, must not overwrite the evidence of the real tree), else Root().
func OutRoot() string {
	if d := os.Getenv("VERIF_OUT"); d != "" {
		os.MkdirAll(filepath.Join(d, "evidence"), 0o755)
		os.MkdirAll(filepath.Join(d, "replays"), 0o755)
		return d
	}
	return Root()
}

func Root() string {
	if r := os.Getenv("VERIF_ROOT"); r != "" {
		return r
	}
	return "/verif"
}

type finding struct {
	Property string `json:"property"`
	Key      string `json:"key"`
	Status   string `json:"status"` // open | fixed
	Commit   string `json:"commit,omitempty"`
	What     string `json:"what"`
}

// Run collects what one invocation of one check covered.
type Run struct {
	ID, Tier, Level string
	Seed            int64
	start           time.Time

	mu          sync.Mutex
	shards      [64]evalShard
	outcomes    map[string]int64
	samples     []any
	extra       map[string]any
	assumptions []string
	rule        string
	exhaustive  bool
	caps        []string
	violations  []violation
	known       map[string]int
	findings    []finding
	maxViol     int
}

type evalShard struct {
	mu       sync.Mutex
	evals    int64
	distinct map[uint64]struct{}
	outcomes map[string]int64
	_        [40]byte
}

func fnv(s string) uint64 {
	h := uint64(14695981039346656037)
	for i := 0; i < len(s); i++ {
		h = (h ^ uint64(s[i])) * 1099511628211
	}
	return h
}

type violation struct {
	Key    string `json:"key"`
	What   string `json:"what"`
	Replay any    `json:"replay"`
}

// Begin starts a run. tier is "quick", "thorough" or "replay".
func Begin(id, tier, level string) *Run {
	seed, _ := strconv.ParseInt(os.Getenv("VERIF_SEED"), 10, 64)
	r := &Run{ID: id, Tier: tier, Level: level, Seed: seed, start: time.Now(),
		outcomes: map[string]int64{}, extra: map[string]any{},
		known: map[string]int{}, exhaustive: true, maxViol: 20}
	b, err := os.ReadFile(filepath.Join(Root(), "known_findings.json"))
	if err == nil {
		var all []finding
		if err := json.Unmarshal(b, &all); err != nil {
			fmt.Fprintf(os.Stderr, "tool error: known_findings.json: %v\n", err)
			os.Exit(2)
		}
		for _, f := range all {
			if f.Property == id {
				r.findings = append(r.findings, f)
			}
		}
	}
	return r
}

func (r *Run) Thorough() bool { return r.Tier == "thorough" }

// Rule states how cases are enumerated and what makes one distinct/non-trivial.
func (r *Run) Rule(s string)       { r.rule = s }
func (r *Run) Assume(s ...string)  { r.assumptions = append(r.assumptions, s...) }
func (r *Run) Set(k string, v any) { r.mu.Lock(); r.extra[k] = v; r.mu.Unlock() }
func (r *Run) Add(k string, n int64) {
	r.mu.Lock()
	v, _ := r.extra[k].(int64)
	r.extra[k] = v + n
	r.mu.Unlock()
}

// Cap records that a bound/time cap was hit: the run is not exhaustive.
func (r *Run) Cap(s string) {
	r.mu.Lock()
	r.exhaustive = false
	r.caps = append(r.caps, s)
	r.mu.Unlock()
}

// Eval counts one evaluated case. key=="" means trivial (not counted as distinct
// non-trivial); outcome is the observable class (histogram).
func (r *Run) Eval(key, outcome string) {
	h := fnv(key)
	sh := &r.shards[(h>>7)%64]
	sh.mu.Lock()
	sh.evals++
	if sh.distinct == nil {
		sh.distinct = map[uint64]struct{}{}
		sh.outcomes = map[string]int64{}
	}
	if key != "" {
		sh.distinct[h] = struct{}{} // 64-bit FNV-1a of the canonical key
	}
	if outcome != "" {
		sh.outcomes[outcome]++
	}
	sh.mu.Unlock()
}

// Outcome adds n to the histogram entry k without counting an evaluation
// (for results aggregated from worker processes).
func (r *Run) Outcome(k string, n int64) {
	r.mu.Lock()
	r.outcomes[k] += n
	r.mu.Unlock()
}

// MirrorCounters copies the measured counter src into the coverage keys dst (e.g. choice points
// explored are the states/transitions of a stateless exploration).
func (r *Run) MirrorCounters(src string, dst ...string) {
	r.mu.Lock()
	defer r.mu.Unlock()
	for _, d := range dst {
		r.extra[d] = r.extra[src]
	}
}

// FoldOutcomes rewrites the outcome histogram: f maps each label to a new label and to
// counters to add to the coverage keys (used to carry per-case counters through worker output).
func (r *Run) FoldOutcomes(f func(label string, n int64) (string, map[string]int64)) {
	r.mu.Lock()
	defer r.mu.Unlock()
	nw := map[string]int64{}
	for k, n := range r.outcomes {
		l, add := f(k, n)
		nw[l] += n
		for ck, cv := range add {
			v, _ := r.extra[ck].(int64)
			r.extra[ck] = v + cv
		}
	}
	r.outcomes = nw
}

func (r *Run) totals() (evals int64, distinct int) {
	for i := range r.shards {
		sh := &r.shards[i]
		sh.mu.Lock()
		evals += sh.evals
		distinct += len(sh.distinct)
		for k, v := range sh.outcomes {
			r.outcomes[k] += v
		}
		sh.outcomes = map[string]int64{}
		sh.mu.Unlock()
	}
	return
}

// Sample keeps up to 6 written-out cases (first ones and the most recent).
func (r *Run) Sample(v any) {
	r.mu.Lock()
	if len(r.samples) < 5 {
		r.samples = append(r.samples, v)
	} else if len(r.samples) == 5 {
		r.samples = append(r.samples, v)
	} else {
		r.samples[5] = v
	}
	r.mu.Unlock()
}

// Violation reports a property violation identified by key (the specific input,
// call site or history). Known open findings with that key are tolerated.
// It returns false when the key is a listed open finding.
func (r *Run) Violation(key, what string, replay any) bool {
	r.mu.Lock()
	defer r.mu.Unlock()
	for _, f := range r.findings {
		if f.Status == "open" && f.Key == key {
			r.known[key]++
			return false
		}
	}
	for _, v := range r.violations {
		if v.Key == key {
			return true
		}
	}
	if len(r.violations) < r.maxViol {
		r.violations = append(r.violations, violation{key, what, replay})
	}
	return true
}

func (r *Run) Violations() int { r.mu.Lock(); defer r.mu.Unlock(); return len(r.violations) }

// Finish writes the evidence file and exits with the verdict.
func (r *Run) Finish() {
	wall := time.Since(r.start).Seconds()
	evals, ndistinct := r.totals()
	cov := map[string]any{}
	for k, v := range r.extra {
		cov[k] = v
	}
	cov["evaluations"] = evals
	cov["distinct_nontrivial"] = ndistinct
	cov["rule"] = r.rule
	cov["outcomes"] = r.outcomes
	cov["distinct_outcomes"] = len(r.outcomes)
	cov["exhaustive"] = r.exhaustive
	if len(r.caps) > 0 {
		cov["caps_hit"] = r.caps
	}
	if len(r.samples) == 0 {
		r.samples = []any{"(no sample recorded)"}
	}
	cov["samples"] = r.samples
	var knownKeys []string
	for k := range r.known {
		knownKeys = append(knownKeys, k)
	}
	sort.Strings(knownKeys)
	if len(knownKeys) > 0 {
		cov["known_findings_observed"] = knownKeys
	}
	doc := map[string]any{
		"property_id": r.ID, "tier": r.Tier, "seed": r.Seed, "level": r.Level,
		"coverage": cov, "assumptions": r.assumptions, "wall_s": wall, "violations": len(r.violations),
	}
	if sub := os.Getenv("VERIF_SUBRUN"); sub != "" {
		// sub-run of another check (e.g. the scheduler-based part executed by the instrumented binary):
		// hand the document, with the violations, to the parent instead of writing evidence
		doc["violation_list"] = r.violations
		b, _ := json.Marshal(doc)
		if err := os.WriteFile(sub, b, 0o644); err != nil {
			fmt.Fprintf(os.Stderr, "tool error: %v\n", err)
			os.Exit(2)
		}
		if len(r.violations) > 0 {
			os.Exit(1)
		}
		os.Exit(0)
	}
	if r.Tier == "quick" || r.Tier == "thorough" {
		b, _ := json.MarshalIndent(doc, "", " ")
		p := filepath.Join(OutRoot(), "evidence", r.ID+".json")
		os.MkdirAll(filepath.Dir(p), 0o755)
		if err := os.WriteFile(p, append(b, '\n'), 0o644); err != nil {
			fmt.Fprintf(os.Stderr, "tool error: %v\n", err)
			os.Exit(2)
		}
	}
	fmt.Printf("%s %s: evaluations=%d distinct_nontrivial=%d outcomes=%d exhaustive=%v wall=%.1fs\n",
		r.ID, r.Tier, evals, ndistinct, len(r.outcomes), r.exhaustive, wall)
	keys := make([]string, 0, len(r.outcomes))
	for k := range r.outcomes {
		keys = append(keys, k)
	}
	sort.Strings(keys)
	for _, k := range keys {
		fmt.Printf("  outcome %-60s %d\n", k, r.outcomes[k])
	}
	for k, v := range r.extra {
		switch v.(type) {
		case int, int64, bool, string, float64:
			fmt.Printf("  %s=%v\n", k, v)
		}
	}
	for _, c := range r.caps {
		fmt.Printf("  cap hit: %s\n", c)
	}
	for _, f := range r.findings {
		if f.Status != "open" {
			continue
		}
		if r.known[f.Key] > 0 {
			fmt.Printf("KNOWN-FINDING: property=%s %s [key=%s, observed %d times]\n", r.ID, f.What, f.Key, r.known[f.Key])
		} else {
			fmt.Printf("KNOWN-FINDING: property=%s %s [key=%s, not reached by this run's space]\n", r.ID, f.What, f.Key)
		}
	}
	if len(r.violations) == 0 {
		os.Exit(0)
	}
	dir := filepath.Join(OutRoot(), "replays")
	os.MkdirAll(dir, 0o755)
	for i, v := range r.violations {
		p := filepath.Join(dir, fmt.Sprintf("%s-%d.json", r.ID, i))
		b, _ := json.MarshalIndent(map[string]any{"property": r.ID, "tier": r.Tier, "key": v.Key, "what": v.What, "replay": v.Replay}, "", " ")
		os.WriteFile(p, append(b, '\n'), 0o644)
		fmt.Printf("VIOLATION property=%s replay=%s\n", r.ID, p)
		fmt.Printf("  key=%s\n  %s\n", v.Key, v.What)
	}
	os.Exit(1)
}

// RunSub executes `bin id tier` as a sub-run (VERIF_SUBRUN) and merges its coverage (under key name) and
// violations into r. bin is normally the instrumented binary named by VERIF_INSTR_BIN.
func (r *Run) RunSub(bin, id, name string) {
	if bin == "" {
		ToolError("sub-run %s: no instrumented binary (VERIF_INSTR_BIN unset; run through scripts/check.sh)", id)
	}
	tmp, err := os.CreateTemp(filepath.Join(Root(), ".work"), "sub-*.json")
	if err != nil {
		ToolError("%v", err)
	}
	tmp.Close()
	defer os.Remove(tmp.Name())
	cmd := exec.Command(bin, id, r.Tier)
	cmd.Env = append(os.Environ(), "VERIF_SUBRUN="+tmp.Name())
	out, err := cmd.CombinedOutput()
	var doc struct {
		Coverage   map[string]any `json:"coverage"`
		Violations []violation    `json:"violation_list"`
	}
	b, rerr := os.ReadFile(tmp.Name())
	if rerr != nil || json.Unmarshal(b, &doc) != nil {
		ToolError("sub-run %s produced no result (%v): %s", id, err, out)
	}
	r.Set(name, doc.Coverage)
	for _, v := range doc.Violations {
		r.Violation(v.Key, v.What, v.Replay)
	}
	if ex, ok := doc.Coverage["exhaustive"].(bool); ok && !ex {
		r.Cap(fmt.Sprintf("sub-run %s hit a cap", id))
	}
	if n, ok := doc.Coverage["evaluations"].(float64); ok {
		for i := 0; i < int(n); i++ {
			r.Eval(fmt.Sprintf("%s#%d", name, i), "")
		}
	}
	if oc, ok := doc.Coverage["outcomes"].(map[string]any); ok {
		for k, v := range oc {
			if f, ok := v.(float64); ok {
				r.Outcome(k, int64(f))
			}
		}
	}
}

// ToolError aborts without a verdict.
func ToolError(format string, a ...any) {
	fmt.Fprintf(os.Stderr, "tool error: "+format+"\n", a...)
	os.Exit(2)
}
