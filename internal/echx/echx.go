// Package echx is the shared harness for the ECH checks: deterministic key
// material, spec-built hellos (tlsref+hpkeref) and a driver that feeds a byte
// stream through the real ech.NewConn over memnet and collects all observables.
package echx

import (
	"context"
	"crypto/ecdh"
	"errors"
	"fmt"
	"io"
	"reflect"
	"slices"
	"sync/atomic"

	"github.com/c2FmZQ/ech"

	"verif/internal/hpkeref"
	"verif/internal/memnet"
	"verif/internal/tlsref"
)

// KeyPair is one ECH key with its config (built by the independent builder).
type KeyPair struct {
	Label string
	Priv  *ecdh.PrivateKey
	Cfg   tlsref.ConfigInfo
}

var AllSuites = []tlsref.Suite{{KDF: 1, AEAD: 1}, {KDF: 1, AEAD: 2}, {KDF: 1, AEAD: 3}}

// NewKey makes a deterministic key pair and config.
func NewKey(label string, id byte, suites []tlsref.Suite, publicName string) KeyPair {
	priv := hpkeref.DetKey(label)
	raw := tlsref.BuildConfig(id, priv.PublicKey().Bytes(), suites, publicName)
	info, rest, err := tlsref.ParseConfig(raw)
	if err != nil || len(rest) != 0 {
		panic("echx: bad config")
	}
	return KeyPair{label, priv, info}
}

// NewKeyOpt is NewKey for a config with a free maximum_name_length and a raw extensions block.
func NewKeyOpt(label string, id byte, suites []tlsref.Suite, publicName string, maxNameLen int, extensions []byte) KeyPair {
	priv := hpkeref.DetKey(label)
	raw := tlsref.BuildConfigOpt(id, priv.PublicKey().Bytes(), suites, publicName, maxNameLen, extensions)
	info, rest, err := tlsref.ParseConfig(raw)
	if err != nil || len(rest) != 0 {
		panic("echx: bad config")
	}
	return KeyPair{label, priv, info}
}

func (k KeyPair) Key() ech.Key {
	return ech.Key{Config: k.Cfg.Raw, PrivateKey: k.Priv.Bytes(), SendAsRetry: true}
}

func Keys(ks ...KeyPair) []ech.Key {
	var out []ech.Key
	for _, k := range ks {
		out = append(out, k.Key())
	}
	return out
}

// Result is everything observable from feeding a client stream to NewConn.
type Result struct {
	Conn       *ech.Conn
	Err        error  // error from NewConn
	ReadErr    error  // first error from draining Conn.Read (io.EOF when the stream just ended)
	Forwarded  []byte // every byte returned by Conn.Read
	ClientOut  []byte // every byte written to the client-side transport
	Closed     int    // Close calls on the transport
	Accepted   bool
	ServerName string
	ALPN       []string
	Panic      any
	Transport  *memnet.Conn
}

// Feed runs NewConn on a transport pre-loaded with stream (then EOF) and drains it.
func Feed(stream []byte, keys []ech.Key) (res Result) { return FeedOpt(stream, keys, "") }

// FeedOpt is Feed with a faulty client transport: writeFault "error" makes every transport Write fail, "short" makes it
// accept only the first byte (the client is gone / not reading).
func FeedOpt(stream []byte, keys []ech.Key, writeFault string) (res Result) {
	t := memnet.New()
	switch writeFault {
	case "error":
		t.WriteHook = func(p []byte) (int, error) { return 0, errors.New("injected: client write side is gone") }
	case "short":
		t.WriteHook = func(p []byte) (int, error) { return min(1, len(p)), errors.New("injected: short write") }
	}
	t.Feed(stream)
	t.End(io.EOF)
	res.Transport = t
	defer func() {
		if p := recover(); p != nil {
			res.Panic = p
		}
		res.ClientOut = t.OutBytes()
		res.Closed = t.CloseCount
	}()
	var opts []ech.Option
	if keys != nil {
		opts = append(opts, ech.WithKeys(keys))
	}
	c, err := ech.NewConn(context.Background(), t, opts...)
	res.Conn, res.Err = c, err
	if err != nil {
		// Whatever NewConn returned alongside the error must not be readable as a hello;
		// record what a careless caller could still read.
		if c != nil {
			// a caller logs what it can about the connection it refuses: the accessors of a Conn that came back together with
			// an error must work (a panic here is caught above and reported like any other)
			_, _, _, _ = c.ServerName(), c.ALPNProtos(), c.ECHAccepted(), c.ECHPresented()
			res.Forwarded, res.ReadErr = drain(c)
		}
		// ... and of the nil Conn that comes back when not even a record could be read
		var none *ech.Conn
		if c == nil {
			_, _, _, _ = none.ServerName(), none.ALPNProtos(), none.ECHAccepted(), none.ECHPresented()
		}
		return
	}
	res.Accepted = c.ECHAccepted()
	res.ServerName = c.ServerName()
	res.ALPN = c.ALPNProtos()
	res.Forwarded, res.ReadErr = drain(c)
	return
}

func drain(c *ech.Conn) ([]byte, error) {
	var out []byte
	buf := make([]byte, 70000)
	for i := 0; i < 100000; i++ {
		n, err := c.Read(buf)
		out = append(out, buf[:n]...)
		if err != nil {
			return out, err
		}
		if n == 0 {
			return out, errors.New("echx: Read returned 0, nil")
		}
	}
	return out, errors.New("echx: drain did not terminate")
}

// ErrClass names the error class of err among the package's exported classes.
func ErrClass(err error) string {
	switch {
	case err == nil:
		return "nil"
	case errors.Is(err, ech.ErrIllegalParameter):
		return "illegal_parameter"
	case errors.Is(err, ech.ErrDecodeError):
		return "decode_error"
	case errors.Is(err, ech.ErrDecryptError):
		return "decrypt_error"
	case errors.Is(err, ech.ErrMissingExtension):
		return "missing_extension"
	case errors.Is(err, ech.ErrUnexpectedMessage):
		return "unexpected_message"
	case errors.Is(err, io.EOF):
		return "eof"
	}
	return "other(" + err.Error() + ")"
}

// AlertFor is the fatal alert record mandated for an error class.
func AlertFor(class string) []byte {
	d := map[string]byte{"illegal_parameter": 47, "decode_error": 50, "decrypt_error": 51, "missing_extension": 109, "unexpected_message": 10}[class]
	if d == 0 {
		return nil
	}
	return []byte{0x15, 3, 3, 0, 2, 2, d}
}

// ---- spec-built hellos ----

// Spec describes one ECH client hello pair.
type Spec struct {
	Key       KeyPair
	Suite     tlsref.Suite
	Outer     *tlsref.Hello // with a placeholder extension of type ExtECH at EchIdx
	EchIdx    int
	EncInner  []tlsref.Ext  // extension list of EncodedClientHelloInner (may contain ech_outer_extensions)
	InnerBase *tlsref.Hello // version/random/ciphers/compression of the inner hello (exts ignored)
	Padding   []byte
	EphLabel  string
	Info      []byte // nil = standard "tls ech\0"||config
	// InnerSID: session id left inside EncodedClientHelloInner (a conforming client leaves it empty;
	// the server must substitute the outer hello's id whatever it finds there)
	InnerSID []byte
	// RetrySeq > 0: Build seals as the hello that follows a HelloRetryRequest (same HPKE context advanced to this
	// sequence number, empty enc) instead of as a first hello
	RetrySeq uint64
}

// Built is a sealed hello.
type Built struct {
	Outer        *tlsref.Hello
	EncodedInner []byte
	Expected     *tlsref.Hello // reconstruction per the draft, nil if references do not resolve
	Sealer       *tlsref.Sealer
}

// Expand substitutes ech_outer_extensions in list by the referenced outer
// extensions (draft §5.1, Appendix B semantics); ok=false if it is illegal.
func Expand(list []tlsref.Ext, outer []tlsref.Ext) ([]tlsref.Ext, bool) {
	var out []tlsref.Ext
	seenMarker := false
	for _, e := range list {
		if e.Type != tlsref.ExtOuterExtensions {
			out = append(out, e)
			continue
		}
		if seenMarker {
			return nil, false
		}
		seenMarker = true
		d := e.Data
		if len(d) < 1 || int(d[0]) != len(d)-1 || len(d)%2 != 1 || len(d) == 1 {
			return nil, false
		}
		p := 0
		referenced := map[uint16]bool{}
		for i := 1; i+1 < len(d); i += 2 {
			t := uint16(d[i])<<8 | uint16(d[i+1])
			if t == tlsref.ExtECH || t == tlsref.ExtOuterExtensions || referenced[t] {
				return nil, false // (a type referenced twice is illegal whatever the outer hello holds)
			}
			referenced[t] = true
			for p < len(outer) && outer[p].Type != t {
				p++
			}
			if p == len(outer) {
				return nil, false
			}
			out = append(out, outer[p])
			p++
		}
	}
	return out, true
}

// Build seals the spec (first hello: enc present, sequence number 0).
func (s Spec) Build() Built {
	sealer, err := tlsref.NewSealer(s.Key.Cfg, s.Suite, hpkeref.DetKey("eph:"+s.EphLabel), s.Info)
	if err != nil {
		panic(err)
	}
	if s.RetrySeq > 0 {
		sealer.Ctx.Seq = s.RetrySeq
		return s.BuildWith(sealer, false)
	}
	return s.BuildWith(sealer, true)
}

// BuildWith seals with an existing sealer (second hello after HRR: withEnc=false).
func (s Spec) BuildWith(sealer *tlsref.Sealer, withEnc bool) Built {
	inner := s.InnerBase.Clone()
	inner.Exts = s.EncInner
	enc := tlsref.EncodeInner(inner, s.Padding)
	if len(s.InnerSID) > 0 {
		c := inner.Clone()
		c.SessionID = s.InnerSID
		enc = append(c.Body(), s.Padding...)
	}
	outer := s.Outer.Clone()
	sealer.Seal(outer, s.EchIdx, enc, withEnc)
	b := Built{Outer: outer, EncodedInner: enc, Sealer: sealer}
	if full, ok := Expand(s.EncInner, outer.Exts); ok {
		exp := inner.Clone()
		exp.Exts = full
		exp.SessionID = append([]byte{}, outer.SessionID...)
		b.Expected = exp
	}
	return b
}

// StdInnerBase is the fixed part of inner hellos.
func StdInnerBase() *tlsref.Hello {
	return &tlsref.Hello{Version: 0x0303, Random: tlsref.DetBytes("inner-random", 32), CipherSuites: []byte{0x13, 0x01, 0x13, 0x02, 0x13, 0x03}, Compression: []byte{0}}
}

// StdOuter returns an outer hello for public name pub with the ECH placeholder at position echPos
// among the standard extensions; sid is the legacy session id.
func StdOuter(pub string, sid []byte, echPos int) (*tlsref.Hello, int) {
	exts := []tlsref.Ext{tlsref.SNI(pub), tlsref.SupportedVersions(0x0304), tlsref.SupportedGroups(), tlsref.SigAlgs(), tlsref.KeyShare(32), tlsref.PSKModes()}
	if echPos < 0 || echPos > len(exts) {
		echPos = len(exts)
	}
	ph := tlsref.Ext{Type: tlsref.ExtECH}
	exts = append(exts[:echPos], append([]tlsref.Ext{ph}, exts[echPos:]...)...)
	return &tlsref.Hello{Version: 0x0303, Random: tlsref.DetBytes("outer-random", 32), SessionID: sid,
		CipherSuites: []byte{0x13, 0x01, 0x13, 0x02, 0x13, 0x03}, Compression: []byte{0}, Exts: exts}, echPos
}

// StdEncInner returns a standard inner extension list; compress selects whether
// the shared extensions are referenced through ech_outer_extensions.
func StdEncInner(name string, alpn []string, compress bool) []tlsref.Ext {
	l := []tlsref.Ext{tlsref.SNI(name), tlsref.ECHInner()}
	if len(alpn) > 0 {
		l = append(l, tlsref.ALPN(alpn...))
	}
	if compress {
		l = append(l, tlsref.OuterExtensions(tlsref.ExtSupportedVersions, tlsref.ExtSupportedGroups, tlsref.ExtSigAlgs, tlsref.ExtKeyShare, tlsref.ExtPSKModes))
	} else {
		l = append(l, tlsref.SupportedVersions(0x0304), tlsref.SupportedGroups(), tlsref.SigAlgs(), tlsref.KeyShare(32), tlsref.PSKModes())
	}
	return l
}

// SameRecordModuloVersion reports whether two single-record byte strings are
// equal except for bytes 1-2 (record-layer legacy version).
func SameRecordModuloVersion(a, b []byte) bool {
	if len(a) != len(b) || len(a) < 5 {
		return false
	}
	if a[0] != b[0] {
		return false
	}
	for i := 3; i < len(a); i++ {
		if a[i] != b[i] {
			return false
		}
	}
	return true
}

func Hex(b []byte) string { return fmt.Sprintf("%x", b) }

// ---- step-wise session driver (whole records; used by C06, C09) ----

// Session drives one ech.Conn record by record over a non-blocking transport.
type Session struct {
	T   *memnet.Conn
	C   *ech.Conn
	buf []byte
	// CallerKeysModified: the slices handed to WithKeys (sub-slices of one array of the caller, with spare capacity)
	// did not come back as they were
	CallerKeysModified bool
}

// OpenSession feeds the first flight and runs NewConn. The transport is left open
// (no EOF), so later records can be fed.
func OpenSession(first []byte, keys []ech.Key) (s *Session, err error, panicked any) {
	return OpenSessionSplit(first, keys, -1)
}

// OpenSessionDebug is OpenSession with the WithDebug mode chosen by the caller (0: a sink that formats, 1: WithDebug(nil) after the
// keys, 2: WithDebug(nil) before them); the other constructors derive the mode from the length of the first flight.
func OpenSessionDebug(first []byte, keys []ech.Key, mode int) (s *Session, err error, panicked any) {
	return openSession(first, keys, -1, mode%3)
}

// ReusedOption as split value of OpenSessionSplit: one WithKeys option value made earlier from a slice that is refilled in place.
const ReusedOption = -2

// OpenSessionSplit passes the keys through two WithKeys options, keys[:split] and keys[split:] (split < 0: one option).
func OpenSessionSplit(first []byte, keys []ech.Key, split int) (s *Session, err error, panicked any) {
	return openSession(first, keys, split, len(first)%3)
}

func openSession(first []byte, keys []ech.Key, split, debugMode int) (s *Session, err error, panicked any) {
	t := memnet.New()
	t.Feed(first)
	s = &Session{T: t}
	defer func() {
		if p := recover(); p != nil {
			panicked = p
		}
	}()
	var opts []ech.Option
	if keys != nil && split >= 0 && split <= len(keys) {
		// the caller keeps all its keys in ONE array and passes sub-slices of it (so the first one has spare capacity
		// that belongs to the caller): [keys[:split]..., sentinel, keys[split:]...]
		sentinel := ech.Key{Config: []byte("caller-owned"), PrivateKey: []byte("caller-owned")}
		pool := make([]ech.Key, 0, len(keys)+1)
		pool = append(append(append(pool, keys[:split]...), sentinel), keys[split:]...)
		snapshot := slices.Clone(pool)
		opts = append(opts, ech.WithKeys(pool[:split]), ech.WithKeys(pool[split+1:]))
		defer func() { s.CallerKeysModified = !reflect.DeepEqual(pool, snapshot) }()
	} else if keys != nil && split == ReusedOption {
		// the application made ONE option value at start-up from a slice it owns, which then held other keys (same number); it
		// refills the slice in place when its keys change and passes that option value to every NewConn: a connection is
		// configured with the keys the slice holds when the connection is made
		buf := make([]ech.Key, len(keys))
		for i := range buf {
			buf[i] = NewKey(fmt.Sprint("echx-decoy-", i), byte(200+i), AllSuites, "decoy.example").Key()
		}
		opt := ech.WithKeys(buf)
		copy(buf, keys)
		opts = append(opts, opt)
	} else if keys != nil {
		opts = append(opts, ech.WithKeys(keys))
	}
	// every other session also passes WithDebug(nil) (an option a caller may well pass through from its own configuration),
	// before or after the keys: it must behave exactly like no WithDebug at all
	switch debugMode {
	case 1:
		opts = append(opts, ech.WithDebug(nil))
	case 2:
		opts = append([]ech.Option{ech.WithDebug(nil)}, opts...)
	case 0:
		// ... and a third of the sessions log for real: a sink that formats what it is given (a debug sink is an observer:
		// whatever it prints must leave the hellos as they are)
		opts = append(opts, ech.WithDebug(func(format string, args ...any) { DebugSink.Add(int64(len(fmt.Sprintf(format, args...)))) }))
	}
	s.C, err = ech.NewConn(context.Background(), t, opts...)
	return s, err, nil
}

// DebugSink counts the bytes formatted by the debug sink of the sessions that log (nothing reads it; it keeps the formatting alive).
var DebugSink atomic.Int64

// HarnessBytes is the memory the session driver itself holds (read buffer).
func (s *Session) HarnessBytes() int { return cap(s.buf) }

// ReadOnce performs one Conn.Read with a buffer larger than any record.
func (s *Session) ReadOnce() (data []byte, err error, panicked any) {
	defer func() {
		if p := recover(); p != nil {
			panicked = p
		}
	}()
	if s.buf == nil {
		s.buf = make([]byte, 70000)
	}
	n, err := s.C.Read(s.buf)
	return append([]byte{}, s.buf[:n]...), err, nil
}

// ClientSend feeds one complete record from the client and reads once.
func (s *Session) ClientSend(rec []byte) ([]byte, error, any) {
	s.T.Feed(rec)
	return s.ReadOnce()
}

// BackendSend writes b through the Conn towards the client.
func (s *Session) BackendSend(b []byte) (n int, err error, panicked any) {
	defer func() {
		if p := recover(); p != nil {
			panicked = p
		}
	}()
	n, err = s.C.Write(b)
	return n, err, nil
}

// HRRRecord is a HelloRetryRequest in one record.
func HRRRecord(sid []byte) []byte {
	return tlsref.Record(22, 0x0303, tlsref.ServerHelloMsg(true, sid, []tlsref.Ext{{Type: tlsref.ExtSupportedVersions, Data: []byte{3, 4}}, {Type: tlsref.ExtKeyShare, Data: []byte{0, 0x17}}}))
}

// ServerHelloRecord is an ordinary ServerHello in one record.
func ServerHelloRecord(sid []byte) []byte {
	return tlsref.Record(22, 0x0303, tlsref.ServerHelloMsg(false, sid, []tlsref.Ext{{Type: tlsref.ExtSupportedVersions, Data: []byte{3, 4}}, {Type: tlsref.ExtKeyShare, Data: append([]byte{0, 0x1d, 0, 32}, tlsref.DetBytes("srv-share", 32)...)}}))
}

// ---- self-contained replay artefacts for the stream-based ECH checks ----

// KeysDoc renders a key list so that a replay file is self-contained.
func KeysDoc(keys []ech.Key) []map[string]string {
	var out []map[string]string
	for _, k := range keys {
		out = append(out, map[string]string{"config": Hex(k.Config), "private_key": Hex(k.PrivateKey)})
	}
	return out
}

// ReplayStream re-executes a replay document that holds "stream" (hex, the client's bytes) and
// optionally "keys" (as written by KeysDoc) and "ops" (later records: dir 'c'/'b' + hex data), and
// prints every observable. It needs no explorer and no generator.
func ReplayStream(doc map[string]any) string {
	unhex := func(v any) []byte {
		s, _ := v.(string)
		b := make([]byte, len(s)/2)
		fmt.Sscanf(s, "%x", &b)
		return b
	}
	var keys []ech.Key
	if l, ok := doc["keys"].([]any); ok {
		for _, e := range l {
			m, _ := e.(map[string]any)
			keys = append(keys, ech.Key{Config: unhex(m["config"]), PrivateKey: unhex(m["private_key"]), SendAsRetry: true})
		}
	}
	stream := unhex(doc["stream"])
	if stream == nil {
		stream = unhex(doc["first"])
	}
	ops, _ := doc["ops"].([]any)
	if len(ops) == 0 {
		res := Feed(stream, keys)
		return fmt.Sprintf("NewConn error: %v (class %s)\npanic: %v\naccepted: %v\nServerName: %q ALPN: %q\nforwarded (%d bytes): %x\nread error: %v\nwritten to client: %x\ntransport Close calls: %d\n",
			res.Err, ErrClass(res.Err), res.Panic, res.Accepted, res.ServerName, res.ALPN, len(res.Forwarded), res.Forwarded, res.ReadErr, res.ClientOut, res.Closed)
	}
	sess, err, p := OpenSession(stream, keys)
	out := fmt.Sprintf("NewConn error: %v panic: %v\n", err, p)
	if err != nil || p != nil {
		return out
	}
	for i, o := range ops {
		m, _ := o.(map[string]any)
		dir := fmt.Sprint(m["dir"])
		data := unhex(m["data"])
		if dir == "99" || dir == "c" {
			got, err, p := sess.ClientSend(data)
			out += fmt.Sprintf("op %d client sends %d bytes -> Read: %d bytes %x err=%v panic=%v\n", i, len(data), len(got), got, err, p)
		} else {
			n, err, p := sess.BackendSend(data)
			out += fmt.Sprintf("op %d backend writes %d bytes -> Write: n=%d err=%v panic=%v\n", i, len(data), n, err, p)
		}
	}
	out += fmt.Sprintf("written to client in total: %x\ntransport Close calls: %d\n", sess.T.OutBytes(), sess.T.CloseCount)
	return out
}
