// Package tlsx wraps crypto/tls as an independent oracle: deterministic test
// PKI, in-memory handshakes, and "what does a Go TLS server see in these bytes".
package tlsx

import (
	"crypto/ed25519"
	"crypto/rand"
	"crypto/tls"
	"crypto/x509"
	"crypto/x509/pkix"
	"errors"
	"io"
	"math/big"
	"net"
	"sync"
	"time"

	"verif/internal/memnet"
)

var (
	once   sync.Once
	caCert *x509.Certificate
	caKey  ed25519.PrivateKey
	pool   *x509.CertPool
	mu     sync.Mutex
	leaves = map[string]tls.Certificate{}
	serial int64
)

func initCA() {
	once.Do(func() {
		_, k, _ := ed25519.GenerateKey(rand.Reader)
		tmpl := &x509.Certificate{SerialNumber: big.NewInt(1), Subject: pkix.Name{CommonName: "verif CA"},
			NotBefore: time.Now().Add(-time.Hour), NotAfter: time.Now().Add(24 * 365 * time.Hour),
			IsCA: true, BasicConstraintsValid: true, KeyUsage: x509.KeyUsageCertSign}
		der, err := x509.CreateCertificate(rand.Reader, tmpl, tmpl, k.Public(), k)
		if err != nil {
			panic(err)
		}
		caCert, _ = x509.ParseCertificate(der)
		caKey = k
		pool = x509.NewCertPool()
		pool.AddCert(caCert)
	})
}

// Pool is the root pool trusting the test CA.
func Pool() *x509.CertPool { initCA(); return pool }

// Leaf returns a certificate for the names, whose DER size is inflated by about
// pad bytes (an unused extension) — for large-chain cases. Cached.
func Leaf(pad int, client bool, names ...string) tls.Certificate {
	initCA()
	key := ""
	var dnsNames []string
	var ips []net.IP
	for _, n := range names {
		key += n + ","
		// a name that is an IP literal becomes an IP subject alternative name
		if ip := net.ParseIP(n); ip != nil {
			ips = append(ips, ip)
		} else {
			dnsNames = append(dnsNames, n)
		}
	}
	key += string(rune('0'+pad%10)) + big.NewInt(int64(pad)).String()
	if client {
		key += "/client"
	}
	mu.Lock()
	defer mu.Unlock()
	if c, ok := leaves[key]; ok {
		return c
	}
	serial++
	_, k, _ := ed25519.GenerateKey(rand.Reader)
	tmpl := &x509.Certificate{SerialNumber: big.NewInt(100 + serial), Subject: pkix.Name{CommonName: "leaf"},
		NotBefore: time.Now().Add(-time.Hour), NotAfter: time.Now().Add(24 * 365 * time.Hour),
		KeyUsage: x509.KeyUsageDigitalSignature, DNSNames: dnsNames, IPAddresses: ips,
		ExtKeyUsage: []x509.ExtKeyUsage{x509.ExtKeyUsageServerAuth, x509.ExtKeyUsageClientAuth}}
	if pad > 0 {
		tmpl.ExtraExtensions = []pkix.Extension{{Id: []int{1, 3, 6, 1, 4, 1, 55555, 1}, Value: make([]byte, pad)}}
	}
	der, err := x509.CreateCertificate(rand.Reader, tmpl, caCert, k.Public(), caKey)
	if err != nil {
		panic(err)
	}
	c := tls.Certificate{Certificate: [][]byte{der}, PrivateKey: k}
	leaves[key] = c
	return c
}

// SeenHello is what a crypto/tls server extracted from a ClientHello.
type SeenHello struct {
	ServerName string
	ALPN       []string
	Versions   []uint16
}

var errStop = errors.New("tlsx: stop after hello")

// GoServerSees feeds stream to a crypto/tls server (holding keys, may be nil)
// and reports the ClientHelloInfo it derived, or the error it aborted with
// before deriving one.
func GoServerSees(stream []byte, keys []tls.EncryptedClientHelloKey) (*SeenHello, error) {
	c := memnet.New()
	c.Feed(stream)
	c.End(io.EOF)
	var seen *SeenHello
	cfg := &tls.Config{
		EncryptedClientHelloKeys: keys,
		GetConfigForClient: func(chi *tls.ClientHelloInfo) (*tls.Config, error) {
			seen = &SeenHello{chi.ServerName, append([]string{}, chi.SupportedProtos...), append([]uint16{}, chi.SupportedVersions...)}
			return nil, errStop
		},
		MinVersion: tls.VersionTLS10,
	}
	err := tls.Server(c, cfg).Handshake()
	if seen != nil {
		return seen, nil
	}
	return nil, err
}

// Result of an in-memory handshake.
type HS struct {
	ClientErr, ServerErr error
	ClientState          tls.ConnectionState
	ServerState          tls.ConnectionState
	Pong                 bool
}

// Handshake runs client over one end of a pipe and lets serve() handle the other
// end; serve returns the server-side tls.Conn (already handshaken) or an error.
// After both handshakes succeed, 32-byte ping/pong is exchanged both ways.
func Handshake(ccfg *tls.Config, serve func(c *memnet.Conn) (*tls.Conn, error)) HS {
	a, b := memnet.Pipe()
	var hs HS
	done := make(chan struct{})
	var cc *tls.Conn
	go func() {
		defer close(done)
		cc = tls.Client(a, ccfg)
		a.SetDeadline(time.Now().Add(20 * time.Second))
		hs.ClientErr = cc.Handshake()
		if hs.ClientErr != nil {
			a.Close()
			return
		}
		hs.ClientState = cc.ConnectionState()
	}()
	b.SetDeadline(time.Now().Add(20 * time.Second))
	sc, err := serve(b)
	hs.ServerErr = err
	if err != nil {
		b.Close()
	}
	<-done
	if hs.ClientErr != nil || hs.ServerErr != nil {
		a.Close()
		b.Close()
		return hs
	}
	hs.ServerState = sc.ConnectionState()
	ping := []byte("0123456789abcdef0123456789abcdef")
	errc := make(chan error, 1)
	go func() {
		if _, err := cc.Write(ping); err != nil {
			errc <- err
			return
		}
		buf := make([]byte, 32)
		_, err := io.ReadFull(cc, buf)
		if err == nil && string(buf) != "PONG456789abcdef0123456789abcdeF" {
			err = errors.New("bad pong")
		}
		errc <- err
	}()
	buf := make([]byte, 32)
	if _, err := io.ReadFull(sc, buf); err == nil && string(buf) == string(ping) {
		sc.Write([]byte("PONG456789abcdef0123456789abcdeF"))
	} else {
		b.Close()
	}
	if err := <-errc; err == nil {
		hs.Pong = true
	}
	// state after application data (DidResume etc. stable); close both
	cc.Close()
	sc.Close()
	return hs
}
