// Package dnsref is an independent RFC 1035 §4 message codec (name compression
// on both sides), with RFC 6891 OPT and RFC 9460 SVCB/HTTPS parameter helpers,
// written from the RFCs. RDATA is modelled as a list of fields (raw bytes or a
// domain name), which is all a wire-level comparison needs.
package dnsref

import (
	"encoding/binary"
	"errors"
	"fmt"
	"strings"
)

const (
	TypeA     = 1
	TypeNS    = 2
	TypeCNAME = 5
	TypeSOA   = 6
	TypePTR   = 12
	TypeMX    = 15
	TypeTXT   = 16
	TypeAAAA  = 28
	TypeSRV   = 33
	TypeOPT   = 41
	TypeSVCB  = 64
	TypeHTTPS = 65
)

// Field is one RDATA component: a domain name (IsName) or raw bytes.
type Field struct {
	IsName bool
	Name   string // labels joined by ".", "" is the root
	Raw    []byte
}

func N(name string) Field { return Field{IsName: true, Name: name} }
func B(b ...byte) Field   { return Field{Raw: b} }
func U16(v uint16) Field  { return Field{Raw: []byte{byte(v >> 8), byte(v)}} }
func U32(v uint32) Field {
	b := make([]byte, 4)
	binary.BigEndian.PutUint32(b, v)
	return Field{Raw: b}
}

type RR struct {
	Name   string
	Type   uint16
	Class  uint16
	TTL    uint32
	Fields []Field
}

type Question struct {
	Name        string
	Type, Class uint16
}

type Msg struct {
	ID, Flags uint16
	Q         []Question
	Sec       [3][]RR // answer, authority, additional
}

// layout gives the RDATA field layout per type: 'n' name, digit d = d raw bytes
// (t = 20 bytes), '*' rest raw. Names are compressible on the wire only for the
// RFC 1035 types (NS, CNAME, PTR, MX, SOA); decoders must still follow pointers anywhere.
var layout = map[uint16]string{
	TypeNS: "n", TypeCNAME: "n", TypePTR: "n", TypeMX: "2n", TypeSOA: "nnt",
	TypeSRV: "6n", TypeSVCB: "2n*", TypeHTTPS: "2n*",
}

var compressible = map[uint16]bool{TypeNS: true, TypeCNAME: true, TypePTR: true, TypeMX: true, TypeSOA: true}

func labels(name string) []string {
	if name == "" {
		return nil
	}
	return strings.Split(name, ".")
}

type encoder struct {
	out      []byte
	compress bool
	offsets  map[string]int // suffix -> offset
}

func (e *encoder) name(n string, allowCompress bool) {
	ls := labels(n)
	for i := range ls {
		suffix := strings.Join(ls[i:], ".")
		if e.compress && allowCompress {
			if off, ok := e.offsets[suffix]; ok {
				e.out = append(e.out, 0xc0|byte(off>>8), byte(off))
				return
			}
		}
		if len(e.out) < 0x3fff {
			if _, ok := e.offsets[suffix]; !ok {
				e.offsets[suffix] = len(e.out)
			}
		}
		e.out = append(e.out, byte(len(ls[i])))
		e.out = append(e.out, ls[i]...)
	}
	e.out = append(e.out, 0)
}

// Encode serialises the message. With compress, every name that RFC 1035
// allows to be compressed (owner names, question names and the RDATA names of
// NS/CNAME/PTR/MX/SOA) uses the longest previously emitted suffix.
func (m *Msg) Encode(compress bool) []byte {
	e := &encoder{compress: compress, offsets: map[string]int{}}
	hdr := make([]byte, 12)
	binary.BigEndian.PutUint16(hdr[0:], m.ID)
	binary.BigEndian.PutUint16(hdr[2:], m.Flags)
	binary.BigEndian.PutUint16(hdr[4:], uint16(len(m.Q)))
	for i := 0; i < 3; i++ {
		binary.BigEndian.PutUint16(hdr[6+2*i:], uint16(len(m.Sec[i])))
	}
	e.out = hdr
	for _, q := range m.Q {
		e.name(q.Name, true)
		e.out = append(e.out, byte(q.Type>>8), byte(q.Type), byte(q.Class>>8), byte(q.Class))
	}
	for _, sec := range m.Sec {
		for _, rr := range sec {
			e.name(rr.Name, true)
			e.out = append(e.out, byte(rr.Type>>8), byte(rr.Type), byte(rr.Class>>8), byte(rr.Class))
			e.out = binary.BigEndian.AppendUint32(e.out, rr.TTL)
			lenAt := len(e.out)
			e.out = append(e.out, 0, 0)
			for _, f := range rr.Fields {
				if f.IsName {
					e.name(f.Name, compressible[rr.Type])
				} else {
					e.out = append(e.out, f.Raw...)
				}
			}
			binary.BigEndian.PutUint16(e.out[lenAt:], uint16(len(e.out)-lenAt-2))
		}
	}
	return e.out
}

var ErrFormat = errors.New("dnsref: format error")

// readName decodes a possibly compressed name at off; returns the name and the
// offset just after its in-place encoding. Pointers must point strictly
// backwards relative to the start of the label sequence they are found in
// (guarantees termination).
func readName(msg []byte, off int) (string, int, error) {
	var ls []string
	end := -1
	limit := off // a pointer must target an offset < the start of the current chunk
	total := 0
	for {
		if off >= len(msg) {
			return "", 0, ErrFormat
		}
		c := int(msg[off])
		switch c & 0xc0 {
		case 0x00:
			if c == 0 {
				if end < 0 {
					end = off + 1
				}
				return strings.Join(ls, "."), end, nil
			}
			if off+1+c > len(msg) {
				return "", 0, ErrFormat
			}
			ls = append(ls, string(msg[off+1:off+1+c]))
			total += c + 1
			if total > 254 {
				return "", 0, ErrFormat
			}
			off += 1 + c
		case 0xc0:
			if off+2 > len(msg) {
				return "", 0, ErrFormat
			}
			ptr := (c&0x3f)<<8 | int(msg[off+1])
			if end < 0 {
				end = off + 2
			}
			if ptr >= limit {
				return "", 0, ErrFormat
			}
			limit = ptr
			off = ptr
		default:
			return "", 0, ErrFormat
		}
	}
}

// Decode parses a whole message strictly (no trailing bytes inside RDATA for
// known layouts; trailing bytes after the last record are an error).
func Decode(msg []byte) (*Msg, error) {
	if len(msg) < 12 {
		return nil, ErrFormat
	}
	m := &Msg{ID: binary.BigEndian.Uint16(msg), Flags: binary.BigEndian.Uint16(msg[2:])}
	qd := int(binary.BigEndian.Uint16(msg[4:]))
	off := 12
	for i := 0; i < qd; i++ {
		n, o, err := readName(msg, off)
		if err != nil || o+4 > len(msg) {
			return nil, ErrFormat
		}
		m.Q = append(m.Q, Question{n, binary.BigEndian.Uint16(msg[o:]), binary.BigEndian.Uint16(msg[o+2:])})
		off = o + 4
	}
	for s := 0; s < 3; s++ {
		cnt := int(binary.BigEndian.Uint16(msg[6+2*s:]))
		for i := 0; i < cnt; i++ {
			n, o, err := readName(msg, off)
			if err != nil || o+10 > len(msg) {
				return nil, ErrFormat
			}
			rr := RR{Name: n, Type: binary.BigEndian.Uint16(msg[o:]), Class: binary.BigEndian.Uint16(msg[o+2:]), TTL: binary.BigEndian.Uint32(msg[o+4:])}
			rdlen := int(binary.BigEndian.Uint16(msg[o+8:]))
			rdStart := o + 10
			rdEnd := rdStart + rdlen
			if rdEnd > len(msg) {
				return nil, ErrFormat
			}
			p := rdStart
			for _, c := range layout[rr.Type] {
				switch {
				case c == 'n':
					nm, np, err := readName(msg[:rdEnd], p)
					if err != nil {
						return nil, ErrFormat
					}
					rr.Fields = append(rr.Fields, N(nm))
					p = np
				case c == '*':
					rr.Fields = append(rr.Fields, Field{Raw: append([]byte{}, msg[p:rdEnd]...)})
					p = rdEnd
				default:
					k := int(c - '0')
					if c == 't' {
						k = 20
					}
					if p+k > rdEnd {
						return nil, ErrFormat
					}
					rr.Fields = append(rr.Fields, Field{Raw: append([]byte{}, msg[p:p+k]...)})
					p += k
				}
			}
			if _, known := layout[rr.Type]; !known {
				rr.Fields = []Field{{Raw: append([]byte{}, msg[rdStart:rdEnd]...)}}
				p = rdEnd
			}
			if p != rdEnd {
				return nil, ErrFormat
			}
			m.Sec[s] = append(m.Sec[s], rr)
			off = rdEnd
		}
	}
	if off != len(msg) {
		return nil, ErrFormat
	}
	return m, nil
}

// Canon renders the message as a canonical string for comparison.
func (m *Msg) Canon() string {
	var b strings.Builder
	fmt.Fprintf(&b, "id=%d flags=%04x", m.ID, m.Flags)
	for _, q := range m.Q {
		fmt.Fprintf(&b, " Q(%q,%d,%d)", q.Name, q.Type, q.Class)
	}
	for s, sec := range m.Sec {
		for _, rr := range sec {
			fmt.Fprintf(&b, " S%d(%q,%d,%d,%d", s, rr.Name, rr.Type, rr.Class, rr.TTL)
			// adjacent raw fields are merged so that field boundaries do not matter
			raw := []byte{}
			flush := func() {
				if len(raw) > 0 {
					fmt.Fprintf(&b, ",%x", raw)
					raw = raw[:0]
				}
			}
			for _, f := range rr.Fields {
				if f.IsName {
					flush()
					fmt.Fprintf(&b, ",%q", f.Name)
				} else {
					raw = append(raw, f.Raw...)
				}
			}
			flush()
			b.WriteString(")")
		}
	}
	return b.String()
}

// ---- SVCB/HTTPS parameters (RFC 9460 §2.2, §7) ----

type Param struct {
	Key   uint16
	Value []byte
}

func ParamsBytes(ps []Param) []byte {
	var out []byte
	for _, p := range ps {
		out = append(out, byte(p.Key>>8), byte(p.Key), byte(len(p.Value)>>8), byte(len(p.Value)))
		out = append(out, p.Value...)
	}
	return out
}

func ParamALPN(protos ...string) Param {
	var v []byte
	for _, p := range protos {
		v = append(v, byte(len(p)))
		v = append(v, p...)
	}
	return Param{1, v}
}
func ParamNoDefaultALPN() Param { return Param{2, nil} }
func ParamPort(p uint16) Param  { return Param{3, []byte{byte(p >> 8), byte(p)}} }
func ParamIPv4(ips ...[]byte) Param {
	var v []byte
	for _, ip := range ips {
		v = append(v, ip...)
	}
	return Param{4, v}
}
func ParamECH(l []byte) Param { return Param{5, l} }
func ParamIPv6(ips ...[]byte) Param {
	var v []byte
	for _, ip := range ips {
		v = append(v, ip...)
	}
	return Param{6, v}
}

// SVCB builds the RDATA fields of an SVCB/HTTPS record.
func SVCB(prio uint16, target string, ps []Param) []Field {
	return []Field{U16(prio), N(target), {Raw: ParamsBytes(ps)}}
}

// OPT builds the RDATA of an OPT pseudo-record from (code,data) options.
func OPT(opts ...Param) []Field { return []Field{{Raw: ParamsBytes(opts)}} }

// TXT builds TXT RDATA.
func TXT(strs ...string) []Field {
	var v []byte
	for _, s := range strs {
		v = append(v, byte(len(s)))
		v = append(v, s...)
	}
	return []Field{{Raw: v}}
}
