package hpkeref

import (
	"bytes"
	"crypto/ecdh"
	"encoding/hex"
	"testing"
)

func unhex(s string) []byte { b, _ := hex.DecodeString(s); return b }

// RFC 9180 Appendix A.1.1 (AES-128-GCM) and A.2.1 (ChaCha20Poly1305), base mode.
func TestRFC9180Vectors(t *testing.T) {
	for _, v := range []struct {
		aead                                 uint16
		skEm, skRm, info, enc, aad0, ct0, pt string
	}{
		{AES128GCM,
			"52c4a758a802cd8b936eceea314432798d5baf2d7e9235dc084ab1b9cfa2f736",
			"4612c550263fc8ad58375df3f557aac531d26850903e55a9f23f21d8534e8ac8",
			"4f6465206f6e2061204772656369616e2055726e",
			"37fda3567bdbd628e88668c3c8d7e97d1d1253b6d4ea6d44c150f741f1bf4431",
			"436f756e742d30",
			"f938558b5d72f1a23810b4be2ab4f84331acc02fc97babc53a52ae8218a355a96d8770ac83d07bea87e13c512a",
			"4265617574792069732074727574682c20747275746820626561757479"},
		{ChaCha20,
			"f4ec9b33b792c372c1d2c2063507b684ef925b8c75a42dbcbf57d63ccd381600",
			"8057991eef8f1f1af18f4a9491d16a1ce333f695d4db8e38da75975c4478e0fb",
			"4f6465206f6e2061204772656369616e2055726e",
			"1afa08d3dec047a643885163f1180476fa7ddb54c6a8029ea33f95796bf2ac4a",
			"436f756e742d30",
			"1c5250d8034ec2b784ba2cfd69dbdb8af406cfe3ff938e131f0def8c8b60b4db21993c62ce81883d2dd1b51a28",
			"4265617574792069732074727574682c20747275746820626561757479"},
	} {
		skE, _ := ecdh.X25519().NewPrivateKey(unhex(v.skEm))
		skR, _ := ecdh.X25519().NewPrivateKey(unhex(v.skRm))
		enc, s, err := SetupBaseS(skE, skR.PublicKey(), KDFSHA256, v.aead, unhex(v.info))
		if err != nil {
			t.Fatal(err)
		}
		if !bytes.Equal(enc, unhex(v.enc)) {
			t.Fatalf("enc mismatch")
		}
		ct := s.Seal(unhex(v.aad0), unhex(v.pt))
		if !bytes.Equal(ct, unhex(v.ct0)) {
			t.Fatalf("aead %d ct mismatch\n%x\n%s", v.aead, ct, v.ct0)
		}
		r, err := SetupBaseR(skR, enc, KDFSHA256, v.aead, unhex(v.info))
		if err != nil {
			t.Fatal(err)
		}
		pt, err := r.Open(unhex(v.aad0), ct)
		if err != nil || !bytes.Equal(pt, unhex(v.pt)) {
			t.Fatalf("open: %v", err)
		}
	}
}
