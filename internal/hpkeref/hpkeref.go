// Package hpkeref is an independent RFC 9180 base-mode HPKE implementation for
// DHKEM(X25519, HKDF-SHA256) / HKDF-SHA256 / {AES-128-GCM, AES-256-GCM,
// ChaCha20-Poly1305}, written from the RFC. The ephemeral key is explicit so that
// every case is reproducible. It is the reference sender for the ECH checks.
package hpkeref

import (
	"crypto/aes"
	"crypto/cipher"
	"crypto/ecdh"
	"crypto/hkdf"
	"crypto/sha256"
	"encoding/binary"
	"errors"

	"golang.org/x/crypto/chacha20poly1305"
)

const (
	KEMX25519  = 0x0020
	KDFSHA256  = 0x0001
	AES128GCM  = 0x0001
	AES256GCM  = 0x0002
	ChaCha20   = 0x0003
	modeBase   = 0
	nSecret    = 32
	nonceBytes = 12
)

func cat(parts ...[]byte) []byte {
	var out []byte
	for _, p := range parts {
		out = append(out, p...)
	}
	return out
}

func i2osp(v, n int) []byte {
	b := make([]byte, 8)
	binary.BigEndian.PutUint64(b, uint64(v))
	return b[8-n:]
}

func labeledExtract(suite, salt []byte, label string, ikm []byte) []byte {
	prk, err := hkdf.Extract(sha256.New, cat([]byte("HPKE-v1"), suite, []byte(label), ikm), salt)
	if err != nil {
		panic(err)
	}
	return prk
}

func labeledExpand(suite, prk []byte, label string, info []byte, l int) []byte {
	out, err := hkdf.Expand(sha256.New, prk, string(cat(i2osp(l, 2), []byte("HPKE-v1"), suite, []byte(label), info)), l)
	if err != nil {
		panic(err)
	}
	return out
}

// Context is one direction of an HPKE context.
type Context struct {
	aead      cipher.AEAD
	baseNonce []byte
	Seq       uint64
}

func keyLen(aead uint16) int {
	switch aead {
	case AES128GCM:
		return 16
	case AES256GCM, ChaCha20:
		return 32
	}
	return 0
}

func newAEAD(id uint16, key []byte) (cipher.AEAD, error) {
	switch id {
	case AES128GCM, AES256GCM:
		b, err := aes.NewCipher(key)
		if err != nil {
			return nil, err
		}
		return cipher.NewGCM(b)
	case ChaCha20:
		return chacha20poly1305.New(key)
	}
	return nil, errors.New("hpkeref: unsupported AEAD")
}

func extractAndExpand(dh, kemContext []byte) []byte {
	suite := cat([]byte("KEM"), i2osp(KEMX25519, 2))
	eae := labeledExtract(suite, nil, "eae_prk", dh)
	return labeledExpand(suite, eae, "shared_secret", kemContext, nSecret)
}

func keySchedule(shared []byte, kdf, aead uint16, info []byte) (*Context, error) {
	if kdf != KDFSHA256 || keyLen(aead) == 0 {
		return nil, errors.New("hpkeref: unsupported suite")
	}
	suite := cat([]byte("HPKE"), i2osp(KEMX25519, 2), i2osp(int(kdf), 2), i2osp(int(aead), 2))
	pskIDHash := labeledExtract(suite, nil, "psk_id_hash", nil)
	infoHash := labeledExtract(suite, nil, "info_hash", info)
	ksContext := cat([]byte{modeBase}, pskIDHash, infoHash)
	secret := labeledExtract(suite, shared, "secret", nil)
	key := labeledExpand(suite, secret, "key", ksContext, keyLen(aead))
	nonce := labeledExpand(suite, secret, "base_nonce", ksContext, nonceBytes)
	a, err := newAEAD(aead, key)
	if err != nil {
		return nil, err
	}
	return &Context{aead: a, baseNonce: nonce}, nil
}

// SetupBaseS is the sender side with an explicit ephemeral private key.
func SetupBaseS(ephemeral *ecdh.PrivateKey, pkR *ecdh.PublicKey, kdf, aead uint16, info []byte) (enc []byte, ctx *Context, err error) {
	dh, err := ephemeral.ECDH(pkR)
	if err != nil {
		return nil, nil, err
	}
	enc = ephemeral.PublicKey().Bytes()
	shared := extractAndExpand(dh, cat(enc, pkR.Bytes()))
	ctx, err = keySchedule(shared, kdf, aead, info)
	return enc, ctx, err
}

// SetupBaseR is the receiver side.
func SetupBaseR(skR *ecdh.PrivateKey, enc []byte, kdf, aead uint16, info []byte) (*Context, error) {
	pkE, err := ecdh.X25519().NewPublicKey(enc)
	if err != nil {
		return nil, err
	}
	dh, err := skR.ECDH(pkE)
	if err != nil {
		return nil, err
	}
	shared := extractAndExpand(dh, cat(enc, skR.PublicKey().Bytes()))
	return keySchedule(shared, kdf, aead, info)
}

func (c *Context) nonce() []byte {
	n := make([]byte, nonceBytes)
	binary.BigEndian.PutUint64(n[4:], c.Seq)
	for i := range n {
		n[i] ^= c.baseNonce[i]
	}
	return n
}

// Seal encrypts at the current sequence number and increments it.
func (c *Context) Seal(aad, pt []byte) []byte {
	ct := c.aead.Seal(nil, c.nonce(), pt, aad)
	c.Seq++
	return ct
}

// Open decrypts at the current sequence number; increments on success.
func (c *Context) Open(aad, ct []byte) ([]byte, error) {
	pt, err := c.aead.Open(nil, c.nonce(), ct, aad)
	if err != nil {
		return nil, err
	}
	c.Seq++
	return pt, nil
}

// Overhead is the AEAD tag length (16 for all supported suites).
func (c *Context) Overhead() int { return c.aead.Overhead() }

// DetKey derives a deterministic X25519 private key from a label (for
// reproducible cases; not secret).
func DetKey(label string) *ecdh.PrivateKey {
	h := sha256.Sum256([]byte("verif-detkey:" + label))
	k, err := ecdh.X25519().NewPrivateKey(h[:])
	if err != nil {
		panic(err)
	}
	return k
}

// SetupFromDH builds a sender context from an arbitrary Diffie-Hellman value dh
// and an arbitrary enc (what an attacker who can predict the receiver's DH
// output would compute). Used to forge hellos for degenerate (low-order) enc values.
func SetupFromDH(dh, enc, pkR []byte, kdf, aead uint16, info []byte) (*Context, error) {
	shared := extractAndExpand(dh, cat(enc, pkR))
	return keySchedule(shared, kdf, aead, info)
}
