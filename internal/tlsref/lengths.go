package tlsref

// LengthFieldOffsets returns (offset,width) of every length field in a ClientHello
// handshake message: message length, session id, cipher suites, compression,
// extensions block, each extension's data length, and the first inner length of
// the extensions the package interprets (SNI, ALPN, supported_versions).
func LengthFieldOffsets(msg []byte) [][2]int {
	var out [][2]int
	out = append(out, [2]int{1, 3})
	p := 4 + 2 + 32
	out = append(out, [2]int{p, 1})
	p += 1 + int(msg[p])
	out = append(out, [2]int{p, 2})
	p += 2 + (int(msg[p])<<8 | int(msg[p+1]))
	out = append(out, [2]int{p, 1})
	p += 1 + int(msg[p])
	if p >= len(msg) {
		return out
	}
	out = append(out, [2]int{p, 2})
	end := p + 2 + (int(msg[p])<<8 | int(msg[p+1]))
	p += 2
	for p+4 <= end && p+4 <= len(msg) {
		t := int(msg[p])<<8 | int(msg[p+1])
		l := int(msg[p+2])<<8 | int(msg[p+3])
		out = append(out, [2]int{p + 2, 2})
		switch t {
		case 0, 16:
			out = append(out, [2]int{p + 4, 2})
		case 43, 0xfd00:
			out = append(out, [2]int{p + 4, 1})
		case 0xfe0d:
			if l > 8 {
				out = append(out, [2]int{p + 4 + 6, 2})
				encLen := int(msg[p+10])<<8 | int(msg[p+11])
				out = append(out, [2]int{p + 4 + 8 + encLen, 2})
			}
		}
		p += 4 + l
	}
	return out
}

// Bump adds delta to the length field at off (nil if it would become negative).
func Bump(msg []byte, off, width, delta int) []byte {
	out := append([]byte{}, msg...)
	v := 0
	for i := 0; i < width; i++ {
		v = v<<8 | int(out[off+i])
	}
	v += delta
	if v < 0 {
		return nil
	}
	for i := width - 1; i >= 0; i-- {
		out[off+i] = byte(v)
		v >>= 8
	}
	return out
}
