// Package tlsref is a byte-level TLS ClientHello / ECH reference codec written
// from RFC 8446 §4.1.2, §5.1 and draft-ietf-tls-esni §4-§7, independent of the
// code under test. Extensions are opaque (type,data) pairs plus builders.
package tlsref

import (
	"crypto/ecdh"
	"encoding/binary"
	"errors"
	"fmt"

	"verif/internal/hpkeref"
)

const (
	ExtSNI               = 0
	ExtALPN              = 16
	ExtSupportedGroups   = 10
	ExtSigAlgs           = 13
	ExtPadding           = 21
	ExtPSKModes          = 45
	ExtSupportedVersions = 43
	ExtKeyShare          = 51
	ExtECH               = 0xfe0d
	ExtOuterExtensions   = 0xfd00
)

type Ext struct {
	Type uint16
	Data []byte
}

// Hello is a ClientHello.
type Hello struct {
	Version      uint16
	Random       []byte // 32
	SessionID    []byte
	CipherSuites []byte // raw, 2 bytes each
	Compression  []byte
	Exts         []Ext
	NoExtBlock   bool   // omit the extensions block entirely (legal below TLS 1.3)
	Trailer      []byte // bytes after the extensions block inside the message (normally none)
	// ExtsTrailer: bytes INSIDE the extensions block after the last extension (too short to be an extension; hostile inputs)
	ExtsTrailer []byte
}

func u16(v int) []byte { return []byte{byte(v >> 8), byte(v)} }
func u24(v int) []byte { return []byte{byte(v >> 16), byte(v >> 8), byte(v)} }

func vec8(b []byte) []byte  { return append([]byte{byte(len(b))}, b...) }
func vec16(b []byte) []byte { return append(u16(len(b)), b...) }

// DetBytes is a deterministic filler.
func DetBytes(label string, n int) []byte {
	out := make([]byte, n)
	var s uint32 = 2166136261
	for _, c := range []byte(label) {
		s = (s ^ uint32(c)) * 16777619
	}
	for i := range out {
		s = s*1664525 + 1013904223
		out[i] = byte(s >> 24)
	}
	return out
}

func (h *Hello) Clone() *Hello {
	c := *h
	c.Random = append([]byte{}, h.Random...)
	c.SessionID = append([]byte{}, h.SessionID...)
	c.CipherSuites = append([]byte{}, h.CipherSuites...)
	c.Compression = append([]byte{}, h.Compression...)
	c.Exts = make([]Ext, len(h.Exts))
	for i, e := range h.Exts {
		c.Exts[i] = Ext{e.Type, append([]byte{}, e.Data...)}
	}
	c.Trailer = append([]byte{}, h.Trailer...)
	c.ExtsTrailer = append([]byte{}, h.ExtsTrailer...)
	return &c
}

func ExtsBytes(exts []Ext) []byte {
	var out []byte
	for _, e := range exts {
		out = append(out, u16(int(e.Type))...)
		out = append(out, vec16(e.Data)...)
	}
	return out
}

// Body is the ClientHello structure without the handshake header.
func (h *Hello) Body() []byte {
	var out []byte
	out = append(out, u16(int(h.Version))...)
	out = append(out, h.Random...)
	out = append(out, vec8(h.SessionID)...)
	out = append(out, vec16(h.CipherSuites)...)
	out = append(out, vec8(h.Compression)...)
	if !h.NoExtBlock {
		out = append(out, vec16(append(ExtsBytes(h.Exts), h.ExtsTrailer...))...)
	}
	out = append(out, h.Trailer...)
	return out
}

// Msg is the handshake message: type 1, uint24 length, body.
func (h *Hello) Msg() []byte { return HandshakeMsg(1, h.Body()) }

func HandshakeMsg(typ byte, body []byte) []byte {
	return append(append([]byte{typ}, u24(len(body))...), body...)
}

// Record frames a payload as one TLS record.
func Record(typ byte, version uint16, payload []byte) []byte {
	out := []byte{typ, byte(version >> 8), byte(version)}
	out = append(out, u16(len(payload))...)
	return append(out, payload...)
}

// HelloRecord is the hello as a single handshake record with record version 0x0301.
func (h *Hello) Record() []byte { return Record(22, 0x0301, h.Msg()) }

type rd struct {
	b   []byte
	err bool
}

func (r *rd) take(n int) []byte {
	if r.err || n < 0 || len(r.b) < n {
		r.err = true
		return nil
	}
	v := r.b[:n]
	r.b = r.b[n:]
	return v
}
func (r *rd) u8() int {
	v := r.take(1)
	if v == nil {
		return 0
	}
	return int(v[0])
}
func (r *rd) u16() int {
	v := r.take(2)
	if v == nil {
		return 0
	}
	return int(v[0])<<8 | int(v[1])
}
func (r *rd) u24() int {
	v := r.take(3)
	if v == nil {
		return 0
	}
	return int(v[0])<<16 | int(v[1])<<8 | int(v[2])
}

var ErrSyntax = errors.New("tlsref: syntax error")

// ParseExts parses a raw extension list.
func ParseExts(b []byte) ([]Ext, error) {
	r := &rd{b: b}
	var out []Ext
	for len(r.b) > 0 && !r.err {
		t := r.u16()
		d := r.take(r.u16())
		if r.err {
			return nil, ErrSyntax
		}
		out = append(out, Ext{uint16(t), append([]byte{}, d...)})
	}
	return out, nil
}

// ParseHelloBody parses a ClientHello body strictly; trailing bytes after the
// extensions go to Trailer (the caller decides whether that is legal).
func ParseHelloBody(body []byte) (*Hello, error) {
	r := &rd{b: body}
	h := &Hello{}
	h.Version = uint16(r.u16())
	h.Random = append([]byte{}, r.take(32)...)
	h.SessionID = append([]byte{}, r.take(r.u8())...)
	h.CipherSuites = append([]byte{}, r.take(r.u16())...)
	h.Compression = append([]byte{}, r.take(r.u8())...)
	if r.err {
		return nil, ErrSyntax
	}
	if len(r.b) == 0 {
		h.NoExtBlock = true
		return h, nil
	}
	eb := r.take(r.u16())
	if r.err {
		return nil, ErrSyntax
	}
	exts, err := ParseExts(eb)
	if err != nil {
		return nil, err
	}
	h.Exts = exts
	h.Trailer = append([]byte{}, r.b...)
	return h, nil
}

// ParseHelloMsg parses a handshake message that must be exactly one ClientHello.
func ParseHelloMsg(msg []byte) (*Hello, error) {
	r := &rd{b: msg}
	if r.u8() != 1 {
		return nil, ErrSyntax
	}
	body := r.take(r.u24())
	if r.err || len(r.b) != 0 {
		return nil, ErrSyntax
	}
	return ParseHelloBody(body)
}

// ---- extension builders ----

func SNI(name string) Ext {
	entry := append([]byte{0}, vec16([]byte(name))...)
	return Ext{ExtSNI, vec16(entry)}
}

func ALPN(protos ...string) Ext {
	var l []byte
	for _, p := range protos {
		l = append(l, vec8([]byte(p))...)
	}
	return Ext{ExtALPN, vec16(l)}
}

func SupportedVersions(vs ...uint16) Ext {
	var l []byte
	for _, v := range vs {
		l = append(l, u16(int(v))...)
	}
	return Ext{ExtSupportedVersions, vec8(l)}
}

// KeyShare returns a key_share extension with one X25519-typed entry of n key bytes.
func KeyShare(n int) Ext {
	e := append(u16(0x001d), vec16(DetBytes("keyshare", n))...)
	return Ext{ExtKeyShare, vec16(e)}
}

func SigAlgs() Ext         { return Ext{ExtSigAlgs, vec16([]byte{0x04, 0x03, 0x08, 0x04})} }
func SupportedGroups() Ext { return Ext{ExtSupportedGroups, vec16([]byte{0x00, 0x1d, 0x00, 0x17})} }
func PSKModes() Ext        { return Ext{ExtPSKModes, []byte{1, 1}} }
func Opaque(t uint16, n int) Ext {
	return Ext{t, DetBytes(fmt.Sprintf("ext%d", t), n)}
}

func ECHInner() Ext { return Ext{ExtECH, []byte{1}} }

func ECHOuter(kdf, aead uint16, id byte, enc, payload []byte) Ext {
	d := []byte{0}
	d = append(d, u16(int(kdf))...)
	d = append(d, u16(int(aead))...)
	d = append(d, id)
	d = append(d, vec16(enc)...)
	d = append(d, vec16(payload)...)
	return Ext{ExtECH, d}
}

func OuterExtensions(types ...uint16) Ext {
	var l []byte
	for _, t := range types {
		l = append(l, u16(int(t))...)
	}
	return Ext{ExtOuterExtensions, vec8(l)}
}

// ---- ECH config ----

type Suite struct{ KDF, AEAD uint16 }

type ConfigInfo struct {
	Version    uint16
	ID         byte
	KEM        uint16
	PublicKey  []byte
	Suites     []Suite
	MaxNameLen byte
	PublicName []byte
	Extensions []byte
	Raw        []byte // the whole ECHConfig (version, length, contents)
}

// ParseConfig parses one ECHConfig (draft §4) strictly and returns the rest.
func ParseConfig(b []byte) (ConfigInfo, []byte, error) {
	var c ConfigInfo
	r := &rd{b: b}
	c.Version = uint16(r.u16())
	contents := r.take(r.u16())
	if r.err {
		return c, nil, ErrSyntax
	}
	c.Raw = b[:4+len(contents)]
	rest := r.b
	if c.Version != 0xfe0d {
		return c, rest, fmt.Errorf("%w: version", ErrSyntax)
	}
	r = &rd{b: contents}
	c.ID = byte(r.u8())
	c.KEM = uint16(r.u16())
	c.PublicKey = append([]byte{}, r.take(r.u16())...)
	cs := r.take(r.u16())
	c.MaxNameLen = byte(r.u8())
	c.PublicName = append([]byte{}, r.take(r.u8())...)
	c.Extensions = append([]byte{}, r.take(r.u16())...)
	if r.err || len(r.b) != 0 || len(cs)%4 != 0 || len(cs) < 4 || len(c.PublicKey) < 1 || len(c.PublicName) < 1 {
		return c, rest, ErrSyntax
	}
	for i := 0; i < len(cs); i += 4 {
		c.Suites = append(c.Suites, Suite{binary.BigEndian.Uint16(cs[i:]), binary.BigEndian.Uint16(cs[i+2:])})
	}
	return c, rest, nil
}

// ParseConfigList parses an ECHConfigList strictly.
func ParseConfigList(b []byte) ([]ConfigInfo, error) {
	r := &rd{b: b}
	l := r.take(r.u16())
	if r.err || len(r.b) != 0 {
		return nil, ErrSyntax
	}
	var out []ConfigInfo
	for len(l) > 0 {
		c, rest, err := ParseConfig(l)
		if err != nil {
			return nil, err
		}
		out = append(out, c)
		l = rest
	}
	return out, nil
}

// BuildConfig builds an ECHConfig from the draft's structure definition.
func BuildConfig(id byte, pub []byte, suites []Suite, name string) []byte {
	return BuildConfigOpt(id, pub, suites, name, min(len(name)+16, 255), nil)
}

// BuildConfigOpt is BuildConfig with a free maximum_name_length and a raw extensions block (another implementation's
// config need not be byte-identical to what this library's encoder would write for the same fields).
func BuildConfigOpt(id byte, pub []byte, suites []Suite, name string, maxNameLen int, extensions []byte) []byte {
	var c []byte
	c = append(c, id)
	c = append(c, u16(hpkeref.KEMX25519)...)
	c = append(c, vec16(pub)...)
	var cs []byte
	for _, s := range suites {
		cs = append(cs, u16(int(s.KDF))...)
		cs = append(cs, u16(int(s.AEAD))...)
	}
	c = append(c, vec16(cs)...)
	c = append(c, byte(maxNameLen))
	c = append(c, vec8([]byte(name))...)
	c = append(c, vec16(extensions)...)
	return append(u16(0xfe0d), vec16(c)...)
}

// ---- ECH client side ----

// EncodeInner builds EncodedClientHelloInner: the inner hello with an empty
// legacy_session_id, followed by padding zeros (draft §5.1).
func EncodeInner(inner *Hello, padding []byte) []byte {
	c := inner.Clone()
	c.SessionID = nil
	return append(c.Body(), padding...)
}

// Compress replaces, in list, the extensions whose indexes are in refs (ascending,
// contiguous or not) by one ech_outer_extensions marker placed where the first
// referenced extension stood... The marker position is explicit: markerAt is the
// index in the resulting list (after removal) at which the marker is inserted.
func Compress(list []Ext, refs []int, markerAt int) []Ext {
	isRef := map[int]bool{}
	var types []uint16
	for _, i := range refs {
		isRef[i] = true
		types = append(types, list[i].Type)
	}
	var out []Ext
	for i, e := range list {
		if !isRef[i] {
			out = append(out, e)
		}
	}
	m := OuterExtensions(types...)
	out = append(out[:markerAt], append([]Ext{m}, out[markerAt:]...)...)
	return out
}

// Sealer carries the client's HPKE context across a HelloRetryRequest.
type Sealer struct {
	Cfg   ConfigInfo
	Suite Suite
	Enc   []byte
	Ctx   *hpkeref.Context
}

// NewSealer sets up HPKE for cfg with a deterministic ephemeral key.
func NewSealer(cfg ConfigInfo, suite Suite, eph *ecdh.PrivateKey, info []byte) (*Sealer, error) {
	pk, err := ecdh.X25519().NewPublicKey(cfg.PublicKey)
	if err != nil {
		return nil, err
	}
	if info == nil {
		info = append([]byte("tls ech\x00"), cfg.Raw...)
	}
	enc, ctx, err := hpkeref.SetupBaseS(eph, pk, suite.KDF, suite.AEAD, info)
	if err != nil {
		return nil, err
	}
	return &Sealer{Cfg: cfg, Suite: suite, Enc: enc, Ctx: ctx}, nil
}

// Seal fills the ECH extension at index echIdx of outer (which must already be
// an ECHOuter extension with a payload of len(encodedInner)+16 bytes, any
// content) with the sealed payload: AAD is the outer ClientHello body with the
// payload zeroed (draft §5.2). withEnc selects whether enc is carried (first
// hello) or empty (after HelloRetryRequest).
func (s *Sealer) Seal(outer *Hello, echIdx int, encodedInner []byte, withEnc bool) {
	enc := s.Enc
	if !withEnc {
		enc = nil
	}
	outer.Exts[echIdx] = ECHOuter(s.Suite.KDF, s.Suite.AEAD, s.Cfg.ID, enc, make([]byte, len(encodedInner)+16))
	aad := outer.Body()
	payload := s.Ctx.Seal(aad, encodedInner)
	outer.Exts[echIdx] = ECHOuter(s.Suite.KDF, s.Suite.AEAD, s.Cfg.ID, enc, payload)
}

// Reconstruct is the specification of what the backend must receive: the inner
// hello with the outer hello's session id (draft §5.1/§7.1).
func Reconstruct(inner *Hello, outer *Hello) *Hello {
	c := inner.Clone()
	c.SessionID = append([]byte{}, outer.SessionID...)
	return c
}

// SplitRecords parses a byte stream into complete records; rest is the incomplete tail.
func SplitRecords(b []byte) (recs [][]byte, rest []byte) {
	for len(b) >= 5 {
		n := int(b[3])<<8 | int(b[4])
		if len(b) < 5+n {
			break
		}
		recs = append(recs, b[:5+n])
		b = b[5+n:]
	}
	return recs, b
}

// ---- server hello ----

var HRRRandom = []byte{
	0xCF, 0x21, 0xAD, 0x74, 0xE5, 0x9A, 0x61, 0x11, 0xBE, 0x1D, 0x8C, 0x02, 0x1E, 0x65, 0xB8, 0x91,
	0xC2, 0xA2, 0x11, 0x16, 0x7A, 0xBB, 0x8C, 0x5E, 0x07, 0x9E, 0x09, 0xE2, 0xC8, 0xA8, 0x33, 0x9C,
}

// ServerHelloMsg builds a ServerHello (or HelloRetryRequest when hrr) message.
func ServerHelloMsg(hrr bool, sessionID []byte, exts []Ext) []byte {
	var b []byte
	b = append(b, 0x03, 0x03)
	if hrr {
		b = append(b, HRRRandom...)
	} else {
		b = append(b, DetBytes("server-random", 32)...)
	}
	b = append(b, vec8(sessionID)...)
	b = append(b, 0x13, 0x01, 0x00)
	b = append(b, vec16(ExtsBytes(exts))...)
	return HandshakeMsg(2, b)
}

// Fragment splits a handshake message over records at the given message offsets (ascending; none = one record).
func Fragment(version uint16, msg []byte, cuts ...int) []byte {
	var out []byte
	prev := 0
	for _, c := range append(cuts, len(msg)) {
		if c <= prev || c > len(msg) {
			continue
		}
		out = append(out, Record(22, version, msg[prev:c])...)
		prev = c
	}
	return out
}

// FragmentMax splits a handshake message into records of at most 16384 bytes (what RFC 8446 §5.1 prescribes for large messages).
func FragmentMax(version uint16, msg []byte) []byte {
	var cuts []int
	for o := 16384; o < len(msg); o += 16384 {
		cuts = append(cuts, o)
	}
	return Fragment(version, msg, cuts...)
}

// HandshakeBytes concatenates the payloads of the leading handshake records of a stream and returns the rest.
func HandshakeBytes(stream []byte, msgLen int) (msg, rest []byte) {
	for len(stream) >= 5 && stream[0] == 22 && len(msg) < msgLen {
		n := int(stream[3])<<8 | int(stream[4])
		if len(stream) < 5+n {
			break
		}
		msg = append(msg, stream[5:5+n]...)
		stream = stream[5+n:]
	}
	return msg, stream
}
