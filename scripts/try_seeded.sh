#!/bin/bash
# scripts/try_seeded.sh <seeded-dir-name> <check-id>...: applies the stored patch to /repo, runs the given quick checks,
# reverts /repo. Prints one line per check. Evidence written by these runs comes from a mutated tree: re-run
# scripts/run_all.sh afterwards before committing evidence.
cd "$(dirname "$0")/.."
. scripts/env.sh
d=seeded/$1; shift
git -C "$VERIF_REPO" diff --quiet || { echo "/repo is not clean"; exit 2; }
git -C "$VERIF_REPO" apply "$PWD/$d/patch.diff" || { echo "patch does not apply"; exit 3; }
for c in "$@"; do
  o=$(scripts/check.sh "$c" quick 2>&1); rc=$?
  keys=$(echo "$o" | grep -A1 '^VIOLATION' | grep 'key=' | sed 's/.*key=//' | head -4 | tr '\n' ';')
  echo "$(basename $d) $c rc=$rc $keys"
done
git -C "$VERIF_REPO" checkout -q -- . ; git -C "$VERIF_REPO" clean -fdq
