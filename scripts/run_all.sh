#!/bin/bash
# scripts/run_all.sh [tier]: runs every registered check and prints exit code, wall time, violation keys.
cd "$(dirname "$0")/.."
TIER="${1:-quick}"
rc_all=0
for id in $(python3 -c "import json; print(' '.join(c['property_id'] for c in json.load(open('MANIFEST.json'))['checks']))"); do
  s=$(date +%s.%N)
  scripts/check.sh $id $TIER > .work/run_$id.out 2>&1; rc=$?
  e=$(date +%s.%N)
  keys=$(grep -A1 '^VIOLATION' .work/run_$id.out | grep 'key=' | sed 's/.*key=//' | head -3 | tr '\n' ';')
  known=$(grep -c '^KNOWN-FINDING' .work/run_$id.out)
  printf "%s exit=%d wall=%.1fs known=%s %s\n" $id $rc $(echo "$e - $s" | bc) $known "$keys"
  [ $rc -ne 0 ] && rc_all=1
done
exit $rc_all
