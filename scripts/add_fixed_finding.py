import json,sys
# usage: addkf.py property key commit what
k=json.load(open('/verif/known_findings.json'))
prop,key,commit,what=sys.argv[1:5]
k.append({"property":prop,"key":key,"status":"fixed","commit":commit,"what":f"fixed: property={prop} {commit} {what}"})
json.dump(k,open('/verif/known_findings.json','w'),indent=1)
