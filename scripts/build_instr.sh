#!/bin/bash
# Generates the scheduler instrumentation (engine E3) from /repo's working tree and builds the
# instrumented check binary: .work/instr/check-instr. Nothing under /repo is modified.
set -e
cd "$(dirname "$0")/.."
. scripts/env.sh
OUT=".work/instr.$$"
mkdir -p "$OUT" .work/bin
go run ./cmd/instr -repo "$VERIF_REPO" -vsched "$(pwd)/vsched" -out "$(pwd)/$OUT" dial.go ech.go resolve.go
go build -tags "verif vsched" -overlay "$OUT/overlay.json" -o "${1:-.work/bin/check-instr}" ./cmd/check
rm -rf "$OUT"
