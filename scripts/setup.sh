#!/bin/bash
# Run once after a fresh restore, offline: warms the Go build cache (normal and instrumented binaries).
set -e
cd "$(dirname "$0")/.."
. scripts/env.sh
mkdir -p .work/bin evidence replays
go build -tags verif -o .work/bin/check.setup ./cmd/check
scripts/build_instr.sh .work/bin/check-instr.setup
go test -race -tags verif -count=1 -run NONE ./checks/c16/racepass/ >/dev/null 2>&1 || true   # warms the race-instrumented build used by C16's supplementary pass
rm -f .work/bin/check.setup .work/bin/check-instr.setup
echo setup ok
