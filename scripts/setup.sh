#!/bin/bash
# Run once after a fresh restore, offline: warms the Go build cache and builds the check binary.
set -e
cd "$(dirname "$0")/.."
. scripts/env.sh
mkdir -p .work/bin evidence replays
go build -tags verif -o .work/bin/check.setup ./cmd/check
rm -f .work/bin/check.setup
go vet -tags verif ./internal/... >/dev/null 2>&1 || true
echo setup ok
