# Sourced by every script: offline Go build environment (see DESIGN.md §2.1).
export GOFLAGS=-mod=mod
export GOPROXY=off
export GONOSUMDB='*'
export GONOSUMCHECK=1
export GONOSUMDB='golang.org/x,github.com'
export GOTOOLCHAIN=auto
unset GOSUMDB
export VERIF_ROOT=/verif
