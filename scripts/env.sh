# Sourced by every script: offline Go build environment (see DESIGN.md §2.1).
export GOFLAGS=-mod=mod
export GOPROXY=off
export GONOSUMDB='*'
export GONOSUMCHECK=1
export GONOSUMDB='golang.org/x,github.com'
export GOTOOLCHAIN=auto
unset GOSUMDB
export VERIF_ROOT=/verif
# VERIF_REPO: the library tree the checks are built from. The registered commands always use /repo; scratch runs (seeded
# change matrix on a clone) point it elsewhere: the module's replace directives are then redirected through -modfile.
export VERIF_REPO="${VERIF_REPO:-/repo}"
if [ "$VERIF_REPO" != "/repo" ]; then
  _alt="/verif/.work/alt-$(echo "$VERIF_REPO" | tr '/' '_')"
  mkdir -p /verif/.work
  sed "s#=> /repo#=> $VERIF_REPO#" /verif/go.mod > "$_alt.mod"
  cp /verif/go.sum "$_alt.sum"
  export GOFLAGS="-mod=mod -modfile=$_alt.mod"
fi
