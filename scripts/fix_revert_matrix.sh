#!/bin/bash
# For every "fix:" commit in /repo: reverse-apply it on the working tree (when it still applies), run the checks of the
# properties it repaired, and restore the tree. Shows that each check reports the original defect again if it returns.
cd "$(dirname "$0")/.."
. scripts/env.sh   # VERIF_REPO=<clone> runs the whole matrix without touching /repo; ONLY=<commit,...> restricts it
python3 - <<'PY' > .work/fixes.txt
import json
k=json.load(open('known_findings.json'))
by={}
for f in k:
    if f['status']=='fixed': by.setdefault(f['commit'],set()).add(f['property'])
for c,p in by.items(): print(c,' '.join(sorted(p)))
PY
while read commit props; do
  [ -n "$ONLY" ] && ! echo ",$ONLY," | grep -q ",$commit," && continue
  git -C "$VERIF_REPO" diff --quiet || { echo ""$VERIF_REPO" not clean"; exit 2; }
  if ! git -C "$VERIF_REPO" show $commit -- . ':!*_test.go' | git -C "$VERIF_REPO" apply -R 2>/dev/null; then echo "$commit: reverse patch no longer applies (later fixes touch the same lines)"; continue; fi
  for p in $props; do
    o=$(scripts/check.sh $p quick 2>&1); rc=$?
    keys=$(echo "$o" | grep -A1 '^VIOLATION' | grep 'key=' | sed 's/.*key=//' | head -3 | tr '\n' ';')
    echo "$commit reverted: $p exit=$rc $keys"
  done
  git -C "$VERIF_REPO" checkout -q -- . ; git -C "$VERIF_REPO" clean -fdq
done < .work/fixes.txt
