#!/bin/bash
# scripts/seeded_matrix.sh [dir...]: for each seeded change under /verif/seeded (or the given dirs) applies patch.diff to
# /repo, runs the baseline suite (must stay green) and the checks listed in its meta.json "run_checks" (default: the
# property's own check), reverts /repo, and writes the observed results back into meta.json ("results").
cd "$(dirname "$0")/.."
. scripts/env.sh
dirs=("$@"); [ ${#dirs[@]} -eq 0 ] && dirs=(seeded/*/)
for d in "${dirs[@]}"; do
  d=${d%/}; name=$(basename "$d"); prop=${name%%-*}
  [ -f "$d/patch.diff" ] || continue
  git -C "$VERIF_REPO" diff --quiet || { echo "/repo is not clean"; exit 2; }
  git -C "$VERIF_REPO" apply "$PWD/$d/patch.diff" || { echo "$name: patch does not apply"; continue; }
  # REUSE_BASELINE=1: keep a suite result recorded earlier for this change (the suite run takes a minute per change)
  bl=""
  [ "${REUSE_BASELINE:-0}" = 1 ] && bl=$(python3 -c "import json; print(json.load(open('$d/meta.json')).get('baseline_suite_with_change',''))" 2>/dev/null)
  if [ -z "$bl" ]; then scripts/baseline_summary.sh > .work/bl.$$.txt 2>&1; bl=$(cat .work/bl.$$.txt | tail -1); fi
  checks=$(python3 -c "import json,sys; m=json.load(open('$d/meta.json')); print(' '.join(m.get('run_checks',['$prop'])))" 2>/dev/null || echo $prop)
  res="{"
  for c in $checks; do
    o=$(scripts/check.sh "$c" quick 2>&1); rc=$?
    keys=$(echo "$o" | grep -A1 '^VIOLATION' | grep 'key=' | sed 's/.*key=//' | head -4 | tr '\n' ';' | sed 's/\\/\\\\/g; s/"/\\"/g')
    res="$res\"$c\": {\"exit\": $rc, \"violation_keys\": \"$keys\"},"
    echo "$name $c rc=$rc $keys"
  done
  res="${res%,}}"
  git -C "$VERIF_REPO" checkout -q -- . ; git -C "$VERIF_REPO" clean -fdq
  python3 - "$d" "$bl" "$res" <<'PY'
import json,sys,os
d,bl,res=sys.argv[1:4]
p=os.path.join(d,'meta.json')
m=json.load(open(p)) if os.path.exists(p) else {}
m['baseline_suite_with_change']=bl
m['results']=json.loads(res)
m['caught_by']=[c for c,v in m['results'].items() if v['exit']==1]
json.dump(m,open(p,'w'),indent=1)
PY
done
