#!/bin/bash
# scripts/check.sh <ID> <quick|thorough|replay> [replay-file]
# Rebuilds the check binary from /repo's working tree (replace directive + Go build cache)
# with the verif tag and runs one check. Exit 0 held / 1 violation / 2 tool error.
# Checks that use the controlled scheduler (engine E3) run from an instrumented binary: the
# library sources are rewritten at check time (cmd/instr) and compiled through -overlay.
set -u
cd "$(dirname "$0")/.."
. scripts/env.sh
export VERIF_ROOT="$(pwd)"
ID="$1"; TIER="${2:-quick}"; shift; shift || true
mkdir -p .work/bin
BIN=".work/bin/check.$$"
IBIN=".work/bin/check-instr.$$"
trap 'rm -f "$BIN" "$IBIN"' EXIT
# run <binary> <args>: a Go runtime "fatal error: concurrent map ..." cannot be recovered by a harness. When the innermost
# non-runtime frame of the crashing goroutine is LIBRARY code (independent values handled on different goroutines share
# unguarded state inside the library), that is a violation found by crashing the checker - reported as one, the trace being the
# replay artefact - and not a tool error. Anything else keeps its exit code.
run() {
  local log rc first out f
  log="$(mktemp .work/stderr.XXXXXX)"
  { "$@" 2>&1 1>&3 | tee "$log" >&2; rc=${PIPESTATUS[0]}; } 3>&1
  if [ "$rc" -ge 2 ] && grep -q '^fatal error: concurrent map' "$log"; then
    first=$(awk '/^fatal error: concurrent map/{f=1} f && /^\t\//{ if ($1 !~ /\/src\/(runtime|internal\/runtime)\//) {print $1; exit} }' "$log")
    case "$first" in
      "$VERIF_REPO"/*)
        out="${VERIF_OUT:-$VERIF_ROOT}/replays"; mkdir -p "$out"; f="$out/$ID-crash.txt"
        sed -n '/^fatal error: concurrent map/,$p' "$log" | head -120 > "$f"
        echo "VIOLATION property=$ID replay=$f"
        echo "  key=fatal-concurrent-map-access"
        echo "  the library crashed the process (unguarded state shared between calls on independent values): $first"
        rc=1 ;;
    esac
  fi
  # likewise a stack overflow (unbounded recursion): a violation when the recursion is the library's - the crashing goroutine's
  # trace (the runtime prints its innermost and outermost 50 frames) shows at least 20 library frames and more library frames
  # than harness frames
  if [ "$rc" -ge 2 ] && grep -q '^fatal error: stack overflow' "$log"; then
    nlib=$(sed -n '/^goroutine .*\[running\]/,/^$/p' "$log" | grep -c "^	$VERIF_REPO/")
    nver=$(sed -n '/^goroutine .*\[running\]/,/^$/p' "$log" | grep -c "^	$VERIF_ROOT/")
    if [ "$nlib" -ge 20 ] && [ "$nlib" -gt "$nver" ]; then
      out="${VERIF_OUT:-$VERIF_ROOT}/replays"; mkdir -p "$out"; f="$out/$ID-crash.txt"
      { sed -n '1,12p' "$log"; sed -n '/^goroutine .*\[running\]/,/^$/p' "$log" | head -160; } > "$f"
      echo "VIOLATION property=$ID replay=$f"
      echo "  key=fatal-stack-overflow-in-library"
      echo "  the library recursed without bound and crashed the process ($nlib library frames in the trace of the crashing goroutine)"
      rc=1
    fi
  fi
  rm -f "$log"
  return "$rc"
}
case "$ID" in
  C10|C18)
    scripts/build_instr.sh "$IBIN" || { echo "tool error: instrumented build failed" >&2; exit 2; }
    run "$IBIN" "$ID" "$TIER" "$@"
    exit $? ;;
  C16|C08|C06)
    scripts/build_instr.sh "$IBIN" || { echo "tool error: instrumented build failed" >&2; exit 2; }
    export VERIF_INSTR_BIN="$(pwd)/$IBIN" ;;
esac
go build -tags verif -o "$BIN" ./cmd/check || { echo "tool error: build failed" >&2; exit 2; }
run "$BIN" "$ID" "$TIER" "$@"
exit $?
