#!/bin/bash
# scripts/check.sh <ID> <quick|thorough|replay> [replay-file]
# Rebuilds the check binary from /repo's working tree (replace directive + Go build cache)
# with the verif tag and runs one check. Exit 0 held / 1 violation / 2 tool error.
# Checks that use the controlled scheduler (engine E3) run from an instrumented binary: the
# library sources are rewritten at check time (cmd/instr) and compiled through -overlay.
set -u
cd "$(dirname "$0")/.."
. scripts/env.sh
export VERIF_ROOT="$(pwd)"
ID="$1"; TIER="${2:-quick}"; shift; shift || true
mkdir -p .work/bin
BIN=".work/bin/check.$$"
IBIN=".work/bin/check-instr.$$"
trap 'rm -f "$BIN" "$IBIN"' EXIT
case "$ID" in
  C10|C18)
    scripts/build_instr.sh "$IBIN" || { echo "tool error: instrumented build failed" >&2; exit 2; }
    "$IBIN" "$ID" "$TIER" "$@"
    exit $? ;;
  C16|C08|C06)
    scripts/build_instr.sh "$IBIN" || { echo "tool error: instrumented build failed" >&2; exit 2; }
    export VERIF_INSTR_BIN="$(pwd)/$IBIN" ;;
esac
go build -tags verif -o "$BIN" ./cmd/check || { echo "tool error: build failed" >&2; exit 2; }
"$BIN" "$ID" "$TIER" "$@"
exit $?
