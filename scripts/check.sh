#!/bin/bash
# scripts/check.sh <ID> <quick|thorough|replay> [replay-file]
# Rebuilds the check binary from /repo's working tree (replace directive + Go build cache)
# with the verif tag and runs one check. Exit 0 held / 1 violation / 2 tool error.
set -u
cd "$(dirname "$0")/.."
. scripts/env.sh
export VERIF_ROOT="$(pwd)"
ID="$1"; TIER="${2:-quick}"; shift; shift || true
mkdir -p .work/bin
BIN=".work/bin/check.$$"
trap 'rm -f "$BIN"' EXIT
go build -tags verif -o "$BIN" ./cmd/check || { echo "tool error: build failed" >&2; exit 2; }
"$BIN" "$ID" "$TIER" "$@"
exit $?
