#!/bin/bash
# scripts/try_mutant.sh <worktree> <patch.diff> <demo_test.go> <check-id>...
# Confirms a seeded change in a scratch worktree (compiles, suite green, demo fails with it / passes
# without it), then applies it to /repo, runs the given checks (quick) and reverts /repo. Prints one
# summary line per step. Never commits anything to /repo.
set -u
. "$(dirname "$0")/env.sh"
WT="$1"; PATCH="$2"; DEMO="$3"; shift 3
# the worktree is its own module: plain offline flags there (env.sh may have redirected GOFLAGS to a -modfile of /verif)
VGOFLAGS="$GOFLAGS"; export GOFLAGS=-mod=mod
cd "$WT" || exit 2
git checkout -q -- . ; git clean -fdq
place=$(head -5 "$DEMO" | grep -o 'place in: *[./a-z]*' | head -1 | sed 's/place in: *//'); place=${place:-./}
tags=""; head -8 "$DEMO" | grep -q 'tags verif\|-tags verif\|go:build verif' && tags="-tags verif"
mod=""; [ "$place" = "./publish/" ] && mod="-mod=mod"
demo_run() { (cd "$WT/$place" && go test $mod $tags -vet=off -count=1 -run . ./ 2>&1 | tail -3; exit ${PIPESTATUS[0]}); }
cp "$DEMO" "$WT/$place/zz_demo_test.go"
out=$(cd "$WT/$place" && go test $mod $tags -vet=off -count=1 ./ 2>&1); rc_clean=$?
echo "demo-on-clean-tree: rc=$rc_clean"
git apply "$PATCH" || { echo "patch-does-not-apply"; git checkout -q -- .; git clean -fdq; exit 3; }
out=$(cd "$WT/$place" && go test $mod $tags -vet=off -count=1 ./ 2>&1); rc_mut=$?
echo "demo-with-change: rc=$rc_mut"
rm -f "$WT/$place/zz_demo_test.go"
(go build ./... && go test -vet=off -count=1 ./... >/dev/null 2>&1); rc_suite=$?
if [ "$place" = "./publish/" ] || grep -q 'publish/' "$PATCH"; then (cd publish && go test -mod=mod -vet=off -count=1 ./... >/dev/null 2>&1) || rc_suite=1; fi
echo "suite-with-change: rc=$rc_suite"
git checkout -q -- . ; git clean -fdq
export GOFLAGS="$VGOFLAGS"
cd "$VERIF_REPO" && git apply "$PATCH" || { echo "patch-does-not-apply-to-repo"; exit 3; }
for c in "$@"; do
  o=$(/verif/scripts/check.sh "$c" quick 2>&1); rc=$?
  key=$(echo "$o" | grep -A1 '^VIOLATION' | grep 'key=' | head -3 | tr '\n' ' ')
  echo "check $c: rc=$rc $key"
done
git -C "$VERIF_REPO" checkout -q -- . ; git -C "$VERIF_REPO" clean -fdq -e vsched 2>/dev/null
git -C "$VERIF_REPO" status --short | head -3
