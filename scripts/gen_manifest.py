#!/usr/bin/env python3
"""Generates /verif/MANIFEST.json from the table below (kept in one place so it always validates)."""
import json, subprocess, os
ROOT = os.path.dirname(os.path.dirname(os.path.abspath(__file__)))

# id -> (level, engine, technique, level text, level note, design ref)
CHECKS = {
 "C11": ("exploration", "E1 enum",
         "exhaustive small-scope enumeration of encoder inputs and parser faults against an independent reference codec and crypto/tls",
         "Every (config id, public-name length 1..255, ordered suite list, key length) product point is encoded by the real code and compared byte-for-byte with an independent draft §4 builder/parser; every prefix, field-level truncation and byte substitution of valid lists is fed to the parser; crypto/tls client and server and ech.NewConn must accept the configs. Exhaustive over the stated finite grid, which is the right level for a pure codec.",
         "trusts tlsref (independent codec) and crypto/tls; public names for the crypto/tls part are 2+-label LDH names of 3..253 bytes (crypto/tls refuses others)", "§3 C11"),
 "C15": ("model_checking", "E1 enum",
         "reference function (executable model) + total replay: every enumerated ResolveResult is run through the real Targets and compared with the model; byte-level snapshot oracle for purity",
         "All ResolveResults over a small but complete alphabet (1 record: full per-record domain; 0,2,3 records: reduced domain) x address lists x Additional maps x ports x 6 networks x early-termination points are evaluated on the real Targets and compared with an executable reference; a snapshot of every reachable byte including spare slice capacity is compared before/after. Every model trace is replayed against the implementation.",
         "reference function written from the property text/RFC 9460; ALPN compared as a set; records naming a target without known addresses may contribute nothing or their hints; unguarded package-level state between yields is only seen by a supplementary (sampled, reported separately, never counted as exploration) free-running -race pass over enumerations of different results", "§3 C15"),
 "C13": ("exploration", "E1 enum",
         "exhaustive small-scope enumeration of messages; differential comparison with an independent RFC 1035/9460 codec (dnsref) and x/net dnsmessage in both directions",
         "All header flag combinations, a name pool covering 0/1/2/127 labels and label lengths 1/63 in every name position, every subset of HTTPS parameters, OPT option lists, every message with <=2 records per section over record pools (package-built and reference-built, uncompressed and maximally compressed), extended RCODE grid and AddPadding for every question-name length 1..253 x OPT states are enumerated completely; each case is round-tripped and cross-decoded by two independent codecs.",
         "trusts dnsref and x/net dnsmessage v0.42.0; HTTPS parameter keys limited to 1..6 ascending (what dns.HTTPS can represent); decoded names must survive the input buffer being overwritten and appends to one section of a decoded message must not change another; every octet string of a decoded message must end where its data ends (reflection walk, appends filling the capacity)", "§3 C13"),
 "C02": ("fault_enumeration", "E1 enum",
         "exhaustive fault enumeration on spec-built hellos: every single-bit flip, every truncation, every substitution class; crypto/tls as second oracle",
         "For 36 base tuples sealed by an independent reference sender (validated against crypto/tls), every single-bit flip of the outer ClientHello message, every truncation of enc and payload, and each wrong-key/wrong-info/wrong-suite/wrong-config-id/wrong-sequence substitution is fed to the real NewConn; acceptance of any of them is a violation, as is a fall-back that does not forward the client's bytes.",
         "trusts tlsref/hpkeref (validated on each run against crypto/tls); record header not covered by flips", "§3 C02"),
 "C03": ("model_checking", "E1 enum",
         "executable reference model of ECH encoding/reconstruction (draft §5.1, App. B) + total replay of every enumerated layout on the real NewConn",
         "Reference counts 1..127, ALPN lists up to 20000 names, and for the hello after a HelloRetryRequest every pair of compression subsets x cookie handling x every two-record framing; every compression subset of 6 shared extensions x every marker position x inner-ECH position x outer layout x padding x session-id length x AEAD is sealed by the reference sender and the record forwarded by the real Conn is compared byte for byte with the reference reconstruction; all model traces are replayed on the implementation.",
         "trusts tlsref/hpkeref (validated against crypto/tls and RFC 9180 vectors at every run); outer hellos never repeat an extension type", "§3 C03"),
 "C04": ("fault_enumeration", "E1 enum",
         "exhaustive fault catalogue applied at every applicable position of spec-built hellos; oracle on error class, alert bytes, Close and readability",
         "Sixty fault kinds (every rule of the property statement) are applied at every applicable position of each base hello, including multi-fault pairs and +-1 on every length field of outer and re-sealed inner hellos and a record cut at every byte; for each the real NewConn must abort with an admissible class, write exactly the matching fatal alert, close the transport and leave nothing readable.",
         "trusts tlsref/hpkeref; admissible classes per fault from the statement and draft §5.1/§7/§7.1; length mutations that leave a well-formed hello may be handled transparently", "§3 C04"),
 "C05": ("exploration", "E1 enum",
         "exhaustive small-scope enumeration of syntactically valid ClientHellos x key sets x following record streams; byte-identity oracle plus crypto/tls as independent SNI/ALPN extractor",
         "Every ordered selection of up to 3 (thorough: 4) extensions from a 12-item pool x legacy versions x session ids x cipher-suite lists x compression lists x key sets {none, unrelated, same id}, plus 'no extensions block', plus all record sequences up to depth 3 (4) after the hello and backend->client writes, are run through the real Conn; forwarded bytes must equal the client's bytes byte for byte (record header included), ServerName/ALPN must equal what crypto/tls extracts and read the same after Close; a CloseWrite offered through a type assertion must not close a transport that has none.",
         "crypto/tls as independent extractor; SNI name_type 0 only, ALPN names non-empty", "§3 C05"),
 "C09": ("exploration", "E1 enum",
         "exhaustive differential enumeration of key lists: outcome(list) compared with outcome([T]) / outcome(no relevant key) for first and retried hellos",
         "All ordered key lists of length 0..4 (thorough; quick: all of length <=3 plus the length-4 lists mixing T with same-id keys) over a pool with same-id/same-suite, same-id/disjoint-suite, same-id/other-public-name and other-id keys x 3 AEADs x first/retried hello x hello encrypted to a held/unheld key are run on the real Conn; the outcome (acceptance, error class, forwarded bytes, alert bytes) must be identical to the reference list's. Histories of 1..3 connections in one process (lists with mismatched or malformed private keys, key buffers overwritten after the connection) must not change a later connection's outcome.",
         "reference sender validated against crypto/tls; all listed keys are valid", "§3 C09"),
 "C07": ("fault_enumeration", "E2 envx",
         "deviation-bounded exhaustive exploration of environment answers (transport read sizes, buffer sizes, write splits, write faults, transport end at every offset) by re-execution against a two-queue reference",
         "Four scenarios are re-executed from scratch for every perturbation with 0 and 1 deviation (a fragment boundary at every byte offset, a Write split at every offset, a transport end of both kinds at every inbound offset, each transport write failing/short) and a stated family with 2 deviations; plus every permitted record length x content type in both directions. On every execution the bytes moved must be a prefix of the reference stream, complete records must not be withheld, and errors must be reported after the data and stay.",
         "reference stream uses tlsref's reconstruction; quick tier samples offsets away from record/header boundaries (every 17th/23rd/29th), thorough takes every offset", "§3 C07"),
 "C08": ("fault_enumeration", "E1 enum (worker processes) + E3 gosched (deadline clause)",
         "grammar-bounded exhaustive enumeration of hostile inputs on both sides, executed in memory-capped single-threaded worker processes with hang watchdog; panic/progress/retained-heap oracles",
         "Every sequence of up to 2 (3) of 47 well-/ill-formed variants of the interpreted extensions in outer and sealed inner hellos, every length field set to {0,-1,+1,max} singly and pairwise, every message cut, every first-record type, and record/ServerHello/second-hello mutations in both directions after accepted and passed-through hellos are executed on the real Conn; no panic, no zero-progress return, bounded retained heap, no hang. The deadline clause (NewConn returns by its context deadline when the client stalls at any byte) is decided by the scheduler-based check registered with C10's engine.",
         "inputs are grammar-bounded, not arbitrary byte noise; memory measured as retained heap after the call with harness-held bytes subtracted", "§3 C08"),
 "C06": ("model_checking", "E4 hist + E3 gosched",
         "explicit-state model of the retry protocol; every history up to the depth bound over a 28-event alphabet replayed on fresh real Conns, model and implementation compared after every event; plus controlled-scheduler exploration of the same protocol with Read and Write running concurrently (sub-run on the instrumented sources)",
         "The model (accepted / pass-through flags / armed-by-HRR / retried / dead) is stepped alongside the real Conn for every history of length 4 (thorough 5) over 18 client and 6 backend events, from three initial situations; bytes delivered, error class, alert bytes and close are compared at every step; reachable model states and transitions are counted. A second part pumps the real instrumented Conn from two threads plus a reacting client thread (56 scenarios) and explores all schedules with at most 3 (6) deviations: both byte streams, the error class and the alert must equal the sequential outcome.",
         "model written from the property statement; whole-record events (fragmentation is C07); reference sender validated against crypto/tls", "§3 C06"),
 "C01": ("exploration", "E1 enum",
         "exhaustive configuration grid through three real stacks (crypto/tls client, ech.Conn, crypto/tls backend) with a direct handshake of the same configuration as differential oracle",
         "The full product (quick: full product over a reduced domain per dimension) of client curve lists (hence HelloRetryRequest), ALPN lists on both sides, server-name lengths 3..253, cold/warm session cache (PSK resumption inside the inner hello), client certificates up to 17 KB, backend certificates up to 40 KB, key sets incl. keys sharing a config id, three AEADs and fresh/stale client configs is driven end to end in memory; acceptance, application data both ways, server name, ALPN list, negotiated protocol and resumption are compared with a direct handshake; stale configs must yield the public-name server's retry configs, which must then work.",
         "crypto/tls is trusted as the conforming client/backend; stacks run goroutines outside any scheduler, so a failure is reported only when it reproduces 5/5", "§3 C01"),
 "C12": ("exploration", "E1 enum (worker processes)",
         "grammar-bounded exhaustive enumeration of hostile DNS messages (name-token strings in every name position, RDATA truncations/mutations, header counts, scaling families), in memory-capped worker processes with hang watchdog",
         "Every string of up to 4 (5) name tokens (labels, end, pointers to self/forward/header/earlier tokens/past the end, reserved prefixes, half pointers) is placed in the question, owner and every name-bearing RDATA position; 18 RDATA layouts are cut at every byte and mutated at every byte; header counts are swept; scaling families up to 16 KiB (64 KiB) bound time and allocation polynomially; every decoded message is then served as the DoH body to the real Resolver.",
         "token grammar, not arbitrary bytes; allocation = TotalAlloc delta, budget 256KiB+512n+n^2/2; three DoH bodies also travel through a real http.Transport over loopback TLS (what the transport inflates itself is invisible below it)", "§3 C12"),
 "C14": ("model_checking", "E1/E4 + dohmem",
         "reference resolver model (RFC 9460 procedure) + total replay over an exhaustively enumerated universe of zones x name forms against an in-memory DoH responder that logs every query",
         "75 HTTPS data shapes (absent, 5 rcodes, 9 service sets, alias chains of length 1..6, 12 and 30 with 7 kinds of endings incl. loops) x address data x rcodes x in-answer CNAME x target addresses x poisoned answers x 12 name forms are enumerated (quick: covering rotation for 8 of the forms); the real Resolve runs against the in-memory DoH responder; result, error class, set and number of queries and query padding are compared with the model; hostile names, labels and schemes of every boundary length must yield an error or result and only well-formed queries.",
         "model in checks/c14 (chains <=3 must be followed, longer ones may be abandoned; loops end in fallback or error); mixed alias/service RRsets excluded; URI tails up to 70000 octets and CNAME-only answers that circle or chain across responses are part of the hostile families (wall-clock watchdog 20 s)", "§3 C14"),
 "C16": ("model_checking", "E4 hist + E3 gosched",
         "history enumeration against a map-based cache model (virtual clock, in-memory DoH, every history up to the depth bound) + controlled-scheduler exploration of concurrent lookups + deterministic write-footprint oracle",
         "Every history of length 6 (thorough 8) over 11 events (two lookups, three clock advances, NXDOMAIN for the HTTPS query only, zone version change, three failure toggles, re-sizing the live cache) is replayed on a fresh Resolver and compared with the model's per-key prediction of upstream queries and admissible content versions; concurrent lookups on colliding keys are explored under the controlled scheduler (incl. scenarios in which the wall clock steps forward by 10 s at a point the explorer chooses; every clock reading of the resolver is logged and a lookup that did not fetch an answer itself must have seen it within its lifetime); Targets/Resolve on shared results are checked byte-for-byte for writes into shared memory.",
         "clock/transport owned via verif hooks; responses without records carry no TTL bound; plain data races are covered by the footprint oracle and a supplementary (sampled, reported separately, never counted as exploration) free-running -race pass", "§3 C16"),
 "C20": ("model_checking", "E4 hist + E2 envx + cfmem",
         "history enumeration of publishes against a map-based model over an in-memory fake of the Cloudflare API; API failures as single deviations at every request index",
         "All histories of up to 2 calls with target lists of length <=2 (3) and all histories of 3 calls with lists <=1, from 16 initial parameter strings (incl. several ech entries, a bare ech key, quoted values with blanks and with an escaped backslash), with the zone on one or three pages, plus a single API failure of three kinds at every request index, are replayed on a fresh publisher; statuses, the stored values (tokenised) of touched and untouched records and the request log are compared with the model after every call.",
         "one HTTPS record per name and zone; fake API follows Cloudflare v4 list semantics (count = items on the page); the fake gzip-encodes answers to requests that ask for gzip themselves; the caller refills one list buffer per history", "§3 C20"),
 "C18": ("model_checking", "E3 gosched",
         "stateless model checking of the real Dial under a controlled scheduler: sources rewritten at check time (goroutines, channels, select, WaitGroup, context, timers -> shims), all schedules up to a deviation bound in virtual time, monitors over the event log",
         "For every scenario of the grid (1..3 (4) targets x 13 per-target plans (incl. an ECH rejection followed by a hanging retry, a success that ignores its deadline, a host name with slow DNS lookups, a second name on the previous target's address) x MaxConcurrency x delay/timeout x caller cancellation time, plus RequireECH scenarios whose targets come from one resolution result with some records lacking an ech parameter, and the small scenarios again with the Dialer instantiated for an interface connection type, plus failures whose error wraps context.Canceled) every schedule with at most 1 (2) deviations from the canonical one (2 in the quick tier for scenarios with at most 2 targets) is executed on the real code; monitors check start order, in-flight bound, staggering (delay or one reported failure per early start), per-attempt timeout, first success wins, every other established connection closed exactly once, joined errors, prompt return on cancellation, cancelled context for attempts after the decision, and termination of every goroutine.",
         "computation takes zero virtual time; sequentially consistent memory at synchronisation granularity; IP-literal addresses; scripted DialFunc honouring its context; executions per scenario capped (cap reported when hit); the DialFunc that NewDialer installs is replaced by a scripted fake in every scenario and only exercised by a supplementary pass over real loopback sockets (reported separately)", "§3 C18"),
 "C10": ("model_checking", "E3 gosched",
         "stateless model checking of the real NewConn under a controlled scheduler (sources rewritten at check time), all schedules up to a deviation bound in virtual time",
         "For every combination of hello arrival (buffered, late, two fragments, never) x context end (never, cancelled by another thread at three times, cancelled by the caller right after the return, deadline) x keys, every schedule of caller, canceller, client and NewConn's own watcher goroutine with at most 8 deviations (thorough: no bound, the complete schedule tree) is executed on the real code; monitors check prompt failure when the context ends first, and that after a successful return no deadline call starts, no deadline is left set and the caller's Read/Write succeed. After a failed return (first record refused, end of stream) no deadline call starts and no goroutine of NewConn is left either, also under a context that never ends.",
         "zero-time computation; sequentially consistent memory at synchronisation granularity; scheduler-aware fake transport honouring deadlines; a second transport shape offers CloseRead/CloseWrite like *net.TCPConn; a third transport shape serves buffered bytes before it looks at its read deadline", "§3 C10"),
 "C17": ("fault_enumeration", "E1 enum + E2 envx",
         "exhaustive enumeration of resolution worlds and caller configurations; every tree of per-attempt outcomes (ok / error / ECH rejection with and without retry configs) explored by re-execution; oracle on the DialFunc argument log",
         "Resolution worlds (served by an in-memory DoH responder; origins also on loopback / unspecified / link-local / multicast addresses) and 47040 two-call outcome histories on one long-lived Dialer compared with a fresh Dialer; 9 base worlds x 5 caller configs x RequireECH x PublicName x 3 address forms; for each, every outcome vector of the connection attempts is executed on the real Dial; every DialFunc invocation is checked for RequireECH, caller-supplied list/ServerName preservation, per-record ECH list, host-derived server name, exactly one retry with exactly the server's retry configs, and the caller's tls.Config is compared before/after.",
         "real goroutines (MaxConcurrency 1 makes the log sequential; failures re-run 5x); expected per-address ECH lists and admissible dial addresses written by hand per world (independent of ResolveResult.Targets); the DialFunc that NewDialer installs is replaced by a fake in every scenario and only exercised by a supplementary (sampled, reported separately) -race pass; one long-lived Dialer with settings changed between Dials is enumerated separately (sequences of <=3 Dials)", "§3 C17"),
 "C19": ("model_checking", "E1 enum + E4 hist",
         "exhaustive decision table for the HTTP/3 choice and record filtering against a reference function; every request history up to the depth bound through the real net/http stack over in-memory TLS servers against a reference",
         "Every set of 1..3 service-mode records over 6 ALPN lists x no-default-alpn x HTTP/3 round-tripper absent/failing/answering is resolved through the in-memory DoH responder and dialed through the context-carried resolver; the protocol choice and the records reaching the dialer are compared with the model. Every request sequence of length <=3 (4) over 8 origins x 3 zones, with and without Host override, is executed with the real http.Client and Transport; plaintext refusal, upgrade, SNI/ServerName, Host header, dial address/port, resp.Request identity and per-connection origin isolation are checked.",
         "net/http and crypto/tls goroutines run outside any scheduler (failures re-run 5x); HTTP/3 represented by a fake round-tripper that dials through the context-carried resolver; record sets with equal priorities excluded; a.example. is a separate origin from a.example", "§3 C19"),
}

NOT_YET = {}

def main():
    props = [json.loads(l) for l in open(os.path.join(ROOT, "properties.jsonl"))]
    hooks_commits = []
    try:
        out = subprocess.run(["git", "-C", "/repo", "log", "--format=%H %s"], capture_output=True, text=True).stdout
        for l in out.splitlines():
            h, s = l.split(" ", 1)
            if s.startswith("verif hook:"):
                hooks_commits.append(h)
    except Exception:
        pass
    checks = []
    na = []
    for p in props:
        i = p["id"]
        if i in CHECKS:
            level, engine, tech, text, note, ref = CHECKS[i]
            checks.append({
                "property_id": i,
                "quick_cmd": f"scripts/check.sh {i} quick",
                "thorough_cmd": f"scripts/check.sh {i} thorough",
                "evidence_file": f"/verif/evidence/{i}.json",
                "replay_cmd_template": f"scripts/check.sh {i} replay {{path}}",
                "engine": engine,
                "level_claimed": {"category": level, "text": text, "design_ref": ref},
                "level_note": note,
                "technique": tech,
            })
        else:
            na.append({"property_id": i, "reason": NOT_YET.get(i, "check not built yet in this session (work in progress; see DESIGN.md §6 order of work)")})
    m = {
        "version": 1,
        "setup_cmd": "scripts/setup.sh",
        "hooks": {
            "guard": "verif",
            "enable": "go build -tags verif (scripts/check.sh); scheduler instrumentation is generated at check time and applied with -overlay, never committed",
            "baseline_off_cmd": "scripts/baseline_off.sh",
            "source_commits": hooks_commits,
            "add_only": True,
        },
        "engines": [
            {"name": "E1 enum", "path": "internal/enum", "kind_free_text": "deterministic exhaustive small-scope enumeration (odometer, parallel-for)"},
            {"name": "E2 envx", "path": "vsched/explore.go (generic choice-vector explorer), checks/c07, checks/c17, checks/c20 (environment fakes: internal/memnet, internal/cfmem)", "kind_free_text": "deviation-bounded exhaustive exploration of environment answers (chunking, cuts, errors, attempt outcomes, API failures) by re-execution from scratch"},
            {"name": "E3 gosched", "path": "vsched (runtime + explorer), cmd/instr (source rewriter), checks/vnet (scheduler-aware net.Conn), scripts/build_instr.sh", "kind_free_text": "controlled cooperative scheduler for the real goroutine code (sources rewritten at check time, compiled with -overlay) + DFS over schedules with a deviation bound, virtual time"},
            {"name": "E4 hist", "path": "checks/c06, checks/c16 (hist.go), checks/c19, checks/c20", "kind_free_text": "exhaustive history enumeration against an executable reference model, every history replayed on a fresh real instance"},
        ],
        "checks": checks,
        "not_applicable": na,
        "notes": "All checks are bounded exhaustive explorations on the real code built from /repo's working tree; see DESIGN.md.",
    }
    for e in m["engines"]:
        e["serves_properties"] = [c["property_id"] for c in checks if e["name"].split()[0] in c["engine"]]
    json.dump(m, open(os.path.join(ROOT, "MANIFEST.json"), "w"), indent=1)
    print("MANIFEST.json:", len(checks), "checks,", len(na), "not_applicable")

main()
