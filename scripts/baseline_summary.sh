#!/bin/bash
# Human summary of the baseline run: counts of pass/fail test events.
export BLF=/verif/.work/baseline.$$.json
"$(dirname "$0")/baseline_off.sh" > $BLF 2>/verif/.work/baseline.err; rc=$?
python3 - <<'PY'
import os
import json
p=f=0; failed=[]
for l in open(os.environ['BLF']):
    try: e=json.loads(l)
    except: continue
    if e.get('Test'):
        if e['Action']=='pass': p+=1
        elif e['Action']=='fail': f+=1; failed.append(e['Package']+'::'+e['Test'])
print('pass',p,'fail',f,failed[:10])
PY
rm -f $BLF
exit $rc
