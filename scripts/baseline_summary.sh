#!/bin/bash
# Human summary of the baseline run: counts of pass/fail test events.
"$(dirname "$0")/baseline_off.sh" > /verif/.work/baseline.json 2>/verif/.work/baseline.err; rc=$?
python3 - <<'PY'
import json
p=f=0; failed=[]
for l in open('/verif/.work/baseline.json'):
    try: e=json.loads(l)
    except: continue
    if e.get('Test'):
        if e['Action']=='pass': p+=1
        elif e['Action']=='fail': f+=1; failed.append(e['Package']+'::'+e['Test'])
print('pass',p,'fail',f,failed[:10])
PY
exit $rc
