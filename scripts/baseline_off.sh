#!/bin/bash
# Runs the repository's own test suite with the verif guard OFF (no -tags verif), offline.
# Prints go test -json output; exit status is non-zero if any package fails.
. "$(dirname "$0")/env.sh"
rc=0
for m in . publish quic; do
  (cd $VERIF_REPO/$m && GOFLAGS=-mod=mod go test -mod=mod -json -vet=off -count=1 -timeout 25m ./...) || rc=1
done
exit $rc
