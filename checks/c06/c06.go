// Package c06 decides C06: only a HelloRetryRequest re-arms ECH processing, under
// the retry rules. Explicit-state model of the retry protocol + every history
// up to a depth bound replayed on fresh real Conns (engine E4).
package c06

import (
	"bytes"
	"context"
	"fmt"
	"io"
	"slices"
	"verif/internal/memnet"

	"github.com/c2FmZQ/ech"

	"verif/internal/echx"
	"verif/internal/enum"
	"verif/internal/ev"
	"verif/internal/hpkeref"
	"verif/internal/tlsref"
)

const (
	innerName = "inner.secret.example"
	pubName   = "public.example"
)

// event is one whole record from the client ('c') or from the backend ('b').
type event struct {
	Name string
	Dir  byte
	Rec  []byte
	// for client hello events: how the model classifies it when it is processed as a retried hello
	retryErr string // "" = valid retry; else error class
	inner    []byte // reconstructed inner record when valid
	isCH     bool
	isHRR    bool
	isApp    bool
}

// model is the specification state machine written from the property text.
type model struct {
	accepted bool // first hello was accepted
	readPT   bool // client->backend direction no longer interpreted
	writePT  bool // backend->client direction no longer interpreted
	armed    bool // a HelloRetryRequest was seen and no retried hello processed yet
	retried  bool
	dead     string // error class after an abort
}

func (m model) key() string {
	return fmt.Sprintf("acc=%v rpt=%v wpt=%v armed=%v retried=%v dead=%s", m.accepted, m.readPT, m.writePT, m.armed, m.retried, m.dead)
}

// stepClient returns what the backend must read for this client record.
func (m *model) stepClient(e *event) (out []byte, errClass string) {
	if m.dead != "" {
		return nil, m.dead
	}
	if m.readPT {
		return e.Rec, ""
	}
	switch {
	case e.isApp:
		m.readPT = true
		return e.Rec, ""
	case e.isCH && m.armed && !m.retried:
		m.readPT = true
		m.armed = false
		if e.retryErr != "" {
			m.dead = e.retryErr
			return nil, e.retryErr
		}
		m.retried = true
		return e.inner, ""
	}
	return e.Rec, ""
}

func (m *model) stepBackend(e *event) {
	if m.writePT {
		return
	}
	switch {
	case e.isApp:
		m.writePT = true
	case e.isHRR:
		m.writePT = true
		if !m.retried {
			m.armed = true
		}
	}
}

type world struct {
	name   string
	keys   []ech.Key
	first  []byte
	accept bool
	events []event
}

func buildWorlds() []world {
	key := echx.NewKey("c06", 42, echx.AllSuites, pubName)
	other := echx.NewKey("c06-other", 43, echx.AllSuites, pubName)
	sid := tlsref.DetBytes("sid", 32)
	mk := func(name string, alpn []string, share int, suite tlsref.Suite) echx.Spec {
		outer, idx := echx.StdOuter(pubName, sid, 99)
		inner := echx.StdEncInner(name, alpn, true)
		for i, e := range outer.Exts {
			if e.Type == tlsref.ExtKeyShare {
				outer.Exts[i] = tlsref.KeyShare(share)
			}
		}
		return echx.Spec{Key: key, Suite: suite, Outer: outer, EchIdx: idx, EncInner: inner, InnerBase: echx.StdInnerBase(), Padding: make([]byte, 6), EphLabel: "c06"}
	}
	s11 := tlsref.Suite{KDF: 1, AEAD: 1}
	alpn := []string{"h2", "http/1.1"}
	b1 := mk(innerName, alpn, 32, s11).Build()
	first := b1.Outer.Record()
	seal2 := func(s echx.Spec, seq uint64, withEnc bool) echx.Built {
		sealer, _ := tlsref.NewSealer(key.Cfg, s.Suite, hpkeref.DetKey("eph:c06"), nil)
		sealer.Ctx.Seq = seq
		return s.BuildWith(sealer, withEnc)
	}
	good := seal2(mk(innerName, alpn, 65, s11), 1, false)
	goodRec := good.Outer.Record()
	goodInner := tlsref.Record(22, 0x0303, good.Expected.Msg())

	ch := func(name string, rec []byte, errClass string) event {
		return event{Name: name, Dir: 'c', Rec: rec, isCH: true, retryErr: errClass, inner: goodInner}
	}
	var evs []event
	evs = append(evs, ch("CH2-good", goodRec, ""))
	evs = append(evs, ch("CH2-sealed-at-seq0", seal2(mk(innerName, alpn, 65, s11), 0, false).Outer.Record(), "decrypt_error"))
	{
		h := good.Outer.Clone()
		h.Exts = slices.DeleteFunc(h.Exts, func(e tlsref.Ext) bool { return e.Type == tlsref.ExtECH })
		evs = append(evs, ch("CH2-without-ech", h.Record(), "missing_extension"))
		// ... and a second hello that lacks the ECH extension AND no longer offers TLS 1.3: the missing extension is what the
		// retry rules name (a first hello of that kind would simply be passed through)
		h2 := h.Clone()
		for i, e := range h2.Exts {
			if e.Type == tlsref.ExtSupportedVersions {
				h2.Exts[i] = tlsref.SupportedVersions(0x7a7a, 0x0303)
			}
		}
		evs = append(evs, ch("CH2-without-ech-without-tls13", h2.Record(), "missing_extension"))
	}
	rebuild := func(kdf, aead uint16, id byte, enc []byte, mutatePayload bool) []byte {
		h := good.Outer.Clone()
		for i, e := range h.Exts {
			if e.Type == tlsref.ExtECH {
				d := e.Data
				encLen := int(d[6])<<8 | int(d[7])
				payload := append([]byte{}, d[8+encLen+2:]...)
				if mutatePayload {
					payload[len(payload)/2] ^= 0x40
				}
				h.Exts[i] = tlsref.ECHOuter(kdf, aead, id, enc, payload)
			}
		}
		return h.Record()
	}
	evs = append(evs, ch("CH2-other-config-id", rebuild(1, 1, 43, nil, false), "illegal_parameter"))
	evs = append(evs, ch("CH2-other-suite", rebuild(1, 2, 42, nil, false), "illegal_parameter"))
	evs = append(evs, ch("CH2-nonempty-enc", rebuild(1, 1, 42, b1.Sealer.Enc, false), "illegal_parameter"))
	evs = append(evs, ch("CH2-corrupt-payload", rebuild(1, 1, 42, nil, true), "decrypt_error"))
	evs = append(evs, ch("CH2-inner-sni-changed", seal2(mk("other.secret.example", alpn, 65, s11), 1, false).Outer.Record(), "illegal_parameter"))
	evs = append(evs, ch("CH2-inner-alpn-reordered", seal2(mk(innerName, []string{"http/1.1", "h2"}, 65, s11), 1, false).Outer.Record(), "illegal_parameter"))
	evs = append(evs, ch("CH2-inner-alpn-dropped", seal2(mk(innerName, []string{"h2"}, 65, s11), 1, false).Outer.Record(), "illegal_parameter"))
	evs = append(evs, ch("CH2-inner-sni-case-changed", seal2(mk("INNER.secret.example", alpn, 65, s11), 1, false).Outer.Record(), "illegal_parameter"))
	{
		// retried hellos sealed consistently (AAD = what is sent) whose OUTER server name is no longer the config's public name
		s := mk(innerName, alpn, 65, s11)
		for i, e := range s.Outer.Exts {
			if e.Type == tlsref.ExtSNI {
				s.Outer.Exts[i] = tlsref.SNI("elsewhere.example")
			}
		}
		evs = append(evs, ch("CH2-outer-sni-changed", seal2(s, 1, false).Outer.Record(), "illegal_parameter"))
		s = mk(innerName, alpn, 65, s11)
		s.Outer.Exts = slices.DeleteFunc(s.Outer.Exts, func(e tlsref.Ext) bool { return e.Type == tlsref.ExtSNI })
		s.EchIdx = slices.IndexFunc(s.Outer.Exts, func(e tlsref.Ext) bool { return e.Type == tlsref.ExtECH })
		evs = append(evs, ch("CH2-outer-sni-absent", seal2(s, 1, false).Outer.Record(), "illegal_parameter"))
	}
	{
		// a valid retried hello whose legacy_session_id differs from the first hello's: the reconstructed hello carries the session
		// id of the outer hello it travelled in (the second one)
		s := mk(innerName, alpn, 65, s11)
		s.Outer.SessionID = tlsref.DetBytes("another-session-id", 32)
		b := seal2(s, 1, false)
		e := ch("CH2-good-other-session-id", b.Outer.Record(), "")
		e.inner = tlsref.Record(22, 0x0303, b.Expected.Msg())
		evs = append(evs, e)
		// a retried hello with a valid ECH extension (sealed consistently) whose OUTER hello no longer offers TLS 1.3: nothing is
		// decrypted for such a hello, so there is no inner hello that could keep name and ALPN
		s = mk(innerName, alpn, 65, s11)
		for i, e := range s.Outer.Exts {
			if e.Type == tlsref.ExtSupportedVersions {
				s.Outer.Exts[i] = tlsref.SupportedVersions(0x0303)
			}
		}
		evs = append(evs, ch("CH2-sealed-but-outer-without-tls13", seal2(s, 1, false).Outer.Record(), "illegal_parameter"))
	}
	evs = append(evs,
		event{Name: "c-CCS", Dir: 'c', Rec: tlsref.Record(20, 0x0303, []byte{1})},
		event{Name: "c-handshake-other", Dir: 'c', Rec: tlsref.Record(22, 0x0303, tlsref.HandshakeMsg(11, tlsref.DetBytes("cert", 30)))},
		event{Name: "c-alert", Dir: 'c', Rec: tlsref.Record(21, 0x0303, []byte{1, 0})},
		event{Name: "c-appdata", Dir: 'c', Rec: tlsref.Record(23, 0x0303, tlsref.DetBytes("app", 40)), isApp: true},
		// (an application-data record of length zero is one too: "once application-data records flow ...")
		event{Name: "c-appdata-empty", Dir: 'c', Rec: tlsref.Record(23, 0x0303, nil), isApp: true},
		event{Name: "b-ServerHello", Dir: 'b', Rec: echx.ServerHelloRecord(sid)},
		event{Name: "b-HRR", Dir: 'b', Rec: echx.HRRRecord(sid), isHRR: true},
		event{Name: "b-CCS", Dir: 'b', Rec: tlsref.Record(20, 0x0303, []byte{1})},
		event{Name: "b-handshake-other", Dir: 'b', Rec: tlsref.Record(22, 0x0303, tlsref.HandshakeMsg(4, tlsref.DetBytes("nst", 30)))},
		event{Name: "b-appdata", Dir: 'b', Rec: tlsref.Record(23, 0x0303, tlsref.DetBytes("sapp", 40)), isApp: true},
		event{Name: "b-appdata-empty", Dir: 'b', Rec: tlsref.Record(23, 0x0303, nil), isApp: true},
		// one Write call that carries an application-data record FOLLOWED by a HelloRetryRequest: once application data flows the
		// stream is no longer interpreted, so what follows in the same buffer must not arm anything
		event{Name: "b-appdata+HRR-in-one-write", Dir: 'b', Rec: append(tlsref.Record(23, 0x0303, tlsref.DetBytes("sapp2", 17)), echx.HRRRecord(sid)...), isApp: true},
	)
	// a first hello that is not accepted although keys are configured (unknown config id at the server)
	return []world{
		{"first-accepted", echx.Keys(key), first, true, evs},
		{"first-not-accepted", echx.Keys(other), first, false, evs},
		{"no-keys", nil, first, false, evs},
	}
}

type histResult struct {
	states map[string]bool
	trans  map[string]bool
}

func runHistory(r *ev.Run, w *world, hist []int, states, trans map[string]bool) {
	names := make([]string, len(hist))
	for i, h := range hist {
		names[i] = w.events[h].Name
	}
	replay := map[string]any{"world": w.name, "history": names}
	mode := 0
	for _, h := range hist {
		mode += h
	}
	sess, err, p := echx.OpenSessionDebug(w.first, w.keys, mode) // (the debug option of the session varies with the history)
	if p != nil || err != nil {
		r.Violation("first-hello-failed:"+w.name, fmt.Sprintf("NewConn on the first hello: err=%v panic=%v", err, p), replay)
		return
	}
	if sess.C.ECHAccepted() != w.accept {
		r.Violation("first-hello-acceptance:"+w.name, fmt.Sprintf("first hello accepted=%v, want %v", sess.C.ECHAccepted(), w.accept), replay)
		return
	}
	if _, err, p := sess.ReadOnce(); err != nil || p != nil {
		r.Violation("first-hello-read:"+w.name, fmt.Sprintf("reading the first hello: %v %v", err, p), replay)
		return
	}
	// an application that edits the list it got from ALPNProtos (sorts it, rewrites an entry) must not change what the retry
	// rules compare the second hello with
	if l := sess.C.ALPNProtos(); len(l) > 0 {
		slices.Reverse(l)
		l[0] = "tampered"
	}
	m := model{accepted: w.accept, readPT: !w.accept, writePT: !w.accept}
	states[m.key()] = true
	outLen := 0
	for i, h := range hist {
		e := &w.events[h]
		from := m.key()
		tag := fmt.Sprintf("%s:step%d:%s", w.name, i, e.Name)
		switch e.Dir {
		case 'c':
			wasDead := m.dead != ""
			want, wantErr := m.stepClient(e)
			got, err, p := sess.ClientSend(e.Rec)
			if p != nil {
				r.Violation("panic:"+e.Name, fmt.Sprintf("panic at %s: %v", tag, p), replay)
				return
			}
			gotErr := ""
			if err != nil {
				gotErr = echx.ErrClass(err)
			}
			switch {
			case wantErr != "" && gotErr == "":
				r.Violation(fmt.Sprintf("missing-abort:%s:%s", e.Name, m.modeKey()), fmt.Sprintf("%s: model aborts with %s, implementation delivered %d bytes without error", tag, wantErr, len(got)), replay)
				return
			case wantErr == "" && gotErr != "":
				r.Violation(fmt.Sprintf("unexpected-abort:%s:%s", e.Name, gotErr), fmt.Sprintf("%s: implementation failed with %v, model delivers the record", tag, err), replay)
				return
			case wantErr != gotErr:
				r.Violation(fmt.Sprintf("wrong-class:%s:%s-vs-%s", e.Name, gotErr, wantErr), fmt.Sprintf("%s: error class %s, model says %s", tag, gotErr, wantErr), replay)
				return
			}
			if wantErr != "" {
				if len(got) != 0 {
					r.Violation("bytes-with-abort:"+e.Name, tag+": bytes delivered together with the abort", replay)
				}
				if !wasDead {
					// the alert must be on the client transport, followed by close
					out := sess.T.OutBytes()
					alert := echx.AlertFor(wantErr)
					if !bytes.Equal(out[outLen:], alert) {
						r.Violation("alert-bytes:"+e.Name, fmt.Sprintf("%s: client transport got %x, want alert %x", tag, out[outLen:], alert), replay)
					}
					if sess.T.CloseCount == 0 {
						r.Violation("no-close:"+e.Name, tag+": transport not closed after the fatal alert", replay)
					}
					outLen = len(out)
				}
			} else {
				same := bytes.Equal(got, want)
				if !same && e.isCH && len(got) == len(want) && len(got) > 5 && bytes.Equal(got[3:], want[3:]) && got[0] == want[0] {
					same = true // record-layer version normalised
				}
				if !same {
					kind := "verbatim-expected"
					if bytes.Equal(want, e.inner) && e.isCH && !bytes.Equal(want, e.Rec) {
						kind = "inner-expected"
					}
					r.Violation(fmt.Sprintf("wrong-bytes:%s:%s", e.Name, kind), fmt.Sprintf("%s: backend received\n %x\nmodel says\n %x", tag, got, want), replay)
					return
				}
			}
		case 'b':
			if m.dead != "" {
				// after an abort the transport is closed; writes are unconstrained
				continue
			}
			m.stepBackend(e)
			n, err, p := sess.BackendSend(e.Rec)
			if p != nil {
				r.Violation("panic:"+e.Name, fmt.Sprintf("panic at %s: %v", tag, p), replay)
				return
			}
			out := sess.T.OutBytes()
			if err != nil || n != len(e.Rec) || !bytes.Equal(out[outLen:], e.Rec) {
				r.Violation("backend-record:"+e.Name, fmt.Sprintf("%s: Write=(%d,%v); client got %x want %x", tag, n, err, out[outLen:], e.Rec), replay)
				return
			}
			outLen = len(out)
		}
		states[m.key()] = true
		trans[from+" --"+e.Name+"--> "+m.key()] = true
	}
}

func (m model) modeKey() string {
	if m.dead != "" {
		return "dead"
	}
	return "live"
}

func Run(r *ev.Run) {
	depth := 4
	if r.Thorough() {
		depth = 5
	}
	r.Rule(fmt.Sprintf("E4: explicit-state model of the retry protocol (state = accepted, read/write pass-through, armed-by-HRR, retried, dead); alphabet of 28 events (whole records; one backend event is two records in one Write): client {valid retried hello, hello sealed at seq 0, hello without ECH, hello without ECH that does not offer TLS 1.3 either, other config id, other suite, non-empty enc, corrupt payload, inner SNI changed, inner SNI changed in letter case only, outer SNI changed / absent (sealed consistently), inner ALPN reordered, inner ALPN dropped, CCS, other handshake, alert, application data, an application-data record of length zero}, backend {ServerHello, HelloRetryRequest, CCS, other handshake, application data, an application-data record of length zero, application data + HelloRetryRequest in one Write}; EVERY history of length %d (hence every shorter one as a prefix) x 3 first-hello situations {accepted, keys but not accepted, no keys} is replayed on a fresh real Conn and compared with the model after every event (bytes delivered, error class, alert bytes, close). plus (sub-run on the instrumented sources, engine E3) the same protocol with Read and Write running concurrently: see evidence key interleavings. distinct = distinct (world, history)", depth))
	r.Assume("model written from the property statement; reference sender validated against crypto/tls (C03)", "events are whole records; fragmentation is C07's subject")
	worlds := buildWorlds()
	nev := len(worlds[0].events)
	total := 1
	for i := 0; i < depth; i++ {
		total *= nev
	}
	type acc struct {
		states, trans map[string]bool
	}
	fullDepth, fullTotal := depth, total
	for wi := range worlds {
		w := &worlds[wi]
		// worlds whose first hello is not accepted have a single model state (pure pass-through):
		// one level less is explored there
		depth, total := fullDepth, fullTotal
		if !w.accept {
			depth, total = fullDepth-1, fullTotal/nev
		}
		nshard := 64
		shards := make([]acc, nshard)
		for i := range shards {
			shards[i] = acc{map[string]bool{}, map[string]bool{}}
		}
		enum.ParallelFor(nshard, func(s int) {
			for idx := s; idx < total; idx += nshard {
				hist := make([]int, depth)
				x := idx
				for k := depth - 1; k >= 0; k-- {
					hist[k] = x % nev
					x /= nev
				}
				runHistory(r, w, hist, shards[s].states, shards[s].trans)
				r.Eval(fmt.Sprintf("%s:%v", w.name, hist), "")
				if idx == total/3+wi {
					names := []string{}
					for _, h := range hist {
						names = append(names, w.events[h].Name)
					}
					r.Sample(map[string]any{"world": w.name, "history": names})
				}
			}
		})
		states, trans := map[string]bool{}, map[string]bool{}
		for _, a := range shards {
			for k := range a.states {
				states[w.name+" "+k] = true
			}
			for k := range a.trans {
				trans[w.name+" "+k] = true
			}
		}
		r.Add("states", int64(len(states)))
		r.Add("transitions", int64(len(trans)))
		r.Outcome(fmt.Sprintf("%s: model states=%d transitions=%d", w.name, len(states), len(trans)), int64(total))
	}
	extras(r, &worlds[0])
	interleavings(r)
	r.Set("traces_validated_against_impl", fullTotal+2*fullTotal/nev)
	r.Set("history_depth", depth)
	r.Set("alphabet", nev)
}

// extras: the retry protocol through two more doors. (1) The HelloRetryRequest framed in two records cut at EVERY offset of the
// message: it arms the retry exactly like one in a single record. (2) The front end relays with io.Copy(backend, conn) - the use
// the package documentation describes - instead of calling Read itself: whatever method io.Copy picks on the Conn, the backend
// receives the first inner hello and, after its HelloRetryRequest, the second INNER hello.
func extras(r *ev.Run, w *world) {
	var good, hrr *event
	for i := range w.events {
		switch w.events[i].Name {
		case "CH2-good":
			good = &w.events[i]
		case "b-HRR":
			hrr = &w.events[i]
		}
	}
	hrrMsg := hrr.Rec[5:]
	for cut := 1; cut < len(hrrMsg); cut++ {
		replay := map[string]any{"family": "hrr-in-two-records", "cut": cut}
		sess, err, p := echx.OpenSession(w.first, w.keys)
		if p != nil || err != nil {
			r.Violation("extras:first-hello", fmt.Sprint(err, p), replay)
			return
		}
		sess.ReadOnce()
		frag := tlsref.Fragment(0x0303, hrrMsg, cut)
		n, werr, p := sess.BackendSend(frag)
		got, rerr, p2 := sess.ClientSend(good.Rec)
		oc := "hrr-in-two-records -> retried"
		switch {
		case p != nil || p2 != nil:
			r.Violation("panic:hrr-in-two-records", fmt.Sprint(p, p2), replay)
		case werr != nil || n != len(frag) || !bytes.Equal(sess.T.OutBytes(), frag):
			oc = "hrr-in-two-records -> write failed"
			r.Violation("fragmented-hrr-not-relayed", fmt.Sprintf("HelloRetryRequest framed in two records (first fragment %d bytes): Write = (%d, %v), the client received %d of %d bytes", cut, n, werr, len(sess.T.OutBytes()), len(frag)), replay)
		case rerr != nil || len(got) < 5 || !bytes.Equal(got[5:], good.inner[5:]):
			oc = "hrr-in-two-records -> NOT retried"
			r.Violation("fragmented-hrr-does-not-arm-retry", fmt.Sprintf("HelloRetryRequest framed in two records (first fragment %d bytes, the second one starts with %#x): the valid retried hello was not replaced by its inner hello (err=%v, %d bytes delivered)", cut, hrrMsg[cut], rerr, len(got)), replay)
		}
		r.Eval(fmt.Sprint("hrr-cut:", cut), oc)
	}
	// (2) io.Copy from the Conn into a writer that plays the backend: on receiving the first hello it writes the
	// HelloRetryRequest back through the Conn before it returns
	{
		replay := map[string]any{"family": "relay-with-io.Copy"}
		tail := tlsref.Record(23, 0x0303, tlsref.DetBytes("after", 30))
		t := memnet.New()
		t.Feed(w.first)
		conn, err := ech.NewConn(context.Background(), t, ech.WithKeys(w.keys))
		if err != nil {
			r.Violation("extras:first-hello", fmt.Sprint(err), replay)
			return
		}
		var backendGot []byte
		hrrSent := false
		var werr error
		dst := writerFunc(func(b []byte) (int, error) {
			backendGot = append(backendGot, b...)
			if !hrrSent && len(backendGot) >= 5 {
				hrrSent = true
				_, werr = conn.Write(hrr.Rec)
				// the client answers the HelloRetryRequest; then its stream ends
				t.Feed(good.Rec)
				t.Feed(tail)
				t.End(io.EOF)
			}
			return len(b), nil
		})
		var cerr error
		func() {
			defer func() {
				if p := recover(); p != nil {
					cerr = fmt.Errorf("panic: %v", p)
				}
			}()
			_, cerr = io.Copy(dst, conn)
		}()
		var hs []byte
		rest := backendGot
		for len(rest) >= 5 && rest[0] == 22 && 5+(int(rest[3])<<8|int(rest[4])) <= len(rest) {
			n := 5 + (int(rest[3])<<8 | int(rest[4]))
			hs = append(hs, rest[5:n]...)
			rest = rest[n:]
		}
		firstInner, _, _ := func() ([]byte, error, any) {
			s2, _, _ := echx.OpenSession(w.first, w.keys)
			return s2.ReadOnce()
		}()
		want := append(append([]byte{}, firstInner[5:]...), good.inner[5:]...)
		oc := "io.Copy relay -> both inner hellos"
		if cerr != nil || werr != nil || !bytes.Equal(hs, want) || !bytes.Equal(rest, tail) {
			oc = "io.Copy relay -> WRONG STREAM"
			r.Violation("relay-with-io-copy:backend-stream-differs", fmt.Sprintf("io.Copy(backend, conn) with a HelloRetryRequest written after the first hello: the backend received %d handshake bytes (want %d = both reconstructed inner hellos) and %d more bytes (want %d); copy error %v, write error %v", len(hs), len(want), len(rest), len(tail), cerr, werr), replay)
		}
		r.Eval("relay-with-io.Copy", oc)
	}
}

type writerFunc func([]byte) (int, error)

func (f writerFunc) Write(b []byte) (int, error) { return f(b) }
