//go:build vsched

// This file: the retry protocol under concurrency (engine E3). A split-mode front end
// pumps the two directions of a connection from two goroutines (two io.Copy loops), so
// Conn.Read and Conn.Write run concurrently; the client sends its second hello as soon
// as the HelloRetryRequest reaches it. Whatever the schedule, the second hello must be
// handled exactly as in the sequential histories.
package c06

import (
	"bytes"
	"context"
	"fmt"
	"io"
	"strings"
	"time"

	"github.com/c2FmZQ/ech"
	vs "github.com/c2FmZQ/ech/vsched"

	"verif/checks/vnet"
	"verif/internal/echx"
	"verif/internal/ev"
	"verif/internal/hpkeref"
	"verif/internal/tlsref"
	"verif/internal/workers"
)

type interScenario struct {
	CH2        string `json:"second_hello"`     // good | inner-sni-changed | without-ech | none (backend answers with a ServerHello, no retry)
	CCS        bool   `json:"client_sends_ccs"` // the client sends change_cipher_spec before its second hello (middlebox compatibility)
	HRRWithCCS bool   `json:"hrr_and_ccs_in_one_write"`
	SplitCH2   bool   `json:"second_hello_in_two_segments"`
	ReadAhead  bool   `json:"reader_blocks_before_hrr"` // the reader is already inside Read when the backend writes the HRR (else it waits for it)
}

type interWorld struct {
	key                         echx.KeyPair
	first, inner1               []byte
	good, goodInner             []byte
	sniChanged, withoutECH      []byte
	hrr, sh, ccs, app, backData []byte
}

func buildInterWorld() *interWorld {
	w := &interWorld{}
	w.key = echx.NewKey("c06i", 42, echx.AllSuites, pubName)
	sid := tlsref.DetBytes("sid", 32)
	mk := func(name string, share int) echx.Spec {
		outer, idx := echx.StdOuter(pubName, sid, 99)
		for i, e := range outer.Exts {
			if e.Type == tlsref.ExtKeyShare {
				outer.Exts[i] = tlsref.KeyShare(share)
			}
		}
		return echx.Spec{Key: w.key, Suite: tlsref.Suite{KDF: 1, AEAD: 1}, Outer: outer, EchIdx: idx, EncInner: echx.StdEncInner(name, []string{"h2"}, true), InnerBase: echx.StdInnerBase(), Padding: make([]byte, 6), EphLabel: "c06i"}
	}
	b1 := mk(innerName, 32).Build()
	w.first = b1.Outer.Record()
	w.inner1 = tlsref.Record(22, 0x0303, b1.Expected.Msg())
	seal2 := func(s echx.Spec) echx.Built {
		sealer, _ := tlsref.NewSealer(w.key.Cfg, s.Suite, hpkeref.DetKey("eph:c06i"), nil)
		sealer.Ctx.Seq = 1
		return s.BuildWith(sealer, false)
	}
	g := seal2(mk(innerName, 65))
	w.good = g.Outer.Record()
	w.goodInner = tlsref.Record(22, 0x0303, g.Expected.Msg())
	w.sniChanged = seal2(mk("other.secret.example", 65)).Outer.Record()
	h := g.Outer.Clone()
	for i, e := range h.Exts {
		if e.Type == tlsref.ExtECH {
			h.Exts = append(h.Exts[:i:i], h.Exts[i+1:]...)
			break
		}
	}
	w.withoutECH = h.Record()
	w.hrr = echx.HRRRecord(sid)
	w.sh = echx.ServerHelloRecord(sid)
	w.ccs = tlsref.Record(20, 0x0303, []byte{1})
	w.app = tlsref.Record(23, 0x0303, tlsref.DetBytes("c06i-app", 33))
	w.backData = tlsref.Record(23, 0x0303, tlsref.DetBytes("c06i-srv", 21))
	return w
}

type interObs struct {
	newConnErr error
	toBackend  []byte
	readErr    error
	writeErr   error
	out        []byte
	closed     bool
}

func runInter(w *interWorld, sc interScenario, choose vs.Chooser, traceOn bool) (*interObs, *vs.Sched) {
	ob := &interObs{}
	t := vnet.New()
	t.YieldAfterWrite = true
	s := vs.RunOpt(choose, 20000, traceOn, func() {
		t.Feed(w.first)
		ctx, cancel := vs.WithCancel(context.Background())
		defer cancel()
		conn, err := ech.NewConn(ctx, t, ech.WithKeys(echx.Keys(w.key)))
		ob.newConnErr = err
		if err != nil {
			return
		}
		firstAnswer := w.hrr
		if sc.CH2 == "none" {
			firstAnswer = w.sh
		}
		if sc.HRRWithCCS {
			firstAnswer = append(append([]byte{}, firstAnswer...), w.ccs...)
		}
		readerDone := false
		hrrWritten := false
		// client -> backend pump
		vs.GoNamed("pump-client-to-backend", func() {
			buf := make([]byte, 70000)
			for {
				if !sc.ReadAhead && len(ob.toBackend) >= len(w.inner1) && !hrrWritten {
					// this variant enters the next Read only after the backend's answer has been written
					vs.WaitUntil("answer written", func() bool { return hrrWritten })
				}
				n, err := conn.Read(buf)
				ob.toBackend = append(ob.toBackend, buf[:n]...)
				if err != nil {
					ob.readErr = err
					readerDone = true
					return
				}
			}
		})
		// backend -> client pump: answers once it has the first hello, finishes once it has seen the second flight
		vs.GoNamed("pump-backend-to-client", func() {
			vs.WaitUntil("backend has the first hello", func() bool { return len(ob.toBackend) >= len(w.inner1) || readerDone })
			if _, err := conn.Write(firstAnswer); err != nil {
				ob.writeErr = err
				hrrWritten = true
				return
			}
			hrrWritten = true
			if sc.CH2 != "none" {
				vs.WaitUntil("backend has the second hello", func() bool { return len(ob.toBackend) > len(w.inner1)+len(w.ccs) || readerDone })
				if readerDone {
					return
				}
				if _, err := conn.Write(w.sh); err != nil {
					ob.writeErr = err
					return
				}
			}
			if _, err := conn.Write(w.backData); err != nil {
				ob.writeErr = err
			}
		})
		// the client: reacts to what reaches it
		vs.GoNamed("client", func() {
			vs.WaitUntil("client has the first answer", func() bool { return len(t.Out) >= len(firstAnswer) || t.Closed() })
			if t.Closed() {
				return
			}
			if sc.CCS {
				t.Feed(w.ccs)
			}
			if sc.CH2 != "none" {
				ch2 := map[string][]byte{"good": w.good, "inner-sni-changed": w.sniChanged, "without-ech": w.withoutECH}[sc.CH2]
				if sc.SplitCH2 {
					t.Feed(ch2[:len(ch2)/2])
					vs.Yield("client between segments")
					t.Feed(ch2[len(ch2)/2:])
				} else {
					t.Feed(ch2)
				}
			}
			vs.WaitUntil("client has the server data", func() bool { return bytes.HasSuffix(t.Out, w.backData) || t.Closed() })
			if t.Closed() {
				return
			}
			t.Feed(w.app)
			t.End(io.EOF)
		})
	})
	ob.out = append([]byte{}, t.Out...)
	ob.closed = t.Closed()
	return ob, s
}

func interMonitor(w *interWorld, sc interScenario, ob *interObs, s *vs.Sched) (key, what string) {
	if s.Panic != nil {
		return "panic", fmt.Sprintf("%v\n%s", s.Panic, s.PanicInfo)
	}
	if s.Livelock {
		return "livelock", "step horizon exceeded"
	}
	if ob.newConnErr != nil {
		return "first-hello-refused", ob.newConnErr.Error()
	}
	var ccs []byte
	if sc.CCS {
		ccs = w.ccs
	}
	firstAnswer := w.hrr
	if sc.CH2 == "none" {
		firstAnswer = w.sh
	}
	if sc.HRRWithCCS {
		firstAnswer = append(append([]byte{}, firstAnswer...), w.ccs...)
	}
	switch sc.CH2 {
	case "good", "none":
		if s.Deadlock != "" {
			return "blocked-forever", s.Deadlock
		}
		want := append(append([]byte{}, w.inner1...), ccs...)
		if sc.CH2 == "good" {
			want = append(want, w.goodInner...)
		}
		want = append(want, w.app...)
		if !bytes.Equal(ob.toBackend, want) {
			kind := "other"
			verbatim := append(append(append([]byte{}, w.inner1...), ccs...), w.good...)
			if sc.CH2 == "good" && bytes.HasPrefix(ob.toBackend, verbatim) {
				kind = "second-hello-forwarded-undecrypted"
			}
			return "backend-stream-differs:" + kind, fmt.Sprintf("the backend received %d bytes, the sequential model says %d bytes (inner hello, %d-byte CCS, reconstructed second hello, application data):\n got  %x\n want %x", len(ob.toBackend), len(want), len(ccs), ob.toBackend[:min(len(ob.toBackend), 700)], want[:min(len(want), 700)])
		}
		if ob.readErr != io.EOF {
			return "read-error", fmt.Sprintf("client->backend pump ended with %v, want EOF", ob.readErr)
		}
		if ob.writeErr != nil {
			return "write-error", ob.writeErr.Error()
		}
		wantOut := append([]byte{}, firstAnswer...)
		if sc.CH2 == "good" {
			wantOut = append(wantOut, w.sh...)
		}
		wantOut = append(wantOut, w.backData...)
		if !bytes.Equal(ob.out, wantOut) {
			return "client-stream-differs", fmt.Sprintf("the client received\n %x\nwant\n %x", ob.out, wantOut)
		}
	default:
		wantClass := map[string]string{"inner-sni-changed": "illegal_parameter", "without-ech": "missing_extension"}[sc.CH2]
		if got := echx.ErrClass(ob.readErr); got != wantClass {
			return "second-hello-not-aborted:" + got, fmt.Sprintf("the ill-formed second hello (%s) ended the client->backend pump with %v, want class %s; backend received %d bytes", sc.CH2, ob.readErr, wantClass, len(ob.toBackend))
		}
		if want := append(append([]byte{}, w.inner1...), ccs...); !bytes.Equal(ob.toBackend, want) {
			return "bytes-after-abort", fmt.Sprintf("backend received %x, want only the first hello (and CCS)", ob.toBackend)
		}
		if want := append(append([]byte{}, firstAnswer...), echx.AlertFor(wantClass)...); !bytes.Equal(ob.out, want) || !ob.closed {
			return "alert-bytes", fmt.Sprintf("client received %x closed=%v, want the answer followed by the alert %x and close", ob.out, ob.closed, echx.AlertFor(wantClass))
		}
	}
	return "", ""
}

func interScenarios() []interScenario {
	var out []interScenario
	for _, ch2 := range []string{"good", "inner-sni-changed", "without-ech", "none"} {
		for _, ccs := range []bool{false, true} {
			for _, hc := range []bool{false, true} {
				for _, sp := range []bool{false, true} {
					for _, ra := range []bool{true, false} {
						if ch2 == "none" && sp {
							continue
						}
						out = append(out, interScenario{ch2, ccs, hc, sp, ra})
					}
				}
			}
		}
	}
	return out
}

type interReplay struct {
	Scenario interScenario `json:"scenario"`
	Vector   []int         `json:"choice_vector"`
}

func interReplayChooser(vec []int) vs.Chooser {
	pos := 0
	return func(n int, kind string) int {
		p := 0
		if pos < len(vec) && vec[pos] < n {
			p = vec[pos]
		}
		pos++
		return p
	}
}

func interBound(tier string) (bound, maxExecs int) {
	if tier == "thorough" {
		return 8, 3000000
	}
	return 3, 100000
}

// InterWorker explores scenarios idx = shard, shard+n, ... (one scheduler per process).
func InterWorker(tier string, shard, n int) {
	bound, maxExecs := interBound(tier)
	w := buildInterWorld()
	scs := interScenarios()
	workers.Serve(shard, n, len(scs), 1800*time.Second,
		func(idx int) any { return map[string]any{"family": "interleaving", "scenario": scs[idx]} },
		func(idx int) workers.Result {
			sc := scs[idx]
			outcomes := map[string]int{}
			var vkey, vwhat string
			var vvec []int
			e := &vs.Explorer{Bound: bound, MaxExecs: maxExecs}
			e.Body = func(x *vs.Execution, choose vs.Chooser) {
				ob, s := runInter(w, sc, choose, false)
				k, wh := interMonitor(w, sc, ob, s)
				outcomes[fmt.Sprintf("backend=%dB client=%dB err=%s", len(ob.toBackend), len(ob.out), echx.ErrClass(ob.readErr))]++
				if k != "" && vkey == "" {
					vec := x.Vector()
					ob2, s2 := runInter(w, sc, interReplayChooser(vec), false)
					if k2, _ := interMonitor(w, sc, ob2, s2); k2 != k {
						vkey, vwhat = "nondeterministic-replay", fmt.Sprintf("schedule %v gave %q then %q", vec, k, k2)
					} else {
						vkey, vwhat = k, wh
					}
					vvec = vec
				}
			}
			e.Explore()
			res := workers.Result{Outcome: fmt.Sprintf("interleavings second-hello=%s distinct-outcomes=%d", sc.CH2, len(outcomes))}
			if e.Capped {
				res.Outcome += " CAPPED"
			}
			res.Outcome += fmt.Sprintf("|execs=%d|points=%d", e.Executions, e.ChoicePoints)
			if e.Diverged != "" {
				res.Viol, res.What = "tool:replay-diverged", e.Diverged
			}
			if vkey != "" {
				res.Viol, res.What, res.Replay = "interleaving:"+vkey, vwhat, interReplay{sc, vvec}
			}
			if idx%7 == shard%7 {
				res.Sample = map[string]any{"scenario": sc, "executions": e.Executions, "outcomes": outcomes}
			}
			return res
		})
}

// RunInter is the sub-run "C06I" of the C06 check (instrumented binary): parent of the workers.
func RunInter(r *ev.Run) {
	bound, maxExecs := interBound(r.Tier)
	r.Rule(fmt.Sprintf("E3: the real, instrumented Conn pumped by two threads (client->backend Read loop, backend->client Write script) plus a client thread that sends its next flight as soon as the previous answer reaches it; scenarios = second hello {valid, inner SNI changed, without ECH, none (ServerHello)} x client CCS before it {no,yes} x HRR and CCS in one Write {no,yes} x second hello in one/two segments x reader already blocked in Read when the answer is written {yes,no}; ALL schedules with at most %d deviations (cap %d executions per scenario, reported when hit); the bytes each side receives, the error class and the alert must equal those of the sequential history. distinct = distinct scenarios", bound, maxExecs))
	r.Assume("Conn.Read and Conn.Write are each called from one goroutine (one per direction), as a proxy does", "scheduling points: transport Read/Write (before and after delivery), channel and lock operations of the rewritten sources")
	for _, sc := range interScenarios() {
		r.Eval(fmt.Sprintf("%+v", sc), "")
	}
	done, total := workers.Spawn(r, "C06I", 4*1024*1024)
	if done != total {
		r.Cap(fmt.Sprintf("workers explored %d of %d interleaving scenarios", done, total))
	}
	execs, points := int64(0), int64(0)
	capped := false
	r.FoldOutcomes(func(label string, n int64) (string, map[string]int64) {
		parts := strings.Split(label, "|")
		for _, p := range parts[1:] {
			var v int64
			if _, err := fmt.Sscanf(p, "execs=%d", &v); err == nil {
				execs += v * n
			} else if _, err := fmt.Sscanf(p, "points=%d", &v); err == nil {
				points += v * n
			}
		}
		if strings.Contains(parts[0], "CAPPED") {
			capped = true
		}
		return parts[0], map[string]int64{}
	})
	if capped {
		r.Cap("execution cap hit in at least one scenario (the bound was not completed there)")
	}
	r.Set("executions", execs)
	r.Set("choice_points", points)
	r.Set("deviation_bound", bound)
}
