package c06

import (
	"os"

	"verif/internal/ev"
)

// interleavings runs the scheduler-based exploration (engine E3) in the instrumented binary.
var interleavings = func(r *ev.Run) { r.RunSub(os.Getenv("VERIF_INSTR_BIN"), "C06I", "interleavings") }
