//go:build verif

// Supplementary, SAMPLED pass (not exploration, never counted as coverage): the DialFunc that NewDialer installs - code that
// the C17/C18/C19 harnesses replace by a fake - called from several goroutines at once with DIFFERENT tls.Configs, against a
// loopback listener that closes every connection, under the race detector. Attempts share nothing: the detector must stay
// silent. A report here is a real violation (the detector has no false positives); silence proves nothing.
package racepass

import (
	"context"
	"crypto/tls"
	"fmt"
	"net"
	"sync"
	"testing"
	"time"

	"github.com/c2FmZQ/ech"
)

func TestRacePass(t *testing.T) {
	ln, err := net.Listen("tcp", "127.0.0.1:0")
	if err != nil {
		t.Skipf("no loopback listener: %v", err)
	}
	defer ln.Close()
	go func() {
		for {
			c, err := ln.Accept()
			if err != nil {
				return
			}
			c.Close()
		}
	}()
	d := ech.NewDialer()
	var wg sync.WaitGroup
	for g := 0; g < 8; g++ {
		wg.Add(1)
		go func(g int) {
			defer wg.Done()
			for i := 0; i < 40; i++ {
				ctx, cancel := context.WithTimeout(context.Background(), 2*time.Second)
				tc := &tls.Config{ServerName: fmt.Sprintf("host%d.example", g), MinVersion: tls.VersionTLS13}
				if c, err := d.DialFunc(ctx, "tcp", ln.Addr().String(), tc); err == nil {
					c.Close()
				}
				cancel()
			}
		}(g)
	}
	wg.Wait()
}
