// Package c17 decides C17: Dial never weakens the caller's ECH or server-name
// requirements. Resolution worlds are enumerated exhaustively (E1, dohmem); the
// outcome of every connection attempt is an environment answer explored
// exhaustively by re-execution (E2: ok, error, ECH rejection with/without retry
// configs at every invocation).
package c17

import (
	"context"
	"crypto/tls"
	"errors"
	"fmt"
	"net"
	"net/netip"
	"reflect"
	"sort"
	"strings"
	"sync"
	"time"

	"github.com/c2FmZQ/ech"
	"github.com/c2FmZQ/ech/dns"

	"verif/internal/dnsref"
	"verif/internal/dohmem"
	"verif/internal/enum"
	"verif/internal/ev"
	"verif/internal/racepass"
	"verif/internal/tlsref"
	"verif/vsched"
)

var (
	listE1     = mkList(1, "pub1.example")
	listE2     = mkList(2, "pub2.example")
	listCaller = mkList(9, "caller-pub.example")
	// the server's retry list starts with a config of a version this library does not know (crypto/tls skips such entries):
	// "exactly those configs" means these bytes
	listR1 = mkListWithUnknownFirst(21, "retry1.example")
	listR2 = mkList(22, "retry2.example")
)

func mkList(id byte, name string) []byte {
	c := tlsref.BuildConfig(id, tlsref.DetBytes("pk"+name, 32), []tlsref.Suite{{KDF: 1, AEAD: 1}}, name)
	return append([]byte{byte(len(c) >> 8), byte(len(c))}, c...)
}

func mkListWithUnknownFirst(id byte, name string) []byte {
	c := tlsref.BuildConfig(id, tlsref.DetBytes("pk"+name, 32), []tlsref.Suite{{KDF: 1, AEAD: 1}}, name)
	unknown := []byte{0xfe, 0x0e, 0, 5, 1, 2, 3, 4, 5}
	body := append(unknown, c...)
	return append([]byte{byte(len(body) >> 8), byte(len(body))}, body...)
}

type world struct {
	Name string
	// zone: key "name/type" -> records
	zone map[string][]dnsref.RR
	// expect: for the element o.example:443, address:port -> ECH list of the HTTPS record that produces it (nil = none), written
	// by hand from RFC 9460 (independent of ResolveResult.Targets)
	expect map[string][]byte
}

func a(name string, ip ...byte) dnsref.RR {
	return dnsref.RR{Name: name, Type: 1, Class: 1, TTL: 60, Fields: []dnsref.Field{{Raw: ip}}}
}

func https(owner string, prio uint16, target string, echList []byte, port uint16) dnsref.RR {
	ps := []dnsref.Param{dnsref.ParamALPN("h2")}
	if port > 0 {
		ps = append(ps, dnsref.ParamPort(port))
	}
	if echList != nil {
		ps = append(ps, dnsref.ParamECH(echList))
	}
	return dnsref.RR{Name: owner, Type: 65, Class: 1, TTL: 60, Fields: dnsref.SVCB(prio, target, ps)}
}

func worlds() []world {
	base := func() map[string][]dnsref.RR {
		return map[string][]dnsref.RR{
			"o.example/1":   {a("o.example", 192, 0, 2, 1)},
			"o2.example/1":  {a("o2.example", 192, 0, 2, 2)},
			"t1.example/1":  {a("t1.example", 198, 51, 100, 1)},
			"a1.example/1":  {a("a1.example", 203, 0, 113, 1)},
			"o2.example/65": {https("o2.example", 1, "", listE2, 0)},
			// a comma element without a port (the default port: unprefixed query name)
			"o3.example/1":  {a("o3.example", 192, 0, 2, 3)},
			"o3.example/65": {https("o3.example", 1, "", listE2, 0)},
			// the second comma element uses port 8443: its HTTPS query name is prefixed
			"_8443._https.o2.example/65": {https("_8443._https.o2.example", 1, "", listE2, 0)},
		}
	}
	var out []world
	var exp map[string][]byte
	add := func(name string, f func(z map[string][]dnsref.RR)) {
		z := base()
		exp = map[string][]byte{}
		f(z)
		out = append(out, world{name, z, exp})
	}
	const origin, tgt1, ali1 = "192.0.2.1", "198.51.100.1", "203.0.113.1"
	add("no-https", func(z map[string][]dnsref.RR) { exp[origin+":443"] = nil })
	add("one-record-ech", func(z map[string][]dnsref.RR) {
		z["o.example/65"] = []dnsref.RR{https("o.example", 1, "", listE1, 0)}
		exp[origin+":443"] = listE1
	})
	// the record carries an ech parameter of length zero: present but empty. crypto/tls refuses such a list ("malformed"), which
	// is the safe outcome; turning it into "no list" would send a plaintext hello
	add("one-record-empty-ech-param", func(z map[string][]dnsref.RR) {
		z["o.example/65"] = []dnsref.RR{https("o.example", 1, "", []byte{}, 0)}
		exp[origin+":443"] = []byte{}
	})
	// round 13: the ADDRESS the name resolves to is the zone's choice and plays no part in any decision: loopback, unspecified,
	// link-local, private, multicast and broadcast addresses (IPv4 and IPv6) get the same treatment as documentation addresses -
	// in particular RequireECH refuses an attempt without a list whatever the address is
	for _, ip := range [][]byte{{127, 0, 0, 1}, {127, 8, 9, 10}, {0, 0, 0, 0}, {169, 254, 1, 1}, {10, 0, 0, 1}, {224, 0, 0, 1}, {255, 255, 255, 255},
		{15: 1}, {0: 0xfe, 1: 0x80, 15: 1}, {0: 0xfc, 15: 1}, {10: 0xff, 11: 0xff, 12: 127, 15: 1}} {
		typ, key := uint16(1), "o.example/1"
		if len(ip) == 16 {
			typ, key = 28, "o.example/28"
		}
		ap, _ := netip.AddrFromSlice(ip)
		hp := netip.AddrPortFrom(ap, 443).String()
		rec := dnsref.RR{Name: "o.example", Type: typ, Class: 1, TTL: 60, Fields: []dnsref.Field{{Raw: ip}}}
		add("special-address-no-https:"+ap.String(), func(z map[string][]dnsref.RR) {
			delete(z, "o.example/1")
			z[key] = []dnsref.RR{rec}
			exp[hp] = nil
		})
		add("special-address-record-without-ech:"+ap.String(), func(z map[string][]dnsref.RR) {
			delete(z, "o.example/1")
			z[key] = []dnsref.RR{rec}
			z["o.example/65"] = []dnsref.RR{https("o.example", 1, "", nil, 0)}
			exp[hp] = nil
		})
		add("special-address-record-with-ech:"+ap.String(), func(z map[string][]dnsref.RR) {
			delete(z, "o.example/1")
			z[key] = []dnsref.RR{rec}
			z["o.example/65"] = []dnsref.RR{https("o.example", 1, "", listE1, 0)}
			exp[hp] = listE1
		})
	}
	add("one-record-no-ech", func(z map[string][]dnsref.RR) {
		z["o.example/65"] = []dnsref.RR{https("o.example", 1, "", nil, 0)}
		exp[origin+":443"] = nil
	})
	// a preferred record whose target has no address at all contributes nothing: the origin's address belongs to the
	// second record (with ITS list), never to the first one's
	add("unresolvable-target-then-origin", func(z map[string][]dnsref.RR) {
		z["o.example/65"] = []dnsref.RR{https("o.example", 1, "nx.example", listE1, 0), https("o.example", 2, "", listE2, 0)}
		exp[origin+":443"] = listE2
	})
	add("two-records-ech-first", func(z map[string][]dnsref.RR) {
		exp[origin+":443"], exp[tgt1+":443"] = listE1, nil
		z["o.example/65"] = []dnsref.RR{https("o.example", 1, "", listE1, 0), https("o.example", 2, "t1.example", nil, 0)}
	})
	add("two-records-ech-second", func(z map[string][]dnsref.RR) {
		exp[origin+":443"], exp[tgt1+":8443"] = nil, listE2
		z["o.example/65"] = []dnsref.RR{https("o.example", 1, "", nil, 0), https("o.example", 2, "t1.example", listE2, 8443)}
	})
	add("two-records-ech-both", func(z map[string][]dnsref.RR) {
		exp[tgt1+":443"], exp[origin+":443"] = listE1, listE2
		z["o.example/65"] = []dnsref.RR{https("o.example", 1, "t1.example", listE1, 0), https("o.example", 2, "", listE2, 0)}
	})
	add("alias-to-service-ech", func(z map[string][]dnsref.RR) {
		exp[ali1+":443"] = listE1
		z["o.example/65"] = []dnsref.RR{https("o.example", 0, "a1.example", nil, 0)}
		z["a1.example/65"] = []dnsref.RR{https("a1.example", 1, "", listE1, 0)}
	})
	add("target-with-own-address-ech", func(z map[string][]dnsref.RR) {
		exp[tgt1+":443"] = listE1
		z["o.example/65"] = []dnsref.RR{https("o.example", 1, "t1.example", listE1, 0)}
	})
	return out
}

type scenario struct {
	World      int    `json:"world"`
	WorldName  string `json:"world_name"`
	CallerSN   bool   `json:"caller_sets_server_name"`
	CallerECH  bool   `json:"caller_sets_ech_list"`
	NilConfig  bool   `json:"caller_config_nil"`
	RequireECH bool   `json:"require_ech"`
	PublicName string `json:"public_name"`
	Addr       string `json:"addr"`
}

type invocation struct {
	addr    string
	sn      string
	list    []byte
	tcPtr   *tls.Config
	ctxDone bool
	outcome int
	retryOf int // index of the invocation this one retries, -1
}

type fakeConn struct{ id int }

func (f *fakeConn) Close() error { return nil }

var (
	mux     = dohmem.NewMux()
	muxOnce sync.Once
)

const (
	oOK = iota
	oErr
	oRejectNoRetry
	oRejectRetry
)

// runOnce executes Dial once with attempt outcomes taken from choose.
func runOnce(sc scenario, w world, host string, choose vsched.Chooser) (inv []invocation, dialErr error, before, after *tls.Config, caller *tls.Config, expectECH map[string][]byte, expectHost map[string]string) {
	srv := mux.Server(host)
	srv.Zone = func(name string, t uint16) dohmem.Answer {
		return dohmem.Answer{Records: w.zone[fmt.Sprintf("%s/%d", name, t)]}
	}
	res, _ := ech.NewResolver("https://" + host + "/dns-query")
	// expected ECH list per address (per comma element): hand-written per world (independent of Targets); the addresses that
	// Targets derives from the same data must be exactly those (a disagreement is reported as its own violation by check)
	expectECH, expectHost = map[string][]byte{}, map[string]string{}
	for _, el := range strings.Split(sc.Addr, ",") {
		el = strings.TrimSpace(el)
		h, _, err := net.SplitHostPort(el)
		if err != nil {
			h = el
		}
		switch h {
		case "o.example":
			for a, l := range w.expect {
				expectECH[a], expectHost[a] = l, h
			}
		case "o2.example":
			expectECH["192.0.2.2:8443"], expectHost["192.0.2.2:8443"] = listE2, h
		case "o3.example":
			expectECH["192.0.2.3:443"], expectHost["192.0.2.3:443"] = listE2, h
		default:
			expectECH[el], expectHost[el] = nil, h
		}
	}
	if !sc.NilConfig {
		caller = &tls.Config{MinVersion: tls.VersionTLS12, NextProtos: []string{"h2"}}
		if sc.CallerSN {
			caller.ServerName = "caller-name.example"
		}
		if sc.CallerECH {
			caller.EncryptedClientHelloConfigList = append([]byte{}, listCaller...)
		}
		before = caller.Clone()
	}
	var mu sync.Mutex
	lastByAddr := map[string]int{}
	d := &ech.Dialer[*fakeConn]{RequireECH: sc.RequireECH, PublicName: sc.PublicName, Resolver: res, MaxConcurrency: 1, ConcurrencyDelay: time.Millisecond, Timeout: 10 * time.Second}
	d.DialFunc = func(ctx context.Context, network, addr string, tc *tls.Config) (*fakeConn, error) {
		mu.Lock()
		defer mu.Unlock()
		iv := invocation{addr: addr, ctxDone: ctx.Err() != nil, retryOf: -1, tcPtr: tc}
		if tc != nil {
			iv.sn = tc.ServerName
			if tc.EncryptedClientHelloConfigList != nil {
				iv.list = append([]byte{}, tc.EncryptedClientHelloConfigList...) // empty but present stays non-nil: crypto/tls tells the two apart
			}
		}
		if li, ok := lastByAddr[addr]; ok && inv[li].outcome == oRejectRetry && li == len(inv)-1 {
			iv.retryOf = li
		}
		if iv.ctxDone {
			iv.outcome = oErr
			inv = append(inv, iv)
			lastByAddr[addr] = len(inv) - 1
			return nil, ctx.Err()
		}
		iv.outcome = choose(4, "attempt-outcome")
		inv = append(inv, iv)
		lastByAddr[addr] = len(inv) - 1
		switch iv.outcome {
		case oOK:
			return &fakeConn{len(inv)}, nil
		case oErr:
			return nil, errors.New("connection refused")
		case oRejectNoRetry:
			return nil, fmt.Errorf("handshake: %w", &tls.ECHRejectionError{})
		default:
			rl := listR1
			if iv.retryOf >= 0 {
				rl = listR2
			}
			rej := &tls.ECHRejectionError{RetryConfigList: rl}
			if len(inv)%2 == 0 {
				// the rejection sits in an error TREE (errors.Join, as a DialFunc that tries several things reports it)
				return nil, errors.Join(errors.New("dial: first transport failed"), fmt.Errorf("handshake: %w", rej))
			}
			return nil, fmt.Errorf("handshake: %w", rej)
		}
	}
	_, dialErr = d.Dial(context.Background(), "tcp", sc.Addr, caller)
	// wait until the background goroutines of Dial have drained the remaining targets (they run with a cancelled context)
	time.Sleep(200 * time.Microsecond)
	mu.Lock()
	defer mu.Unlock()
	inv = append([]invocation{}, inv...)
	after = caller
	return
}

func keysOf(m map[string]string) []string {
	var out []string
	for k := range m {
		out = append(out, k)
	}
	sort.Strings(out)
	return out
}

func publicNameOf(list []byte) string {
	cfgs, err := tlsref.ParseConfigList(list)
	if err != nil || len(cfgs) != 1 {
		return "<unparseable>"
	}
	return string(cfgs[0].PublicName)
}

func check(sc scenario, inv []invocation, before, after, caller *tls.Config, expectECH map[string][]byte, expectHost map[string]string) (key, what string) {
	if before != nil {
		// tls.Config has unexported state; compare the exported fields the property talks about and a few more
		if before.ServerName != after.ServerName || !reflect.DeepEqual(before.EncryptedClientHelloConfigList, after.EncryptedClientHelloConfigList) ||
			!reflect.DeepEqual(before.NextProtos, after.NextProtos) || before.MinVersion != after.MinVersion || before.InsecureSkipVerify != after.InsecureSkipVerify {
			return "caller-config-mutated", fmt.Sprintf("caller's tls.Config changed: ServerName %q -> %q, ECH list %x -> %x", before.ServerName, after.ServerName, before.EncryptedClientHelloConfigList, after.EncryptedClientHelloConfigList)
		}
	}
	retries := map[int]int{}
	for i, iv := range inv {
		if iv.tcPtr == nil {
			return "nil-config-passed", "DialFunc received a nil tls.Config"
		}
		if caller != nil && iv.tcPtr == caller {
			return "caller-config-passed-down", "DialFunc received the caller's own *tls.Config (not a clone)"
		}
		if sc.RequireECH && len(iv.list) == 0 {
			// (a list of length zero - an empty ech parameter in the record - is no list: crypto/tls happens to fail closed on it,
			// a DialFunc of the caller's need not)
			return "require-ech-violated", fmt.Sprintf("invocation %d (%s) has no ECH config list (nil=%v, %d bytes) although RequireECH is set", i, iv.addr, iv.list == nil, len(iv.list))
		}
		if _, known := expectHost[iv.addr]; !known {
			return "unexpected-address", fmt.Sprintf("invocation %d dials %s, which no record of this world produces (expected one of %v)", i, iv.addr, keysOf(expectHost))
		}
		wantSN := expectHost[iv.addr]
		if sc.CallerSN && !sc.NilConfig {
			wantSN = "caller-name.example"
		}
		if iv.sn != wantSN {
			return "server-name", fmt.Sprintf("invocation %d (%s): ServerName %q, want %q", i, iv.addr, iv.sn, wantSN)
		}
		if iv.retryOf >= 0 {
			retries[iv.retryOf]++
			prev := inv[iv.retryOf]
			if prev.addr != iv.addr {
				return "retry-other-address", "retry went to another address"
			}
			if string(iv.list) != string(listR1) {
				return "retry-list", fmt.Sprintf("retry used list %x, want exactly the server's retry configs %x", iv.list, listR1)
			}
			continue
		}
		// first attempt to this address
		switch {
		case sc.CallerECH && !sc.NilConfig:
			if string(iv.list) != string(listCaller) {
				return "caller-ech-list-replaced", fmt.Sprintf("invocation %d (%s): ECH list %x, caller supplied %x", i, iv.addr, iv.list, listCaller)
			}
		case expectECH[iv.addr] != nil:
			if iv.list == nil && len(expectECH[iv.addr]) == 0 {
				return "empty-ech-list-became-nil", fmt.Sprintf("invocation %d (%s): the HTTPS record carries an empty ech parameter; DialFunc received NO list (nil), i.e. a plaintext hello would be sent", i, iv.addr)
			}
			if string(iv.list) != string(expectECH[iv.addr]) {
				return "wrong-record-ech-list", fmt.Sprintf("invocation %d (%s): ECH list with public name %q, the HTTPS record that produced this address carries %q", i, iv.addr, publicNameOf(iv.list), publicNameOf(expectECH[iv.addr]))
			}
		case sc.PublicName != "":
			if iv.list == nil || publicNameOf(iv.list) != sc.PublicName {
				return "public-name-bootstrap", fmt.Sprintf("invocation %d (%s): expected a bootstrap config list for public name %q, got %q", i, iv.addr, sc.PublicName, publicNameOf(iv.list))
			}
		default:
			if iv.list != nil {
				return "ech-list-from-nowhere", fmt.Sprintf("invocation %d (%s): ECH list (public name %q) although neither the caller, the DNS record nor PublicName provides one", i, iv.addr, publicNameOf(iv.list))
			}
		}
	}
	for i, iv := range inv {
		want := 0
		if iv.outcome == oRejectRetry && iv.retryOf < 0 && !iv.ctxDone {
			want = 1
		}
		if retries[i] != want {
			return fmt.Sprintf("retry-count-%d-want-%d", retries[i], want), fmt.Sprintf("invocation %d (%s, outcome %d, is-retry=%v) was followed by %d retries, want %d", i, iv.addr, iv.outcome, iv.retryOf >= 0, retries[i], want)
		}
	}
	return "", ""
}

// reuse: ONE long-lived Dialer (as a Transport holds one) whose exported settings the application changes between Dials: each
// Dial goes by the settings of its own time - every sequence of <= 3 Dials over PublicName {"", p.example, q.example, an
// unencodable 300-octet name} x RequireECH, to a host that has no ECH list of its own.
func reuse(r *ev.Run) {
	host := "doh-c17-reuse.test"
	srv := mux.Server(host)
	srv.Zone = func(name string, t uint16) dohmem.Answer {
		if name == "plain.example" && t == 1 {
			return dohmem.Answer{Records: []dnsref.RR{a("plain.example", 192, 0, 2, 77)}}
		}
		return dohmem.Answer{}
	}
	res, _ := ech.NewResolver("https://" + host + "/dns-query")
	type setting struct {
		pn  string
		req bool
	}
	var settings []setting
	for _, pn := range []string{"", "p.example", "q.example", strings.Repeat("x", 300)} {
		for _, req := range []bool{false, true} {
			settings = append(settings, setting{pn, req})
		}
	}
	enum.Sequences(len(settings), 3, func(seq []int) {
		if len(seq) == 0 {
			return
		}
		var lists [][]byte
		var calls int
		d := &ech.Dialer[*fakeConn]{Resolver: res, MaxConcurrency: 1, ConcurrencyDelay: time.Millisecond, Timeout: 10 * time.Second}
		d.DialFunc = func(ctx context.Context, network, addr string, tc *tls.Config) (*fakeConn, error) {
			calls++
			var l []byte
			if tc != nil && tc.EncryptedClientHelloConfigList != nil {
				l = append([]byte{}, tc.EncryptedClientHelloConfigList...)
			}
			lists = append(lists, l)
			return nil, errors.New("connection refused")
		}
		desc := ""
		for step, si := range seq {
			st := settings[si]
			d.PublicName, d.RequireECH = st.pn, st.req
			desc += fmt.Sprintf("[PublicName=%.12q RequireECH=%v]", st.pn, st.req)
			lists, calls = nil, 0
			_, err := d.Dial(context.Background(), "tcp", "plain.example:443", nil)
			what := ""
			switch {
			case err == nil:
				what = "Dial succeeded although every attempt is refused"
			case len(st.pn) > 255 && calls > 0:
				what = fmt.Sprintf("PublicName is a %d-octet name from which no config can be built, yet %d attempt(s) were made", len(st.pn), calls)
			case len(st.pn) > 255:
			case st.pn != "" && (calls != 1 || lists[0] == nil || publicNameOf(lists[0]) != st.pn):
				got := "no attempt"
				if calls > 0 {
					got = fmt.Sprintf("%d attempt(s), list for public name %q", calls, publicNameOf(lists[0]))
				}
				what = fmt.Sprintf("PublicName is %q now: expected one attempt with a bootstrap list for that name, got %s", st.pn, got)
			case st.pn == "" && st.req && calls > 0:
				what = "RequireECH is set now and nothing provides a list, yet an attempt was made"
			case st.pn == "" && !st.req && (calls != 1 || lists[0] != nil):
				what = fmt.Sprintf("no PublicName now: expected one attempt without a list, got %d attempt(s)", calls)
			}
			if what != "" {
				r.Violation("dialer-reuse:settings-of-an-earlier-dial", fmt.Sprintf("Dial number %d on one Dialer, settings over time %s: %s", step+1, desc, what), desc)
				break
			}
		}
		r.Eval("reuse:"+fmt.Sprint(seq), "dialer reuse: each Dial goes by the settings of its time")
	})
}

// histories (round 14): ONE long-lived Dialer and a HISTORY OF OUTCOMES. Every clause of the property speaks about one Dial: the
// list of an attempt is the caller's, else the one of the HTTPS record that produced the address of THIS resolution, else the
// PublicName bootstrap; the configs of a retry are exactly those of the rejection it answers. Nothing an earlier Dial met - its
// lists, the retry configs a server handed out, whether its retry went well - is among these sources. So call 1 goes through every
// outcome plan the check knows (ok / error / rejection without retry configs / rejection with retry configs followed by ok, error,
// a rejection without and with configs), alone or as the second comma element after a target that fails, and call 2 then reaches
// the same ip:port (same host, another host behind the same address with another list, a host without a list), the same IP on
// another port, or another address, with every caller config and with outcome plans of its own whose rejections carry OTHER retry
// configs than call 1's. Oracle: the DialFunc argument log of call 2 (address, ServerName, list - PublicName bootstrap lists by
// the public name they carry, since their key is random) and its success are exactly those of a FRESH Dialer with the same
// settings that makes call 2 alone; the caller's tls.Config is unchanged after each call. Invocations are attributed to their
// call through a value in the caller's context, so nothing depends on timing.
type hcall struct {
	Addr string `json:"addr"`
	Cfg  int    `json:"caller_config"` // 0 nil, 1 plain, 2 own ECH list, 3 own ECH list and ServerName
	Plan []int  `json:"attempt_outcomes"`
}

type hcallKey struct{}

type hcallState struct {
	mu         sync.Mutex
	plan       []int
	retry      [2][]byte
	rejections int
	log        []string
	lists      [][]byte
}

func histListLabel(l []byte) string {
	switch {
	case l == nil:
		return "none"
	case len(l) == 0:
		return "empty"
	case string(l) == string(listE1):
		return "record-list-E1"
	case string(l) == string(listE2):
		return "record-list-E2"
	case string(l) == string(listCaller):
		return "caller's-list"
	case string(l) == string(listR1):
		return "retry-configs-R1"
	case string(l) == string(listR2):
		return "retry-configs-R2"
	}
	return "list-for-public-name:" + publicNameOf(l)
}

func histDialer(res *ech.Resolver, req bool, pn string) *ech.Dialer[*fakeConn] {
	d := &ech.Dialer[*fakeConn]{RequireECH: req, PublicName: pn, Resolver: res, MaxConcurrency: 1, ConcurrencyDelay: time.Millisecond, Timeout: 10 * time.Second}
	d.DialFunc = func(ctx context.Context, network, addr string, tc *tls.Config) (*fakeConn, error) {
		st, _ := ctx.Value(hcallKey{}).(*hcallState)
		if st == nil {
			return nil, errors.New("attempt outside every call of this check")
		}
		st.mu.Lock()
		defer st.mu.Unlock()
		i := len(st.log)
		sn, label := "", "<nil tls.Config>"
		var l []byte
		if tc != nil {
			sn = tc.ServerName
			if tc.EncryptedClientHelloConfigList != nil {
				l = append([]byte{}, tc.EncryptedClientHelloConfigList...)
			}
			label = histListLabel(l)
		}
		st.log = append(st.log, fmt.Sprintf("%s %s ServerName=%q list=%s", network, addr, sn, label))
		st.lists = append(st.lists, l)
		if ctx.Err() != nil {
			return nil, ctx.Err()
		}
		o := oErr
		if i < len(st.plan) {
			o = st.plan[i]
		}
		switch o {
		case oOK:
			return &fakeConn{i}, nil
		case oErr:
			return nil, errors.New("connection refused")
		case oRejectNoRetry:
			return nil, fmt.Errorf("handshake: %w", &tls.ECHRejectionError{})
		}
		rej := &tls.ECHRejectionError{RetryConfigList: append([]byte{}, st.retry[st.rejections%2]...)}
		st.rejections++
		if i%2 == 1 {
			return nil, errors.Join(errors.New("dial: first transport failed"), fmt.Errorf("handshake: %w", rej))
		}
		return nil, fmt.Errorf("handshake: %w", rej)
	}
	return d
}

// histCall makes the n-th call (0-based) of a history on d; the server's retry configs differ from call to call.
func histCall(d *ech.Dialer[*fakeConn], c hcall, n int) (st *hcallState, ok bool, mutated string) {
	st = &hcallState{plan: c.Plan, retry: [2][]byte{listR1, listR2}}
	if n%2 == 1 {
		st.retry = [2][]byte{listR2, listR1}
	}
	var caller, before *tls.Config
	if c.Cfg > 0 {
		caller = &tls.Config{MinVersion: tls.VersionTLS12, NextProtos: []string{"h2"}}
		if c.Cfg >= 2 {
			caller.EncryptedClientHelloConfigList = append([]byte{}, listCaller...)
		}
		if c.Cfg == 3 {
			caller.ServerName = "caller-name.example"
		}
		before = caller.Clone()
	}
	_, err := d.Dial(context.WithValue(context.Background(), hcallKey{}, st), "tcp", c.Addr, caller)
	if before != nil && (before.ServerName != caller.ServerName || !reflect.DeepEqual(before.EncryptedClientHelloConfigList, caller.EncryptedClientHelloConfigList) ||
		!reflect.DeepEqual(before.NextProtos, caller.NextProtos) || before.MinVersion != caller.MinVersion) {
		mutated = fmt.Sprintf("ServerName %q -> %q, ECH list %s -> %s", before.ServerName, caller.ServerName, histListLabel(before.EncryptedClientHelloConfigList), histListLabel(caller.EncryptedClientHelloConfigList))
	}
	st.mu.Lock()
	defer st.mu.Unlock()
	st.log = append([]string{}, st.log...)
	return st, err == nil, mutated
}

func histories(r *ev.Run) {
	zone := func(name string, t uint16) dohmem.Answer {
		switch fmt.Sprintf("%s/%d", name, t) {
		case "ha.example/1":
			return dohmem.Answer{Records: []dnsref.RR{a("ha.example", 192, 0, 2, 50)}}
		case "hb.example/1":
			return dohmem.Answer{Records: []dnsref.RR{a("hb.example", 192, 0, 2, 50)}}
		case "hc.example/1":
			return dohmem.Answer{Records: []dnsref.RR{a("hc.example", 192, 0, 2, 50)}}
		case "hd.example/1":
			return dohmem.Answer{Records: []dnsref.RR{a("hd.example", 192, 0, 2, 51)}}
		case "he.example/1":
			return dohmem.Answer{Records: []dnsref.RR{a("he.example", 192, 0, 2, 50)}}
		case "ha.example/65":
			return dohmem.Answer{Records: []dnsref.RR{https("ha.example", 1, "", listE1, 0)}}
		case "hb.example/65":
			return dohmem.Answer{Records: []dnsref.RR{https("hb.example", 1, "", listE2, 0)}}
		case "hd.example/65":
			return dohmem.Answer{Records: []dnsref.RR{https("hd.example", 1, "", listE1, 0)}}
		case "he.example/65": // the shared IP on another port
			return dohmem.Answer{Records: []dnsref.RR{https("he.example", 1, "", listE2, 8443)}}
		}
		return dohmem.Answer{}
	}
	type setting struct {
		req bool
		pn  string
	}
	settings := []setting{{false, ""}, {true, ""}, {false, "p.example"}, {true, "p.example"}}
	plans := [][]int{{oOK}, {oErr}, {oRejectNoRetry}, {oRejectRetry, oOK}, {oRejectRetry, oErr}, {oRejectRetry, oRejectNoRetry}, {oRejectRetry, oRejectRetry}}
	plans2, cfgs1 := plans, []int{0, 1, 2, 3}
	var calls1, calls2 []hcall
	for _, addr := range []string{"ha.example:443", "hc.example:443", "hd.example:443, ha.example:443"} {
		for _, cfg := range cfgs1 {
			for _, p := range plans {
				if strings.Contains(addr, ",") {
					p = append([]int{oErr}, p...) // the first element's target fails: the shared address is reached as a later target
				}
				calls1 = append(calls1, hcall{addr, cfg, p})
			}
		}
	}
	for _, addr := range []string{"ha.example:443", "hb.example:443", "hc.example:443", "hd.example:443", "he.example:443"} {
		for cfg := 0; cfg < 4; cfg++ {
			for _, p := range plans2 {
				calls2 = append(calls2, hcall{addr, cfg, p})
			}
		}
	}
	type outcome struct {
		log []string
		ok  bool
	}
	run := func(res *ech.Resolver, st setting, c1 *hcall, c2 hcall) (o outcome, lists1 [][]byte, mutated string) {
		d := histDialer(res, st.req, st.pn)
		n := 0
		if c1 != nil {
			s1, _, m1 := histCall(d, *c1, 0)
			if m1 != "" {
				return o, nil, "call 1: " + m1
			}
			lists1, n = s1.lists, 1
		}
		s2, ok, m2 := histCall(d, c2, 1)
		if m2 != "" {
			mutated = fmt.Sprintf("call %d: %s", n+1, m2)
		}
		return outcome{s2.log, ok}, lists1, mutated
	}
	// how call 2 on the used Dialer differs from call 2 on a fresh one
	diff := func(got, want outcome, lists1 [][]byte) (key, what string) {
		for i := 0; i < len(got.log) && i < len(want.log); i++ {
			if got.log[i] == want.log[i] {
				continue
			}
			g, w := strings.SplitN(got.log[i], " list=", 2), strings.SplitN(want.log[i], " list=", 2)
			key = "dialer-history:attempt-differs-from-a-fresh-dialer's"
			if g[0] == w[0] {
				key = "dialer-history:ech-list-differs-from-a-fresh-dialer's"
				for _, l := range lists1 {
					if l != nil && histListLabel(l) == g[1] {
						key = "dialer-history:ech-list-of-an-earlier-dial"
					}
				}
			}
			return key, fmt.Sprintf("attempt %d of call 2 is [%s]; a fresh Dialer's is [%s]", i+1, got.log[i], want.log[i])
		}
		if len(got.log) != len(want.log) {
			return "dialer-history:attempt-count-differs-from-a-fresh-dialer's", fmt.Sprintf("call 2 makes %d attempt(s) %v; on a fresh Dialer it makes %d %v", len(got.log), got.log, len(want.log), want.log)
		}
		if got.ok != want.ok {
			return "dialer-history:result-differs-from-a-fresh-dialer's", fmt.Sprintf("call 2 succeeded=%v; on a fresh Dialer succeeded=%v (same attempts %v)", got.ok, want.ok, want.log)
		}
		return "", ""
	}
	type item struct{ si, c1 int }
	var items []item
	for si := range settings {
		for c1 := range calls1 {
			items = append(items, item{si, c1})
		}
	}
	nShard := 16
	var n int64
	var mu sync.Mutex
	enum.ParallelFor(nShard, func(sh int) {
		host := fmt.Sprintf("doh-c17-hist-%d.test", sh)
		mux.Server(host).Zone = zone
		res, _ := ech.NewResolver("https://" + host + "/dns-query")
		fresh := map[[2]int]outcome{}
		var cnt int64
		for ii := sh; ii < len(items); ii += nShard {
			it := items[ii]
			st, c1 := settings[it.si], calls1[it.c1]
			for c2i, c2 := range calls2 {
				want, have := fresh[[2]int{it.si, c2i}]
				if !have {
					var m string
					want, _, m = run(res, st, nil, c2)
					if m != "" {
						r.Violation("caller-config-mutated", "caller's tls.Config changed: "+m, map[string]any{"require_ech": st.req, "public_name": st.pn, "call": c2})
					}
					fresh[[2]int{it.si, c2i}] = want
				}
				replay := map[string]any{"require_ech": st.req, "public_name": st.pn, "call_1": c1, "call_2": c2}
				got, lists1, m := run(res, st, &c1, c2)
				cnt++
				if m != "" {
					r.Violation("caller-config-mutated", "one Dialer, two calls; caller's tls.Config changed: "+m, replay)
				}
				if key, what := diff(got, want, lists1); key != "" {
					// reported only if the same history fails the same way each time
					same := 1
					for i := 0; i < 4; i++ {
						g2, l2, _ := run(res, st, &c1, c2)
						w2, _, _ := run(res, st, nil, c2)
						if k2, _ := diff(g2, w2, l2); k2 == key {
							same++
						}
					}
					if same == 5 {
						r.Violation(key, fmt.Sprintf("one Dialer (RequireECH=%v PublicName=%q); call 1 %+v, then call 2 %+v: %s", st.req, st.pn, c1, c2, what), replay)
					} else {
						r.Add("unstable", 1)
					}
				}
				r.Eval(fmt.Sprintf("history:%d/%d/%d", it.si, it.c1, c2i), fmt.Sprintf("history: call-2 attempts=%d success=%v", len(got.log), got.ok))
			}
		}
		mu.Lock()
		n += cnt
		mu.Unlock()
	})
	r.Set("outcome_histories", n)
}

func Run(r *ev.Run) {
	r.Rule("E1 x E2: resolution worlds {no HTTPS; one record with/without ECH; a preferred record whose target has no address followed by one for the origin; two records with ECH on first/second/both (different targets, ports, lists); alias to a service record with ECH; target with own address} x caller config {nil, plain, ServerName set, ECH list set, both} x RequireECH x PublicName {'', p.example} x address {host:port, IP literal, two comma-separated hosts (the second on port 8443), two hosts with blanks around the comma the second of which has no port}; per scenario EVERY tree of attempt outcomes {ok, error, ECH rejection without retry configs, rejection with retry configs} at every DialFunc invocation (deviation bound: unlimited quick up to depth of the run; MaxConcurrency 1 so that invocations are sequential). Oracle on the argument log of DialFunc. Histories on ONE Dialer: every sequence of <= 3 Dials over changed settings; call 1 with every outcome plan (alone or after a failing target) followed by call 2 to the same ip:port / the same IP on another port / another address x caller config x outcome plan, whose argument log must be that of a fresh Dialer making call 2 alone. distinct = distinct (scenario, outcome vector)")
	r.Assume("expected per-address ECH lists and the set of dialled addresses are written by hand per world from RFC 9460 (independent of ResolveResult.Targets)", "real goroutines of Dial run outside a scheduler; MaxConcurrency=1 makes the invocation log sequential; a failing execution is re-run 5 times and reported only if it fails each time")
	muxOnce.Do(func() { dns.VerifRoundTripper = mux })
	ws := worlds()
	var scs []scenario
	for wi, w := range ws {
		for _, cfg := range [][3]bool{{true, false, false}, {false, false, false}, {false, true, false}, {false, false, true}, {false, true, true}} {
			for _, req := range []bool{false, true} {
				for _, pn := range []string{"", "p.example"} {
					for _, addr := range []string{"o.example:443", "192.0.2.9:443", "o.example:443, o2.example:8443", "o.example:443 , o3.example"} {
						scs = append(scs, scenario{wi, w.Name, cfg[1], cfg[2], cfg[0], req, pn, addr})
					}
				}
			}
		}
	}
	r.Set("scenarios", len(scs))
	nShard := 32
	var execs, points int64
	var mu sync.Mutex
	enum.ParallelFor(nShard, func(sh int) {
		host := fmt.Sprintf("doh-c17-%d.test", sh)
		for si := sh; si < len(scs); si += nShard {
			sc := scs[si]
			w := ws[sc.World]
			var vkey, vwhat string
			var vvec []int
			outcomes := map[string]int{}
			e := &vsched.Explorer{Bound: 6, MaxExecs: 20000}
			body := func(choose vsched.Chooser) (string, string, int) {
				inv, _, before, after, caller, eECH, eHost := runOnce(sc, w, host, choose)
				k, wh := check(sc, inv, before, after, caller, eECH, eHost)
				return k, wh, len(inv)
			}
			e.Body = func(x *vsched.Execution, choose vsched.Chooser) {
				k, wh, n := body(choose)
				outcomes[fmt.Sprintf("invocations=%d", n)]++
				if k != "" && vkey == "" {
					vec := x.Vector()
					fails := 1
					for i := 0; i < 4; i++ {
						pos := 0
						k2, _, _ := body(func(n int, kind string) int {
							p := 0
							if pos < len(vec) && vec[pos] < n {
								p = vec[pos]
							}
							pos++
							return p
						})
						if k2 == k {
							fails++
						}
					}
					if fails == 5 {
						vkey, vwhat, vvec = k, wh, vec
					} else {
						r.Add("unstable", 1)
					}
				}
			}
			e.Explore()
			mu.Lock()
			execs += int64(e.Executions)
			points += int64(e.ChoicePoints)
			mu.Unlock()
			if e.Capped {
				r.Cap(fmt.Sprintf("scenario %+v: execution cap", sc))
			}
			if vkey != "" {
				r.Violation(vkey, vwhat, map[string]any{"scenario": sc, "outcome_vector": vvec})
			}
			r.Eval(fmt.Sprintf("%+v", sc), fmt.Sprintf("world=%s distinct-invocation-counts=%d", sc.WorldName, len(outcomes)))
			if si%97 == 5 {
				r.Sample(map[string]any{"scenario": sc, "executions": e.Executions, "invocation_counts": outcomes})
			}
		}
	})
	r.Set("executions", execs)
	r.Set("outcome_choice_points", points)
	reuse(r)
	histories(r)
	// supplementary and sampled; reported separately, never counted as exploration: the DialFunc that NewDialer installs (which
	// the scenarios above replace by a fake) called concurrently with different TLS configs shares nothing between attempts
	racepass.Run(r, "./checks/c17/racepass/", "concurrent attempts of the Dialer that NewDialer returns", "8 goroutines x 40 attempts, each with its own tls.Config, against a loopback listener")
}

// Debug runs one scenario with a fixed outcome vector (development aid).
func Debug() string {
	muxOnce.Do(func() { dns.VerifRoundTripper = mux })
	ws := worlds()
	sc := scenario{1, ws[1].Name, false, false, false, false, "", "o.example:443"}
	vec := []int{3, 3, 3, 0}
	pos := 0
	inv, err, before, after, caller, eE, eH := runOnce(sc, ws[1], "dbg.test", func(n int, kind string) int {
		p := 0
		if pos < len(vec) {
			p = vec[pos]
		}
		pos++
		return p
	})
	k, w := check(sc, inv, before, after, caller, eE, eH)
	s := fmt.Sprintf("err=%v key=%q %s\n", err, k, w)
	for i, iv := range inv {
		s += fmt.Sprintf("%d: addr=%s outcome=%d retryOf=%d list=%s ctxDone=%v\n", i, iv.addr, iv.outcome, iv.retryOf, publicNameOf(iv.list), iv.ctxDone)
	}
	return s
}
