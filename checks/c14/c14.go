// Package c14 decides C14: Resolve follows RFC 9460 and uses only answers that
// belong to the name asked. Reference resolver model + total replay over an
// exhaustively enumerated universe of zones x name forms (E1/E4, dohmem).
package c14

import (
	"context"
	"errors"
	"fmt"
	"io"
	"log"
	"net"
	"slices"
	"sort"
	"strings"
	"sync/atomic"
	"time"

	"github.com/c2FmZQ/ech"
	"github.com/c2FmZQ/ech/dns"

	"verif/internal/dnsref"
	"verif/internal/dohmem"
	"verif/internal/enum"
	"verif/internal/ev"
)

const origin = "o.example"

var errAny = errors.New("any error")

// ---- universe ----

type svc struct {
	Prio   int    `json:"prio"`
	Target string `json:"target"` // "" = "." (the owner itself)
	Port   int    `json:"port,omitempty"`
	ECH    bool   `json:"ech,omitempty"`
}

// httpsSpec describes the HTTPS data reachable from the origin's SVCB query name.
type httpsSpec struct {
	Kind     string `json:"kind"`            // none | rcode | alias | service
	RCode    int    `json:"rcode,omitempty"` // for kind rcode (at the origin) or terminal "rcode"
	Chain    int    `json:"alias_chain_len,omitempty"`
	Terminal string `json:"terminal,omitempty"` // for alias chains: none | service | dot | loop-origin | loop-first | loop-self | rcode
	Svcs     []svc  `json:"services,omitempty"`
	// WithAnswer (kind rcode): the failing response nevertheless carries an answer section (a CNAME and an HTTPS record for its target)
	WithAnswer bool `json:"rcode_response_has_answer,omitempty"`
	// Underscore: the last name of the alias chain begins with an underscore label (e.g. _edge.a1.example), like the
	// resolver's own prefixed query names but not one of them
	Underscore bool `json:"last_alias_starts_with_underscore,omitempty"`
}

type universe struct {
	HTTPS     httpsSpec `json:"https"`
	AddrA     bool      `json:"final_has_a"`
	AddrAAAA  bool      `json:"final_has_aaaa"`
	AddrRCode int       `json:"final_addr_rcode,omitempty"` // rcode of the A/AAAA lookups of the final name
	CNAME     bool      `json:"final_addr_via_cname,omitempty"`
	T1        int       `json:"target1_addrs"` // 0 none, 1 A, 2 A+AAAA, 3 SERVFAIL
	Poison    bool      `json:"poison"`
	Form      int       `json:"name_form"`
}

type form struct {
	In    string
	QName string // HTTPS query name ("" = no DNS at all)
	Port  int
	Host  string
}

var forms = []form{
	{origin, origin, 443, origin},
	{origin + ":443", origin, 443, origin},
	{origin + ":80", origin, 80, origin},
	{origin + ":8443", "_8443._https." + origin, 8443, origin},
	{"https://" + origin, origin, 443, origin},
	{"http://" + origin, origin, 443, origin},
	{"http://" + origin + ":80/index.html", origin, 80, origin},
	{"https://" + origin + ":8443/a?b=c", "_8443._https." + origin, 8443, origin},
	{"http://" + origin + ":8080", "_8080._https." + origin, 8080, origin},
	{"foo://" + origin + ":123", "_123._foo." + origin, 123, origin},
	{"FOO://" + origin + ":123", "_123._foo." + origin, 123, origin},
	{origin + ".", origin, 443, origin},
}

func aliasName(i int) string { return fmt.Sprintf("a%d.example", i) }

var (
	ipO4  = net.IP{192, 0, 2, 10}
	ipO6  = net.ParseIP("2001:db8::10")
	ipT4  = net.IP{198, 51, 100, 1}
	ipT4b = net.IP{198, 51, 100, 2}
	ipT6  = net.ParseIP("2001:db8::a1")
	ipX4  = net.IP{203, 0, 113, 66}
	ipX6  = net.ParseIP("2001:db8::bad")
	ipC4  = net.IP{192, 0, 2, 77}
)

// zone is the concrete DNS data: (name,type) -> answer.
type zone struct {
	data   map[string]dohmem.Answer
	poison bool
}

func zkey(name string, t uint16) string { return fmt.Sprintf("%s/%d", name, t) }

func httpsRR(owner string, s svc) dnsref.RR {
	var ps []dnsref.Param
	ps = append(ps, dnsref.ParamALPN("h2"))
	if s.Port > 0 {
		ps = append(ps, dnsref.ParamPort(uint16(s.Port)))
	}
	if s.ECH {
		ps = append(ps, dnsref.ParamECH([]byte{0, 4, 0xfe, 0x0d, byte(s.Prio), 0}))
	}
	return dnsref.RR{Name: owner, Type: 65, Class: 1, TTL: 60, Fields: dnsref.SVCB(uint16(s.Prio), s.Target, ps)}
}

func aliasRR(owner, target string) dnsref.RR {
	return dnsref.RR{Name: owner, Type: 65, Class: 1, TTL: 60, Fields: dnsref.SVCB(0, target, nil)}
}

// build constructs the zone and the model's expectation for a universe.
type expectation struct {
	// acceptable outcomes
	errIs      []error // if non-empty, Resolve must fail with one of these (errors.Is)
	mayFail    bool    // an error is acceptable in addition to results (loops / over-long chains)
	results    []ech.ResolveResult
	allowedQ   map[string]bool
	maxQueries int
	noQueries  bool
}

func build(u universe) (*zone, expectation) {
	f := forms[u.Form]
	z := &zone{data: map[string]dohmem.Answer{}, poison: u.Poison}
	exp := expectation{allowedQ: map[string]bool{}, maxQueries: 4 + 2*2 + 2 + 8}
	allow := func(name string, types ...uint16) {
		for _, t := range types {
			exp.allowedQ[zkey(name, t)] = true
		}
	}
	// names whose addresses may matter
	addrs := func(name string, a, aaaa bool, rcode int, viaCNAME bool) (ips []net.IP) {
		if rcode < 0 {
			// only the AAAA lookup fails (with -rcode); the A lookup answers
			z.data[zkey(name, 1)] = dohmem.Answer{Records: []dnsref.RR{{Name: name, Type: 1, Class: 1, TTL: 60, Fields: []dnsref.Field{{Raw: ipO4}}}}}
			z.data[zkey(name, 28)] = dohmem.Answer{RCode: -rcode}
			return nil
		}
		if rcode != 0 && !viaCNAME {
			z.data[zkey(name, 1)] = dohmem.Answer{RCode: rcode}
			z.data[zkey(name, 28)] = dohmem.Answer{RCode: rcode}
			return nil
		}
		if rcode != 0 {
			// a failing response that still carries an answer section (CNAME and the addresses of its target, as a recursive
			// resolver that failed half-way, or an NXDOMAIN for the CNAME's target, would send): the response code decides
			pre := []dnsref.RR{{Name: name, Type: 5, Class: 1, TTL: 60, Fields: []dnsref.Field{dnsref.N("c.example")}}}
			z.data[zkey(name, 1)] = dohmem.Answer{RCode: rcode, Records: append(pre, dnsref.RR{Name: "c.example", Type: 1, Class: 1, TTL: 60, Fields: []dnsref.Field{{Raw: ipC4}}})}
			z.data[zkey(name, 28)] = dohmem.Answer{RCode: rcode, Records: append(pre[:1:1], dnsref.RR{Name: "c.example", Type: 28, Class: 1, TTL: 60, Fields: []dnsref.Field{{Raw: ipO6}}})}
			return nil
		}
		owner := name
		var pre []dnsref.RR
		if viaCNAME {
			owner = "C.Example" // as spelled by the zone: the chain is followed with that very spelling
			pre = []dnsref.RR{{Name: name, Type: 5, Class: 1, TTL: 60, Fields: []dnsref.Field{dnsref.N(owner)}}}
		}
		ip4, ip6 := ipO4, ipO6
		if viaCNAME {
			ip4 = ipC4
		}
		if a {
			z.data[zkey(name, 1)] = dohmem.Answer{Records: append(append([]dnsref.RR{}, pre...), dnsref.RR{Name: owner, Type: 1, Class: 1, TTL: 60, Fields: []dnsref.Field{{Raw: ip4}}})}
			ips = append(ips, ip4)
		} else if viaCNAME {
			z.data[zkey(name, 1)] = dohmem.Answer{Records: pre}
		}
		if aaaa {
			z.data[zkey(name, 28)] = dohmem.Answer{Records: append(append([]dnsref.RR{}, pre...), dnsref.RR{Name: owner, Type: 28, Class: 1, TTL: 60, Fields: []dnsref.Field{{Raw: ip6}}})}
			ips = append(ips, ip6)
		} else if viaCNAME {
			z.data[zkey(name, 28)] = dohmem.Answer{Records: pre}
		}
		return ips
	}
	// target t1 addresses
	var t1ips []net.IP
	t1ok := true
	switch u.T1 {
	case 1:
		z.data[zkey("t1.example", 1)] = dohmem.Answer{Records: []dnsref.RR{{Name: "t1.example", Type: 1, Class: 1, TTL: 60, Fields: []dnsref.Field{{Raw: ipT4}}}}}
		t1ips = []net.IP{ipT4}
	case 2:
		z.data[zkey("t1.example", 1)] = dohmem.Answer{Records: []dnsref.RR{{Name: "t1.example", Type: 1, Class: 1, TTL: 60, Fields: []dnsref.Field{{Raw: ipT4}}}}}
		z.data[zkey("t1.example", 28)] = dohmem.Answer{Records: []dnsref.RR{{Name: "t1.example", Type: 28, Class: 1, TTL: 60, Fields: []dnsref.Field{{Raw: ipT6}}}}}
		t1ips = []net.IP{ipT4, ipT6}
	case 3, 4:
		z.data[zkey("t1.example", 1)] = dohmem.Answer{RCode: 2}
		z.data[zkey("t1.example", 28)] = dohmem.Answer{RCode: 2}
		t1ok = false
	}
	var t2ips []net.IP
	if u.T1 >= 4 || u.T1 == 2 {
		// the second target has addresses of its own: a failing first target must not hide them
		z.data[zkey("t2.example", 1)] = dohmem.Answer{Records: []dnsref.RR{{Name: "t2.example", Type: 1, Class: 1, TTL: 60, Fields: []dnsref.Field{{Raw: ipT4b}}}}}
		t2ips = []net.IP{ipT4b}
	}
	_ = t1ok

	// walk the HTTPS data
	final := f.Host    // the name whose A/AAAA are the result's Address
	var services []svc // service-mode set at the end
	var httpsErr error // fatal error from an HTTPS lookup
	looped, tooLong := false, false
	qname := f.QName
	allow(qname, 65)
	h := u.HTTPS
	setSvc := func(owner string) {
		var rrs []dnsref.RR
		services = nil
		for _, s := range h.Svcs {
			// SELF: the target spells out the name the records were found at (instead of "."); ORIGIN: it spells out the host
			// that was asked for (the same name unless an alias chain led elsewhere)
			switch s.Target {
			case "SELF":
				s.Target = final
			case "ORIGIN":
				s.Target = f.Host
			}
			rrs = append(rrs, httpsRR(owner, s))
			services = append(services, s)
		}
		z.data[zkey(owner, 65)] = dohmem.Answer{Records: rrs}
	}
	rcodeErr := map[int]error{1: ech.ErrFormatError, 2: ech.ErrServerFailure, 3: ech.ErrNonExistentDomain, 4: ech.ErrNotImplemented, 5: ech.ErrQueryRefused}
	switch h.Kind {
	case "none":
	case "rcode":
		z.data[zkey(qname, 65)] = dohmem.Answer{RCode: h.RCode}
		if h.WithAnswer {
			z.data[zkey(qname, 65)] = dohmem.Answer{RCode: h.RCode, Records: []dnsref.RR{
				{Name: qname, Type: 5, Class: 1, TTL: 60, Fields: []dnsref.Field{dnsref.N("cn.example")}}, httpsRR("cn.example", svc{1, "", 8443, true})}}
		}
		if h.RCode != 3 {
			httpsErr = rcodeErr[h.RCode]
			if httpsErr == nil {
				httpsErr = errAny // a failure code without a named error: any error will do, success will not
			}
		}
	case "service":
		setSvc(qname)
	case "alias":
		owner := qname
		for i := 1; i <= h.Chain; i++ {
			next := aliasName(i)
			if h.Underscore && i == h.Chain {
				next = "_edge." + next
			}
			z.data[zkey(owner, 65)] = dohmem.Answer{Records: []dnsref.RR{aliasRR(owner, next)}}
			owner = next
			allow(owner, 65)
		}
		final = owner
		if h.Chain > 3 {
			tooLong = true
		}
		switch h.Terminal {
		case "none":
		case "service":
			setSvc(owner)
		case "dot":
			z.data[zkey(owner, 65)] = dohmem.Answer{Records: []dnsref.RR{aliasRR(owner, "")}}
			// "." = the service is not available at this alias: no HTTPS data; addresses come from the last name
		case "loop-origin":
			z.data[zkey(owner, 65)] = dohmem.Answer{Records: []dnsref.RR{aliasRR(owner, qname)}}
			looped = true
		case "loop-first":
			z.data[zkey(owner, 65)] = dohmem.Answer{Records: []dnsref.RR{aliasRR(owner, aliasName(1))}}
			looped = true
		case "loop-self":
			z.data[zkey(owner, 65)] = dohmem.Answer{Records: []dnsref.RR{aliasRR(owner, owner)}}
			looped = true
		case "rcode":
			z.data[zkey(owner, 65)] = dohmem.Answer{RCode: h.RCode}
			if h.RCode != 3 && !tooLong {
				httpsErr = rcodeErr[h.RCode]
			}
			if h.RCode != 3 && tooLong {
				exp.mayFail = true // depends on whether the implementation's chain limit is reached first
				exp.errIs = nil
			}
		}
	}
	// addresses of the final name and (fallback) of the origin host
	finalIPs := addrs(final, u.AddrA, u.AddrAAAA, u.AddrRCode, u.CNAME)
	allow(final, 1, 28)
	var originIPs []net.IP
	if final != f.Host {
		originIPs = addrs(f.Host, true, false, 0, false)
		allow(f.Host, 1, 28)
	} else {
		originIPs = finalIPs
	}
	for _, s := range services {
		if s.Target != "" {
			allow(s.Target, 1, 28)
		}
	}
	mkResult := func(svcs []svc, ips []net.IP) ech.ResolveResult {
		r := ech.ResolveResult{Port: uint16(f.Port), Address: ips}
		sorted := append([]svc{}, svcs...)
		sort.SliceStable(sorted, func(i, j int) bool { return sorted[i].Prio < sorted[j].Prio })
		for _, s := range sorted {
			hh := dns.HTTPS{Priority: uint16(s.Prio), Target: s.Target, ALPN: []string{"h2"}, Port: uint16(s.Port)}
			if s.ECH {
				hh.ECH = []byte{0, 4, 0xfe, 0x0d, byte(s.Prio), 0}
			}
			r.HTTPS = append(r.HTTPS, hh)
			if s.Target == "t1.example" && len(t1ips) > 0 {
				if r.Additional == nil {
					r.Additional = map[string][]net.IP{}
				}
				r.Additional[s.Target] = t1ips
			}
			for _, own := range []struct {
				name string
				ips  []net.IP
			}{{final, ips}, {f.Host, originIPs}} {
				if s.Target == own.name && len(own.ips) > 0 {
					if r.Additional == nil {
						r.Additional = map[string][]net.IP{}
					}
					if _, done := r.Additional[s.Target]; !done {
						r.Additional[s.Target] = own.ips
					}
				}
			}
			if s.Target == "t2.example" && len(t2ips) > 0 {
				if r.Additional == nil {
					r.Additional = map[string][]net.IP{}
				}
				r.Additional[s.Target] = t2ips
			}
		}
		return r
	}
	switch {
	case httpsErr != nil:
		exp.errIs = []error{httpsErr}
	case looped:
		// loop protection: fall back to the origin's own addresses (or fail); never HTTPS data
		exp.mayFail = true
		exp.results = []ech.ResolveResult{mkResult(nil, originIPs)}
	case tooLong:
		exp.mayFail = true
		exp.results = []ech.ResolveResult{mkResult(nil, originIPs)}
		if u.AddrRCode == 0 {
			exp.results = append(exp.results, mkResult(services, finalIPs))
		}
	case u.AddrRCode < 0:
		exp.errIs = []error{rcodeErr[-u.AddrRCode]}
	case u.AddrRCode != 0:
		exp.errIs = []error{rcodeErr[u.AddrRCode]}
	default:
		exp.results = []ech.ResolveResult{mkResult(services, finalIPs)}
	}
	if (looped || tooLong) && u.AddrRCode != 0 {
		// the followed variant fails on the final name's addresses; the fallback variant uses the origin's: both fine
		exp.mayFail = true
	}
	return z, exp
}

func (z *zone) answer(name string, t uint16) dohmem.Answer {
	a, ok := z.data[zkey(name, t)]
	if !ok {
		a = dohmem.Answer{}
	}
	if z.poison && a.RCode == 0 {
		// an unrelated owner's record of the asked type, placed first
		var p dnsref.RR
		switch t {
		case 1:
			p = dnsref.RR{Name: "x.example", Type: 1, Class: 1, TTL: 60, Fields: []dnsref.Field{{Raw: ipX4}}}
		case 28:
			p = dnsref.RR{Name: "x.example", Type: 28, Class: 1, TTL: 60, Fields: []dnsref.Field{{Raw: ipX6}}}
		default:
			p = httpsRR("x.example", svc{Prio: 1, Target: "evil.example", ECH: true})
		}
		// ... and an unrelated CNAME followed by data for its target (must not redirect the chain)
		hijack := dnsref.RR{Name: "x.example", Type: 5, Class: 1, TTL: 60, Fields: []dnsref.Field{dnsref.N("evil.example")}}
		var evil dnsref.RR
		switch t {
		case 1:
			evil = dnsref.RR{Name: "evil.example", Type: 1, Class: 1, TTL: 60, Fields: []dnsref.Field{{Raw: ipX4}}}
		case 28:
			evil = dnsref.RR{Name: "evil.example", Type: 28, Class: 1, TTL: 60, Fields: []dnsref.Field{{Raw: ipX6}}}
		default:
			evil = httpsRR("evil.example", svc{Prio: 1, Target: "evil.example", ECH: true})
		}
		// ... and records owned by names that merely START with the queried name (a longer name, a sibling with a suffixed label)
		// or merely END with it (names below the queried one: a subdomain is another owner)
		var ext []dnsref.RR
		for _, owner := range []string{name + ".attacker.net", name + "-cdn.org", "evil." + name, "a.b." + name} {
			switch t {
			case 1:
				ext = append(ext, dnsref.RR{Name: owner, Type: 1, Class: 1, TTL: 60, Fields: []dnsref.Field{{Raw: ipX4}}})
			case 28:
				ext = append(ext, dnsref.RR{Name: owner, Type: 28, Class: 1, TTL: 60, Fields: []dnsref.Field{{Raw: ipX6}}})
			default:
				ext = append(ext, httpsRR(owner, svc{Prio: 1, Target: "evil.example", ECH: true}))
			}
		}
		// ... and a foreign record BETWEEN the genuine ones (RRsets need not be contiguous in an answer): what follows it still counts
		if n := len(a.Records); n >= 2 {
			mixed := append([]dnsref.RR{}, a.Records[:1]...)
			mixed = append(append(mixed, p), a.Records[1:]...)
			a.Records = mixed
		}
		if len(name) < 150 {
			a.Records = append(ext, a.Records...)
		}
		a.Records = append([]dnsref.RR{p, hijack, evil}, a.Records...)
		a.Records = append(a.Records, hijack, evil)
		a.Additional = append(a.Additional, p)
	}
	return a
}

// ---- comparison ----

func ipsKey(l []net.IP) string {
	var s []string
	for _, ip := range l {
		s = append(s, ip.String())
	}
	return strings.Join(s, ",")
}

func resultKey(r ech.ResolveResult) string {
	var b strings.Builder
	fmt.Fprintf(&b, "port=%d addr=[%s] https=[", r.Port, ipsKey(r.Address))
	for _, h := range r.HTTPS {
		fmt.Fprintf(&b, "{%d %q port=%d ech=%x alpn=%v}", h.Priority, h.Target, h.Port, h.ECH, h.ALPN)
	}
	b.WriteString("] addl=")
	var ks []string
	for k, v := range r.Additional {
		if len(v) > 0 {
			ks = append(ks, k+"="+ipsKey(v))
		}
	}
	sort.Strings(ks)
	b.WriteString(strings.Join(ks, ";"))
	return b.String()
}

// same compares results; records of equal priority may appear in any order.
func same(got, want ech.ResolveResult) bool {
	if resultKey(got) == resultKey(want) {
		return true
	}
	if len(got.HTTPS) == 2 && len(want.HTTPS) == 2 && got.HTTPS[0].Priority == got.HTTPS[1].Priority {
		g2 := got
		g2.HTTPS = []dns.HTTPS{got.HTTPS[1], got.HTTPS[0]}
		return resultKey(g2) == resultKey(want)
	}
	return false
}

func evalUniverse(r *ev.Run, u universe, srv *dohmem.Server, host string) {
	f := forms[u.Form]
	z, exp := build(u)
	srv.Reset()
	srv.Zone = z.answer
	res, _ := ech.NewResolver("https://" + host + "/dns-query")
	var got ech.ResolveResult
	var err error
	panicked := any(nil)
	func() {
		defer func() { panicked = recover() }()
		got, err = res.Resolve(context.Background(), f.In)
	}()
	replay := map[string]any{"universe": u, "name": f.In}
	if panicked != nil {
		r.Violation("panic", fmt.Sprintf("Resolve(%q) panicked: %v", f.In, panicked), replay)
		r.Eval(fmt.Sprintf("%+v", u), "panic")
		return
	}
	// query discipline
	qs := srv.Queries()
	for _, q := range qs {
		if q.Name == dohmem.Unparseable {
			r.Violation("malformed-query-sent", fmt.Sprintf("Resolve(%q) sent a DNS query that is not a well-formed RFC 1035 message", f.In), replay)
			continue
		}
		if !exp.allowedQ[zkey(q.Name, q.Type)] {
			r.Violation("unexpected-query:"+formKind(u.Form), fmt.Sprintf("Resolve(%q) queried (%s, type %d), which the RFC 9460 procedure does not ask for (allowed: %v)", f.In, q.Name, q.Type, keys(exp.allowedQ)), replay)
		}
		if q.Len%128 != 0 {
			r.Violation("query-not-padded", fmt.Sprintf("DoH query of %d bytes is not padded to a multiple of 128", q.Len), replay)
		}
	}
	if len(qs) > exp.maxQueries {
		r.Violation("too-many-queries", fmt.Sprintf("%d queries", len(qs)), replay)
	}
	oc := ""
	switch {
	case err != nil:
		oc = "error"
		okErr := exp.mayFail
		for _, e := range exp.errIs {
			if errors.Is(err, e) || e == errAny {
				okErr = true
			}
		}
		if !okErr {
			r.Violation("unexpected-error:"+u.HTTPS.Kind+":"+u.HTTPS.Terminal, fmt.Sprintf("Resolve(%q) failed with %v; model expects %s", f.In, err, expectStr(exp)), replay)
		}
	default:
		oc = "result"
		if len(exp.errIs) > 0 {
			r.Violation("missing-error:"+u.HTTPS.Kind+":"+u.HTTPS.Terminal, fmt.Sprintf("Resolve(%q) succeeded with %s; model expects error %v", f.In, resultKey(got), exp.errIs), replay)
			break
		}
		ok := false
		for _, w := range exp.results {
			if same(got, w) {
				ok = true
			}
		}
		if !ok {
			kind := "result-differs"
			if strings.Contains(resultKey(got), "203.0.113.66") || strings.Contains(resultKey(got), "2001:db8::bad") || strings.Contains(resultKey(got), "evil.example") {
				kind = "poison-used"
			}
			r.Violation(kind+":"+u.HTTPS.Kind+":"+u.HTTPS.Terminal, fmt.Sprintf("Resolve(%q):\n got  %s\n want %s", f.In, resultKey(got), expectStr(exp)), replay)
		}
	}
	r.Eval(fmt.Sprintf("%+v", u), fmt.Sprintf("%s/%s -> %s (%d queries)", u.HTTPS.Kind, u.HTTPS.Terminal, oc, len(qs)))
	r.Add("transitions", int64(len(qs)+1))
}

func formKind(i int) string {
	if strings.Contains(forms[i].QName, "_") {
		return "prefixed"
	}
	return "plain"
}

func keys(m map[string]bool) []string {
	var k []string
	for s := range m {
		k = append(k, s)
	}
	sort.Strings(k)
	return k
}

func expectStr(e expectation) string {
	var s []string
	for _, r := range e.results {
		s = append(s, resultKey(r))
	}
	for _, x := range e.errIs {
		s = append(s, "error "+x.Error())
	}
	if e.mayFail {
		s = append(s, "(or an error)")
	}
	return strings.Join(s, " | ")
}

func Run(r *ev.Run) {
	log.SetOutput(io.Discard) // the package logs alias loops through the standard logger
	r.Rule("reference resolver model (RFC 9460 §2.3, §2.4.2, §3 + property text) + total replay: universes = HTTPS data {none, NXDOMAIN/SERVFAIL/REFUSED/FORMERR/NOTIMP, alias chains of length 1..6, 12 and 30 (the last name optionally starting with an underscore label) ending in {nothing, service set, alias '.', loop to origin/first/self, NXDOMAIN, SERVFAIL}, 17 service sets (1-2 records, priorities in both orders and equal, targets '.', t1, t2, the owner/origin name spelled out, port, ech), failing responses that nevertheless carry an answer section} x final-name addresses {A?,AAAA?} x address rcode {ok, NXDOMAIN, SERVFAIL, SERVFAIL/REFUSED on the AAAA lookup only} x in-answer CNAME x target addresses {none, A, A+AAAA (+second target A), SERVFAIL, first target SERVFAIL while the second has an address} x poisoned answers on/off (records of the asked type owned by an unrelated name, by names that merely start with the queried name or lie below it, and an unrelated CNAME followed by data for its target, before, between and after the genuine records; the in-answer CNAME target is spelled in mixed case) x 12 name forms (host, host:port, URIs with http/https/other schemes, upper-case scheme, trailing dot); plus literal/localhost forms and hostile lengths (host 253..300 bytes, labels 63/64, schemes 1..300 bytes). Every query is served by an in-memory DoH responder and logged. distinct = distinct (universe, form)")
	r.Assume("reference model in checks/c14; chains of up to 3 aliases must be followed, longer ones may be followed or abandoned (fallback to the origin's addresses or an error); alias loops must end in the fallback or an error; RRsets mixing alias and service mode are excluded (RFC 9460 leaves them to the client)",
		"the DoH responder chases CNAMEs itself (recursive-resolver behaviour): answers carry the CNAME followed by the target's records")
	var svcSets [][]svc
	one := []svc{{1, "", 0, false}, {1, "", 8443, true}, {1, "t1.example", 0, true}, {2, "t2.example", 0, false}}
	for _, s := range one {
		svcSets = append(svcSets, []svc{s})
	}
	pairs := [][2]svc{{{1, "", 0, true}, {2, "t1.example", 0, false}}, {{2, "", 0, true}, {1, "t1.example", 0, false}}, {{1, "t1.example", 0, true}, {1, "", 0, false}},
		{{2, "t1.example", 8443, false}, {1, "t1.example", 0, true}}, {{1, "t2.example", 0, false}, {2, "", 0, true}},
		{{1, "t1.example", 0, true}, {2, "t2.example", 0, false}}, {{1, "t2.example", 0, true}, {2, "t1.example", 0, false}}}
	for _, p := range pairs {
		svcSets = append(svcSets, []svc{p[0], p[1]})
	}
	// targets that spell out the name itself instead of "."
	svcSets = append(svcSets, []svc{{1, "SELF", 8443, true}}, []svc{{1, "ORIGIN", 0, true}, {2, "t1.example", 0, false}}, []svc{{2, "SELF", 0, false}, {1, "t2.example", 0, true}})
	var hs []httpsSpec
	hs = append(hs, httpsSpec{Kind: "none"})
	for _, rc := range []int{1, 2, 3, 4, 5, 9, 16, 19, 23} { // 16, 19, 23: extended codes (upper bits in the OPT record); 19 has low nibble 3
		hs = append(hs, httpsSpec{Kind: "rcode", RCode: rc})
	}
	for _, rc := range []int{2, 3, 5} {
		hs = append(hs, httpsSpec{Kind: "rcode", RCode: rc, WithAnswer: true})
	}
	for _, s := range svcSets {
		hs = append(hs, httpsSpec{Kind: "service", Svcs: s})
	}
	for _, l := range []int{1, 2, 3, 4, 5, 6, 12, 30} { // 12 and 30: far beyond any sensible chain limit (bounded number of queries)
		for _, term := range []string{"none", "dot", "loop-origin", "loop-first", "loop-self"} {
			hs = append(hs, httpsSpec{Kind: "alias", Chain: l, Terminal: term})
		}
		for _, rc := range []int{2, 3} {
			hs = append(hs, httpsSpec{Kind: "alias", Chain: l, Terminal: "rcode", RCode: rc})
		}
		if l <= 2 {
			hs = append(hs, httpsSpec{Kind: "alias", Chain: l, Terminal: "none", Underscore: true}, httpsSpec{Kind: "alias", Chain: l, Terminal: "service", Svcs: svcSets[1], Underscore: true})
		}
		for i, s := range svcSets {
			if !r.Thorough() && i%3 != l%3 {
				continue
			}
			hs = append(hs, httpsSpec{Kind: "alias", Chain: l, Terminal: "service", Svcs: s})
		}
	}
	r.Set("https_specs", len(hs))
	prod := enum.Product{len(hs), 2, 2, 5, 2, 5, 2, len(forms)}
	var executed atomic.Int64
	mux := dohmem.NewMux()
	dns.VerifRoundTripper = mux
	total := prod.Size()
	r.Set("universes", total)
	nShard := 32
	enum.ParallelFor(nShard, func(sh int) {
		host := fmt.Sprintf("doh-%d.test", sh)
		srv := mux.Server(host)
		for i := sh; i < total; i += nShard {
			d := prod.Decode(i)
			u := universe{HTTPS: hs[d[0]], AddrA: d[1] == 1, AddrAAAA: d[2] == 1, AddrRCode: []int{0, 3, 2, -2, -5}[d[3]], CNAME: d[4] == 1, T1: d[5], Poison: d[6] == 1, Form: d[7]}
			if !r.Thorough() {
				// quick: the address-side dimensions are crossed fully only with the first 4 name forms; other forms take a covering rotation
				if d[7] >= 4 && (d[1]*8+d[2]*4+d[3]+d[4]*2+d[5])%6 != (d[0]+d[7])%6 {
					continue
				}
			}
			if u.AddrRCode < 0 && (u.CNAME || d[1]+d[2] != 2) {
				continue // the AAAA-only failure has one address shape
			}
			evalUniverse(r, u, srv, host)
			executed.Add(1)
			if i%(total/5+1) == 17 {
				r.Sample(map[string]any{"universe": u, "name": forms[u.Form].In})
			}
		}
	})
	srv := mux.Server("doh.test")
	hostile(r, srv)
	// the package-level Resolve is Resolve of the resolver the application installed (DefaultResolver "is used by Resolve, Dial
	// and quic.Dial"): after DefaultResolver is replaced, that is where the queries go
	{
		srvD := mux.Server("default.test")
		srvD.Zone = func(name string, t uint16) dohmem.Answer {
			if name == "default.example" && t == 1 {
				return dohmem.Answer{Records: []dnsref.RR{{Name: name, Type: 1, Class: 1, TTL: 60, Fields: []dnsref.Field{{Raw: []byte{10, 7, 7, 7}}}}}}
			}
			return dohmem.Answer{}
		}
		custom, err := ech.NewResolver("https://default.test/dns-query")
		if err != nil {
			ev.ToolError("c14: NewResolver: %v", err)
		}
		old := ech.DefaultResolver
		ech.DefaultResolver = custom
		var res ech.ResolveResult
		panicked := any(nil)
		func() {
			defer func() { panicked = recover() }()
			res, err = ech.Resolve(context.Background(), "default.example")
		}()
		ech.DefaultResolver = old
		oc := "package-level Resolve -> installed resolver"
		if panicked != nil || err != nil || len(srvD.Queries()) == 0 || len(res.Address) != 1 {
			oc = "package-level Resolve -> not the installed resolver"
			r.Violation("package-resolve-ignores-default-resolver", fmt.Sprintf("after ech.DefaultResolver was replaced, ech.Resolve(\"default.example\") sent %d queries to the installed resolver's server and returned %+v, err=%v, panic=%v", len(srvD.Queries()), res, err, panicked), "default.example")
		}
		r.Eval("default-resolver", oc)
	}
	r.Set("states", int(executed.Load()))
	r.Set("traces_validated_against_impl", int(executed.Load()))
}

// hostile: literal forms (no DNS) and over-long names/labels/schemes: an error or a result, never a panic, never a query with an unencodable name.
func hostile(r *ev.Run, srv *dohmem.Server) {
	z := &zone{data: map[string]dohmem.Answer{}}
	srv.Zone = z.answer
	lit := []struct {
		in   string
		want string
		port int
	}{{"192.0.2.7", "192.0.2.7", 443}, {"192.0.2.7:8443", "192.0.2.7", 8443}, {"[2001:db8::1]:443", "2001:db8::1", 443}, {"https://192.0.2.7/x", "192.0.2.7", 443},
		{"localhost", "127.0.0.1,::1", 443}, {"localhost:8080", "127.0.0.1,::1", 8080},
		// an IPv6 literal in the bracketed spelling URIs require, with and without a port
		{"https://[2001:db8::1]/x", "2001:db8::1", 443}, {"https://[2001:db8::1]:8443/x", "2001:db8::1", 8443}, {"http://[::1]/", "::1", 443},
		{"[2001:db8::1]", "2001:db8::1", 443}, {"2001:db8::1", "2001:db8::1", 443}}
	for _, l := range lit {
		srv.Reset()
		res, _ := ech.NewResolver("https://doh.test/dns-query")
		got, err := res.Resolve(context.Background(), l.in)
		if err != nil || ipsKey(got.Address) != l.want || int(got.Port) != l.port || len(got.HTTPS) != 0 || len(srv.Queries()) != 0 {
			r.Violation("literal:"+l.in, fmt.Sprintf("Resolve(%q) = %s, %v with %d queries; want addresses %s port %d and no DNS query", l.in, resultKey(got), err, len(srv.Queries()), l.want, l.port), l.in)
		}
		r.Eval("lit:"+l.in, "literal -> result (0 queries)")
	}
	// an answer whose record is owned by the ONE-label name "o.example" (a label that contains a dot), which is not the two-label
	// name o.example that was asked for: its data belongs to an unrelated owner
	{
		mkRaw := func(qtype uint16, rdata []byte) []byte {
			m := []byte{0, 0, 0x81, 0x80, 0, 1, 0, 1, 0, 0, 0, 0, 1, 'o', 7, 'e', 'x', 'a', 'm', 'p', 'l', 'e', 0, byte(qtype >> 8), byte(qtype), 0, 1}
			m = append(m, 9, 'o', '.', 'e', 'x', 'a', 'm', 'p', 'l', 'e', 0, byte(qtype>>8), byte(qtype), 0, 1, 0, 0, 0, 60, byte(len(rdata)>>8), byte(len(rdata)))
			return append(m, rdata...)
		}
		srv.Reset()
		srv.Zone = func(name string, t uint16) dohmem.Answer {
			switch t {
			case 1:
				return dohmem.Answer{Raw: mkRaw(1, ipX4)}
			case 28:
				return dohmem.Answer{Raw: mkRaw(28, ipX6)}
			}
			return dohmem.Answer{Raw: mkRaw(65, []byte{0, 1, 0, 0, 1, 0, 3, 2, 'h', '2'})}
		}
		res, _ := ech.NewResolver("https://doh.test/dns-query")
		got, err := res.Resolve(context.Background(), "o.example")
		if err == nil && (len(got.Address) > 0 || len(got.HTTPS) > 0) {
			r.Violation("poison-used:owner-label-with-dot", fmt.Sprintf("Resolve(\"o.example\") used records owned by the single-label name \"o\\.example\": %s", resultKey(got)), "owner label containing a dot")
		}
		r.Eval("owner-label-with-dot", "hostile -> not used")
		srv.Zone = z.answer
	}
	// names that merely END in "localhost" or start with it are ordinary names: they are looked up, not answered from the
	// loopback shortcut; and the lookups of one name never answer another name that merely shares a prefix with it ("c.example"
	// and "c.exampleAAA": a cache keyed by name+type glued together confuses (c.exampleAAA, A) with (c.example, AAAA))
	{
		srv.Reset()
		addrOf := map[string]byte{"notlocalhost": 11, "mylocalhost": 12, "localhost.example": 13, "xlocalhost.example": 14, "c.example": 21, "c.exampleAAA": 22, "c.exampleA": 23, "c.exampleAAAA": 24, "c.exampleHTTPS": 25}
		srv.Zone = func(name string, t uint16) dohmem.Answer {
			base := name
			if i := strings.Index(name, "._https."); i >= 0 {
				base = name[i+8:]
			}
			b, ok := addrOf[base]
			switch {
			case !ok:
				return dohmem.Answer{}
			case t == 1:
				return dohmem.Answer{Records: []dnsref.RR{{Name: name, Type: 1, Class: 1, TTL: 60, Fields: []dnsref.Field{{Raw: []byte{10, 0, 0, b}}}}}}
			case t == 28:
				return dohmem.Answer{Records: []dnsref.RR{{Name: name, Type: 28, Class: 1, TTL: 60, Fields: []dnsref.Field{{Raw: append(make([]byte, 15), b)}}}}}
			}
			return dohmem.Answer{}
		}
		for _, in := range []string{"notlocalhost", "mylocalhost:8443", "https://mylocalhost:8443/x", "localhost.example", "xlocalhost.example:443"} {
			srv.Reset()
			res, _ := ech.NewResolver("https://doh.test/dns-query")
			got, err := res.Resolve(context.Background(), in)
			oc := "name containing localhost -> looked up"
			if err != nil || len(srv.Queries()) == 0 || strings.Contains(ipsKey(got.Address), "127.0.0.1") || len(got.Address) != 2 {
				oc = "name containing localhost -> NOT looked up"
				r.Violation("localhost-shortcut-taken-for-another-name", fmt.Sprintf("Resolve(%q) = %s, %v with %d queries: the name is not \"localhost\", its zone data is %d.x", in, resultKey(got), err, len(srv.Queries()), addrOf["notlocalhost"]), in)
			}
			r.Eval("localhost-like:"+in, oc)
		}
		colliding := []string{"c.example", "c.exampleAAA", "c.exampleA", "c.exampleAAAA", "c.exampleHTTPS"}
		for _, first := range colliding {
			for _, second := range colliding {
				if first == second {
					continue
				}
				shared, _ := ech.NewResolver("https://doh.test/dns-query")
				fresh, _ := ech.NewResolver("https://doh.test/dns-query")
				shared.Resolve(context.Background(), first)
				got, err1 := shared.Resolve(context.Background(), second)
				want, err2 := fresh.Resolve(context.Background(), second)
				oc := "lookup after a look-alike name -> own answer"
				if (err1 == nil) != (err2 == nil) || resultKey(got) != resultKey(want) {
					oc = "lookup after a look-alike name -> ANOTHER NAME'S ANSWER"
					r.Violation("cache-confuses-names", fmt.Sprintf("Resolve(%q) after Resolve(%q) on one resolver = %s, %v; on a fresh resolver %s, %v", second, first, resultKey(got), err1, resultKey(want), err2), []string{first, second})
				}
				r.Eval("look-alike:"+first+">"+second, oc)
			}
		}
		// an answer that is one long CNAME chain in order (n links, then the address): however long, consumed without a panic
		for n := 1; n <= 40; n++ {
			srv.Zone = func(name string, t uint16) dohmem.Answer {
				if t != 1 && t != 28 {
					return dohmem.Answer{}
				}
				var rrs []dnsref.RR
				cur := name
				for k := 0; k < n; k++ {
					next := fmt.Sprintf("link%d.chain.example", k)
					rrs = append(rrs, dnsref.RR{Name: cur, Type: 5, Class: 1, TTL: 60, Fields: []dnsref.Field{dnsref.N(next)}})
					cur = next
				}
				raw := []byte{10, 9, 8, 7}
				if t == 28 {
					raw = append(make([]byte, 15), 7)
				}
				return dohmem.Answer{Records: append(rrs, dnsref.RR{Name: cur, Type: t, Class: 1, TTL: 60, Fields: []dnsref.Field{{Raw: raw}}})}
			}
			res, _ := ech.NewResolver("https://doh.test/dns-query")
			panicked := any(nil)
			func() {
				defer func() { panicked = recover() }()
				res.Resolve(context.Background(), "start.chain.example")
			}()
			oc := "in-answer CNAME chain -> consumed"
			if panicked != nil {
				oc = "panic"
				r.Violation("panic:in-answer-cname-chain", fmt.Sprintf("Resolve panicked on an answer that is a chain of %d CNAMEs in order: %v", n, panicked), n)
			}
			r.Eval(fmt.Sprint("cname-chain:", n), oc)
		}
		srv.Zone = z.answer
	}
	// a service-mode record whose TargetName is spelled with upper-case letters: the target's addresses end up with the record
	// (its ECH list goes with the target's address, not nowhere)
	{
		srv.Reset()
		srv.Zone = func(name string, t uint16) dohmem.Answer {
			switch {
			case name == "mixed.example" && t == 65:
				return dohmem.Answer{Records: []dnsref.RR{{Name: name, Type: 65, Class: 1, TTL: 60, Fields: dnsref.SVCB(1, "SVC.Mixed.Example", []dnsref.Param{dnsref.ParamECH([]byte{0xec, 0x77})})}}}
			case strings.EqualFold(name, "svc.mixed.example") && t == 1:
				return dohmem.Answer{Records: []dnsref.RR{{Name: name, Type: 1, Class: 1, TTL: 60, Fields: []dnsref.Field{{Raw: []byte{10, 4, 4, 4}}}}}}
			case name == "mixed.example" && t == 1:
				return dohmem.Answer{Records: []dnsref.RR{{Name: name, Type: 1, Class: 1, TTL: 60, Fields: []dnsref.Field{{Raw: []byte{10, 3, 3, 3}}}}}}
			}
			return dohmem.Answer{}
		}
		res, _ := ech.NewResolver("https://doh.test/dns-query")
		got, err := res.Resolve(context.Background(), "mixed.example")
		var first string
		var firstECH []byte
		if err == nil {
			for t := range got.Targets("tcp") {
				first, firstECH = t.Address.String(), t.ECH
				break
			}
		}
		oc := "mixed-case target name -> its addresses go with its record"
		if err != nil || first != "10.4.4.4:443" || len(firstECH) == 0 {
			oc = "mixed-case target name -> record without addresses"
			r.Violation("target-addresses-lost:mixed-case-target", fmt.Sprintf("a record 1 SVC.Mixed.Example ech=...: first dial target %q with an ECH list of %d octets (err %v); the target's address is 10.4.4.4, the origin's 10.3.3.3: %s", first, len(firstECH), err, resultKey(got)), "SVC.Mixed.Example")
		}
		r.Eval("mixed-case-target", oc)
		srv.Zone = z.answer
	}
	// round 13: ONE RRset of n service-mode records with n DISTINCT resolvable targets (n = 1..24 and 100): every record comes
	// back with its own target's address, in priority order - the number of targets is the zone's business, and a record whose
	// target was not looked up silently drops out of the dial plan
	for _, n := range []int{1, 2, 3, 4, 5, 6, 7, 8, 9, 10, 11, 12, 13, 14, 15, 16, 17, 18, 19, 20, 21, 22, 23, 24, 100} {
		srv.Reset()
		srv.Zone = func(name string, t uint16) dohmem.Answer {
			var k int
			switch {
			case name == "many.example" && t == 65:
				var rrs []dnsref.RR
				for i := 1; i <= n; i++ {
					rrs = append(rrs, dnsref.RR{Name: name, Type: 65, Class: 1, TTL: 60, Fields: dnsref.SVCB(uint16(i), fmt.Sprintf("t%d.many.example", i), []dnsref.Param{dnsref.ParamECH([]byte{0xec, byte(i)})})})
				}
				return dohmem.Answer{Records: rrs}
			case t == 1 && name == "many.example":
				return dohmem.Answer{Records: []dnsref.RR{{Name: name, Type: 1, Class: 1, TTL: 60, Fields: []dnsref.Field{{Raw: []byte{10, 9, 0, 0}}}}}}
			case t == 1:
				if c, _ := fmt.Sscanf(name, "t%d.many.example", &k); c == 1 && k >= 1 && k <= n {
					return dohmem.Answer{Records: []dnsref.RR{{Name: name, Type: 1, Class: 1, TTL: 60, Fields: []dnsref.Field{{Raw: []byte{10, 9, 1, byte(k)}}}}}}
				}
			}
			return dohmem.Answer{}
		}
		res, _ := ech.NewResolver("https://doh.test/dns-query")
		got, err := res.Resolve(context.Background(), "many.example")
		var plan, want []string
		if err == nil {
			for t := range got.Targets("tcp") {
				plan = append(plan, fmt.Sprintf("%s/%x", t.Address, t.ECH))
			}
		}
		for i := 1; i <= n; i++ {
			want = append(want, fmt.Sprintf("10.9.1.%d:443/ec%02x", i, i))
		}
		oc := "every target's address goes with its record"
		if err != nil || !slices.Equal(plan, want) {
			oc = "targets without their addresses"
			r.Violation(fmt.Sprintf("target-addresses-lost:%d-distinct-targets", n), fmt.Sprintf("an RRset of %d service-mode records with %d distinct targets, each of which has an address: the dial plan has %d entries (err %v)\n got  %v\n want %v", n, n, len(plan), err, plan, want), n)
		}
		r.Eval(fmt.Sprintf("distinct-targets:%d", n), oc)
		srv.Zone = z.answer
	}
	// round 13: an extended rcode is what the OPT record says WHEREVER that record stands in the additional section (RFC 6891
	// gives it no place): the outcome of Resolve for an HTTPS answer with rcode 16..23, 3+16k is the same with the OPT record
	// last, followed by one unrelated additional record, or between two
	for _, rc := range []int{16, 17, 18, 19, 20, 22, 23, 35, 3 + 16*255, 2 + 16, 4095} {
		var ref string
		for vi, after := range [][]dnsref.RR{nil,
			{{Name: "filler.example", Type: 1, Class: 1, TTL: 60, Fields: []dnsref.Field{{Raw: []byte{10, 7, 7, 7}}}}},
			{{Name: "filler.example", Type: 16, Class: 1, TTL: 60, Fields: []dnsref.Field{{Raw: []byte{1, 'x'}}}}, {Name: "xr.example", Type: 1, Class: 1, TTL: 60, Fields: []dnsref.Field{{Raw: []byte{10, 7, 7, 8}}}}}} {
			srv.Reset()
			srv.Zone = func(name string, t uint16) dohmem.Answer {
				switch {
				case name == "xr.example" && t == 65:
					a := dohmem.Answer{RCode: rc, AfterOPT: after}
					if vi == 2 {
						a.Additional = []dnsref.RR{{Name: "front.example", Type: 1, Class: 1, TTL: 60, Fields: []dnsref.Field{{Raw: []byte{10, 7, 7, 9}}}}}
					}
					return a
				case name == "xr.example" && t == 1:
					return dohmem.Answer{Records: []dnsref.RR{{Name: name, Type: 1, Class: 1, TTL: 60, Fields: []dnsref.Field{{Raw: []byte{10, 7, 0, 1}}}}}}
				}
				return dohmem.Answer{}
			}
			res, _ := ech.NewResolver("https://doh.test/dns-query")
			got, err := res.Resolve(context.Background(), "xr.example")
			sig := fmt.Sprintf("err=%v nx=%v %s", err != nil, errors.Is(err, ech.ErrNonExistentDomain), resultKey(got))
			oc := "extended rcode read wherever the OPT record stands"
			if vi == 0 {
				ref = sig
			} else if sig != ref {
				oc = "extended rcode depends on the OPT record's place"
				r.Violation(fmt.Sprintf("extended-rcode-depends-on-opt-position:%d", rc), fmt.Sprintf("HTTPS answer with extended rcode %d: with the OPT record last %s; with %d additional record(s) behind it %s", rc, ref, len(after), sig), rc)
			}
			r.Eval(fmt.Sprintf("opt-position:%d:%d", rc, vi), oc)
		}
		srv.Zone = z.answer
	}
	// round 14: a response WITHOUT a question section (QDCOUNT 0: the header-only reply servers send with FORMERR, SERVFAIL,
	// NOTIMP, REFUSED, and some with NXDOMAIN) carries its rcode like any other: the outcome of Resolve is the one of the same
	// rcode with the question echoed - on the HTTPS lookup, on the address lookups, on both
	for _, rc := range []int{1, 2, 3, 4, 5, 9, 16 + 3} {
		for _, where := range []string{"https", "addresses", "all"} {
			var ref string
			for vi, noq := range []bool{false, true} {
				srv.Reset()
				srv.Zone = func(name string, t uint16) dohmem.Answer {
					if name != "hq.example" {
						return dohmem.Answer{}
					}
					bad := dohmem.Answer{RCode: rc, NoQuestion: noq}
					switch {
					case t == 65 && where != "addresses":
						return bad
					case t != 65 && where != "https":
						return bad
					case t == 65:
						return dohmem.Answer{Records: []dnsref.RR{{Name: name, Type: 65, Class: 1, TTL: 60, Fields: dnsref.SVCB(1, "", []dnsref.Param{dnsref.ParamECH([]byte{0xec, 1})})}}}
					case t == 1:
						return dohmem.Answer{Records: []dnsref.RR{{Name: name, Type: 1, Class: 1, TTL: 60, Fields: []dnsref.Field{{Raw: []byte{10, 6, 0, 1}}}}}}
					}
					return dohmem.Answer{}
				}
				res, _ := ech.NewResolver("https://doh.test/dns-query")
				got, err := res.Resolve(context.Background(), "hq.example")
				sig := fmt.Sprintf("err=%v nx=%v %s", err != nil, errors.Is(err, ech.ErrNonExistentDomain), resultKey(got))
				oc := "rcode read with or without a question section"
				if vi == 0 {
					ref = sig
				} else if sig != ref {
					oc = "rcode depends on the question section"
					r.Violation(fmt.Sprintf("rcode-depends-on-question-section:%s:%d", where, rc), fmt.Sprintf("rcode %d on the %s lookup(s): with the question echoed %s; as a reply without question section %s", rc, where, ref, sig), rc)
				}
				r.Eval(fmt.Sprintf("no-question:%d:%s:%v", rc, where, noq), oc)
			}
		}
		srv.Zone = z.answer
	}
	// round 14: an RRset that STARTS with an alias-mode record and holds a second record: "if an RRset contains both, the
	// ServiceMode records MUST be ignored" and of several aliases one is followed (RFC 9460 2.4.1, 2.4.2) - the result is the one
	// of the alias alone (of either alias alone when there are two)
	for _, second := range []string{"service-with-ech", "service-other-target", "alias-to-other", "alias-twice"} {
		run := func(recs func(name string) []dnsref.RR) string {
			srv.Reset()
			srv.Zone = func(name string, t uint16) dohmem.Answer {
				a4 := func(b byte) dohmem.Answer {
					return dohmem.Answer{Records: []dnsref.RR{{Name: name, Type: 1, Class: 1, TTL: 60, Fields: []dnsref.Field{{Raw: []byte{10, 5, 0, b}}}}}}
				}
				switch {
				case name == "al2.example" && t == 65:
					return dohmem.Answer{Records: recs(name)}
				case name == "al2.example" && t == 1:
					return a4(1)
				case name == "pool.example" && t == 65:
					return dohmem.Answer{Records: []dnsref.RR{{Name: name, Type: 65, Class: 1, TTL: 60, Fields: dnsref.SVCB(1, "", []dnsref.Param{dnsref.ParamECH([]byte{0xec, 2})})}}}
				case name == "pool.example" && t == 1:
					return a4(2)
				case name == "pool2.example" && t == 65:
					return dohmem.Answer{Records: []dnsref.RR{{Name: name, Type: 65, Class: 1, TTL: 60, Fields: dnsref.SVCB(1, "", []dnsref.Param{dnsref.ParamECH([]byte{0xec, 3})})}}}
				case name == "pool2.example" && t == 1:
					return a4(3)
				case name == "svc9.example" && t == 1:
					return a4(9)
				}
				return dohmem.Answer{}
			}
			res, _ := ech.NewResolver("https://doh.test/dns-query")
			got, err := res.Resolve(context.Background(), "al2.example")
			return fmt.Sprintf("err=%v %s", err != nil, resultKey(got))
		}
		alias := func(name, to string) dnsref.RR {
			return dnsref.RR{Name: name, Type: 65, Class: 1, TTL: 60, Fields: dnsref.SVCB(0, to, nil)}
		}
		var with string
		admissible := []string{run(func(n string) []dnsref.RR { return []dnsref.RR{alias(n, "pool.example")} })}
		switch second {
		case "service-with-ech":
			with = run(func(n string) []dnsref.RR {
				return []dnsref.RR{alias(n, "pool.example"), {Name: n, Type: 65, Class: 1, TTL: 60, Fields: dnsref.SVCB(1, "", []dnsref.Param{dnsref.ParamECH([]byte{0xec, 7})})}}
			})
		case "service-other-target":
			with = run(func(n string) []dnsref.RR {
				return []dnsref.RR{alias(n, "pool.example"), {Name: n, Type: 65, Class: 1, TTL: 60, Fields: dnsref.SVCB(2, "svc9.example", []dnsref.Param{dnsref.ParamPort(8443)})}}
			})
		case "alias-to-other":
			admissible = append(admissible, run(func(n string) []dnsref.RR { return []dnsref.RR{alias(n, "pool2.example")} }))
			with = run(func(n string) []dnsref.RR { return []dnsref.RR{alias(n, "pool.example"), alias(n, "pool2.example")} })
		case "alias-twice":
			with = run(func(n string) []dnsref.RR { return []dnsref.RR{alias(n, "pool.example"), alias(n, "pool.example")} })
		}
		oc := "alias first: followed, the rest of the RRset ignored"
		if !slices.Contains(admissible, with) {
			oc = "alias first: NOT resolved as the alias alone"
			r.Violation("alias-with-second-record:"+second, fmt.Sprintf("an RRset that starts with an alias to pool.example and holds a second record (%s) resolves as %s; the alias alone: %v", second, with, admissible), second)
		}
		r.Eval("alias-with-second-record:"+second, oc)
		srv.Zone = z.answer
	}
	// a response that answers ANOTHER question than the one asked (its question section names other.example, its records are
	// other.example's): nothing of it belongs to the name asked; and a record whose owner has the asked name as a label-wise
	// PREFIX, followed by a label that contains a dot (o.example."x.y"): not the asked name either, and no reason to panic
	{
		srv.Reset()
		srv.Zone = func(name string, t uint16) dohmem.Answer {
			raw := ipX4
			if t == 28 {
				raw = ipX6
			}
			if t == 65 {
				return dohmem.Answer{EchoQuestion: &dnsref.Question{Name: "other.example", Type: 65, Class: 1}, Records: []dnsref.RR{{Name: "other.example", Type: 65, Class: 1, TTL: 60, Fields: dnsref.SVCB(1, "", []dnsref.Param{dnsref.ParamECH([]byte{0xba, 0xd0})})}}}
			}
			return dohmem.Answer{EchoQuestion: &dnsref.Question{Name: "other.example", Type: t, Class: 1}, Records: []dnsref.RR{{Name: "other.example", Type: t, Class: 1, TTL: 60, Fields: []dnsref.Field{{Raw: raw}}}}}
		}
		res, _ := ech.NewResolver("https://doh.test/dns-query")
		got, err := res.Resolve(context.Background(), "victim.example")
		oc := "answer to another question -> not used"
		if err == nil && (len(got.Address) > 0 || len(got.HTTPS) > 0) {
			oc = "answer to another question -> USED"
			r.Violation("poison-used:answer-to-another-question", fmt.Sprintf("Resolve(\"victim.example\") used the records of a response whose question section and records name other.example: %s", resultKey(got)), "echoed question differs")
		}
		r.Eval("answer-to-another-question", oc)
		mkRaw := func(qtype uint16, rdata []byte) []byte {
			m := []byte{0, 0, 0x81, 0x80, 0, 1, 0, 1, 0, 0, 0, 0, 1, 'o', 7, 'e', 'x', 'a', 'm', 'p', 'l', 'e', 0, byte(qtype >> 8), byte(qtype), 0, 1}
			m = append(m, 1, 'o', 7, 'e', 'x', 'a', 'm', 'p', 'l', 'e', 3, 'x', '.', 'y', 0, byte(qtype>>8), byte(qtype), 0, 1, 0, 0, 0, 60, byte(len(rdata)>>8), byte(len(rdata)))
			return append(m, rdata...)
		}
		srv.Reset()
		srv.Zone = func(name string, t uint16) dohmem.Answer {
			switch t {
			case 1:
				return dohmem.Answer{Raw: mkRaw(1, ipX4)}
			case 28:
				return dohmem.Answer{Raw: mkRaw(28, ipX6)}
			}
			return dohmem.Answer{Raw: mkRaw(65, []byte{0, 1, 0, 0, 1, 0, 3, 2, 'h', '2'})}
		}
		res, _ = ech.NewResolver("https://doh.test/dns-query")
		panicked := any(nil)
		func() {
			defer func() { panicked = recover() }()
			got, err = res.Resolve(context.Background(), "o.example")
		}()
		oc = "owner = asked name + a dotted label -> not used"
		if panicked != nil {
			oc = "panic"
			r.Violation("panic:owner-with-dotted-label-after-the-asked-name", fmt.Sprintf("Resolve(\"o.example\") panicked on an answer owned by o.example.\"x.y\": %v", panicked), "owner extends the asked name by a dotted label")
		} else if err == nil && (len(got.Address) > 0 || len(got.HTTPS) > 0) {
			oc = "USED"
			r.Violation("poison-used:owner-extends-asked-name", fmt.Sprintf("Resolve(\"o.example\") used records owned by o.example.\"x.y\": %s", resultKey(got)), "owner extends the asked name by a dotted label")
		}
		r.Eval("owner-extends-asked-name", oc)
		srv.Zone = z.answer
	}
	// a URI names its host; what follows the authority (a path, a query of any length - Transport hands the whole request URL over)
	// does not take part: Resolve(uri + long tail) = Resolve(uri) for tails of 1..70000 octets
	{
		srv.Zone = func(name string, t uint16) dohmem.Answer {
			if name == "uri.example" && t == 1 {
				return dohmem.Answer{Records: []dnsref.RR{{Name: name, Type: 1, Class: 1, TTL: 60, Fields: []dnsref.Field{{Raw: ipX4}}}}}
			}
			return dohmem.Answer{}
		}
		res, _ := ech.NewResolver("https://doh.test/dns-query")
		base, berr := res.Resolve(context.Background(), "https://uri.example/")
		if berr != nil || len(base.Address) != 1 {
			ev.ToolError("c14: the URI base case does not resolve: %v %s", berr, resultKey(base))
		}
		for _, n := range []int{1, 200, 470, 490, 500, 511, 512, 513, 600, 1000, 4096, 70000} {
			for _, tail := range []string{"/" + strings.Repeat("p", n), "/?q=" + strings.Repeat("v", n), "/a/b?x=1#" + strings.Repeat("f", n)} {
				res2, _ := ech.NewResolver("https://doh.test/dns-query")
				got, err := res2.Resolve(context.Background(), "https://uri.example"+tail)
				oc := "uri with long tail -> like the bare uri"
				if err != nil || resultKey(got) != resultKey(base) {
					oc = "uri with long tail -> differs"
					r.Violation("uri-tail-matters", fmt.Sprintf("Resolve(\"https://uri.example\" + a %d-octet path/query) = %s, %v; the same URI with the path \"/\" gives %s", len(tail), resultKey(got), err, resultKey(base)), len(tail))
				}
				r.Eval(fmt.Sprintf("uri-tail:%d:%c", n, tail[1]), oc)
			}
		}
		srv.Zone = z.answer
	}
	label := func(n int) string { return strings.Repeat("l", n) }
	// names that only the SERVER supplies (alias and service targets, the in-answer CNAME target) and that no DNS name can be:
	// a "label" whose length octet is 64..191 (reserved label types), a name longer than 255 octets. Whatever Resolve does with
	// such an answer, every query it sends is a well-formed message for a legal name
	{
		var long []string
		for i := 0; i < 5; i++ {
			long = append(long, label(60))
		}
		hostile := map[string]string{"label-100": label(100) + ".example", "label-64": "a." + label(64), "label-191": label(191), "name-304": strings.Join(long, "."), "name-256": strings.Join(long[:4], ".") + "." + label(11)}
		for _, hk := range sortedKeys(hostile) {
			for _, mode := range []string{"alias", "service", "cname"} {
				hn := hostile[hk]
				srv.Reset()
				srv.Zone = func(name string, t uint16) dohmem.Answer {
					if name != "o.example" {
						return dohmem.Answer{}
					}
					switch {
					case mode == "cname":
						return dohmem.Answer{Records: []dnsref.RR{{Name: "o.example", Type: 5, Class: 1, TTL: 60, Fields: []dnsref.Field{dnsref.N(hn)}}}}
					case t == 65 && mode == "alias":
						return dohmem.Answer{Records: []dnsref.RR{{Name: "o.example", Type: 65, Class: 1, TTL: 60, Fields: dnsref.SVCB(0, hn, nil)}}}
					case t == 65:
						return dohmem.Answer{Records: []dnsref.RR{{Name: "o.example", Type: 65, Class: 1, TTL: 60, Fields: dnsref.SVCB(1, hn, []dnsref.Param{dnsref.ParamALPN("h2")})}}}
					case t == 1:
						return dohmem.Answer{Records: []dnsref.RR{{Name: "o.example", Type: 1, Class: 1, TTL: 60, Fields: []dnsref.Field{{Raw: ipX4}}}}}
					}
					return dohmem.Answer{}
				}
				res, _ := ech.NewResolver("https://doh.test/dns-query")
				var err error
				panicked := any(nil)
				func() {
					defer func() { panicked = recover() }()
					_, err = res.Resolve(context.Background(), "o.example")
				}()
				desc := fmt.Sprintf("%s target %s", mode, hk)
				if panicked != nil {
					r.Violation("panic:hostile-server-name", fmt.Sprintf("Resolve(\"o.example\") panicked on an answer with %s: %v", desc, panicked), desc)
				}
				for _, q := range srv.Queries() {
					bad := ""
					if q.Name == dohmem.Unparseable {
						bad = "a message that is not well-formed RFC 1035"
					} else if len(q.Name) > 253 {
						bad = fmt.Sprintf("a query for a %d-byte name", len(q.Name))
					}
					for _, l := range strings.Split(q.Name, ".") {
						if len(l) > 63 {
							bad = fmt.Sprintf("a query with a %d-byte label", len(l))
						}
					}
					if bad != "" {
						r.Violation("malformed-query-sent:hostile-server-name:"+mode, fmt.Sprintf("Resolve(\"o.example\"), answered with %s, then sent %s", desc, bad), desc)
						break
					}
				}
				oc := "hostile server name -> result"
				if err != nil {
					oc = "hostile server name -> error"
				}
				r.Eval("hostile-server-name:"+desc, oc)
			}
		}
		// targets whose labels contain dots or backslashes (legal octets of a label): the follow-up queries ask for exactly
		// that name - same labels - and are well-formed
		wireName := func(labels []string) []byte {
			var b []byte
			for _, l := range labels {
				b = append(append(b, byte(len(l))), l...)
			}
			return append(b, 0)
		}
		for _, ls := range [][]string{{"a.", "example", "com"}, {"w.w", "com"}, {strings.Repeat("\\", 40), "com"}, {"a\\b", "com"}, {"www", "com."}, {".", "com"}} {
			for _, prio := range []byte{0, 1} {
				srv.Reset()
				srv.Zone = func(name string, t uint16) dohmem.Answer {
					if name != "o.example" {
						return dohmem.Answer{}
					}
					if t == 65 {
						m := []byte{0, 0, 0x81, 0x80, 0, 1, 0, 1, 0, 0, 0, 0, 1, 'o', 7, 'e', 'x', 'a', 'm', 'p', 'l', 'e', 0, 0, 65, 0, 1}
						rd := append([]byte{0, prio}, wireName(ls)...)
						m = append(m, 1, 'o', 7, 'e', 'x', 'a', 'm', 'p', 'l', 'e', 0, 0, 65, 0, 1, 0, 0, 0, 60, byte(len(rd)>>8), byte(len(rd)))
						return dohmem.Answer{Raw: append(m, rd...)}
					}
					if t == 1 {
						return dohmem.Answer{Records: []dnsref.RR{{Name: "o.example", Type: 1, Class: 1, TTL: 60, Fields: []dnsref.Field{{Raw: ipX4}}}}}
					}
					return dohmem.Answer{}
				}
				res, _ := ech.NewResolver("https://doh.test/dns-query")
				var err error
				panicked := any(nil)
				func() {
					defer func() { panicked = recover() }()
					_, err = res.Resolve(context.Background(), "o.example")
				}()
				desc := fmt.Sprintf("priority %d target with labels %q", prio, ls)
				if panicked != nil {
					r.Violation("panic:hostile-server-name", fmt.Sprintf("Resolve(\"o.example\") panicked on an answer with %s: %v", desc, panicked), desc)
				}
				want := strings.Join(ls, ".") // (the log joins the labels of the query it parsed with dots)
				asked := false
				for i, q := range srv.Queries() {
					if q.Name == dohmem.Unparseable {
						r.Violation("malformed-query-sent:hostile-server-name:label-with-dot", fmt.Sprintf("Resolve(\"o.example\"), answered with %s, then sent a message that is not well-formed RFC 1035 (query %d)", desc, i), desc)
						break
					}
					if q.Name == want {
						asked = true
					} else if q.Name != "o.example" {
						r.Violation("other-name-queried:label-with-dot", fmt.Sprintf("Resolve(\"o.example\"), answered with %s, then asked for %q (labels joined with dots), which is another name", desc, q.Name), desc)
						break
					}
				}
				oc := "dotted target -> not followed"
				if asked {
					oc = "dotted target -> followed"
				}
				if err != nil {
					oc += " (error)"
				}
				r.Eval("hostile-server-name:"+desc, oc)
			}
		}
		// the 255-octet limit holds for the whole name, also when its tail is reached through a compression pointer: an alias target
		// of 40 literal octets followed by a pointer to the (253-octet) question name
		{
			var qls []string
			for i := 0; i < 4; i++ {
				qls = append(qls, label(62))
			}
			qname := strings.Join(qls, ".") // 4 x 63 octets + root = 253 octets on the wire
			srv.Reset()
			srv.Zone = func(name string, t uint16) dohmem.Answer {
				if name != qname || t != 65 {
					return dohmem.Answer{}
				}
				m := []byte{0, 0, 0x81, 0x80, 0, 1, 0, 1, 0, 0, 0, 0}
				m = append(append(m, wireName(qls)...), 0, 65, 0, 1)
				rd := append(append([]byte{0, 0, 39}, label(39)...), 0xc0, 12)
				m = append(m, 0xc0, 12, 0, 65, 0, 1, 0, 0, 0, 60, byte(len(rd)>>8), byte(len(rd)))
				return dohmem.Answer{Raw: append(m, rd...)}
			}
			res, _ := ech.NewResolver("https://doh.test/dns-query")
			_, err := res.Resolve(context.Background(), qname)
			for _, q := range srv.Queries() {
				if q.Name == dohmem.Unparseable || len(q.Name) > 253 {
					r.Violation("malformed-query-sent:hostile-server-name:pointer-to-long-name", fmt.Sprintf("an alias target made of 40 literal octets and a pointer to the 253-octet question name (294 octets in all) was accepted; Resolve then sent a query for a %d-byte name", len(q.Name)), "pointer-to-long-name")
					break
				}
			}
			oc := "over-long through pointer -> result"
			if err != nil {
				oc = "over-long through pointer -> error"
			}
			r.Eval("hostile-server-name:pointer-to-long-name", oc)
		}
		// an alias loop through names with upper-case letters (self-alias; A -> B -> A): Resolve returns
		for _, loop := range [][]string{{"Loop.example"}, {"o.example", "Bb.example"}, {"o.example", "bb.example", "Cc.example", "bb.example"}} {
			srv.Reset()
			next := map[string]string{}
			for i, n := range loop {
				next[n] = loop[(i+1)%len(loop)]
			}
			if len(loop) == 4 { // o -> bb -> Cc -> bb
				next = map[string]string{"o.example": "bb.example", "bb.example": "Cc.example", "Cc.example": "bb.example"}
			}
			srv.Zone = func(name string, t uint16) dohmem.Answer {
				if to, ok := next[name]; ok && t == 65 {
					return dohmem.Answer{Records: []dnsref.RR{{Name: name, Type: 65, Class: 1, TTL: 60, Fields: dnsref.SVCB(0, to, nil)}}}
				}
				if t == 1 {
					return dohmem.Answer{Records: []dnsref.RR{{Name: name, Type: 1, Class: 1, TTL: 60, Fields: []dnsref.Field{{Raw: ipX4}}}}}
				}
				return dohmem.Answer{}
			}
			res, _ := ech.NewResolver("https://doh.test/dns-query")
			done := make(chan error, 1)
			ctx, cancel := context.WithCancel(context.Background())
			go func() {
				defer func() {
					if p := recover(); p != nil {
						done <- fmt.Errorf("panic: %v", p)
					}
				}()
				_, err := res.Resolve(ctx, loop[0])
				done <- err
			}()
			oc := "mixed-case alias loop -> returns"
			select {
			case <-done:
			case <-time.After(20 * time.Second):
				// (generous: a lookup through the in-memory responder takes microseconds; the loop is cut after at most 5 names)
				cancel()
				oc = "mixed-case alias loop -> NEVER RETURNS"
				r.Violation("resolve-never-returns:mixed-case-alias-loop", fmt.Sprintf("Resolve(%q) with the alias loop %v had not returned after 20 s and %d queries", loop[0], loop, len(srv.Queries())), fmt.Sprint(loop))
			}
			cancel()
			if n := len(srv.Queries()); n > 40 {
				r.Violation("unbounded-queries:mixed-case-alias-loop", fmt.Sprintf("Resolve(%q) with the alias loop %v sent %d queries", loop[0], loop, n), fmt.Sprint(loop))
			}
			r.Eval("alias-loop-mixed-case:"+fmt.Sprint(loop), oc)
		}
		// answers that consist of a CNAME and nothing else (the target's data is not in the answer), the targets leading back to
		// where they came from ACROSS responses - a -> b in one answer, b -> a in the next - or onwards for ever (each name an
		// alias of a fresh one): Resolve returns, and the number of queries is bounded
		for _, kind := range []string{"self", "two-cycle", "three-cycle", "endless-chain"} {
			srv.Reset()
			nextOf := func(name string) string {
				switch kind {
				case "self":
					return name
				case "two-cycle":
					return map[string]string{"c1.example": "c2.example", "c2.example": "c1.example"}[name]
				case "three-cycle":
					return map[string]string{"c1.example": "c2.example", "c2.example": "c3.example", "c3.example": "c1.example"}[name]
				}
				var n int
				fmt.Sscanf(name, "c%d.example", &n)
				return fmt.Sprintf("c%d.example", n+1)
			}
			srv.Zone = func(name string, t uint16) dohmem.Answer {
				base := name
				if i := strings.Index(name, "._https."); i >= 0 {
					base = name[i+8:]
				}
				if to := nextOf(base); to != "" && strings.HasPrefix(base, "c") {
					return dohmem.Answer{Records: []dnsref.RR{{Name: name, Type: 5, Class: 1, TTL: 60, Fields: []dnsref.Field{dnsref.N(to)}}}}
				}
				return dohmem.Answer{}
			}
			res, _ := ech.NewResolver("https://doh.test/dns-query")
			done := make(chan error, 1)
			ctx, cancel := context.WithCancel(context.Background())
			go func() {
				defer func() {
					if p := recover(); p != nil {
						done <- fmt.Errorf("panic: %v", p)
					}
				}()
				_, err := res.Resolve(ctx, "c1.example")
				done <- err
			}()
			oc := "dangling CNAME " + kind + " -> returns"
			select {
			case err := <-done:
				if err != nil && strings.HasPrefix(err.Error(), "panic:") {
					r.Violation("panic:dangling-cname", fmt.Sprintf("Resolve(\"c1.example\") with CNAME-only answers (%s): %v", kind, err), kind)
				}
			case <-time.After(20 * time.Second):
				// (generous: a lookup through the in-memory responder takes microseconds)
				cancel()
				oc = "dangling CNAME " + kind + " -> NEVER RETURNS"
				r.Violation("resolve-never-returns:dangling-cname", fmt.Sprintf("Resolve(\"c1.example\") with CNAME-only answers (%s) had not returned after 20 s and %d queries", kind, len(srv.Queries())), kind)
			}
			cancel()
			if n := len(srv.Queries()); n > 40 {
				r.Violation("unbounded-queries:dangling-cname", fmt.Sprintf("Resolve(\"c1.example\") with CNAME-only answers (%s) sent %d queries", kind, n), kind)
			}
			r.Eval("dangling-cname:"+kind, oc)
		}
		// ports that are no port numbers: nothing may be asked about the port they would be if cut to 16 bits
		for _, in := range []string{"o.example:73979", "o.example:+8443", "https://o.example:73979/", "o.example:65536", "o.example:8443x"} {
			srv.Reset()
			srv.Zone = func(name string, t uint16) dohmem.Answer { return dohmem.Answer{} }
			res, _ := ech.NewResolver("https://doh.test/dns-query")
			got, err := res.Resolve(context.Background(), in)
			for _, q := range srv.Queries() {
				if strings.HasPrefix(q.Name, "_8443.") || strings.HasPrefix(q.Name, "_0.") {
					r.Violation("invalid-port-truncated", fmt.Sprintf("Resolve(%q) asked for %q: the port was cut to 16 bits (result port %d, err %v)", in, q.Name, got.Port, err), in)
				}
			}
			if err == nil && (got.Port == 8443 || got.Port == 0) {
				r.Violation("invalid-port-truncated", fmt.Sprintf("Resolve(%q) reports port %d", in, got.Port), in)
			}
			r.Eval("invalid-port:"+in, "invalid port -> not truncated")
		}
		srv.Zone = z.answer
	}
	var inputs []string
	for _, n := range []int{62, 63, 64, 65, 255, 300} {
		inputs = append(inputs, label(n)+".example", "a."+label(n), label(n), label(n)+":8443", "https://"+label(n)+".example:8443")
	}
	for _, total := range []int{250, 251, 252, 253, 254, 255, 256, 257, 300, 1000} {
		// host of exactly total bytes made of 60-byte labels
		var b strings.Builder
		for b.Len() < total {
			rem := total - b.Len()
			l := min(rem, 60)
			if rem-l == 1 {
				l--
			}
			b.WriteString(label(l))
			if b.Len() < total {
				b.WriteByte('.')
			}
		}
		inputs = append(inputs, b.String(), b.String()+":8443", "foo://"+b.String()+":123")
	}
	for _, n := range []int{1, 2, 61, 62, 63, 64, 65, 100, 254, 255, 256, 300, 70000} {
		s := strings.Repeat("s", n)
		inputs = append(inputs, s+"://"+origin, s+"://"+origin+":123", s+"://"+origin+":443")
	}
	// empty labels that only appear in the COMPLETE query name (_port._scheme.host): in the scheme, or a root host with a port
	inputs = append(inputs, ".:8443", "a..b://o.example:123", "foo.://o.example", ".foo://o.example:123", "a.b://o.example:123", "foo://.:123", "..://o.example:1")
	inputs = append(inputs, "o.example\\", "abc\\", "\\", "a\\.b.example", "https://o.example\\/", "o.example\\:8443")
	// escaped dots join what looks like several short labels into ONE label on the wire: the limits hold for what is sent
	inputs = append(inputs, label(40)+"\\."+label(40)+".example.com", label(62)+"\\."+label(62)+"\\."+label(62)+"\\."+label(60), label(31)+"\\."+label(31)+".example", label(32)+"\\."+label(31)+".example:8443")
	// labels whose LAST octets are written as escapes: 60..64 plain octets followed by every string of 1..3 escapes out of
	// {\\, \., \-}, with and without a plain octet after them, as first and as last label of the host
	for n := 60; n <= 64; n++ {
		enum.Sequences(3, 3, func(seq []int) {
			if len(seq) == 0 {
				return
			}
			esc := ""
			for _, e := range seq {
				esc += []string{"\\\\", "\\.", "\\-"}[e]
			}
			for _, tail := range []string{"", "z"} {
				l := label(n) + esc + tail
				inputs = append(inputs, l+".example.com", "www."+l, "www."+l+":8443")
			}
		})
	}
	inputs = append(inputs, "o.example..", "o.example..:8443", "https://o.example../x", "o.example...", ".o.example", "", ".", "..", "a..b", ":", ":443", "://", "https://", "https://:443", "o.example:99999", "o.example:0", "o.example:-1", "[::1", "o.example:443:443", "https://o.example:port/", "\x00", "o\x00.example", strings.Repeat(".", 300))
	for _, in := range inputs {
		srv.Reset()
		res, _ := ech.NewResolver("https://doh.test/dns-query")
		var err error
		panicked := any(nil)
		func() {
			defer func() { panicked = recover() }()
			_, err = res.Resolve(context.Background(), in)
		}()
		short := in
		if len(short) > 80 {
			short = fmt.Sprintf("%s...(%d bytes)", in[:60], len(in))
		}
		cls := "scheme"
		if !strings.Contains(in, "://") {
			cls = "host"
		}
		if panicked != nil {
			r.Violation("panic:hostile-"+cls, fmt.Sprintf("Resolve(%q) panicked: %v", short, panicked), in)
		}
		for _, q := range srv.Queries() {
			if q.Name == dohmem.Unparseable {
				r.Violation("malformed-query-sent:hostile-"+cls, fmt.Sprintf("Resolve(%q) sent a DNS query that is not a well-formed RFC 1035 message", short), in)
			}
			for _, l := range strings.Split(q.Name, ".") {
				if len(l) > 63 {
					r.Violation("overlong-label-queried", fmt.Sprintf("Resolve(%q) sent a query with a %d-byte label", short, len(l)), in)
				}
			}
			if len(q.Name) > 253 {
				r.Violation("overlong-name-queried", fmt.Sprintf("Resolve(%q) sent a query for a %d-byte name", short, len(q.Name)), in)
			}
		}
		oc := "hostile -> result"
		if err != nil {
			oc = "hostile -> error"
		}
		r.Eval("hostile:"+in, oc)
	}
}

func sortedKeys(m map[string]string) []string {
	var ks []string
	for k := range m {
		ks = append(ks, k)
	}
	sort.Strings(ks)
	return ks
}
