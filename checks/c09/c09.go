// Package c09 decides C09: ECH acceptance depends only on holding the right key,
// not on the other keys. Differential exhaustive enumeration of key lists (E1).
package c09

import (
	"bytes"
	"crypto/ecdh"
	"fmt"
	"slices"
	"strings"

	"github.com/c2FmZQ/ech"

	"verif/internal/echx"
	"verif/internal/enum"
	"verif/internal/ev"
	"verif/internal/tlsref"
)

const innerName = "inner.secret.example"

type kcase struct {
	List   string `json:"key_list"` // letters over the pool
	AEAD   uint16 `json:"aead"`
	Retry  bool   `json:"retried_hello"`
	Target string `json:"hello_encrypted_to"` // T (held when listed) or U (never held)
}

// the target's public name has upper-case letters (crypto/tls sends it verbatim): comparisons are on the bytes
const targetPublicName = "Public.Example"

func spec(key echx.KeyPair, aead uint16, share int) echx.Spec {
	outer, idx := echx.StdOuter(targetPublicName, tlsref.DetBytes("sid", 32), 99)
	for i, e := range outer.Exts {
		if e.Type == tlsref.ExtKeyShare {
			outer.Exts[i] = tlsref.KeyShare(share)
		}
	}
	inner := echx.StdEncInner(innerName, []string{"h2"}, false)
	for i, e := range inner {
		if e.Type == tlsref.ExtKeyShare {
			inner[i] = tlsref.KeyShare(share)
		}
	}
	return echx.Spec{Key: key, Suite: tlsref.Suite{KDF: 1, AEAD: aead}, Outer: outer, EchIdx: idx,
		EncInner: inner, InnerBase: echx.StdInnerBase(), Padding: make([]byte, 5), EphLabel: fmt.Sprintf("c09-%d", aead)}
}

// run returns the observable outcome of one configuration.
func run(keys []ech.Key, target echx.KeyPair, aead uint16, retry bool, variant string) (outcome string, panicked any) {
	// a copy of the list: the single-option run rotates its slice away after the handshake started (see below)
	return runSplit(slices.Clone(keys), target, aead, retry, -1, variant)
}

// variants of the hello: "" (conforming), "sni-of-another-key" (sealed consistently, but the outer server name is the public
// name of keys D/E, not the target's: never acceptable, whatever other keys the server holds), "retry-seq2" (the retried
// hello is sealed at sequence number 2 instead of 1: never acceptable, however often the target key is listed)
const otherPublicName = "other-public.example"

// runSplit hands the key list over in two WithKeys options split at index split (-1: a single option).
func runSplit(keys []ech.Key, target echx.KeyPair, aead uint16, retry bool, split int, variant string) (outcome string, panicked any) {
	outcome, _, panicked = runSplitSent(keys, target, aead, retry, split, variant)
	return outcome, panicked
}

// runSplitSent is runSplit that also returns the hello records the client sent (round 13: the histories compare outcomes
// across key pairs of different labels, see keyFree).
func runSplitSent(keys []ech.Key, target echx.KeyPair, aead uint16, retry bool, split int, variant string) (outcome string, sent [][]byte, panicked any) {
	s1 := spec(target, aead, 32)
	if variant == "sni-of-another-key" {
		for i, e := range s1.Outer.Exts {
			if e.Type == tlsref.ExtSNI {
				s1.Outer.Exts[i] = tlsref.SNI(otherPublicName)
			}
		}
	}
	if variant == "big-payload" {
		// a conforming hello whose payload is about 30 kB (a large inner hello, zero padding as the draft recommends): the outer
		// hello spans two records; how much there is to decrypt has no bearing on which keys are tried
		s1.Padding = make([]byte, 30000)
	}
	b1 := s1.Build()
	if variant == "low-order-enc" {
		// the encapsulated key is a point of small order (all zero): no key agreement with it yields a usable secret, so the
		// payload is undecryptable for every key - a hello like any other that cannot be opened
		b1.Outer = b1.Outer.Clone()
		b1.Outer.Exts[s1.EchIdx] = tlsref.ECHOuter(1, aead, 42, make([]byte, 32), tlsref.DetBytes("c09-undecryptable", 180))
	}
	// the keys are the caller's memory: configs and private keys must come back bit for bit
	snapshot := make([]ech.Key, len(keys))
	for i, k := range keys {
		snapshot[i] = ech.Key{Config: slices.Clone(k.Config), PrivateKey: slices.Clone(k.PrivateKey), SendAsRetry: k.SendAsRetry}
	}
	defer func() {
		for i, k := range keys {
			if !bytes.Equal(k.Config, snapshot[i].Config) || !bytes.Equal(k.PrivateKey, snapshot[i].PrivateKey) {
				outcome = fmt.Sprintf("CALLER-KEY-BYTES-MODIFIED key %d config %x -> %x", i, snapshot[i].Config, k.Config)
			}
		}
	}()
	firstFlight := b1.Outer.Record()
	sent = append(sent, firstFlight)
	if len(firstFlight) > 5+16384 {
		firstFlight = tlsref.FragmentMax(0x0301, b1.Outer.Msg())
	}
	sess, err, p := echx.OpenSessionSplit(firstFlight, keys, split)
	if p != nil {
		return "", sent, p
	}
	if sess.CallerKeysModified {
		return "CALLER-SLICE-MODIFIED", sent, nil
	}
	if err != nil {
		return "newconn-error:" + echx.ErrClass(err), sent, nil
	}
	first, rerr, p := sess.ReadOnce()
	if p != nil {
		return "", sent, p
	}
	out := fmt.Sprintf("accepted=%v first=%x err=%v", sess.C.ECHAccepted(), first[3:], rerr)
	if !retry {
		return out, sent, nil
	}
	if _, err, p := sess.BackendSend(echx.HRRRecord(b1.Outer.SessionID)); p != nil || err != nil {
		return out + fmt.Sprintf(" hrr-write-error=%v", err), sent, p
	}
	if split < 0 {
		// the server rotates its key slice in place once the connection is set up: the Conn works on its own copy of the list
		for i := range keys {
			keys[i], snapshot[i] = ech.Key{Config: []byte("rotated-away")}, ech.Key{Config: []byte("rotated-away")}
		}
	}
	if variant == "retry-seq2" {
		b1.Sealer.Ctx.Seq = 2
	}
	s2 := spec(target, aead, 65)
	if variant == "retry-sni-of-another-key" {
		// only the SECOND hello names another listed key's public name in its outer server name
		for i, e := range s2.Outer.Exts {
			if e.Type == tlsref.ExtSNI {
				s2.Outer.Exts[i] = tlsref.SNI(otherPublicName)
			}
		}
	}
	b2 := s2.BuildWith(b1.Sealer, false)
	sent = append(sent, b2.Outer.Record())
	second, rerr, p := sess.ClientSend(sent[1])
	if p != nil {
		return "", sent, p
	}
	sec := ""
	if len(second) > 3 {
		sec = fmt.Sprintf("%x", second[3:])
	}
	return out + fmt.Sprintf(" second=%s err=%s clientout=%x", sec, echx.ErrClass(rerr), sess.T.OutBytes()), sent, nil
}

// p256Key builds an ECH key whose config names DHKEM(P-256, HKDF-SHA256) (KEM id 0x0010), config id 42, all suites.
func p256Key() echx.KeyPair {
	scalar := make([]byte, 32)
	scalar[31] = 7
	priv, err := ecdh.P256().NewPrivateKey(scalar)
	if err != nil {
		panic(err)
	}
	pub := priv.PublicKey().Bytes()
	var c []byte
	c = append(c, 42, 0x00, 0x10, byte(len(pub)>>8), byte(len(pub)))
	c = append(c, pub...)
	var cs []byte
	for _, su := range echx.AllSuites {
		cs = append(cs, byte(su.KDF>>8), byte(su.KDF), byte(su.AEAD>>8), byte(su.AEAD))
	}
	c = append(c, byte(len(cs)>>8), byte(len(cs)))
	c = append(c, cs...)
	c = append(c, byte(len(targetPublicName)+16), byte(len(targetPublicName)))
	c = append(c, targetPublicName...)
	c = append(c, 0, 0)
	raw := append([]byte{0xfe, 0x0d, byte(len(c) >> 8), byte(len(c))}, c...)
	info, rest, err := tlsref.ParseConfig(raw)
	if err != nil || len(rest) != 0 {
		panic(fmt.Sprint("c09: p256 config: ", err))
	}
	return echx.KeyPair{Label: "c09-P", Priv: priv, Cfg: info}
}

func variantOf(target string) string {
	if _, v, ok := strings.Cut(target, ":"); ok {
		return v
	}
	return ""
}

func Run(r *ev.Run) {
	r.Rule("E1 exhaustive, differential: all ordered key lists of length 0..4 (with repetition) over the pool {T target (id 42), A other key same id same suites, B other key same id but suite list lacking the client's AEAD, C other id, D other id and other public name, E other key same id other public name, S T's own key pair in a second config with the same id and another public name, P a DHKEM(P-256) key with the same id (valid for crypto/tls, not usable by this library)}; T's config carries maximum_name_length 200 and a non-mandatory extension (not what the library's encoder would write) x 3 AEADs x {first hello, retried hello after HelloRetryRequest} x hello {encrypted to T, to a key U the server never holds, to T but with the outer server name of keys D/E, to T with the retried hello sealed at sequence number 2}; outcome(list) must equal outcome([T]) when T is in the list and outcome([]) otherwise; lists of 2-3 keys are also handed over as two WithKeys options at every split point, as sub-slices of one caller-owned array that must come back unmodified. distinct = distinct (list, aead, retry, target). Round 13, histories of connections in one process: every sequence of 1..3 connections (quick: of three only those ending in a connection with correct pairs) over {lists of correct pairs in memory of their own, lists that pair a config with another key's or a malformed private key, lists of correct pairs in buffers the caller overwrites once the connection is over}, each history with key pairs of its own, x 3 AEADs x {first, retried hello} x hello to {T, U}: the outcome of every connection equals that of the same kind of list as the first connection of its keys in a process")
	r.Assume("reference sender validated against crypto/tls (C03)", "all keys in a list are valid X25519 keys with well-formed configs")
	// round 13: connections as histories in one process, each history with key material of its own (history.go); run first,
	// while the process has made no connection at all
	histories(r)
	pool := "TABCDESP"
	var lists []string
	enum.Sequences(len(pool), 4, func(seq []int) {
		var b strings.Builder
		for _, i := range seq {
			b.WriteByte(pool[i])
		}
		lists = append(lists, b.String())
	})
	if !r.Thorough() {
		// quick: all lists of length <=3 (156), and length-4 lists containing T
		var l2 []string
		for _, l := range lists {
			if len(l) <= 3 || strings.Contains(l, "T") && strings.ContainsAny(l, "ABESP") {
				l2 = append(l2, l)
			}
		}
		lists = l2
	}
	var cases []kcase
	for _, aead := range []uint16{1, 2, 3} {
		for _, retry := range []bool{false, true} {
			for _, tgt := range []string{"T", "U", "T:sni-of-another-key", "T:retry-seq2", "B", "T:retry-sni-of-another-key", "U:low-order-enc", "T:big-payload"} {
				if (tgt == "T:retry-seq2" || tgt == "T:retry-sni-of-another-key") && !retry || (tgt == "U:low-order-enc" || tgt == "T:big-payload") && retry {
					continue
				}
				// (target B: the hello is sealed to key B with the AEAD that B's config does NOT list, consistently: never
				// acceptable, whether B is held or not and whatever the other keys of the same id list)
				for _, l := range lists {
					if strings.Contains(tgt, ":") && len(l) > 3 && !r.Thorough() {
						continue
					}
					cases = append(cases, kcase{l, aead, retry, tgt})
				}
			}
		}
	}
	r.Set("key_lists", len(lists))
	mk := func(aead uint16) map[byte]echx.KeyPair {
		var others []tlsref.Suite
		for _, s := range echx.AllSuites {
			if s.AEAD != aead {
				others = append(others, s)
			}
		}
		return map[byte]echx.KeyPair{
			// T's config is not byte-identical to what this library's own encoder would write for the same fields
			// (maximum_name_length 200, a non-mandatory extension): HPKE info is the config AS RECEIVED
			// ... and its suite list also names suites this package does not implement (HKDF-SHA384 with AES-256-GCM in front, an
			// unassigned AEAD at the end): a key is usable for the suites it can be used with
			'T': echx.NewKeyOpt("c09-T", 42, append(append([]tlsref.Suite{{KDF: 2, AEAD: 2}}, echx.AllSuites...), tlsref.Suite{KDF: 1, AEAD: 0xffff}), targetPublicName, 200, []byte{0x12, 0x34, 0, 2, 0xaa, 0xbb}),
			// S: T's key pair in a SECOND, different config with the same id (key rotation that kept the key, or a second public name)
			'S': echx.NewKey("c09-T", 42, echx.AllSuites, "second-public.example"),
			// P: a valid ECH key of ANOTHER KEM (DHKEM(P-256), which crypto/tls serves and this library cannot use), same id and suites
			'P': p256Key(),
			'A': echx.NewKey("c09-A", 42, echx.AllSuites, targetPublicName),
			'B': echx.NewKey("c09-B", 42, others, targetPublicName),
			'C': echx.NewKey("c09-C", 43, echx.AllSuites, targetPublicName),
			'D': echx.NewKey("c09-D", 7, echx.AllSuites, "other-public.example"),
			'E': echx.NewKey("c09-E", 42, echx.AllSuites, "other-public.example"),
			'U': echx.NewKey("c09-U", 42, echx.AllSuites, targetPublicName),
		}
	}
	type refKey struct {
		aead  uint16
		retry bool
		tgt   string
		hasT  bool
	}
	refs := map[refKey]string{}
	for _, aead := range []uint16{1, 2, 3} {
		ks := mk(aead)
		for _, retry := range []bool{false, true} {
			for _, tgt := range []string{"T", "U", "T:sni-of-another-key", "T:retry-seq2", "B", "T:retry-sni-of-another-key", "U:low-order-enc", "T:big-payload"} {
				for _, hasT := range []bool{false, true} {
					var keys []ech.Key
					if hasT {
						keys = echx.Keys(ks['T'])
					} else {
						keys = echx.Keys(ks['C']) // a server with keys, none relevant (outcome([]) modulo "no keys")
					}
					o, p := run(keys, ks[tgt[0]], aead, retry, variantOf(tgt))
					if p != nil {
						r.Violation("panic:reference", fmt.Sprint(p), nil)
					}
					refs[refKey{aead, retry, tgt, hasT}] = o
				}
			}
		}
		// sanity of the reference outcomes themselves
		if o := refs[refKey{aead, false, "T", true}]; !strings.HasPrefix(o, "accepted=true") {
			r.Violation("reference-not-accepted", "hello to T not accepted with key list [T]: "+o, nil)
		}
		if o := refs[refKey{aead, true, "T", true}]; !strings.Contains(o, "err=nil clientout=") || strings.Contains(o, "second= ") {
			r.Violation("reference-retry-failed", "retried hello to T not processed with key list [T]: "+o[:min(len(o), 200)], nil)
		}
	}
	enum.ParallelFor(len(cases), func(i int) {
		c := cases[i]
		ks := mk(c.AEAD)
		var keys []ech.Key
		for j := 0; j < len(c.List); j++ {
			k := ks[c.List[j]].Key()
			// the target (and S, C) are "retired" keys that are no longer advertised as retry configs: SendAsRetry plays no
			// part in whether a hello is accepted
			k.SendAsRetry = !strings.ContainsRune("TSC", rune(c.List[j]))
			keys = append(keys, k)
		}
		if len(keys) == 0 {
			keys = echx.Keys(ks['C'])[:0]
		}
		o, p := run(keys, ks[c.Target[0]], c.AEAD, c.Retry, variantOf(c.Target))
		hasT := strings.Contains(c.List, "T")
		want := refs[refKey{c.AEAD, c.Retry, c.Target, hasT}]
		kind := "first"
		if c.Retry {
			kind = "retry"
		}
		switch {
		case strings.HasPrefix(o, "CALLER-KEY-BYTES-MODIFIED"):
			r.Violation("newconn-writes-into-callers-keys", "NewConn modified the Config/PrivateKey bytes of the keys it was given (they are shared with every later connection): "+o, c)
		case p != nil:
			r.Violation("panic:"+kind, fmt.Sprint(p), c)
		case o != want:
			r.Violation(fmt.Sprintf("outcome-depends-on-other-keys:%s:target=%s:hasT=%v:%s", kind, c.Target, hasT, shape(c.List)),
				fmt.Sprintf("key list %q gives a different outcome than the reference list:\n got  %.300s\n want %.300s", c.List, o, want), c)
		}
		// the same keys given through two WithKeys options (every split point) must behave like one list
		if p == nil && o == want && len(keys) >= 2 && len(keys) <= 3 {
			for split := 0; split <= len(keys); split++ {
				o2, p2 := runSplit(keys, ks[c.Target[0]], c.AEAD, c.Retry, split, variantOf(c.Target))
				if o2 == "CALLER-SLICE-MODIFIED" {
					r.Violation("withkeys-writes-into-callers-slice", fmt.Sprintf("key list %q given as two sub-slices of one caller-owned array (WithKeys(pool[:%d]), WithKeys(pool[%d:])): after NewConn the caller's array has changed, so the NEXT connection configured from it holds other keys (acceptance then depends on an earlier connection's options)", c.List, split, split+1), c)
				} else if p2 != nil || o2 != o {
					r.Violation("outcome-depends-on-withkeys-split:"+kind, fmt.Sprintf("key list %q given as WithKeys(list[:%d]), WithKeys(list[%d:]) behaves differently from WithKeys(list)", c.List, split, split), c)
				}
			}
		}
		// ... and the same keys given through an option value that was made earlier, from a slice that held other keys then and
		// was refilled in place since
		if p == nil && o == want && len(keys) >= 1 {
			if o3, p3 := runSplit(slices.Clone(keys), ks[c.Target[0]], c.AEAD, c.Retry, echx.ReusedOption, variantOf(c.Target)); p3 != nil || o3 != o {
				r.Violation("outcome-depends-on-when-the-option-was-made:"+kind, fmt.Sprintf("key list %q given through a WithKeys option value made before the caller's slice was refilled with these keys behaves differently from WithKeys(list) made now:\n got  %.300s (panic %v)\n want %.300s", c.List, o3, p3, o), c)
			}
		}
		oc := "rejected/passthrough"
		if strings.HasPrefix(o, "accepted=true") {
			oc = "accepted"
		}
		r.Eval(fmt.Sprintf("%+v", c), kind+" target="+c.Target+" "+oc)
		if i%(len(cases)/5+1) == 3 {
			r.Sample(c)
		}
	})
}

// shape abstracts a list to what matters for a finding key: which same-id keys precede/follow T.
func shape(l string) string {
	i := strings.Index(l, "T")
	if i < 0 {
		return "noT"
	}
	s := ""
	if strings.ContainsAny(l[:i], "ABE") {
		s += "sameid-before-T"
	}
	if strings.ContainsAny(l[i+1:], "ABE") {
		s += "sameid-after-T"
	}
	if strings.Count(l, "T") > 1 {
		s += "T-twice"
	}
	if s == "" {
		s = "only-other-ids"
	}
	return s
}
