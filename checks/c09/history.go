package c09

import (
	"fmt"
	"slices"
	"sort"
	"strings"

	"github.com/c2FmZQ/ech"

	"verif/internal/echx"
	"verif/internal/enum"
	"verif/internal/ev"
	"verif/internal/tlsref"
)

// round 13: "whether an encrypted hello is accepted depends ONLY on whether the server holds the key it was encrypted to" -
// the server being the key list THIS connection was given. The matrix of Run evaluates every connection by itself; whatever
// the package keeps for the whole process (parsed keys, parsed configs, views of the bytes a caller handed in) is outside its
// sight, because such state is filled by one connection and read by another. So connections are also run as HISTORIES in one
// process: every sequence of up to three connections over an alphabet of
//   - connections holding correct pairs, in memory of their own ([T], [A T], [T A], [A], [C A T A]),
//   - connections whose list pairs a config with a private key that is not its own (another key's, or a malformed one): a
//     server that does not hold the key - the outcome of a list without T,
//   - connections holding correct pairs in buffers that the caller overwrites once the connection is over (config bytes,
//     private key bytes or both; wiped, filled with 0xff, or the next key set read into them),
// each history with key pairs of its own (labels derived from the history's index: nothing the process has seen before), for
// 3 AEADs x {first, retried hello} x hello sealed to {T, a key U nobody holds}. The oracle is the one of the matrix: the
// outcome of every connection of the history equals the outcome of [T] when its list holds the correct pair T and that of a
// list without T otherwise - whatever earlier connections of the process were given and whatever happened to their memory
// afterwards. The reference outcomes are taken with key pairs of other labels; outcomes are compared with the records the
// client sent replaced by a token (keyFree), everything else (acceptance, error class, reconstructed inner hellos, bytes
// written to the client) must not depend on which key pair it is.

type hcase struct {
	History []string `json:"history_one_connection_each"`
	AEAD    uint16   `json:"aead"`
	Retry   bool     `json:"retried_hello"`
	Target  string   `json:"hello_encrypted_to"`
	Keys    string   `json:"key_labels"`
}

// hkeys is the key material of one history.
type hkeys map[byte]echx.KeyPair

func historyKeys(label string) hkeys {
	return hkeys{
		// same shape as the matrix's target: a config the library's own encoder would not write
		'T': echx.NewKeyOpt(label+"-T", 42, append(append([]tlsref.Suite{{KDF: 2, AEAD: 2}}, echx.AllSuites...), tlsref.Suite{KDF: 1, AEAD: 0xffff}), targetPublicName, 200, []byte{0x12, 0x34, 0, 2, 0xaa, 0xbb}),
		'A': echx.NewKey(label+"-A", 42, echx.AllSuites, targetPublicName),
		'C': echx.NewKey(label+"-C", 43, echx.AllSuites, targetPublicName),
		// N: "the next key set" a caller loads into the buffers of an earlier connection
		'N': echx.NewKey(label+"-N", 44, echx.AllSuites[:2], otherPublicName),
		'U': echx.NewKey(label+"-U", 42, echx.AllSuites, targetPublicName),
	}
}

// own is a copy of b in a buffer of the caller (with room for the next thing the caller reads into it).
func own(b []byte) []byte { return append(make([]byte, 0, 512), b...) }

// pair is the key (config of cfg, private key priv) in memory that nothing else refers to.
func pair(cfg echx.KeyPair, priv []byte) ech.Key {
	return ech.Key{Config: own(cfg.Cfg.Raw), PrivateKey: own(priv), SendAsRetry: true}
}

type hevent struct {
	name   string
	class  string // what kind of connection this is, for the violation key
	holdsT bool   // the list holds the correct pair T
	keys   func(ks hkeys) []ech.Key
	after  func(ks hkeys, keys []ech.Key) // what the caller does to its memory once the connection is over
}

func historyAlphabet() []hevent {
	var evs []hevent
	for _, l := range []string{"T", "AT", "TA", "A", "CATA"} {
		evs = append(evs, hevent{name: "good[" + l + "]", class: "correct-pairs", holdsT: strings.Contains(l, "T"), keys: func(ks hkeys) []ech.Key {
			var out []ech.Key
			for i := 0; i < len(l); i++ {
				out = append(out, pair(ks[l[i]], ks[l[i]].Priv.Bytes()))
			}
			return out
		}})
	}
	// a config next to a private key that is not its own: the server does not hold that key
	evs = append(evs,
		hevent{name: "mispaired[config T + private key A]", class: "config-with-another-keys-private-key", keys: func(ks hkeys) []ech.Key {
			return []ech.Key{pair(ks['T'], ks['A'].Priv.Bytes())}
		}},
		hevent{name: "mispaired[config A + private key T]", class: "config-with-another-keys-private-key", keys: func(ks hkeys) []ech.Key {
			return []ech.Key{pair(ks['A'], ks['T'].Priv.Bytes())}
		}},
		hevent{name: "mispaired[A, config T + private key C]", class: "config-with-another-keys-private-key", keys: func(ks hkeys) []ech.Key {
			return []ech.Key{pair(ks['A'], ks['A'].Priv.Bytes()), pair(ks['T'], ks['C'].Priv.Bytes())}
		}},
		hevent{name: "malformed[config T + private key T cut to 31 octets]", class: "config-with-malformed-private-key", keys: func(ks hkeys) []ech.Key {
			return []ech.Key{pair(ks['T'], ks['T'].Priv.Bytes()[:31])}
		}},
		hevent{name: "malformed[config T + empty private key]", class: "config-with-malformed-private-key", keys: func(ks hkeys) []ech.Key {
			return []ech.Key{pair(ks['T'], nil)}
		}},
		hevent{name: "malformed[C, config T + private key T with one more octet]", class: "config-with-malformed-private-key", keys: func(ks hkeys) []ech.Key {
			return []ech.Key{pair(ks['C'], ks['C'].Priv.Bytes()), pair(ks['T'], append(ks['T'].Priv.Bytes(), 0))}
		}},
	)
	// correct pairs in buffers that the caller uses for something else once the connection is over
	overwrite := func(buf []byte, fill string, next []byte) {
		full := buf[:cap(buf)]
		switch fill {
		case "wiped":
			clear(full)
		case "filled with 0xff":
			for i := range full {
				full[i] = 0xff
			}
		case "next key set read into it":
			copy(full, next)
		}
	}
	for _, l := range []string{"T", "AT"} {
		for _, what := range []string{"config", "private key", "config and private key"} {
			for _, fill := range []string{"wiped", "filled with 0xff", "next key set read into it"} {
				if l != "T" && (what != "config and private key" || fill == "filled with 0xff") {
					continue
				}
				evs = append(evs, hevent{name: fmt.Sprintf("good[%s], afterwards %s %s", l, what, fill), class: "key-bytes-overwritten-afterwards", holdsT: true,
					keys: func(ks hkeys) []ech.Key {
						var out []ech.Key
						for i := 0; i < len(l); i++ {
							out = append(out, pair(ks[l[i]], ks[l[i]].Priv.Bytes()))
						}
						return out
					},
					after: func(ks hkeys, keys []ech.Key) {
						for _, k := range keys {
							if strings.Contains(what, "config") {
								overwrite(k.Config, fill, ks['N'].Cfg.Raw)
							}
							if strings.Contains(what, "private key") {
								overwrite(k.PrivateKey, fill, ks['N'].Priv.Bytes())
							}
						}
					}})
			}
		}
	}
	return evs
}

// keyFree replaces the hello records the client sent (they carry a payload sealed to the key pair of this history) by a token:
// what is left of an outcome - acceptance, error class, reconstructed inner hellos, what was written to the client - is the
// same for every key pair of the same shape.
func keyFree(o string, sent [][]byte) string {
	for i, rec := range sent {
		if len(rec) > 3 {
			o = strings.ReplaceAll(o, fmt.Sprintf("%x", rec[3:]), fmt.Sprintf("<outer hello %d as sent>", i+1))
		}
	}
	return o
}

type hrefKey struct {
	aead   uint16
	retry  bool
	tgt    string
	holdsT bool
}

func kindOf(retry bool) string {
	if retry {
		return "retry"
	}
	return "first"
}

// verdict names the direction of a difference for the violation key.
func verdict(got, want string) string {
	acc := func(s string) bool { return strings.HasPrefix(s, "accepted=true") }
	switch {
	case strings.HasPrefix(got, "CALLER-"):
		return "callers-keys-modified"
	case strings.HasPrefix(got, "newconn-error:") && !strings.HasPrefix(want, "newconn-error:"):
		if acc(want) {
			return "acceptable-hello-aborted"
		}
		return "hello-aborted"
	case acc(want) && !acc(got):
		return "acceptable-hello-rejected"
	case !acc(want) && acc(got):
		return "unacceptable-hello-accepted"
	}
	return "later-part-of-the-outcome-differs"
}

func histories(r *ev.Run) {
	alphabet := historyAlphabet()
	good := 0
	for _, e := range alphabet {
		if e.class == "correct-pairs" {
			good++
		}
	}
	// histories: all sequences of 1..2 connections; of 3 connections: all (thorough), those ending in a connection with
	// correct pairs (quick)
	var seqs [][]int
	enum.Sequences(len(alphabet), 3, func(seq []int) {
		if len(seq) == 0 || len(seq) == 3 && !r.Thorough() && alphabet[seq[2]].class != "correct-pairs" {
			return
		}
		seqs = append(seqs, slices.Clone(seq))
	})
	type hc struct {
		seq   []int
		aead  uint16
		retry bool
		tgt   string
	}
	var cases []hc
	for _, aead := range []uint16{1, 2, 3} {
		for _, retry := range []bool{false, true} {
			for _, tgt := range []string{"T", "U"} {
				for _, seq := range seqs {
					if tgt == "U" && len(seq) == 3 && !r.Thorough() {
						continue
					}
					cases = append(cases, hc{seq, aead, retry, tgt})
				}
			}
		}
	}
	r.Set("history_alphabet", len(alphabet))
	r.Set("histories", len(cases))

	// reference outcomes: one connection each, key pairs of labels of their own, twice (families a, b): the two must agree
	refs := map[hrefKey]string{}
	for _, aead := range []uint16{1, 2, 3} {
		for _, retry := range []bool{false, true} {
			for _, tgt := range []string{"T", "U"} {
				for _, holdsT := range []bool{false, true} {
					var os [2]string
					for fam := range os {
						ks := historyKeys(fmt.Sprintf("c09-href%c-%d-%v-%s-%v", 'a'+fam, aead, retry, tgt, holdsT))
						l := "A" // a list without T (a key of the same id and suites)
						if holdsT {
							l = "T"
						}
						o, sent, p := runSplitSent([]ech.Key{pair(ks[l[0]], ks[l[0]].Priv.Bytes())}, ks[tgt[0]], aead, retry, -1, "")
						if p != nil {
							r.Violation("panic:reference", fmt.Sprint(p), nil)
						}
						os[fam] = keyFree(o, sent)
					}
					if os[0] != os[1] {
						r.Violation(fmt.Sprintf("outcome-depends-on-which-key-pair-it-is:%s:target=%s:holdsT=%v", kindOf(retry), tgt, holdsT),
							fmt.Sprintf("two key sets of the same shape (labels differ), a single connection each, first connections of their keys in this process: the outcomes differ beyond the records the client sent\n a %.300s\n b %.300s", os[0], os[1]), nil)
					}
					refs[hrefKey{aead, retry, tgt, holdsT}] = os[0]
				}
			}
			if o := refs[hrefKey{aead, retry, "T", true}]; !strings.HasPrefix(o, "accepted=true") {
				r.Violation("reference-not-accepted", "history reference: hello to T not accepted with key list [T]: "+o[:min(len(o), 200)], nil)
			}
			if o := refs[hrefKey{aead, retry, "T", false}]; !strings.HasPrefix(o, "accepted=false") {
				r.Violation("reference-not-passed-through", "history reference: hello to T with key list [A]: "+o[:min(len(o), 200)], nil)
			}
		}
	}

	enum.ParallelFor(len(cases), func(i int) {
		c := cases[i]
		label := fmt.Sprintf("c09-h%d", i)
		ks := historyKeys(label)
		doc := hcase{AEAD: c.aead, Retry: c.retry, Target: c.tgt, Keys: label + "-{T,A,C,N,U}"}
		for _, j := range c.seq {
			doc.History = append(doc.History, alphabet[j].name)
		}
		kind := kindOf(c.retry)
		var earlier []string
		var course []string
		for n, j := range c.seq {
			e := alphabet[j]
			keys := e.keys(ks)
			// (a copy of the slice: the connection's own run rotates its slice away; the byte buffers are those of keys)
			o, sent, p := runSplitSent(slices.Clone(keys), ks[c.tgt[0]], c.aead, c.retry, -1, "")
			o = keyFree(o, sent)
			want := refs[hrefKey{c.aead, c.retry, c.tgt, e.holdsT}]
			// for the key: the kinds of earlier connections other than plain correct ones (those only when there is nothing else)
			before := "nothing"
			if len(earlier) > 0 {
				u := slices.DeleteFunc(slices.Clone(earlier), func(s string) bool { return s == "correct-pairs" })
				if len(u) == 0 {
					u = []string{"correct-pairs"}
				}
				sort.Strings(u)
				before = strings.Join(slices.Compact(u), "+")
			}
			switch {
			case p != nil:
				r.Violation(fmt.Sprintf("panic:history:%s:this=%s:earlier=%s", kind, e.class, before), fmt.Sprint(p), doc)
			case o != want:
				r.Violation(fmt.Sprintf("outcome-depends-on-earlier-connections-of-the-process:%s:target=%s:%s:this=%s:earlier=%s", kind, c.tgt, verdict(o, want), e.class, before),
					fmt.Sprintf("connection %d of the history %q (hello sealed to %s; this connection's list %s the correct pair T): its outcome is not the outcome that such a list has as the first connection of its keys in a process:\n got  %.300s\n want %.300s",
						n+1, doc.History, c.tgt, map[bool]string{true: "holds", false: "does not hold"}[e.holdsT], o, want), doc)
			}
			if strings.HasPrefix(o, "accepted=true") {
				course = append(course, "accepted")
			} else {
				course = append(course, "rejected/passthrough")
			}
			// the connection is over (its only observer was this harness): the memory of its keys is the caller's again
			if e.after != nil {
				e.after(ks, keys)
			}
			earlier = append(earlier, e.class)
		}
		r.Eval(fmt.Sprintf("%+v", doc), "history "+kind+" target="+c.tgt+" "+strings.Join(course, ","))
		if i%(len(cases)/3+1) == 5 {
			r.Sample(doc)
		}
	})
}
