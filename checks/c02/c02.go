// Package c02 decides C02: ECH is accepted only for an authentic payload bound
// to the exact outer hello. Fault enumeration over spec-built hellos (E1).
package c02

import (
	"bytes"
	"encoding/hex"
	"fmt"
	"slices"
	"strings"

	"github.com/c2FmZQ/ech"

	"verif/checks/c03"
	"verif/internal/echx"
	"verif/internal/enum"
	"verif/internal/ev"
	"verif/internal/hpkeref"
	"verif/internal/tlsref"
	"verif/internal/tlsx"
)

const innerName = "inner.secret.example"

// the canonical small-order points of Curve25519 (and non-canonical encodings of some of them)
var lowOrderPoints = func() [][]byte {
	hexs := []string{
		"0000000000000000000000000000000000000000000000000000000000000000",
		"0100000000000000000000000000000000000000000000000000000000000000",
		"e0eb7a7c3b41b8ae1656e3faf19fc46ada098deb9c32b1fd866205165f49b800",
		"5f9c95bca3508c24b1d0b1559c83ef5b04445cc4581c8e86d8224eddd09f1157",
		"ecffffffffffffffffffffffffffffffffffffffffffffffffffffffffffff7f",
		"edffffffffffffffffffffffffffffffffffffffffffffffffffffffffffff7f",
		"eeffffffffffffffffffffffffffffffffffffffffffffffffffffffffffff7f",
	}
	var out [][]byte
	for _, h := range hexs {
		b, _ := hex.DecodeString(h)
		out = append(out, b)
	}
	return out
}()

type base struct {
	AEAD     uint16 `json:"aead"`
	Compress bool   `json:"compress"`
	EchPos   int    `json:"ech_pos"`
	SID      int    `json:"sid_len"`
}

type mutation struct {
	Base base   `json:"base"`
	Kind string `json:"kind"`
	Arg  int    `json:"arg"`
}

func spec(key echx.KeyPair, b base) echx.Spec {
	outer, idx := echx.StdOuter("public.example", tlsref.DetBytes("sid", b.SID), b.EchPos)
	return echx.Spec{Key: key, Suite: tlsref.Suite{KDF: 1, AEAD: b.AEAD}, Outer: outer, EchIdx: idx,
		EncInner: echx.StdEncInner(innerName, []string{"h2"}, b.Compress), InnerBase: echx.StdInnerBase(),
		Padding: make([]byte, 13), EphLabel: fmt.Sprintf("c02-%d", b.AEAD)}
}

// evalMutated feeds a stream that must NOT be accepted.
func evalMutated(r *ev.Run, m mutation, stream []byte, keys []ech.Key, goKeys []ech.Key) {
	res := echx.Feed(stream, keys)
	replay := map[string]any{"mutation": m, "stream": echx.Hex(stream), "keys": echx.KeysDoc(keys)}
	oc := ""
	switch {
	case res.Panic != nil:
		// a crash is C08's business, but it is certainly not "fall-back or abort"
		r.Violation(fmt.Sprintf("panic:%s", m.Kind), fmt.Sprintf("panic: %v", res.Panic), replay)
		oc = "panic"
	case res.Accepted:
		r.Violation(fmt.Sprintf("accepted:%s", m.Kind), fmt.Sprintf("ECH accepted although %s(%d) was applied; forwarded %x", m.Kind, m.Arg, res.Forwarded), replay)
		oc = "ACCEPTED"
	case res.Err != nil:
		oc = "abort:" + echx.ErrClass(res.Err)
		if len(res.Forwarded) > 0 {
			r.Violation("abort-but-readable:"+m.Kind, "NewConn failed but the returned Conn yields bytes", replay)
		}
	default:
		oc = "fallback-to-outer"
		recs, rest := tlsref.SplitRecords(res.Forwarded)
		if len(recs) != 1 || len(rest) != 0 || !echx.SameRecordModuloVersion(recs[0], stream) {
			oc = "fallback-modified"
			r.Violation("fallback-not-outer:"+m.Kind, fmt.Sprintf("not accepted, yet the forwarded record is not the client's outer hello:\n got  %x\n sent %x", res.Forwarded, stream), replay)
		}
	}
	// second opinion: crypto/tls with the same keys must not accept either (else the mutation is not one)
	// (crypto/tls performs trial decryption: it ignores the config id and the config's suite list, which the draft
	// permits; the property under check is stricter, so the two "consistent-hello" kinds are exempt here)
	if seen, err := tlsx.GoServerSees(stream, goKeys); err == nil && seen.ServerName == innerName && !strings.HasPrefix(m.Kind, "consistent-hello") {
		r.Add("go_accepts_mutated", 1)
		r.Violation("oracle-disagreement:"+m.Kind, "crypto/tls accepts this 'mutated' hello: the mutation does not break authenticity (check generator)", replay)
	}
	r.Eval(string(stream)+m.Kind, m.Kind+" -> "+oc)
}

func Run(r *ev.Run) {
	r.Rule("fault enumeration (E1): base tuples = 3 AEADs x inner with/without outer-extension compression x ECH extension first/middle/last x session id 0/32 bytes, sealed by the reference sender; per base: EVERY single-bit flip of the outer ClientHello handshake message, every truncation of enc and of payload (consistent length prefixes), enc replaced by another valid point, wrong private key (same id), config differing in one byte (wrong info), suite id altered in the extension, suite absent from the config, wrong config id, payload sealed at sequence number 1, payload sealed for another outer hello, 1..32 zero/non-zero bytes inserted after the extensions block or inside the ECH extension after the payload, 1..3 bytes inside the extensions block after the last extension, a trailer inside the ECH extension sealed by a client that mimics the implementation's own AAD construction, an extension added/removed after sealing, hellos sealed consistently but naming a config id the server does not hold or a suite its config does not list, payloads forged from public data for 7 low-order X25519 points as enc. distinct = distinct (stream, key set) pairs")
	r.Assume("reference sender validated against crypto/tls on every run", "bit flips cover the handshake message (header+body), not the 5-byte record header, which is not authenticated by ECH")
	key := echx.NewKey("c02", 42, echx.AllSuites, "public.example")
	if err := c03.SelfValidate(echx.NewKey("c03", 7, echx.AllSuites, "public.example")); err != nil {
		ev.ToolError("%v", err)
	}
	keys := echx.Keys(key)
	var bases []base
	for _, aead := range []uint16{1, 2, 3} {
		for _, comp := range []bool{false, true} {
			for _, pos := range []int{0, 3, 99} {
				for _, sid := range []int{0, 32} {
					bases = append(bases, base{aead, comp, pos, sid})
				}
			}
		}
	}
	if !r.Thorough() {
		// quick: all bit flips on a covering subset of bases (each AEAD, each position, both compress, both sid); other mutations on all bases
	}
	type job struct {
		m      mutation
		stream []byte
		keys   []ech.Key
	}
	var jobs []job
	for bi, b := range bases {
		s := spec(key, b)
		built := s.Build()
		stream := built.Outer.Record()
		// base must be accepted (shared with C03): a failing base makes every mutation vacuous
		res := echx.Feed(stream, keys)
		if res.Err != nil || !res.Accepted {
			r.Violation("base-not-accepted", fmt.Sprintf("valid hello not accepted: %v", res.Err), map[string]any{"base": b, "stream": echx.Hex(stream)})
			continue
		}
		r.Eval(string(stream), "base -> accepted")
		// "accepted" means the backend gets the decrypted hello: the unmutated base, in one record and framed in two, is
		// forwarded as the reference reconstruction (never as the client's outer records)
		for _, framed := range [][]byte{stream, tlsref.Fragment(0x0301, built.Outer.Msg(), 100), tlsref.Fragment(0x0301, built.Outer.Msg(), 3)} {
			fr := echx.Feed(framed, keys)
			want := built.Expected.Msg()
			got, rest := tlsref.HandshakeBytes(fr.Forwarded, len(want))
			if fr.Err != nil || !fr.Accepted || !bytes.Equal(got, want) || len(rest) != 0 {
				r.Violation("accepted-but-not-decrypted-hello-forwarded", fmt.Sprintf("valid hello (framed in %d bytes of records): err=%v accepted=%v; the backend received %d bytes that are not the reconstructed inner hello", len(framed), fr.Err, fr.Accepted, len(fr.Forwarded)), map[string]any{"base": b, "stream": echx.Hex(framed), "keys": echx.KeysDoc(keys)})
			}
			r.Eval(string(framed)+"fwd", "base -> accepted, inner forwarded")
		}
		flipAll := true // every single-bit flip on every base tuple (cheap enough for the quick tier too)
		_ = bi
		if flipAll {
			for bit := 5 * 8; bit < len(stream)*8; bit++ {
				mut := append([]byte{}, stream...)
				mut[bit/8] ^= 1 << (bit % 8)
				jobs = append(jobs, job{mutation{b, "bitflip", bit - 40}, mut, keys})
			}
		}
		ext := built.Outer.Exts[s.EchIdx].Data
		encLen := int(ext[6])<<8 | int(ext[7])
		enc := ext[8 : 8+encLen]
		payload := ext[8+encLen+2:]
		rebuild := func(enc, payload []byte, kdf, aead uint16, id byte) []byte {
			o := built.Outer.Clone()
			o.Exts[s.EchIdx] = tlsref.ECHOuter(kdf, aead, id, enc, payload)
			return o.Record()
		}
		for n := 0; n < len(enc); n++ {
			jobs = append(jobs, job{mutation{b, "enc-truncated", n}, rebuild(enc[:n], payload, 1, b.AEAD, 42), keys})
		}
		for n := 0; n < len(payload); n++ {
			if !r.Thorough() && n > 40 && n < len(payload)-40 && n%7 != 0 {
				continue
			}
			jobs = append(jobs, job{mutation{b, "payload-truncated", n}, rebuild(enc, payload[:n], 1, b.AEAD, 42), keys})
		}
		other := hpkeref.DetKey("other-point").PublicKey().Bytes()
		jobs = append(jobs, job{mutation{b, "enc-other-point", 0}, rebuild(other, payload, 1, b.AEAD, 42), keys})
		jobs = append(jobs, job{mutation{b, "enc-all-zero", 0}, rebuild(make([]byte, 32), payload, 1, b.AEAD, 42), keys})
		// wrong private key under the same config bytes
		wrong := key
		wrong.Priv = hpkeref.DetKey("c02-wrong-key")
		jobs = append(jobs, job{mutation{b, "server-wrong-private-key", 0}, stream, echx.Keys(wrong)})
		// config differing in one byte at every byte position of the config (wrong info / wrong key / wrong id)
		for pos := 0; pos < len(key.Cfg.Raw); pos++ {
			raw := append([]byte{}, key.Cfg.Raw...)
			raw[pos] ^= 0x01
			k2 := []ech.Key{{Config: raw, PrivateKey: key.Priv.Bytes(), SendAsRetry: true}}
			jobs = append(jobs, job{mutation{b, "server-config-byte-differs", pos}, stream, k2})
		}
		// suite id altered in the extension (sealed under b.AEAD, names another supported AEAD / unknown)
		for _, a := range []uint16{1, 2, 3, 4} {
			if a != b.AEAD {
				jobs = append(jobs, job{mutation{b, "ext-names-other-aead", int(a)}, rebuild(enc, payload, 1, a, 42), keys})
			}
		}
		jobs = append(jobs, job{mutation{b, "ext-names-other-kdf", 2}, rebuild(enc, payload, 2, b.AEAD, 42), keys})
		// suite not offered by the server's config although the key matches
		var others []tlsref.Suite
		for _, su := range echx.AllSuites {
			if su.AEAD != b.AEAD {
				others = append(others, su)
			}
		}
		k3 := echx.NewKey("c02", 42, others, "public.example")
		jobs = append(jobs, job{mutation{b, "suite-not-in-config", 0}, stream, echx.Keys(k3)})
		for _, id := range []byte{0, 41, 43, 255} {
			jobs = append(jobs, job{mutation{b, "ext-wrong-config-id", int(id)}, rebuild(enc, payload, 1, b.AEAD, id), keys})
		}
		// payload sealed at sequence number 1
		s2 := s
		sealer, _ := tlsref.NewSealer(key.Cfg, s.Suite, hpkeref.DetKey("eph:"+s.EphLabel), nil)
		sealer.Ctx.Seq = 1
		jobs = append(jobs, job{mutation{b, "sealed-at-seq1", 0}, s2.BuildWith(sealer, true).Outer.Record(), keys})
		// payload transplanted from a hello with a different session id / random (AAD mismatch at the sender)
		alt := s
		alt.Outer = s.Outer.Clone()
		alt.Outer.Random = tlsref.DetBytes("alt-random", 32)
		ab := alt.Build()
		aext := ab.Outer.Exts[s.EchIdx]
		o := built.Outer.Clone()
		o.Exts[s.EchIdx] = aext
		jobs = append(jobs, job{mutation{b, "payload-from-other-outer", 0}, o.Record(), keys})
		// bytes inserted after the extensions block (lengths fixed up): not covered by the AAD the server rebuilds
		for _, n := range []int{1, 2, 7, 32} {
			for _, fill := range []byte{0x00, 0x01} {
				h := built.Outer.Clone()
				h.Trailer = bytes.Repeat([]byte{fill}, n)
				jobs = append(jobs, job{mutation{b, fmt.Sprintf("trailing-bytes-after-extensions-%02x", fill), n}, h.Record(), keys})
			}
		}
		// bytes after the payload inside the ECH extension, with the payload sealed by a client that KNOWS how this implementation
		// builds its AAD (it zeroes the last len(payload) bytes of the extension, wherever the payload is): the ciphertext of an
		// AEAD does not depend on the AAD, so such a client can compute ciphertext, then that AAD, then the tag. If the server
		// accepts this hello, the trailing bytes are outer-hello bytes that no authentication covers
		for _, tl := range []int{1, 3, 16} {
			sl2, _ := tlsref.NewSealer(key.Cfg, s.Suite, hpkeref.DetKey("eph:"+s.EphLabel), nil)
			inner := s.InnerBase.Clone()
			inner.Exts = s.EncInner
			encInner := tlsref.EncodeInner(inner, s.Padding)
			trailer := tlsref.DetBytes("ech-ext-trailer", tl)
			seq := sl2.Ctx.Seq
			ct := sl2.Ctx.Seal(nil, encInner)[:len(encInner)]
			sl2.Ctx.Seq = seq
			full := tlsref.ECHOuter(1, b.AEAD, 42, sl2.Enc, make([]byte, len(encInner)+16)).Data
			hdr := full[:len(full)-(len(encInner)+16)]
			o := s.Outer.Clone()
			o.Exts[s.EchIdx] = tlsref.Ext{Type: tlsref.ExtECH, Data: append(append(append([]byte{}, hdr...), ct[:tl]...), make([]byte, len(encInner)+16)...)}
			payload2 := sl2.Ctx.Seal(o.Body(), encInner)
			for _, flip := range []int{-1, 0, tl - 1} {
				t2 := append([]byte{}, trailer...)
				if flip >= 0 {
					t2[flip] ^= 0x01
				}
				o.Exts[s.EchIdx] = tlsref.Ext{Type: tlsref.ExtECH, Data: append(append(append([]byte{}, hdr...), payload2...), t2...)}
				jobs = append(jobs, job{mutation{b, "ech-extension-trailer-sealed-to-the-implementations-aad", tl*10 + flip + 1}, o.Record(), keys})
			}
		}
		// 1..3 bytes appended INSIDE the extensions block after the last extension (too few to form an extension header; block
		// and message lengths fixed up): either the hello is malformed (abort) or the bytes are covered by the AAD (no acceptance)
		for n := 1; n <= 3; n++ {
			for _, fill := range []byte{0x00, 0xff} {
				h := built.Outer.Clone()
				h.ExtsTrailer = bytes.Repeat([]byte{fill}, n)
				jobs = append(jobs, job{mutation{b, fmt.Sprintf("bytes-inside-extensions-block-after-last-extension-%02x", fill), n}, h.Record(), keys})
			}
		}
		// bytes appended INSIDE the ECH extension, after the payload vector (extension and block lengths fixed up): the AAD
		// covers the whole outer hello with only the payload zeroed, so these bytes must break authentication
		for _, n := range []int{1, 2, 7, 32} {
			for _, fill := range []byte{0x00, 0x01} {
				h := built.Outer.Clone()
				e := tlsref.ECHOuter(1, b.AEAD, 42, enc, payload)
				e.Data = append(append([]byte{}, e.Data...), bytes.Repeat([]byte{fill}, n)...)
				h.Exts[s.EchIdx] = e
				jobs = append(jobs, job{mutation{b, fmt.Sprintf("bytes-after-payload-inside-ech-extension-%02x", fill), n}, h.Record(), keys})
			}
		}
		// an extra (unknown) extension appended after sealing, and an extension removed after sealing
		{
			h := built.Outer.Clone()
			h.Exts = append(h.Exts, tlsref.Ext{Type: 0x7b7b, Data: []byte{1}})
			jobs = append(jobs, job{mutation{b, "extension-added-after-sealing", 0}, h.Record(), keys})
			h2 := built.Outer.Clone()
			for i, e := range h2.Exts {
				if e.Type == tlsref.ExtPSKModes {
					h2.Exts = append(h2.Exts[:i:i], h2.Exts[i+1:]...)
					break
				}
			}
			jobs = append(jobs, job{mutation{b, "extension-removed-after-sealing", 0}, h2.Record(), keys})
		}
		// fields of the outer hello OUTSIDE the extensions block edited after sealing, with all length prefixes kept consistent: one
		// octet appended to cipher_suites (an odd-length vector: a parser that keeps only whole suites drops it from what it
		// authenticates), a second suite appended, one compression method appended, one octet appended to the session id
		{
			for _, ed := range []string{"cipher-suites-odd-octet", "cipher-suites-one-more-suite", "compression-one-more-method", "session-id-one-more-octet"} {
				msg := slices.Clone(built.Outer.Msg())
				// handshake header(4) version(2) random(32) sid<1> suites<2> compression<1> extensions<2>
				p := 4 + 2 + 32
				sidLen := int(msg[p])
				suitesAt := p + 1 + sidLen
				suitesLen := int(msg[suitesAt])<<8 | int(msg[suitesAt+1])
				compAt := suitesAt + 2 + suitesLen
				compLen := int(msg[compAt])
				var at, n int
				var add []byte
				switch ed {
				case "cipher-suites-odd-octet":
					at, n, add = suitesAt+2+suitesLen, 1, []byte{0x13}
					msg[suitesAt], msg[suitesAt+1] = byte((suitesLen+1)>>8), byte(suitesLen+1)
				case "cipher-suites-one-more-suite":
					at, n, add = suitesAt+2+suitesLen, 2, []byte{0x13, 0x03}
					msg[suitesAt], msg[suitesAt+1] = byte((suitesLen+2)>>8), byte(suitesLen+2)
				case "compression-one-more-method":
					at, n, add = compAt+1+compLen, 1, []byte{1}
					msg[compAt] = byte(compLen + 1)
				case "session-id-one-more-octet":
					if sidLen == 32 {
						continue // already as long as a session id gets
					}
					at, n, add = p+1+sidLen, 1, []byte{0x5a}
					msg[p] = byte(sidLen + 1)
				}
				msg = slices.Insert(msg, at, add...)
				hl := len(msg) - 4
				msg[1], msg[2], msg[3] = byte(hl>>16), byte(hl>>8), byte(hl)
				_ = n
				jobs = append(jobs, job{mutation{b, ed + "-after-sealing", 0}, tlsref.Record(22, 0x0301, msg), keys})
			}
		}
		// a well-formed DUPLICATE of an extension the hello already has, inserted after sealing (right after the original, and at
		// the end of the block): a parser that keeps "the first one" must not leave the copy out of what it authenticates
		for i, e := range built.Outer.Exts {
			if i == s.EchIdx {
				continue // (a second ECH extension is refused outright: C04/C08)
			}
			for _, at := range []int{i + 1, len(built.Outer.Exts)} {
				h := built.Outer.Clone()
				h.Exts = slices.Insert(h.Exts, at, tlsref.Ext{Type: e.Type, Data: slices.Clone(e.Data)})
				jobs = append(jobs, job{mutation{b, fmt.Sprintf("duplicate-extension-inserted-after-sealing-type%d", e.Type), at}, h.Record(), keys})
			}
		}
		// CONSISTENTLY sealed hellos (AAD and info as the client sees them) that name a config id the server does not
		// hold, although the HPKE key is one the server holds: acceptance would mean trial decryption with unnamed keys
		for _, id := range []byte{9, 200} {
			fake := key
			fake.Cfg.ID = id // the client's view: same public key and config bytes (info), other id in the extension
			s4 := s
			s4.Key = fake
			jobs = append(jobs, job{mutation{b, "consistent-hello-naming-unheld-config-id", int(id)}, s4.Build().Outer.Record(), keys})
		}
		// consistently sealed with a suite the server's config does not list (server config = client's info, so HPKE would open)
		{
			var listed []tlsref.Suite
			for _, su := range echx.AllSuites {
				if su.AEAD != b.AEAD {
					listed = append(listed, su)
				}
			}
			kk := echx.NewKey("c02-unlisted", 42, listed, "public.example") // config lists only the other two AEADs
			s5 := s
			s5.Key = kk // client seals with b.AEAD although kk's config does not list it
			jobs = append(jobs, job{mutation{b, "consistent-hello-with-unlisted-suite", int(b.AEAD)}, s5.Build().Outer.Record(), echx.Keys(kk)})
		}
		// ... and with a suite whose KDF and AEAD each occur in the config's list, but not TOGETHER: the list is a list of pairs
		{
			otherAEAD := uint16(1)
			if b.AEAD == 1 {
				otherAEAD = 3
			}
			kk := echx.NewKey("c02-cross", 42, []tlsref.Suite{{KDF: 1, AEAD: otherAEAD}, {KDF: 2, AEAD: b.AEAD}}, "public.example")
			s6 := s
			s6.Key = kk // the client names (KDF 1, b.AEAD): KDF 1 is listed (with another AEAD), b.AEAD is listed (with another KDF)
			jobs = append(jobs, job{mutation{b, "consistent-hello-with-unlisted-suite-cross-pair", int(b.AEAD)}, s6.Build().Outer.Record(), echx.Keys(kk)})
		}
		// degenerate encapsulated keys: low-order X25519 points make the DH output predictable (all zero / rejected);
		// forge the payload from the public config only, for both predictions of the receiver's DH value
		for pi, pt := range lowOrderPoints {
			for di, dh := range [][]byte{nil, make([]byte, 32)} {
				ctx, err := hpkeref.SetupFromDH(dh, pt, key.Cfg.PublicKey, 1, b.AEAD, append([]byte("tls ech\x00"), key.Cfg.Raw...))
				if err != nil {
					continue
				}
				o := s.Outer.Clone()
				inner := s.InnerBase.Clone()
				inner.Exts = s.EncInner
				enc := tlsref.EncodeInner(inner, s.Padding)
				o.Exts[s.EchIdx] = tlsref.ECHOuter(1, b.AEAD, 42, pt, make([]byte, len(enc)+16))
				payload := ctx.Seal(o.Body(), enc)
				o.Exts[s.EchIdx] = tlsref.ECHOuter(1, b.AEAD, 42, pt, payload)
				jobs = append(jobs, job{mutation{b, "forged-with-low-order-enc", pi*2 + di}, o.Record(), keys})
			}
		}
		// info string without the config (sender uses a wrong info)
		s3 := s
		s3.Info = []byte("tls ech\x00")
		jobs = append(jobs, job{mutation{b, "sender-wrong-info", 0}, s3.Build().Outer.Record(), keys})
	}
	r.Set("bases", len(bases))
	r.Set("mutations", len(jobs))
	enum.ParallelFor(len(jobs), func(i int) {
		j := jobs[i]
		evalMutated(r, j.m, j.stream, j.keys, j.keys)
		if i%(len(jobs)/5+1) == 11 {
			r.Sample(map[string]any{"mutation": j.m, "stream": echx.Hex(j.stream)})
		}
	})
	_ = bytes.Equal
}
