// Package c19 decides C19: Transport keeps HTTP requests encrypted, correctly
// named and origin-isolated. Part 1: exhaustive decision table for the HTTP/3
// choice and the record filtering (E1). Part 2: all request histories up to a
// depth bound through the real net/http stack over in-memory TLS servers,
// against a reference (E4).
package c19

import (
	"context"
	"crypto/tls"
	"errors"
	"fmt"
	"io"
	"net"
	"net/http"
	"reflect"
	"slices"
	"sort"
	"strings"
	"sync"
	"sync/atomic"
	"time"

	"github.com/c2FmZQ/ech"
	"github.com/c2FmZQ/ech/dns"

	"verif/internal/dnsref"
	"verif/internal/dohmem"
	"verif/internal/enum"
	"verif/internal/ev"
	"verif/internal/memnet"
	"verif/internal/tlsx"
)

var (
	mux     = dohmem.NewMux()
	muxOnce sync.Once
)

// ---------- part 1: decision table ----------

type recSpec struct {
	Prio  int      `json:"prio"`
	ALPN  []string `json:"alpn"`
	NoDef bool     `json:"no_default_alpn"`
}

var alpnChoices = [][]string{nil, {"h3"}, {"h2"}, {"h3", "h2"}, {"http/1.1"}, {"foo"}, {"h3-29", "h2"}, {"H3"}, {"H3", "h2"}} // "h3-29" (a draft version id) is not "h3"; round 13: neither is "H3" (ALPN ids are octet strings compared exactly, RFC 7301 3.1; the selection and the record filter must agree on that)

func recDomain() []recSpec {
	var out []recSpec
	for _, p := range []int{1, 2} {
		for _, a := range alpnChoices {
			for _, nd := range []bool{false, true} {
				if nd && a == nil {
					continue // no-default-alpn without alpn is not a valid record (RFC 9460 §7.1.1)
				}
				out = append(out, recSpec{p, a, nd})
			}
		}
	}
	return out
}

// model: which protocol, and which records (by index) reach the dialer
func model(recs []recSpec, h3 bool) (useH3 bool, kept []int) {
	order := make([]int, len(recs))
	for i := range order {
		order[i] = i
	}
	sort.SliceStable(order, func(i, j int) bool { return recs[order[i]].Prio < recs[order[j]].Prio })
	speaksH12 := func(r recSpec) bool {
		return !r.NoDef || slices.Contains(r.ALPN, "h2") || slices.Contains(r.ALPN, "http/1.1")
	}
	if h3 {
		for _, i := range order {
			r := recs[i]
			if r.Prio == 0 {
				continue // an alias-mode record is not a usable record: its parameters are ignored (RFC 9460 §2.4.2)
			}
			if slices.Contains(r.ALPN, "h3") {
				useH3 = true
				break
			}
			if speaksH12(r) {
				break
			}
		}
	}
	for _, i := range order {
		r := recs[i]
		if r.Prio == 0 {
			continue
		}
		if useH3 && slices.Contains(r.ALPN, "h3") || !useH3 && speaksH12(r) {
			kept = append(kept, i)
		}
	}
	return
}

type h3RT struct {
	dialer  *ech.Dialer[*tls.Conn]
	called  int
	respond bool // answer with a response (whose Request field is the request this round-tripper was given, as net/http requires)
}

func (h *h3RT) RoundTrip(req *http.Request) (*http.Response, error) {
	h.called++
	// an HTTP/3 transport would dial through the context-carried resolution result: do that to observe it
	_, err := h.dialer.Dial(req.Context(), "udp", "ignored.invalid:443", nil)
	if h.respond {
		return &http.Response{StatusCode: 200, Status: "200 OK", Proto: "HTTP/3.0", ProtoMajor: 3, Header: http.Header{}, Body: http.NoBody, Request: req}, nil
	}
	return nil, fmt.Errorf("h3 fake: %w", err)
}

func decisionTable(r *ev.Run) {
	dom := recDomain()
	var sets [][]recSpec
	maxN := 2
	enum.Sequences(len(dom), maxN, func(seq []int) {
		if len(seq) == 0 {
			return
		}
		var s []recSpec
		for _, i := range seq {
			s = append(s, dom[i])
		}
		// equal priorities: the resolver's sort is not stable across them; keep priorities distinct or identical records
		for i := range s {
			for j := i + 1; j < len(s); j++ {
				if s[i].Prio == s[j].Prio {
					return
				}
			}
		}
		sets = append(sets, s)
	})
	// three-record sets need three priorities: add a third level
	{
		for _, a := range dom[:len(dom)/2] {
			for _, b := range dom[len(dom)/2:] {
				for _, c := range dom[:len(dom)/2] {
					c.Prio = 3
					sets = append(sets, []recSpec{a, b, c})
				}
			}
		}
	}
	// a service-mode record FOLLOWED in the answer by an alias-mode record that carries parameters (the resolver keeps the set as
	// a service set; the alias record's alpn must not take part in any decision)
	for _, a := range dom[:len(dom)/2] {
		for _, nd := range []bool{false, true} {
			sets = append(sets, []recSpec{a, {0, []string{"h3"}, nd}})
		}
	}
	r.Set("record_sets", len(sets))
	nShard := 32
	enum.ParallelFor(nShard, func(sh int) {
		host := fmt.Sprintf("doh-c19-%d.test", sh)
		srv := mux.Server(host)
		for si := sh; si < len(sets); si += nShard {
			set := sets[si]
			for _, h3mode := range []int{0, 1, 2, 4, 5, 6} { // HTTP3Transport: nil / set and failing / set and answering; +4: all service records name ONE shared target
				sharedTarget := h3mode >= 4
				h3mode &= 3
				withH3 := h3mode > 0
				var rrs []dnsref.RR
				for i, rc := range set {
					ps := []dnsref.Param{}
					if rc.ALPN != nil {
						ps = append(ps, dnsref.ParamALPN(rc.ALPN...))
					}
					if rc.NoDef {
						ps = append(ps, dnsref.ParamNoDefaultALPN())
					}
					ps = append(ps, dnsref.ParamPort(uint16(1000+i))) // a distinct port per record identifies it among the dial targets
					target := ""
					if rc.Prio == 0 {
						target = "alias-target.example"
					} else if sharedTarget {
						target = "svc.example" // the records differ in protocol and port only; dropping one must not take the name's addresses with it
					}
					rrs = append(rrs, dnsref.RR{Name: "a.example", Type: 65, Class: 1, TTL: 60, Fields: dnsref.SVCB(uint16(rc.Prio), target, ps)})
				}
				srv.Zone = func(name string, t uint16) dohmem.Answer {
					switch {
					case name == "a.example" && t == 65:
						return dohmem.Answer{Records: rrs}
					case name == "a.example" && t == 1:
						return dohmem.Answer{Records: []dnsref.RR{{Name: name, Type: 1, Class: 1, TTL: 60, Fields: []dnsref.Field{{Raw: []byte{192, 0, 2, 1}}}}}}
					case name == "svc.example" && t == 1:
						return dohmem.Answer{Records: []dnsref.RR{{Name: name, Type: 1, Class: 1, TTL: 60, Fields: []dnsref.Field{{Raw: []byte{192, 0, 2, 2}}}}}}
					}
					return dohmem.Answer{}
				}
				tr := ech.NewTransport()
				tr.Resolver, _ = ech.NewResolver("https://" + host + "/dns-query")
				var mu sync.Mutex
				var dialed []int
				tcpDials := 0
				if si%2 == 1 {
					// Transport.Dialer is an exported field ("This Dialer is used to dial the TLS connection"): a caller may REPLACE it
					// instead of editing what NewTransport put there; the Dialer in the field is the one that dials
					tr.Dialer = ech.NewDialer()
				}
				tr.Dialer.MaxConcurrency = 1
				tr.Dialer.ConcurrencyDelay = time.Millisecond // a failure that is reported before the feeder waits does not wake it: keep the fallback delay short
				tr.Dialer.DialFunc = func(ctx context.Context, network, addr string, tc *tls.Config) (*tls.Conn, error) {
					mu.Lock()
					defer mu.Unlock()
					_, p, _ := net.SplitHostPort(addr)
					var port int
					fmt.Sscanf(p, "%d", &port)
					if ctx.Err() == nil || true {
						dialed = append(dialed, port-1000)
					}
					if strings.HasPrefix(network, "tcp") {
						tcpDials++
					}
					return nil, errors.New("refused")
				}
				h3 := &h3RT{dialer: tr.Dialer, respond: h3mode == 2}
				if withH3 {
					tr.HTTP3Transport = h3
				}
				req, _ := http.NewRequest("GET", "https://a.example/", nil)
				resp, err := tr.RoundTrip(req)
				tr.HTTPTransport.CloseIdleConnections()
				wantH3, wantKept := model(set, withH3)
				replay := map[string]any{"records": set, "dialer_field_replaced": si%2 == 1, "http3_transport_set": withH3, "http3_transport_answers": h3mode == 2, "records_share_one_target_name": sharedTarget}
				switch {
				case wantH3 && h3mode == 2:
					// the HTTP/3 round-tripper answered: the caller gets that response, attributed to the request the caller made
					if err != nil || resp == nil {
						r.Violation("decision:h3-response-lost", fmt.Sprintf("the HTTP/3 round-tripper answered but RoundTrip returned %v, %v", resp, err), replay)
					} else if resp.Request != req {
						r.Violation("h3:response-request-identity", fmt.Sprintf("the response's Request is not the caller's request (URL %v, the caller asked for %v)", resp.Request.URL, req.URL), replay)
					}
				case err == nil:
					r.Violation("decision:request-succeeded", "request succeeded although every dial fails", replay)
				}
				mu.Lock()
				if wantH3 && tcpDials > 0 {
					r.Violation("decision:tcp-dial-although-h3-chosen", fmt.Sprintf("HTTP/3 was chosen (and %s), yet %d TCP dial(s) were made with the record set kept for HTTP/3", map[bool]string{true: "answered", false: "failed"}[h3mode == 2], tcpDials), replay)
				}
				mu.Unlock()
				if (h3.called > 0) != wantH3 {
					r.Violation(fmt.Sprintf("decision:use-h3=%v-want-%v", h3.called > 0, wantH3), fmt.Sprintf("HTTP/3 round-tripper used: %v, model says %v", h3.called > 0, wantH3), replay)
				}
				mu.Lock()
				got := slices.Clone(dialed)
				mu.Unlock()
				sort.Ints(got)
				got = slices.Compact(got)
				want := slices.Clone(wantKept)
				sort.Ints(want)
				if !slices.Equal(got, want) && !(len(got) == 0 && len(want) == 0) {
					// when no record is compatible the dialer falls back to plain addresses (port 443 => index -557): that is Targets' rule
					if !(len(want) == 0 && len(got) == 1 && got[0] == 443-1000) {
						r.Violation("decision:records-handed-to-dialer", fmt.Sprintf("dial targets came from records %v, model keeps %v (use h3 = %v)", got, want, wantH3), replay)
					}
				}
				r.Eval(fmt.Sprintf("%+v|%v|%v", set, h3mode, sharedTarget), fmt.Sprintf("decision: h3=%v kept=%d", wantH3, len(want)))
				if si == 77 {
					r.Sample(replay)
				}
				// ... and the NEXT request of the same Transport (same resolver, the answer still cached), made after the
				// application took the HTTP/3 round-tripper away: it is decided on the records as the zone publishes them, not on
				// what an earlier request made of them
				if withH3 && wantH3 {
					tr.HTTP3Transport = nil
					mu.Lock()
					dialed = nil
					mu.Unlock()
					req2, _ := http.NewRequest("GET", "https://a.example/", nil)
					tr.RoundTrip(req2)
					tr.HTTPTransport.CloseIdleConnections()
					_, wantKept2 := model(set, false)
					mu.Lock()
					got2 := slices.Clone(dialed)
					mu.Unlock()
					sort.Ints(got2)
					got2 = slices.Compact(got2)
					want2 := slices.Clone(wantKept2)
					sort.Ints(want2)
					if !slices.Equal(got2, want2) && !(len(got2) == 0 && len(want2) == 0) && !(len(want2) == 0 && len(got2) == 1 && got2[0] == 443-1000) {
						r.Violation("decision:later-request-sees-an-earlier-requests-filter", fmt.Sprintf("after a request that chose HTTP/3, the HTTP/3 round-tripper was removed and the same Transport asked again: dial targets came from records %v, the records as published give %v", got2, want2), replay)
					}
					r.Eval(fmt.Sprintf("%+v|%v|%v|then-tcp", set, h3mode, sharedTarget), fmt.Sprintf("then tcp: kept=%d", len(want2)))
				}
			}
		}
	})
}

// ---------- part 2: request histories ----------

type origin struct {
	Scheme string
	Host   string
	Port   string // "" = default
}

func (o origin) url() string {
	h := o.Host
	if o.Port != "" {
		h += ":" + o.Port
	}
	return o.Scheme + "://" + h + "/path"
}

func (o origin) key() string { return o.Scheme + "://" + o.Host + ":" + o.Port }

var origins = []origin{
	{"https", "a.example", ""}, {"https", "b.example", ""}, {"https", "a.example", "8443"}, {"https", "b.example", "8443"},
	{"http", "a.example", ""}, {"http", "b.example", ""}, {"http", "a.example", "8443"}, {"http", "b.example", "8443"},
	// an http URL that spells out its default port: the Host the server sees keeps the ":80"
	{"http", "a.example", "80"},
	// IPv6-literal origins (used by a dedicated family only): the textual forms "[fd00::443]:8443" and "[fd00::]:8443" must not
	// be confused with one another, nor with "[fd00::]:443"
	{"https", "[fd00::443]", "8443"}, {"https", "[fd00::]", "8443"}, {"https", "[fd00::]", ""}, {"https", "[fd00::8443]", ""},
	// the fully-qualified spelling of a.example (used by a dedicated family only): another URL authority, hence another origin
	// with connections of its own, dialed for the name as the URL spells it
	{"https", "a.example.", ""},
}

const dottedOrigin = 13

const firstLiteralOrigin = 9

func (o origin) literal() string {
	if strings.HasPrefix(o.Host, "[") {
		return strings.Trim(o.Host, "[]")
	}
	return ""
}

// zone kinds: 0 no HTTPS records, 1 service records (also for the _8443._https names), 2 alias to c.example (own address)
func zoneFor(kind int) func(name string, t uint16) dohmem.Answer {
	addr := func(name string, ip ...byte) dohmem.Answer {
		return dohmem.Answer{Records: []dnsref.RR{{Name: name, Type: 1, Class: 1, TTL: 60, Fields: []dnsref.Field{{Raw: ip}}}}}
	}
	return func(name string, t uint16) dohmem.Answer {
		base := strings.TrimPrefix(name, "_8443._https.")
		switch t {
		case 1:
			switch name {
			case "a.example", "b.example":
				return addr(name, 192, 0, 2, 1)
			case "c.example":
				return addr(name, 192, 0, 2, 3)
			}
		case 65:
			if kind == 2 && name == "c.example" {
				// the alias target publishes a service-mode record of its own
				return dohmem.Answer{Records: []dnsref.RR{{Name: name, Type: 65, Class: 1, TTL: 60, Fields: dnsref.SVCB(1, "", []dnsref.Param{dnsref.ParamALPN("http/1.1")})}}}
			}
			if base != "a.example" && base != "b.example" {
				return dohmem.Answer{}
			}
			switch kind {
			case 3:
				// the only record is for QUIC: nothing this client (without an HTTP/3 round-tripper) can use - the origin still
				// publishes HTTPS records, so http is still upgraded; the connection goes to the origin's own address
				return dohmem.Answer{Records: []dnsref.RR{{Name: name, Type: 65, Class: 1, TTL: 60, Fields: dnsref.SVCB(1, "", []dnsref.Param{dnsref.ParamALPN("h3"), dnsref.ParamNoDefaultALPN()})}}}
			case 1:
				return dohmem.Answer{Records: []dnsref.RR{{Name: name, Type: 65, Class: 1, TTL: 60, Fields: dnsref.SVCB(1, "", []dnsref.Param{dnsref.ParamALPN("http/1.1")})}}}
			case 2:
				return dohmem.Answer{Records: []dnsref.RR{{Name: name, Type: 65, Class: 1, TTL: 60, Fields: dnsref.SVCB(0, "c.example", nil)}}}
			}
		}
		return dohmem.Answer{}
	}
}

type seenReq struct {
	conn   int64
	host   string
	origin string
	sni    string
	tls    bool
}

type world struct {
	mu      sync.Mutex
	seen    []seenReq
	dials   []string // "addr|ServerName"
	plain   int
	connSeq atomic.Int64
	cert    tls.Certificate
	wg      sync.WaitGroup
	closers []io.Closer
}

type connKey struct{}

func (w *world) serve(c net.Conn, id int64) {
	defer w.wg.Done()
	tc := tls.Server(c, &tls.Config{Certificates: []tls.Certificate{w.cert}, NextProtos: []string{"http/1.1"}})
	if err := tc.Handshake(); err != nil {
		c.Close()
		return
	}
	sni := tc.ConnectionState().ServerName
	l := &oneConnListener{c: tc, done: make(chan struct{})}
	srv := &http.Server{Handler: http.HandlerFunc(func(rw http.ResponseWriter, req *http.Request) {
		w.mu.Lock()
		w.seen = append(w.seen, seenReq{conn: id, host: req.Host, origin: req.Header.Get("X-Origin"), sni: sni, tls: true}) // every server connection is TLS by construction
		w.mu.Unlock()
		rw.Header().Set("Content-Length", "2")
		rw.Write([]byte("ok"))
	})}
	srv.Serve(l)
}

type oneConnListener struct {
	c    net.Conn
	once sync.Once
	done chan struct{}
	used bool
	mu   sync.Mutex
}

func (l *oneConnListener) Accept() (net.Conn, error) {
	l.mu.Lock()
	if !l.used {
		l.used = true
		l.mu.Unlock()
		return &notifyConn{Conn: l.c, l: l}, nil
	}
	l.mu.Unlock()
	<-l.done
	return nil, net.ErrClosed
}
func (l *oneConnListener) Close() error   { l.once.Do(func() { close(l.done) }); return nil }
func (l *oneConnListener) Addr() net.Addr { return l.c.LocalAddr() }

type notifyConn struct {
	net.Conn
	l *oneConnListener
}

func (n *notifyConn) Close() error { n.l.Close(); return n.Conn.Close() }

type histCase struct {
	Zone     int   `json:"zone_kind"`
	Seq      []int `json:"request_origins"`
	HostOver bool  `json:"host_header_override"`
	// EmptyHost: the request is built by hand (or by a redirect follow-up) with an empty Host field
	EmptyHost bool `json:"empty_host_field,omitempty"`
}

func runHistory(hc histCase, host string) (key, what string) {
	srv := mux.Server(host)
	srv.Zone = zoneFor(hc.Zone)
	w := &world{cert: tlsx.Leaf(0, false, "a.example", "b.example", "c.example", "fd00::443", "fd00::", "fd00::8443")}
	tr := ech.NewTransport()
	tr.Resolver, _ = ech.NewResolver("https://" + host + "/dns-query")
	tr.TLSConfig = &tls.Config{RootCAs: tlsx.Pool()}
	tr.Dialer.Resolver = tr.Resolver // a user who configures the Transport's resolver plausibly configures its Dialer too: the result the Transport resolved still rules
	orig := tr.HTTPTransport.DialContext
	tr.HTTPTransport.DialContext = func(ctx context.Context, network, addr string) (net.Conn, error) {
		w.mu.Lock()
		w.plain++
		w.mu.Unlock()
		return orig(ctx, network, addr) // NewTransport's refusing dialer
	}
	tr.Dialer.DialFunc = func(ctx context.Context, network, addr string, tc *tls.Config) (*tls.Conn, error) {
		w.mu.Lock()
		w.dials = append(w.dials, addr+"|"+tc.ServerName)
		w.mu.Unlock()
		ip, _, _ := net.SplitHostPort(addr)
		if ip != "192.0.2.1" && ip != "192.0.2.3" && ip != "fd00::443" && ip != "fd00::" && ip != "fd00::8443" {
			return nil, errors.New("no route to " + addr)
		}
		a, b := memnet.Pipe()
		id := w.connSeq.Add(1)
		w.wg.Add(1)
		go w.serve(b, id)
		c := tls.Client(a, tc)
		if err := c.HandshakeContext(ctx); err != nil {
			a.Close()
			return nil, err
		}
		return c, nil
	}
	client := &http.Client{Transport: tr}
	defer func() {
		tr.HTTPTransport.CloseIdleConnections()
	}()
	// the Transport's TLSConfig is the caller's: requests must leave it as it was (C17's clause, through the Transport)
	cfgBefore := tr.TLSConfig.Clone()
	cfgChanged := func() string {
		c := tr.TLSConfig
		if c.ServerName != cfgBefore.ServerName || !reflect.DeepEqual(c.NextProtos, cfgBefore.NextProtos) || !reflect.DeepEqual(c.EncryptedClientHelloConfigList, cfgBefore.EncryptedClientHelloConfigList) ||
			c.MinVersion != cfgBefore.MinVersion || c.MaxVersion != cfgBefore.MaxVersion || c.InsecureSkipVerify != cfgBefore.InsecureSkipVerify || c.RootCAs != cfgBefore.RootCAs {
			return fmt.Sprintf("ServerName %q -> %q, NextProtos %q -> %q, ECH list %x -> %x", cfgBefore.ServerName, c.ServerName, cfgBefore.NextProtos, c.NextProtos, cfgBefore.EncryptedClientHelloConfigList, c.EncryptedClientHelloConfigList)
		}
		return ""
	}
	hasHTTPS := hc.Zone != 0
	for step, oi := range hc.Seq {
		o := origins[oi]
		req, _ := http.NewRequest("GET", o.url(), nil)
		// an http origin that is upgraded (its name publishes HTTPS records) IS the https origin on the corresponding port (RFC 9460 §9.5)
		okey := o.key()
		if o.Scheme == "http" && hc.Zone != 0 {
			okey = origin{"https", o.Host, o.Port}.key()
			if o.Port == "80" {
				okey = origin{"https", o.Host, ""}.key() // http on its default port upgrades to https on ITS default port
			}
		}
		req.Header.Set("X-Origin", okey)
		wantHost := o.Host
		if o.Port != "" {
			wantHost += ":" + o.Port
		}
		if hc.HostOver {
			req.Host = "virtual.example"
			wantHost = "virtual.example"
		}
		if hc.EmptyHost {
			req.Host = ""
		}
		urlBefore := req.URL.String()
		hostBefore := req.Host
		w.mu.Lock()
		nSeen, nDial := len(w.seen), len(w.dials)
		w.mu.Unlock()
		resp, err := client.Do(req)
		if err == nil {
			io.Copy(io.Discard, resp.Body)
			resp.Body.Close()
		}
		w.mu.Lock()
		newSeen := slices.Clone(w.seen[nSeen:])
		newDials := slices.Clone(w.dials[nDial:])
		w.mu.Unlock()
		tag := fmt.Sprintf("step %d %s", step, o.url())
		mustFail := o.Scheme == "http" && !hasHTTPS
		switch {
		case mustFail && err == nil:
			return "plaintext-request-served", tag + ": an http request to an origin without HTTPS records succeeded (it must not be sent, neither in plaintext nor silently over TLS)"
		case mustFail:
			if len(newSeen) != 0 {
				return "plaintext-request-reached-server", tag + ": the server saw a request"
			}
			continue
		case err != nil:
			return "request-failed", fmt.Sprintf("%s: %v", tag, err)
		}
		if resp.Request != req {
			return "resp-request-not-callers", tag + ": resp.Request is not the caller's request"
		}
		if d := cfgChanged(); d != "" {
			return "transport-tls-config-mutated", fmt.Sprintf("step %d: the Transport's TLSConfig (the caller's) was modified by a request: %s", step, d)
		}
		if req.URL.String() != urlBefore {
			return "callers-request-modified", fmt.Sprintf("%s: the caller's request URL was changed to %s", tag, req.URL.String())
		}
		if req.Host != hostBefore {
			return "callers-request-modified", fmt.Sprintf("%s: the caller's request had Host %q, after RoundTrip it has %q (a RoundTripper must not modify the request; sent again for another URL it would carry this Host)", tag, hostBefore, req.Host)
		}
		if len(newSeen) != 1 {
			return "server-saw-wrong-number", fmt.Sprintf("%s: server saw %d requests", tag, len(newSeen))
		}
		s := newSeen[0]
		if !s.tls {
			return "request-not-over-tls", tag + ": request arrived without TLS"
		}
		if s.host != wantHost {
			return "host-header", fmt.Sprintf("%s: server saw Host %q, want %q", tag, s.host, wantHost)
		}
		if o.literal() != "" {
			if s.sni != "" {
				return "sni", fmt.Sprintf("%s: TLS SNI %q for an IP-literal origin", tag, s.sni)
			}
		} else if s.sni != strings.TrimSuffix(o.Host, ".") { // (the SNI extension never carries the final dot)
			return "sni", fmt.Sprintf("%s: TLS SNI %q, want the URL's host %q", tag, s.sni, o.Host)
		}
		for _, d := range newDials {
			parts := strings.Split(d, "|")
			if o.literal() != "" {
				if parts[1] != o.literal() && parts[1] != o.Host {
					return "dial-server-name", fmt.Sprintf("%s: DialFunc got ServerName %q for the literal %s", tag, parts[1], o.Host)
				}
			} else if parts[1] != o.Host {
				return "dial-server-name", fmt.Sprintf("%s: DialFunc got ServerName %q, want %q", tag, parts[1], o.Host)
			}
			wantPort := o.Port
			if wantPort == "" || wantPort == "80" && o.Scheme == "http" {
				wantPort = "443"
			}
			if o.Port == "80" && hc.Zone == 3 {
				wantPort = "" // no usable record: which port the fallback uses for an explicit :80 is not settled by the property
			}
			if _, p, _ := net.SplitHostPort(parts[0]); wantPort != "" && p != wantPort {
				return "dial-port", fmt.Sprintf("%s: dialed %s, want port %s", tag, parts[0], wantPort)
			}
			wantIP := "192.0.2.1"
			if hc.Zone == 2 {
				wantIP = "192.0.2.3"
			}
			if o.literal() != "" {
				wantIP = o.literal()
			}
			if ip, _, _ := net.SplitHostPort(parts[0]); ip != wantIP {
				return "dial-address", fmt.Sprintf("%s: dialed %s, want address %s", tag, parts[0], wantIP)
			}
		}
	}
	// origin isolation: every server-side connection served exactly one origin
	byConn := map[int64]map[string]bool{}
	w.mu.Lock()
	for _, s := range w.seen {
		if byConn[s.conn] == nil {
			byConn[s.conn] = map[string]bool{}
		}
		byConn[s.conn][s.origin] = true
	}
	plain := w.plain
	w.mu.Unlock()
	_ = plain
	for id, os := range byConn {
		if len(os) > 1 {
			var l []string
			for o := range os {
				l = append(l, o)
			}
			sort.Strings(l)
			return "connection-shared-between-origins", fmt.Sprintf("server connection %d carried requests of %v", id, l)
		}
	}
	return "", ""
}

func histories(r *ev.Run) {
	depth := 3
	if r.Thorough() {
		depth = 4
	}
	var cases []histCase
	for z := 0; z < 4; z++ {
		enum.Sequences(firstLiteralOrigin, depth, func(seq []int) {
			if z == 3 && len(seq) > 2 {
				return
			}
			if len(seq) == 0 {
				return
			}
			cases = append(cases, histCase{Zone: z, Seq: slices.Clone(seq)})
			if len(seq) <= 2 {
				cases = append(cases, histCase{z, slices.Clone(seq), true, false})
				cases = append(cases, histCase{z, slices.Clone(seq), false, true})
			}
		})
	}
	// IPv6-literal origins: every sequence of length <=3 over the four literals (no DNS involved)
	enum.Sequences(dottedOrigin-firstLiteralOrigin, 3, func(seq []int) {
		if len(seq) == 0 {
			return
		}
		var s2 []int
		for _, i := range seq {
			s2 = append(s2, firstLiteralOrigin+i)
		}
		cases = append(cases, histCase{Zone: 0, Seq: s2})
		if len(s2) <= 2 {
			// an address-literal URL sent with a Host header of the caller's choosing (a virtual host on that address): the TLS
			// identity is still the URL's (no server name for a literal), and the connection is the literal origin's own
			cases = append(cases, histCase{Zone: 0, Seq: s2, HostOver: true})
		}
	})
	// an address-literal URL with a Host override naming a REAL origin, then that origin itself: two origins, two connections
	cases = append(cases, histCase{Zone: 1, Seq: []int{firstLiteralOrigin + 3, 0}, HostOver: true}, histCase{Zone: 0, Seq: []int{firstLiteralOrigin + 3, 0}, HostOver: true})
	// a.example and a.example. (the same host, two URL authorities): every sequence of length <= 3 over the two spellings
	for z := 0; z < 2; z++ {
		enum.Sequences(2, 3, func(seq []int) {
			if len(seq) == 0 || !slices.Contains(seq, 1) {
				return
			}
			var s2 []int
			for _, i := range seq {
				s2 = append(s2, []int{0, dottedOrigin}[i])
			}
			cases = append(cases, histCase{Zone: z, Seq: s2})
		})
	}
	// depth-3 sequences over the pairs that could collide in a connection pool (same host different port/scheme), also in quick
	if !r.Thorough() {
		for z := 1; z < 3; z++ {
			for _, tri := range [][]int{{0, 2, 0}, {0, 4, 0}, {0, 1, 0}, {4, 0, 6}, {2, 6, 2}, {0, 6, 2}, {1, 5, 3}} {
				cases = append(cases, histCase{Zone: z, Seq: tri})
			}
		}
	}
	r.Set("histories", len(cases))
	nShard := 32
	enum.ParallelFor(nShard, func(sh int) {
		host := fmt.Sprintf("doh-c19h-%d.test", sh)
		for i := sh; i < len(cases); i += nShard {
			hc := cases[i]
			k, w := runHistory(hc, host)
			if k != "" {
				fails := 1
				for j := 0; j < 4; j++ {
					if k2, _ := runHistory(hc, host); k2 == k {
						fails++
					}
				}
				if fails == 5 {
					var urls []string
					for _, oi := range hc.Seq {
						urls = append(urls, origins[oi].url())
					}
					r.Violation(k, w, map[string]any{"history": hc, "urls": urls})
				} else {
					r.Add("unstable", 1)
				}
			}
			r.Eval(fmt.Sprintf("%+v", hc), fmt.Sprintf("history: zone=%d len=%d", hc.Zone, len(hc.Seq)))
			r.Add("transitions", int64(len(hc.Seq)))
			if i%211 == 3 {
				r.Sample(hc)
			}
		}
	})
	r.Set("states", len(cases))
	r.Set("traces_validated_against_impl", len(cases))
}

func Run(r *ev.Run) {
	r.Rule("part 1 (E1, exhaustive decision table): every set of 1..3 service-mode HTTPS records with distinct priorities over ALPN {none,[h3],[h2],[h3,h2],[http/1.1],[foo],[h3-29,h2]} x no-default-alpn x {HTTP3Transport nil, set and failing, set and answering}: which round-tripper runs, which records reach the dialer, and that an HTTP/3 answer comes back attributed to the caller's own request (observed by dialing through the context-carried resolver, each record identified by a distinct port) vs a reference; part 2 (E4): every request history of length <=3 (thorough 4) over 8 origins {http,https} x {a.example,b.example (same address)} x {default port, 8443} x 4 zones {no HTTPS records, service records, alias to c.example with its own address, a QUIC-only service record (length <=2)}, plus every history of length <=3 over four IPv6-literal https origins ([fd00::443]:8443, [fd00::]:8443, [fd00::], [fd00::8443]), with a Host override / with an empty Host field / plain, through the real net/http client and Transport over in-memory TLS servers: plaintext never used, http upgraded iff HTTPS records exist, ServerName/SNI = the URL's host, Host header preserved, dial address/port, resp.Request identity, and no server connection shared between origins. distinct = distinct cases")
	r.Assume("net/http and crypto/tls run goroutines outside any scheduler: a failing history is re-executed and reported only if it fails 5/5", "record sets with equal priorities are excluded (their relative order is unspecified)", "HTTP/3 itself is represented by a fake round-tripper that dials through the context-carried resolver")
	muxOnce.Do(func() { dns.VerifRoundTripper = mux })
	t0 := time.Now()
	decisionTable(r)
	r.Set("decision_table_wall_s", time.Since(t0).Seconds())
	t0 = time.Now()
	histories(r)
	r.Set("histories_wall_s", time.Since(t0).Seconds())
}
