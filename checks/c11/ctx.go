package c11

import "context"

var ctxBG = context.Background()
