// Package c11 decides C11: ECH configs and config lists encode to the standard
// format and round-trip (DESIGN.md §3 C11). Engine E1: exhaustive enumeration.
package c11

import (
	"bytes"
	"crypto/ecdh"
	"crypto/tls"
	"fmt"
	"slices"
	"strings"
	"sync"
	"sync/atomic"

	"github.com/c2FmZQ/ech"

	"verif/internal/enum"
	"verif/internal/ev"
	"verif/internal/hpkeref"
	"verif/internal/memnet"
	"verif/internal/tlsref"
	"verif/internal/tlsx"
)

// dnsName returns a syntactically valid LDH DNS name of exactly n bytes.
func dnsName(n int) string {
	var b strings.Builder
	if n >= 3 { // at least two labels (crypto/tls refuses single-label public names)
		b.WriteString("x.")
	}
	for b.Len() < n {
		rem := n - b.Len()
		l := min(rem, 63)
		if rem-l == 1 { // would leave room only for a dot
			l--
		}
		for i := 0; i < l; i++ {
			b.WriteByte("abcdefghijklmnopqrstuvwxyz0123456789"[(i+n)%36])
		}
		if b.Len() < n {
			b.WriteByte('.')
		}
	}
	return b.String()
}

var allSuites = []ech.CipherSuite{{KDF: 1, AEAD: 1}, {KDF: 1, AEAD: 2}, {KDF: 1, AEAD: 3}, {KDF: 0x7777, AEAD: 0x8888}}

// suiteLists: all non-empty ordered selections without repetition of allSuites.
func suiteLists() [][]ech.CipherSuite {
	var out [][]ech.CipherSuite
	var rec func(cur []ech.CipherSuite, used int)
	rec = func(cur []ech.CipherSuite, used int) {
		if len(cur) > 0 {
			out = append(out, append([]ech.CipherSuite{}, cur...))
		}
		for i, s := range allSuites {
			if used&(1<<i) == 0 {
				rec(append(cur, s), used|1<<i)
			}
		}
	}
	rec(nil, 0)
	return out
}

func refSuites(l []ech.CipherSuite) []tlsref.Suite {
	var o []tlsref.Suite
	for _, s := range l {
		o = append(o, tlsref.Suite{KDF: s.KDF, AEAD: s.AEAD})
	}
	return o
}

type encCase struct {
	ID     int    `json:"id"`
	Name   string `json:"public_name"`
	Suites string `json:"suites"`
	KeyLen int    `json:"key_len"`
}

func specEqual(a, b ech.ConfigSpec) bool {
	if a.Version != b.Version || a.ID != b.ID || a.KEM != b.KEM || !bytes.Equal(a.PublicKey, b.PublicKey) ||
		a.MaximumNameLength != b.MaximumNameLength || !bytes.Equal(a.PublicName, b.PublicName) || len(a.CipherSuites) != len(b.CipherSuites) {
		return false
	}
	for i := range a.CipherSuites {
		if a.CipherSuites[i] != b.CipherSuites[i] {
			return false
		}
	}
	return true
}

func nameClass(n string) string {
	switch {
	case strings.Trim(n, ".") == "":
		return "only-dots"
	case strings.HasSuffix(n, "."):
		return "trailing-dot"
	}
	return "other"
}

func guard(r *ev.Run, key string, replay any, f func()) {
	defer func() {
		if p := recover(); p != nil {
			r.Violation("panic:"+key, fmt.Sprintf("panic: %v", p), replay)
		}
	}()
	f()
}

func Run(r *ev.Run) {
	r.Rule("E1 exhaustive product: config id x public-name length x ordered cipher-suite list x key length for ConfigSpec.Bytes; ids x names for NewConfig; lists of 0..3 configs and lists of 100..400 maximal configs (up to exactly the 65535-byte limit, and beyond it: an error is required); names with a trailing dot / only dots / upper case, KEM ids {0,0x10,0x20,0x21,0xffff} and suite lists with repeated entries at codec level; every prefix / field-level truncation / byte substitution of valid encodings for the parser; crypto/tls client+server and ech.NewConn acceptance per (id class, name-length class, suite list). distinct = distinct encoded byte strings / distinct parser inputs")
	r.Assume("tlsref (independent codec written from draft-ietf-tls-esni §4) and crypto/tls are correct", "public names fed to crypto/tls are valid LDH DNS names (the draft admits no others)")
	sl := suiteLists()
	pub := hpkeref.DetKey("c11").PublicKey().Bytes()

	// ---- 1. ConfigSpec.Bytes over the product ----
	ids := []int{}
	for i := 0; i < 256; i++ {
		ids = append(ids, i)
	}
	nameLens := []int{}
	for l := 1; l <= 255; l++ {
		nameLens = append(nameLens, l)
	}
	keyLens := []int{0, 31, 32, 33}
	if !r.Thorough() {
		ids = []int{0, 1, 2, 127, 128, 254, 255}
	}
	prod := enum.Product{len(ids), len(nameLens), len(sl), len(keyLens)}
	total := prod.Size()
	// Full product is 256*255*64*4 = 16.7M in thorough; in quick 7*255*64*4=457k.
	enum.ParallelFor(total, func(i int) {
		d := prod.Decode(i)
		id, nl, suites, kl := ids[d[0]], nameLens[d[1]], sl[d[2]], keyLens[d[3]]
		name := dnsName(nl)
		key := append([]byte{}, pub...)
		switch kl {
		case 0:
			key = nil
		case 31:
			key = key[:31]
		case 33:
			key = append(key, 0x55)
		}
		c := encCase{id, name, fmt.Sprint(suites), kl}
		guard(r, fmt.Sprintf("encode:%d", i), c, func() {
			// (maximum_name_length is derived from the name: whatever the spec's field holds - e.g. a stale value from a parsed config - must not matter)
			spec := ech.ConfigSpec{Version: 0xfe0d, ID: uint8(id), KEM: 0x20, PublicKey: key, CipherSuites: suites, PublicName: []byte(name), MaximumNameLength: uint8([]int{0, 5, 255, nl}[i%4])}
			got, err := spec.Bytes()
			if kl == 0 {
				// public_key<1..2^16-1>: there is no well-formed config with an empty key - nothing may be produced
				if err == nil {
					r.Violation("malformed-config-produced:empty-public-key", fmt.Sprintf("ConfigSpec.Bytes returned %x without error for a spec with an empty public key: not a §4 structure (public_key<1..2^16-1>); crypto/tls finds no valid config in it", got), c)
				}
				r.Eval(fmt.Sprintf("emptykey:%d", i), "refused")
				return
			}
			if err != nil {
				r.Violation(fmt.Sprintf("encode-err:name%d:key%d", nl, kl), "ConfigSpec.Bytes failed on valid input: "+err.Error(), c)
				return
			}
			want := tlsref.BuildConfig(byte(id), key, refSuites(suites), name)
			oc := "ok"
			if !bytes.Equal(got, want) {
				oc = "mismatch"
				r.Violation(fmt.Sprintf("encode-bytes:name%d:key%d:suites%d", nl, kl, len(suites)),
					fmt.Sprintf("ConfigSpec.Bytes differs from the draft §4 structure:\n got  %x\n want %x", got, want), c)
			}
			if kl != 0 { // tlsref (like the draft: opaque public_key<1..2^16-1>) rejects empty keys
				info, rest, err := tlsref.ParseConfig(got)
				if err != nil || len(rest) != 0 || info.ID != byte(id) || string(info.PublicName) != name ||
					int(info.MaxNameLen) != min(nl+16, 255) || len(info.Extensions) != 0 || !bytes.Equal(info.PublicKey, key) {
					r.Violation(fmt.Sprintf("encode-refparse:name%d:key%d", nl, kl), fmt.Sprintf("independent parser disagrees: %v %+v", err, info), c)
				}
			}
			back, err := ech.Config(got).Spec()
			spec.MaximumNameLength = uint8(min(nl+16, 255))
			if key == nil {
				back.PublicKey = nil
			}
			if err != nil || !specEqual(back, spec) {
				r.Violation(fmt.Sprintf("roundtrip:name%d:key%d", nl, kl), fmt.Sprintf("Spec() of Bytes() differs: %v\n got  %+v\n want %+v", err, back, spec), c)
			}
			r.Eval(string(got), oc)
			if i%100003 == 0 {
				r.Sample(c)
			}
		})
	})

	// specs from which no well-formed config can be made: no cipher suite (cipher_suites<4..2^16-4>), a version other than 0xfe0d
	// (which this package's own parser, and crypto/tls, do not take for an ECHConfig of this draft)
	for _, bad := range []struct {
		key  string
		spec ech.ConfigSpec
	}{
		{"no-cipher-suites", ech.ConfigSpec{Version: 0xfe0d, ID: 9, KEM: 0x20, PublicKey: pub, PublicName: []byte("a.example")}},
		{"empty-non-nil-public-key", ech.ConfigSpec{Version: 0xfe0d, ID: 9, KEM: 0x20, PublicKey: pub[:0], CipherSuites: sl[0], PublicName: []byte("a.example")}},
		{"empty-cipher-suites", ech.ConfigSpec{Version: 0xfe0d, ID: 9, KEM: 0x20, PublicKey: pub, CipherSuites: []ech.CipherSuite{}, PublicName: []byte("a.example")}},
		{"version-0", ech.ConfigSpec{ID: 9, KEM: 0x20, PublicKey: pub, CipherSuites: sl[0], PublicName: []byte("a.example")}},
		{"version-fe0c", ech.ConfigSpec{Version: 0xfe0c, ID: 9, KEM: 0x20, PublicKey: pub, CipherSuites: sl[0], PublicName: []byte("a.example")}},
	} {
		got, err := bad.spec.Bytes()
		if err == nil {
			_, perr := ech.Config(got).Spec()
			r.Violation("malformed-config-produced:"+bad.key, fmt.Sprintf("ConfigSpec.Bytes returned %x without error for %s; parsing it back: %v", got, bad.key, perr), bad.key)
		}
		r.Eval("bad-spec:"+bad.key, "refused")
	}
	// round 14: encoding READS its input - the fields of a ConfigSpec (and the arguments of NewConfig and ConfigList) may be
	// windows of larger buffers the caller goes on using: the octets behind each window (its spare capacity) and the windows
	// themselves are what they were after the call, for every window length and several amounts of spare capacity; the config
	// built from the NEXT window of the same buffer parses back with its own name
	for _, spare := range []int{0, 1, 2, 3, 16, 300} {
		for _, nl := range []int{1, 9, 63, 253} {
			name := dnsName(nl)
			buf := append(append([]byte(name), bytes.Repeat([]byte{0xa5}, spare)...), []byte("next.example")...)
			keybuf := append(slices.Clone(pub), bytes.Repeat([]byte{0x5a}, spare+7)...)
			suites := append(slices.Clone(sl[1%len(sl)]), ech.CipherSuite{KDF: 0x7777, AEAD: 0x7777})
			nsu := len(suites) - 1
			before, beforeKey := slices.Clone(buf), slices.Clone(keybuf)
			spec := ech.ConfigSpec{Version: 0xfe0d, ID: 9, KEM: 0x20, PublicKey: keybuf[:len(pub)], CipherSuites: suites[:nsu], PublicName: buf[:nl]}
			got, err := spec.Bytes()
			want := tlsref.BuildConfig(9, pub, refSuites(suites[:nsu]), name)
			oc := "encoders leave the caller's memory alone"
			if err != nil || !bytes.Equal(got, want) {
				oc = "window not encoded"
				r.Violation("encode-window", fmt.Sprintf("a spec whose fields are windows of larger buffers (name %d octets, %d spare) is not encoded per section 4 (%v)", nl, spare, err), nil)
			}
			l1, _ := ech.ConfigList([]ech.Config{got})
			_, c2, err2 := ech.NewConfig(7, buf[:nl])
			l2, _ := ech.ConfigList([]ech.Config{c2})
			if !bytes.Equal(buf, before) || !bytes.Equal(keybuf, beforeKey) || suites[nsu] != (ech.CipherSuite{KDF: 0x7777, AEAD: 0x7777}) {
				oc = "encoder wrote to the caller's memory"
				r.Violation("encoder-writes-to-callers-memory", fmt.Sprintf("after ConfigSpec.Bytes / NewConfig / ConfigList on a public name that is the first %d octets of a buffer with %d more octets behind it: the buffer reads %q, before %q; key buffer changed: %v; suite behind the window: %v", nl, len(buf)-nl, buf, before, !bytes.Equal(keybuf, beforeKey), suites[nsu]), nil)
			}
			if spare == 0 {
				// the next window of the same buffer
				_, c3, err3 := ech.NewConfig(8, buf[nl:])
				if sp, err := c3.Spec(); err3 != nil || err != nil || string(sp.PublicName) != "next.example" {
					oc = "next window spoiled"
					r.Violation("encoder-writes-to-callers-memory:next-window", fmt.Sprintf("the config built from the next window of the buffer carries the name %q (%v %v)", sp.PublicName, err3, err), nil)
				}
			}
			_, _, _ = l1, l2, err2
			r.Eval(fmt.Sprintf("windows:%d:%d", spare, nl), oc)
		}
	}
	// non-DNS byte strings as names (codec level only) and invalid lengths
	for _, nl := range []int{1, 255} {
		name := string(tlsref.DetBytes("rawname", nl))
		spec := ech.ConfigSpec{Version: 0xfe0d, ID: 9, KEM: 0x20, PublicKey: pub, CipherSuites: sl[0], PublicName: []byte(name)}
		got, err := spec.Bytes()
		want := tlsref.BuildConfig(9, pub, refSuites(sl[0]), name)
		if err != nil || !bytes.Equal(got, want) {
			r.Violation(fmt.Sprintf("encode-rawname:%d", nl), "raw-byte public name not encoded per §4", nil)
		}
		r.Eval(string(got), "ok-rawname")
	}
	// names that end in a dot (fully-qualified spelling), consist of dots, or carry upper case: the codec is byte-exact
	for _, name := range []string{"a.example.", ".", "..", "x.", dnsName(254) + ".", "A.Example", " a", "a\x00b"} {
		spec := ech.ConfigSpec{Version: 0xfe0d, ID: 9, KEM: 0x20, PublicKey: pub, CipherSuites: sl[0], PublicName: []byte(name)}
		got, err := spec.Bytes()
		want := tlsref.BuildConfig(9, pub, refSuites(sl[0]), name)
		if err != nil || !bytes.Equal(got, want) {
			r.Violation("encode-rawname:"+nameClass(name), fmt.Sprintf("public name %q not encoded per §4 (err=%v):\n got  %x\n want %x", name, err, got, want), name)
		} else if back, err := ech.Config(got).Spec(); err != nil || string(back.PublicName) != name {
			r.Violation("roundtrip-rawname:"+nameClass(name), fmt.Sprintf("public name %q parses back as %q (%v)", name, back.PublicName, err), name)
		}
		if _, cfg, err := ech.NewConfig(3, []byte(name)); err != nil {
			r.Violation("newconfig-rawname:"+nameClass(name), fmt.Sprintf("NewConfig(%q): %v", name, err), name)
		} else if info, _, err := tlsref.ParseConfig(cfg); err != nil || string(info.PublicName) != name || int(info.MaxNameLen) != min(len(name)+16, 255) {
			r.Violation("newconfig-rawname:"+nameClass(name), fmt.Sprintf("NewConfig(%q) encodes public name %q, maximum_name_length %d (%v)", name, info.PublicName, info.MaxNameLen, err), name)
		}
		r.Eval("rawname:"+name, "ok-rawname")
	}
	// KEM ids other than X25519 (codec level: the structure carries any 16-bit id, 0 included) and suite lists with
	// repeated entries: encoded as given, parsed back as given, the caller's spec untouched, a second call identical
	for _, kem := range []uint16{0, 0x0010, 0x0020, 0x0021, 0xffff} {
		for li, list := range [][]ech.CipherSuite{{{KDF: 1, AEAD: 1}}, {{KDF: 1, AEAD: 1}, {KDF: 1, AEAD: 1}}, {{KDF: 1, AEAD: 1}, {KDF: 1, AEAD: 1}, {KDF: 1, AEAD: 3}}, {{KDF: 1, AEAD: 3}, {KDF: 1, AEAD: 2}, {KDF: 1, AEAD: 2}, {KDF: 1, AEAD: 3}}, {{KDF: 0, AEAD: 0}, {KDF: 0, AEAD: 0}}} {
			tag := fmt.Sprintf("kem%#x-suites%d", kem, li)
			guard(r, "kem-suites:"+tag, tag, func() {
				given := slices.Clone(list)
				spec := ech.ConfigSpec{Version: 0xfe0d, ID: 5, KEM: kem, PublicKey: pub, CipherSuites: list, PublicName: []byte("kem.example")}
				got, err := spec.Bytes()
				if err != nil {
					r.Violation("encode-err:"+tag, err.Error(), tag)
					return
				}
				again, _ := spec.Bytes()
				if !bytes.Equal(got, again) || !slices.Equal(list, given) {
					r.Violation("encode-not-pure:suites", fmt.Sprintf("ConfigSpec.Bytes modified the caller's suite list (%v -> %v) or gives different bytes when called twice:\n %x\n %x", given, list, got, again), tag)
				}
				info, rest, err := tlsref.ParseConfig(got)
				if err != nil || len(rest) != 0 || info.KEM != kem || !slices.Equal(info.Suites, refSuites(given)) {
					r.Violation("encode-refparse:kem-or-suites", fmt.Sprintf("independent parser reads KEM %#x suites %v (err %v), the spec says KEM %#x suites %v", info.KEM, info.Suites, err, kem, given), tag)
				}
				if back, err := ech.Config(got).Spec(); err != nil || back.KEM != kem || !slices.Equal(back.CipherSuites, given) {
					r.Violation("roundtrip:kem-or-suites", fmt.Sprintf("Spec() of Bytes() gives KEM %#x suites %v (err %v), want KEM %#x suites %v", back.KEM, back.CipherSuites, err, kem, given), tag)
				}
				r.Eval("kem:"+tag, "ok-kem-suites")
			})
		}
	}
	for _, nl := range []int{0, 256, 300} {
		spec := ech.ConfigSpec{Version: 0xfe0d, ID: 9, KEM: 0x20, PublicKey: pub, CipherSuites: sl[0], PublicName: make([]byte, nl)}
		if b, err := spec.Bytes(); err == nil {
			r.Violation(fmt.Sprintf("encode-badlen:%d", nl), fmt.Sprintf("public name of %d bytes encoded to %x instead of an error", nl, b), nil)
		}
		if _, _, err := ech.NewConfig(1, make([]byte, nl)); err == nil {
			r.Violation(fmt.Sprintf("newconfig-badlen:%d", nl), "NewConfig accepted an unencodable public name length", nil)
		}
		r.Eval(fmt.Sprintf("badlen%d", nl), "rejected-length")
	}

	// ---- 2. NewConfig: all ids x name lengths ----
	nIDs := 256
	step := 1
	if !r.Thorough() {
		step = 5 // name lengths 1,6,11..; plus boundary ones below
	}
	var ncCases [][2]int
	for id := 0; id < nIDs; id++ {
		for nl := 1; nl <= 255; nl += step {
			ncCases = append(ncCases, [2]int{id, nl})
		}
		for _, nl := range []int{238, 239, 240, 254, 255} {
			ncCases = append(ncCases, [2]int{id, nl})
		}
	}
	enum.ParallelFor(len(ncCases), func(i int) {
		id, nl := ncCases[i][0], ncCases[i][1]
		name := dnsName(nl)
		guard(r, fmt.Sprintf("newconfig:%d:%d", id, nl), ncCases[i], func() {
			priv, cfg, err := ech.NewConfig(uint8(id), []byte(name))
			if err != nil {
				r.Violation(fmt.Sprintf("newconfig-err:%d", nl), err.Error(), ncCases[i])
				return
			}
			info, rest, err := tlsref.ParseConfig(cfg)
			ok := err == nil && len(rest) == 0 && info.ID == byte(id) && string(info.PublicName) == name && info.KEM == 0x20 &&
				bytes.Equal(info.PublicKey, priv.PublicKey().Bytes()) && int(info.MaxNameLen) == min(nl+16, 255) && len(info.Extensions) == 0 && len(info.Suites) == 3
			if ok {
				seen := map[uint16]bool{}
				for _, s := range info.Suites {
					if s.KDF != 1 || s.AEAD < 1 || s.AEAD > 3 || seen[s.AEAD] {
						ok = false
					}
					seen[s.AEAD] = true
				}
			}
			if !ok {
				r.Violation(fmt.Sprintf("newconfig-format:%d", nl), fmt.Sprintf("NewConfig output not a well-formed §4 ECHConfig: err=%v %+v", err, info), ncCases[i])
			}
			spec, err := cfg.Spec()
			if err != nil || spec.ID != uint8(id) || string(spec.PublicName) != name || !bytes.Equal(spec.PublicKey, priv.PublicKey().Bytes()) {
				r.Violation(fmt.Sprintf("newconfig-roundtrip:%d", nl), "Spec() of NewConfig output differs", ncCases[i])
			}
			r.Eval(fmt.Sprintf("nc:%d:%d", id, nl), "ok-newconfig")
		})
	})

	// ---- 3. lists of 0..3 configs ----
	mk := func(id byte, name string, suites []ech.CipherSuite) ech.Config {
		c, err := ech.ConfigSpec{Version: 0xfe0d, ID: id, KEM: 0x20, PublicKey: pub, CipherSuites: suites, PublicName: []byte(name)}.Bytes()
		if err != nil {
			panic(err)
		}
		return c
	}
	poolCfg := []ech.Config{mk(1, "a.example", sl[0]), mk(2, dnsName(255), sl[5]), mk(255, "b", sl[len(sl)-1]), mk(1, "a.example", sl[0])}
	enum.Sequences(len(poolCfg), 3, func(seq []int) {
		var cfgs []ech.Config
		var want []byte
		for _, i := range seq {
			cfgs = append(cfgs, poolCfg[i])
			want = append(want, poolCfg[i]...)
		}
		guard(r, fmt.Sprint("list:", seq), seq, func() {
			got, err := ech.ConfigList(cfgs)
			want = append([]byte{byte(len(want) >> 8), byte(len(want))}, want...)
			if err != nil || !bytes.Equal(got, want) {
				r.Violation(fmt.Sprint("list-bytes:", len(seq)), "ConfigList is not the length-prefixed concatenation", seq)
			}
			ref, err := tlsref.ParseConfigList(got)
			if err != nil || len(ref) != len(seq) {
				r.Violation(fmt.Sprint("list-refparse:", len(seq)), fmt.Sprintf("independent parser: %v", err), seq)
			}
			specs, err := ech.ParseConfigList(got)
			if err != nil || len(specs) != len(seq) {
				r.Violation(fmt.Sprint("list-parse:", len(seq)), fmt.Sprintf("ParseConfigList: %v n=%d", err, len(specs)), seq)
				return
			}
			for k, i := range seq {
				one, _ := poolCfg[i].Spec()
				if !specEqual(one, specs[k]) {
					r.Violation(fmt.Sprint("list-order:", len(seq)), "ParseConfigList entry differs from Spec() of the element", seq)
				}
			}
			r.Eval(string(got), "ok-list")
		})
	})

	// ---- 3b. lists near and beyond what the 16-bit length prefix can hold: exact encoding below, an error above ----
	{
		big := mk(7, dnsName(255), sl[len(sl)-1])
		small := mk(8, "a.bc", sl[0])
		for _, n := range []int{100, 150, 200, 250, 400} {
			var cfgs []ech.Config
			var body []byte
			for i := 0; i < n; i++ {
				cfgs = append(cfgs, big)
				body = append(body, big...)
			}
			// top up with small configs to come as close to 65535 as possible when below it
			for len(body) < 65535 && len(body)+len(small) <= 65535 && n == 150 {
				cfgs = append(cfgs, small)
				body = append(body, small...)
			}
			guard(r, fmt.Sprint("biglist:", n), n, func() {
				got, err := ech.ConfigList(cfgs)
				switch {
				case len(body) <= 65535:
					want := append([]byte{byte(len(body) >> 8), byte(len(body))}, body...)
					if err != nil || !bytes.Equal(got, want) {
						r.Violation("list-bytes:big", fmt.Sprintf("ConfigList of %d configs (%d bytes) is not the length-prefixed concatenation (err=%v, %d bytes)", len(cfgs), len(body), err, len(got)), n)
					} else if specs, err := ech.ParseConfigList(got); err != nil || len(specs) != len(cfgs) {
						r.Violation("list-parse:big", fmt.Sprintf("ParseConfigList: %v n=%d", err, len(specs)), n)
					}
					r.Eval(fmt.Sprint("biglist", n), "ok-list")
				default:
					if err == nil {
						_, perr := tlsref.ParseConfigList(got)
						r.Violation("list-overflow-not-reported", fmt.Sprintf("ConfigList of %d configs totalling %d bytes (more than a 16-bit length can express) returned %d bytes and no error; its length prefix says %d; the independent parser says: %v", len(cfgs), len(body), len(got), int(got[0])<<8|int(got[1]), perr), n)
					}
					r.Eval(fmt.Sprint("biglist", n), "rejected-length")
				}
			})
		}
	}

	// ---- 3b'. lists of EXACTLY 65534 / 65535 bytes (the largest there is) must encode, 65536 must be an error: one config with a
	// long public key, alone and after two small ones ----
	{
		small := mk(8, "a.bc", sl[0])
		sized := func(total int) ech.Config {
			spec := ech.ConfigSpec{Version: 0xfe0d, ID: 77, KEM: 0x20, PublicKey: tlsref.DetBytes("longkey", 100), CipherSuites: sl[0], PublicName: []byte("size.example")}
			c0, _ := spec.Bytes()
			spec.PublicKey = tlsref.DetBytes("longkey", 100+total-len(c0))
			c, err := spec.Bytes()
			if err != nil || len(c) != total {
				ev.ToolError("c11: cannot build a config of %d bytes (%d, %v)", total, len(c), err)
			}
			return c
		}
		for _, total := range []int{65534, 65535, 65536} {
			for _, lead := range []int{0, 2} {
				var cfgs []ech.Config
				for i := 0; i < lead; i++ {
					cfgs = append(cfgs, small)
				}
				cfgs = append(cfgs, sized(total-lead*len(small)))
				var body []byte
				for _, c := range cfgs {
					body = append(body, c...)
				}
				got, err := ech.ConfigList(cfgs)
				oc := "ok-list"
				switch {
				case total <= 65535 && (err != nil || !bytes.Equal(got, append([]byte{byte(total >> 8), byte(total)}, body...))):
					oc = "exact-size-list-refused"
					r.Violation("list-bytes:exact-size", fmt.Sprintf("ConfigList of %d configs totalling exactly %d bytes (legal: the limit is 65535): err=%v, %d bytes returned", len(cfgs), total, err, len(got)), total)
				case total > 65535 && err == nil:
					oc = "overflow-not-reported"
					r.Violation("list-overflow-not-reported", fmt.Sprintf("ConfigList of configs totalling %d bytes returned %d bytes and no error", total, len(got)), total)
				case total > 65535:
					oc = "rejected-length"
				}
				r.Eval(fmt.Sprint("exactlist", total, lead), oc)
			}
		}
	}

	// ---- 3b''. ONE config whose contents reach the 16-bit limit through the NUMBER OF SUITES (4 bytes each), the key length filling
	// the last bytes: up to 65535 bytes of contents the exact encoding is required, beyond it an error - a value, never a panic ----
	{
		const nameS = "size.example"
		for _, n := range []int{16300, 16360, 16365, 16366, 16367, 16368, 16369, 16370, 16371, 16372, 16373, 16380, 16383, 16384, 16385, 20000, 32700, 32737, 32738, 32768, 40000, 70000} {
			for _, kl := range []int{32, 33, 34, 35, 36} {
				suites := make([]ech.CipherSuite, n)
				for i := range suites {
					suites[i] = allSuites[i%len(allSuites)]
				}
				contents := 11 + kl + 4*n + len(nameS)
				spec := ech.ConfigSpec{Version: 0xfe0d, ID: 78, KEM: 0x20, PublicKey: tlsref.DetBytes("k", kl), CipherSuites: suites, PublicName: []byte(nameS)}
				oc := "ok-config"
				guard(r, fmt.Sprintf("spec-bytes:suites%d:key%d", n, kl), []int{n, kl}, func() {
					got, err := spec.Bytes()
					switch {
					case contents <= 65535 && (err != nil || !bytes.Equal(got, tlsref.BuildConfig(78, spec.PublicKey, refSuites(suites), nameS))):
						oc = "exact-size-config-refused"
						r.Violation("spec-bytes:exact-size", fmt.Sprintf("ConfigSpec.Bytes with %d suites and a %d-byte key (contents %d bytes, legal: the limit is 65535): err=%v, %d bytes returned", n, kl, contents, err, len(got)), []int{n, kl})
					case contents > 65535 && err == nil:
						oc = "config-overflow-not-reported"
						r.Violation("config-overflow-not-reported", fmt.Sprintf("ConfigSpec.Bytes with %d suites and a %d-byte key (contents %d bytes) returned %d bytes and no error", n, kl, contents, len(got)), []int{n, kl})
					case contents > 65535:
						oc = "rejected-length"
					}
				})
				r.Eval(fmt.Sprint("exactconfig", n, kl), oc)
			}
		}
	}

	// ---- 3c. what ConfigList returned belongs to the caller: writing into it changes no later result (empty list included) ----
	for _, cfgs := range [][]ech.Config{nil, {}, {mk(9, "a.example", sl[0])}, {mk(9, "a.example", sl[0]), mk(10, "b.example", sl[1])}} {
		first, err := ech.ConfigList(cfgs)
		want := slices.Clone(first)
		for i := range first {
			first[i] ^= 0x45
		}
		_ = append(first[:0], 0x45, 0x45) // (also within the capacity of a 2-byte result)
		second, err2 := ech.ConfigList(cfgs)
		oc := "list-fresh"
		if err != nil || err2 != nil || !bytes.Equal(second, want) {
			oc = "list-shared"
			r.Violation("list-output-shared", fmt.Sprintf("after the caller wrote into the list returned for %d configs, the next ConfigList of the same input returns %x (want %x) %v %v", len(cfgs), second, want, err, err2), len(cfgs))
		}
		r.Eval(fmt.Sprint("listshared", len(cfgs), cfgs == nil), oc)
	}

	// ---- 3a'. parsing is a function of the bytes given NOW: a config parsed from a buffer that is afterwards reused for another
	// config must not influence a later parse of an equal config held elsewhere; and what Bytes/NewConfig returned earlier stays
	// intact when more configs are produced (configs of every size 490..530 bytes, which needs long keys) ----
	{
		a := mk(11, "first.example", sl[0])
		bcfg := mk(12, "second-name.example", sl[5])
		buf := append([]byte{}, a...)
		sa, err1 := ech.Config(buf).Spec()
		wantA := fmt.Sprintf("%d %x %s %v", sa.ID, sa.PublicKey, sa.PublicName, sa.CipherSuites)
		copy(buf, bcfg) // the caller reuses its buffer (same length or not)
		for i := len(bcfg); i < len(buf); i++ {
			buf[i] = 0xEE
		}
		sa2, err2 := ech.Config(append([]byte{}, a...)).Spec()
		if gotA := fmt.Sprintf("%d %x %s %v", sa2.ID, sa2.PublicKey, sa2.PublicName, sa2.CipherSuites); err1 != nil || err2 != nil || gotA != wantA {
			r.Violation("spec-depends-on-earlier-parse", fmt.Sprintf("Spec() of a config returns %s after an equal config had been parsed from a buffer that was then overwritten; the bytes say %s (%v %v)", gotA, wantA, err1, err2), nil)
		}
		r.Eval("spec-after-buffer-reuse", "ok")
		var kept []ech.Config
		var keptCopy [][]byte
		for total := 490; total <= 530; total++ {
			keyLen := total - 15 - 4*len(sl[0]) - len("size.example")
			spec := ech.ConfigSpec{Version: 0xfe0d, ID: 77, KEM: 0x20, PublicKey: tlsref.DetBytes("longkey", keyLen), CipherSuites: sl[0], PublicName: []byte("size.example")}
			c, err := spec.Bytes()
			if err != nil {
				continue
			}
			kept = append(kept, c)
			keptCopy = append(keptCopy, append([]byte{}, c...))
			if _, c2, err := ech.NewConfig(uint8(total), []byte("interleaved.example")); err == nil {
				kept = append(kept, c2)
				keptCopy = append(keptCopy, append([]byte{}, c2...))
			}
		}
		for i := range kept {
			if !bytes.Equal(kept[i], keptCopy[i]) {
				r.Violation("earlier-output-overwritten", fmt.Sprintf("a %d-byte config returned earlier by ConfigSpec.Bytes/NewConfig has changed after later calls (outputs share memory)", len(keptCopy[i])), len(keptCopy[i]))
				break
			}
		}
		r.Eval("outputs-retained", fmt.Sprintf("ok %d", len(kept)))
	}
	// ---- 3c. the specs returned by ParseConfigList are independent values: appending to one's CipherSuites PublicName or PublicKey
	// leaves the others as parsed (whether the specs alias the INPUT bytes is not the property's business) ----
	{
		list, _ := ech.ConfigList([]ech.Config{mk(1, "a.example", sl[0]), mk(2, "b.example", sl[5]), mk(3, "c.example", sl[0])})
		// ... and a list from another encoder whose first config has an EMPTY public name and whose second has an empty public key
		// (if the parser takes such configs at all, their empty fields are no windows into the rest of the list either)
		foreign := append(tlsref.BuildConfig(1, tlsref.DetBytes("pk1", 32), refSuites(sl[0]), ""), tlsref.BuildConfig(2, nil, refSuites(sl[0]), "b.example")...)
		foreign = append(foreign, mk(3, "c.example", sl[0])...)
		foreign = append([]byte{byte(len(foreign) >> 8), byte(len(foreign))}, foreign...)
		lists := [][]byte{list}
		if sp, err := ech.ParseConfigList(foreign); err == nil && len(sp) == 3 {
			lists = append(lists, foreign)
		}
		for _, list := range lists {
			specs, err := ech.ParseConfigList(list)
			if err != nil || len(specs) != 3 {
				r.Violation("list-parse:3", fmt.Sprintf("ParseConfigList: %v", err), nil)
			} else {
				before := []string{fmt.Sprintf("%+v", specs[0]), fmt.Sprintf("%+v", specs[1]), fmt.Sprintf("%+v", specs[2])}
				listBefore := slices.Clone(list)
				// (appends of 1 and of 100 elements: a field that is a window into the list with the rest of the list as spare capacity
				// lets a long append reach the NEXT config; an append writes no element the holder can see, so the list it was parsed
				// from is as it was, too)
				for _, n := range []int{1, 100, -1} {
					for i := range specs {
						nn, nk := n, n
						if n < 0 { // as many octets as the spare capacity holds: the append that writes in place whatever the sizes
							nn, nk = cap(specs[i].PublicName)-len(specs[i].PublicName), cap(specs[i].PublicKey)-len(specs[i].PublicKey)
							n = 1
						}
						specs[i].CipherSuites = append(specs[i].CipherSuites, slices.Repeat([]ech.CipherSuite{{KDF: 0x7777, AEAD: 0x7777}}, n)...)
						_ = append(specs[i].PublicName, bytes.Repeat([]byte{'x'}, nn)...)
						_ = append(specs[i].PublicKey, bytes.Repeat([]byte{0xff}, nk)...)
						specs[i].CipherSuites = specs[i].CipherSuites[:len(specs[i].CipherSuites)-n]
						for j := range specs {
							if got := fmt.Sprintf("%+v", specs[j]); got != before[j] {
								r.Violation("parsed-specs-share-memory", fmt.Sprintf("after appending %d element(s) to the suites, the public name and the public key of spec %d of a parsed list, spec %d reads %s (was %s)", n, i, j, got, before[j]), nil)
							}
						}
						if !bytes.Equal(list, listBefore) {
							r.Violation("parsed-specs-share-memory:input", fmt.Sprintf("after appending %d element(s) to the public name and the public key of spec %d (no element of them was written), the list they were parsed from reads %x (was %x)", n, i, list, listBefore), nil)
							copy(list, listBefore)
						}
					}
				}
			}
		}
		r.Eval("spec-independence", "ok-list")
	}
	// ---- 3d. a list whose BODY is exactly 0xfe0d = 65037 bytes long (its first two bytes equal the version magic), and neighbours
	{
		big := mk(7, dnsName(255), sl[len(sl)-1])
		for _, target := range []int{65036, 65037, 65038} {
			var cfgs []ech.Config
			body := 0
			for body+len(big) <= target-60 {
				cfgs = append(cfgs, big)
				body += len(big)
			}
			// fill the rest exactly with one config whose name length is chosen accordingly (config = 70 + name with suite list sl[0])
			found := false
			for nl := 1; nl <= 255 && !found; nl++ {
				for k := 1; k <= 3 && !found; k++ {
					var tail []ech.Config
					for t := 0; t < k; t++ {
						tail = append(tail, mk(9, dnsName(min(255, nl+t)), sl[0]))
					}
					n := 0
					for _, c := range tail {
						n += len(c)
					}
					if body+n == target {
						cfgs = append(cfgs, tail...)
						found = true
					}
				}
			}
			if !found {
				continue
			}
			guard(r, fmt.Sprint("list-body:", target), target, func() {
				got, err := ech.ConfigList(cfgs)
				if err != nil || len(got) != target+2 {
					r.Violation("list-bytes:body-size", fmt.Sprintf("ConfigList for a %d-byte body: %d bytes, %v", target, len(got), err), target)
					return
				}
				specs, err := ech.ParseConfigList(got)
				if _, rerr := tlsref.ParseConfigList(got); rerr != nil {
					ev.ToolError("c11: reference parser rejects the %d-byte list: %v", target, rerr)
				}
				if err != nil || len(specs) != len(cfgs) {
					r.Violation(fmt.Sprintf("list-parse:body-%#x", target), fmt.Sprintf("a well-formed list whose body is %d (%#x) bytes long does not parse back: %v, %d of %d configs", target, target, err, len(specs), len(cfgs)), target)
				}
				r.Eval(fmt.Sprint("listbody", target), "ok-list")
			})
		}
	}

	// ---- 3d. SUPPLEMENTARY (free-running goroutines: a sample of schedules, not an exploration; reported separately): the codec's
	// functions are pure, so eight goroutines that parse / encode different configs at the same time must each get what a
	// sequential call gets. (Package-level scratch memory is plain memory: no scheduling point a controlled scheduler could use.) ----
	{
		const workers, iters = 8, 4000
		var cfgs []ech.Config
		var wantSpec []ech.ConfigSpec
		for i := 0; i < workers; i++ {
			c := mk(byte(i+1), fmt.Sprintf("w%d.example", i), sl[(i*7)%len(sl)])
			sp, err := c.Spec()
			if err != nil {
				ev.ToolError("c11: %v", err)
			}
			cfgs, wantSpec = append(cfgs, c), append(wantSpec, sp)
		}
		var wg sync.WaitGroup
		var bad atomic.Int64
		var firstBad atomic.Value
		for w := 0; w < workers; w++ {
			wg.Add(1)
			go func(w int) {
				defer wg.Done()
				for i := 0; i < iters; i++ {
					sp, err := cfgs[w].Spec()
					enc, err2 := wantSpec[w].Bytes()
					if err != nil || err2 != nil || !specEqual(sp, wantSpec[w]) || !bytes.Equal(enc, cfgs[w]) {
						if bad.Add(1) == 1 {
							firstBad.Store(fmt.Sprintf("goroutine %d, iteration %d: Spec() = %+v (want %+v) err=%v; Bytes() equal=%v err=%v", w, i, sp, wantSpec[w], err, bytes.Equal(enc, cfgs[w]), err2))
						}
						return
					}
				}
			}(w)
		}
		wg.Wait()
		oc := "concurrent-codec-calls-agree"
		if bad.Load() > 0 {
			oc = "concurrent-codec-calls-DISAGREE"
			r.Violation("concurrent-use:codec-result-differs", "eight goroutines parsing and encoding DIFFERENT configs at the same time: "+firstBad.Load().(string), nil)
		}
		r.Eval("concurrent-codec", oc)
		r.Set("supplementary_concurrent_calls", workers*iters*2)
	}

	// ---- 4. parser robustness: truncations, substitutions, garbage ----
	list3, _ := ech.ConfigList(poolCfg[:3])
	var parserInputs int64
	parse := func(tag string, in []byte, mustReject bool) {
		guard(r, "parse:"+tag, fmt.Sprintf("%x", in), func() {
			cp := append([]byte{}, in...)
			specs, err := ech.ParseConfigList(cp)
			if !bytes.Equal(cp, in) {
				r.Violation("parse-mutates-input", "ParseConfigList modified its input", fmt.Sprintf("%x", in))
			}
			oc := "rejected"
			if err == nil {
				oc = "accepted"
				if mustReject {
					r.Violation("parse-accepts-truncated:"+tag, fmt.Sprintf("truncated/malformed encoding accepted: %x -> %+v", in, specs), fmt.Sprintf("%x", in))
				}
			}
			_, _ = ech.Config(in).Spec()
			parserInputs++
			_ = parserInputs
			r.Eval("p:"+string(in), oc)
		})
	}
	for n := 0; n < len(list3); n++ { // every strict prefix must be rejected
		parse(fmt.Sprintf("prefix%d", n), list3[:n], true)
	}
	parse("whole", list3, false)
	// 1..3 stray bytes at the end of the list BODY, with the list's own length prefix saying so (a config header needs 4)
	for n := 1; n <= 3; n++ {
		l := append(append([]byte{}, list3...), bytes.Repeat([]byte{0xfe}, n)...)
		l[0], l[1] = byte((len(l)-2)>>8), byte(len(l)-2)
		parse(fmt.Sprintf("stray-bytes-in-body-%d", n), l, true)
	}
	parse("garbage-after", append(append([]byte{}, list3...), 0xaa), false) // tolerated or not: not fixed by the property; only no panic
	// "never reads beyond declared lengths": whatever follows the declared list - a byte, 65536 bytes of well-formed configs (a
	// length comparison done in 16 bits would not see them), 65535, 131072 - the configs returned are those INSIDE the declared
	// length, or the input is refused
	{
		filler := mk(200, "filler.example", sl[0])
		for _, extraLen := range []int{1, 65535, 65536, 65537, 131072} {
			// the extra bytes are well-formed configs from the first to the last byte (the last one sized to fit)
			var extra []byte
			for extraLen-len(extra) > 400 {
				extra = append(extra, filler...)
			}
			if rem := extraLen - len(extra); rem >= 60 {
				spec := ech.ConfigSpec{Version: 0xfe0d, ID: 201, KEM: 0x20, PublicKey: tlsref.DetBytes("k", 10), CipherSuites: sl[0], PublicName: []byte("last.example")}
				c0, _ := spec.Bytes()
				spec.PublicKey = tlsref.DetBytes("k", 10+rem-len(c0))
				c, err := spec.Bytes()
				if err != nil || len(c) != rem {
					ev.ToolError("c11: cannot size the last config to %d bytes (%d, %v)", rem, len(c), err)
				}
				extra = append(extra, c...)
			} else {
				extra = append(extra, make([]byte, rem)...)
			}
			in := append(append([]byte{}, list3...), extra...)
			guard(r, fmt.Sprint("parse:beyond-declared-length:", extraLen), extraLen, func() {
				specs, err := ech.ParseConfigList(in)
				oc := "beyond-declared-length -> refused"
				if err == nil {
					oc = "beyond-declared-length -> ignored"
					if len(specs) != 3 {
						oc = "beyond-declared-length -> READ"
						r.Violation("parse-reads-beyond-declared-length", fmt.Sprintf("a list that declares %d bytes (3 configs) followed by %d more bytes parses into %d configs (last id %d): bytes beyond the declared length were read", len(list3)-2, extraLen, len(specs), specs[len(specs)-1].ID), extraLen)
					}
				}
				r.Eval(fmt.Sprint("beyond:", extraLen), oc)
			})
		}
	}
	// single config, every strict prefix through Config.Spec
	one := poolCfg[1]
	for n := 0; n < len(one); n++ {
		n := n
		guard(r, fmt.Sprintf("specprefix%d", n), n, func() {
			if _, err := one[:n].Spec(); err == nil {
				r.Violation("spec-accepts-prefix", fmt.Sprintf("Config.Spec accepted a %d-byte strict prefix of a %d-byte config", n, len(one)), n)
			}
			r.Eval(fmt.Sprintf("sp:%d", n), "rejected")
		})
	}
	// field-level truncation: drop the trailing k bytes of the contents and fix up both length prefixes.
	// k=1,2 cut into the extensions field: the structure is incomplete and must be rejected.
	base := poolCfg[0]
	for k := 1; k <= 2; k++ {
		cut := append([]byte{}, base[:len(base)-k]...)
		n := len(cut) - 4
		cut[2], cut[3] = byte(n>>8), byte(n)
		l, _ := ech.ConfigList([]ech.Config{cut})
		parse(fmt.Sprintf("fieldcut%d", k), l, true)
	}
	// byte substitutions over the 3-config list
	subs := []byte{0x00, 0x01, 0x7f, 0xff}
	positions := len(list3)
	enum.ParallelFor(positions*len(subs), func(i int) {
		pos, v := i/len(subs), subs[i%len(subs)]
		in := append([]byte{}, list3...)
		if in[pos] == v {
			return
		}
		in[pos] = v
		guard(r, fmt.Sprintf("subst:%d:%02x", pos, v), fmt.Sprintf("%x", in), func() {
			specs, err := ech.ParseConfigList(in)
			oc := "rejected"
			if err != nil && len(specs) != 0 {
				// "rejects": a refused list yields NOTHING - a caller that looks at the length of what it got, or drops the error,
				// must not find configs of a list that was refused (the ones in front of the damaged one)
				r.Violation("parse-returns-configs-with-an-error", fmt.Sprintf("ParseConfigList refused the list (%v) and returned %d config(s) next to the error", err, len(specs)), fmt.Sprintf("%x", in))
			}
			if err == nil {
				oc = "accepted"
				// whatever is returned must lie within declared lengths: names/keys no longer than the input
				for _, s := range specs {
					if len(s.PublicKey) > len(in) || len(s.PublicName) > 255 {
						r.Violation("parse-overread", "returned field longer than input", fmt.Sprintf("%x", in))
					}
				}
			}
			r.Eval("s:"+string(in), oc)
		})
	})

	// ---- 5. crypto/tls accepts the configs on both sides; ech.NewConn accepts what tls.Client emits ----
	idClass := []int{0, 1, 127, 128, 255}
	nlClass := []int{3, 4, 63, 64, 65, 100, 200, 239, 240, 253}
	if r.Thorough() {
		nlClass = nil
		for l := 3; l <= 253; l++ {
			nlClass = append(nlClass, l)
		}
	}
	var tlsSuites [][]ech.CipherSuite
	for _, s := range sl {
		if len(s) <= 2 || r.Thorough() {
			tlsSuites = append(tlsSuites, s)
		}
	}
	hp := enum.Product{len(idClass), len(nlClass), len(tlsSuites)}
	priv := hpkeref.DetKey("c11-tls")
	enum.ParallelFor(hp.Size(), func(i int) {
		d := hp.Decode(i)
		id, nl, suites := idClass[d[0]], nlClass[d[1]], tlsSuites[d[2]]
		onlyUnknown := true
		for _, s := range suites {
			if s.KDF == 1 {
				onlyUnknown = false
			}
		}
		name := dnsName(nl)
		cs := encCase{id, name, fmt.Sprint(suites), 32}
		cfg, err := ech.ConfigSpec{Version: 0xfe0d, ID: uint8(id), KEM: 0x20, PublicKey: priv.PublicKey().Bytes(), CipherSuites: suites, PublicName: []byte(name)}.Bytes()
		if err != nil {
			return
		}
		list, _ := ech.ConfigList([]ech.Config{cfg})
		keys := []tls.EncryptedClientHelloKey{{Config: cfg, PrivateKey: priv.Bytes(), SendAsRetry: true}}
		oc := handshakeBoth(list, keys, onlyUnknown)
		if oc != "ok" && !(onlyUnknown && oc == "client-refused-config") {
			r.Violation(fmt.Sprintf("tls:%s:id%d:name%d:suites%v", oc, id, nl, suites), "crypto/tls interop failed: "+oc, cs)
		}
		r.Eval(fmt.Sprintf("tls:%d:%d:%v", id, nl, suites), "tls-"+oc)
	})
	r.Set("parser_inputs", parserInputs)
}

// handshakeBoth: (a) tls.Client(list) <-> tls.Server(keys): ECHAccepted; (b) tls.Client(list) <-> ech.NewConn(keys) -> tls.Server without keys.
func handshakeBoth(list []byte, keys []tls.EncryptedClientHelloKey, onlyUnknown bool) string {
	const inner = "inner.example"
	cert := tlsx.Leaf(0, false, inner)
	mkClient := func() *tls.Config {
		return &tls.Config{ServerName: inner, RootCAs: tlsx.Pool(), EncryptedClientHelloConfigList: list, MinVersion: tls.VersionTLS13}
	}
	hs := tlsx.Handshake(mkClient(), func(c *memnet.Conn) (*tls.Conn, error) {
		s := tls.Server(c, &tls.Config{Certificates: []tls.Certificate{cert}, EncryptedClientHelloKeys: keys, MinVersion: tls.VersionTLS13})
		return s, s.Handshake()
	})
	if hs.ClientErr != nil && onlyUnknown {
		return "client-refused-config"
	}
	if hs.ClientErr != nil || hs.ServerErr != nil {
		return fmt.Sprintf("direct-handshake-failed(client=%v server=%v)", hs.ClientErr, hs.ServerErr)
	}
	if !hs.ClientState.ECHAccepted || !hs.ServerState.ECHAccepted {
		return "direct-ech-not-accepted"
	}
	var conn *ech.Conn
	hs = tlsx.Handshake(mkClient(), func(c *memnet.Conn) (*tls.Conn, error) {
		var err error
		conn, err = ech.NewConn(ctxBG, c, ech.WithKeys(keys))
		if err != nil {
			return nil, err
		}
		s := tls.Server(conn, &tls.Config{Certificates: []tls.Certificate{cert}, MinVersion: tls.VersionTLS13})
		return s, s.Handshake()
	})
	if hs.ClientErr != nil || hs.ServerErr != nil {
		return fmt.Sprintf("split-handshake-failed(client=%v server=%v)", hs.ClientErr, hs.ServerErr)
	}
	if !hs.ClientState.ECHAccepted || !conn.ECHAccepted() || conn.ServerName() != inner || !hs.Pong {
		return "split-ech-not-accepted"
	}
	return "ok"
}

var _ = ecdh.X25519
