// Package c04 decides C04: illegal or malformed Encrypted Client Hellos are
// aborted with the mandated alert and never forwarded. Fault enumeration (E1).
package c04

import (
	"bytes"
	"crypto/ecdh"
	"fmt"
	"slices"
	"strings"
	"verif/internal/hpkeref"

	"github.com/c2FmZQ/ech"

	"verif/checks/c03"
	"verif/internal/echx"
	"verif/internal/enum"
	"verif/internal/ev"
	"verif/internal/tlsref"
)

const (
	innerName = "inner.secret.example"
	pubName   = "public.example"
)

type base struct {
	AEAD     uint16 `json:"aead"`
	Compress bool   `json:"compress"`
	EchPos   int    `json:"ech_pos"`
}

func spec(key echx.KeyPair, b base) echx.Spec {
	outer, idx := echx.StdOuter(pubName, tlsref.DetBytes("sid", 32), b.EchPos)
	return echx.Spec{Key: key, Suite: tlsref.Suite{KDF: 1, AEAD: b.AEAD}, Outer: outer, EchIdx: idx,
		EncInner: echx.StdEncInner(innerName, []string{"h2"}, b.Compress), InnerBase: echx.StdInnerBase(),
		Padding: make([]byte, 8), EphLabel: fmt.Sprintf("c04-%d", b.AEAD)}
}

// fault is one generated faulty hello.
type fault struct {
	Name   string   `json:"fault"`
	Arg    string   `json:"arg"`
	Base   base     `json:"base"`
	Allow  []string `json:"admissible_classes"`
	stream []byte
	noKeys bool
	// retryFirst != nil: the faulty hello is the SECOND hello of the connection: retryFirst (valid, accepted) is fed to
	// NewConn, the backend answers with a HelloRetryRequest, and stream then arrives at Conn.Read
	retryFirst []byte
	// retryPartial: in the same Write as the HelloRetryRequest the backend also hands over the first 3 bytes of its next
	// record (a segment boundary inside a record): the alert must still reach the client intact
	retryPartial bool
	// retryFrag > 0: the faulty second hello arrives framed in two records, the first carrying retryFrag bytes of the message
	retryFrag int
	// mayBeValid: the mutation can yield a hello that is still well formed; then
	// transparent handling (not an abort) is admissible too.
	mayBeValid bool
}

const (
	IP = "illegal_parameter"
	DE = "decode_error"
	UM = "unexpected_message"
)

// retryKinds are the catalogue entries built from a sealed spec: they apply equally to the hello that follows a
// HelloRetryRequest (sealed at sequence number 1 with an empty enc).
func retryKind(name string) bool {
	for _, p := range []string{"outer-has-ech_outer_extensions", "outer-sni-not-public-name", "inner-without-ech-ext", "inner-with-outer-type-ech", "inner-no-tls13", "nonzero-padding", "refs-", "inner-malformed-", "framing-"} {
		if strings.HasPrefix(name, p) {
			return true
		}
	}
	return false
}

func generate(key echx.KeyPair, b base, thorough bool) []fault {
	return generateMode(key, b, thorough, false)
}

func generateMode(key echx.KeyPair, b base, thorough, retry bool) (out []fault) {
	s := spec(key, b)
	var first []byte
	if retry {
		first = s.Build().Outer.Record()
		s.RetrySeq = 1
		for i, e := range s.Outer.Exts { // the retried hello answers the HelloRetryRequest with another key share
			if e.Type == tlsref.ExtKeyShare {
				s.Outer = s.Outer.Clone()
				s.Outer.Exts[i] = tlsref.KeyShare(65)
			}
		}
	}
	add := func(name, arg string, allow []string, stream []byte) *fault {
		if retry {
			if !retryKind(name) {
				out = append(out, fault{Name: "-"})
				return &out[len(out)-1]
			}
			name = "retried:" + name
		}
		out = append(out, fault{Name: name, Arg: arg, Base: b, Allow: allow, stream: stream, retryFirst: first})
		return &out[len(out)-1]
	}
	if retry {
		defer func() { out = slices.DeleteFunc(out, func(f fault) bool { return f.Name == "-" }) }()
	}
	good := s.Build()
	nOuter := len(s.Outer.Exts)
	if retry {
		// F0 (retried hello only) a VALID second hello that is framed illegally over several records: a record of another content
		// type between its fragments, an empty fragment, a handshake header announcing more than a hello may hold. These fail while
		// the message is being collected - another code path than a complete hello that is then refused
		gm := good.Outer.Msg()
		for _, ct := range []byte{20, 21, 23} {
			add("framing-foreign-record-between-fragments", fmt.Sprint(ct), []string{UM}, cat(tlsref.Record(22, 0x0303, gm[:40]), tlsref.Record(ct, 0x0303, []byte{1}), tlsref.Record(22, 0x0303, gm[40:])))
		}
		add("framing-empty-fragment", "", []string{DE}, cat(tlsref.Record(22, 0x0303, gm[:40]), tlsref.Record(22, 0x0303, nil), tlsref.Record(22, 0x0303, gm[40:])))
		big := slices.Clone(gm)
		big[1], big[2], big[3] = 1, 0, 1 // 65537
		add("framing-announced-length-over-limit", "", []string{DE}, tlsref.Record(22, 0x0303, big[:60]))
	}

	// F1 ech_outer_extensions in the outer hello, at every position (with a valid ECH payload re-sealed over it, and in a hello without ECH)
	for pos := 0; pos <= nOuter; pos++ {
		s1 := s
		s1.Outer = s.Outer.Clone()
		s1.Outer.Exts = slices.Insert(s1.Outer.Exts, pos, tlsref.OuterExtensions(tlsref.ExtKeyShare))
		if pos <= s.EchIdx {
			s1.EchIdx++
		}
		add("outer-has-ech_outer_extensions", fmt.Sprint(pos), []string{IP}, s1.Build().Outer.Record())
	}
	plain := s.Outer.Clone()
	plain.Exts = slices.Delete(plain.Exts, s.EchIdx, s.EchIdx+1)
	// ... the misplaced extension with an empty or malformed body is no more acceptable than a well-formed one
	for bi, body := range [][]byte{{}, {1}, {4, 0, 0x2b}, {0}} {
		for _, pos := range []int{0, nOuter / 2, nOuter} {
			s1 := s
			s1.Outer = s.Outer.Clone()
			s1.Outer.Exts = slices.Insert(s1.Outer.Exts, pos, tlsref.Ext{Type: tlsref.ExtOuterExtensions, Data: body})
			if pos <= s.EchIdx {
				s1.EchIdx++
			}
			add("outer-has-ech_outer_extensions-malformed-body", fmt.Sprintf("body%d pos%d", bi, pos), []string{IP, DE}, s1.Build().Outer.Record())
			h := plain.Clone()
			h.Exts = slices.Insert(h.Exts, min(pos, len(h.Exts)), tlsref.Ext{Type: tlsref.ExtOuterExtensions, Data: body})
			add("plain-hello-has-ech_outer_extensions-malformed-body", fmt.Sprintf("body%d pos%d", bi, pos), []string{IP, DE}, h.Record())
			f := add("plain-hello-has-ech_outer_extensions-malformed-body-nokeys", fmt.Sprintf("body%d pos%d", bi, pos), []string{IP, DE}, h.Record())
			f.noKeys = true
		}
	}
	for pos := 0; pos <= len(plain.Exts); pos += 3 {
		h := plain.Clone()
		h.Exts = slices.Insert(h.Exts, pos, tlsref.OuterExtensions(tlsref.ExtKeyShare))
		add("plain-hello-has-ech_outer_extensions", fmt.Sprint(pos), []string{IP}, h.Record())
		f := add("plain-hello-has-ech_outer_extensions-nokeys", fmt.Sprint(pos), []string{IP}, h.Record())
		f.noKeys = true
	}
	// F2 ECH type inner in the outer hello (server has keys), every position
	for pos := 0; pos <= len(plain.Exts); pos++ {
		h := plain.Clone()
		h.Exts = slices.Insert(h.Exts, pos, tlsref.ECHInner())
		add("outer-ech-type-inner", fmt.Sprint(pos), []string{IP}, h.Record())
	}
	// ... also when the outer hello does not offer TLS 1.3 (no supported_versions / 1.2 only)
	for vi, sv := range [][]uint16{nil, {0x0303}, {0x0303, 0x0302}} {
		base := plain.Clone()
		base.Exts = slices.DeleteFunc(base.Exts, func(e tlsref.Ext) bool { return e.Type == tlsref.ExtSupportedVersions })
		if sv != nil {
			base.Exts = append(base.Exts, tlsref.SupportedVersions(sv...))
		}
		for pos := 0; pos <= len(base.Exts); pos++ {
			h := base.Clone()
			h.Exts = slices.Insert(h.Exts, pos, tlsref.ECHInner())
			add("outer-ech-type-inner-no-tls13", fmt.Sprintf("sv%d pos%d", vi, pos), []string{IP}, h.Record())
		}
	}
	// F3 unknown ECH type
	for _, t := range []byte{2, 3, 127, 255} {
		h := good.Outer.Clone()
		h.Exts[s.EchIdx].Data = append([]byte{}, h.Exts[s.EchIdx].Data...)
		h.Exts[s.EchIdx].Data[0] = t
		add("ech-type-unknown", fmt.Sprint(t), []string{IP}, h.Record())
		f := add("ech-type-unknown-nokeys", fmt.Sprint(t), []string{IP}, h.Record())
		f.noKeys = true
		h2 := plain.Clone()
		h2.Exts = append(h2.Exts, tlsref.Ext{Type: tlsref.ExtECH, Data: []byte{t}})
		add("ech-type-unknown-short", fmt.Sprint(t), []string{IP}, h2.Record())
	}
	// F4 authentic payload, outer SNI differs from the public name / absent
	for _, name := range []string{"other.example", "public.exampl", "public.example.", "PUBLIC.EXAMPLE", ""} {
		s4 := s
		s4.Outer = s.Outer.Clone()
		for i, e := range s4.Outer.Exts {
			if e.Type == tlsref.ExtSNI {
				if name == "" {
					s4.Outer.Exts = slices.Delete(s4.Outer.Exts, i, i+1)
					if i < s4.EchIdx {
						s4.EchIdx--
					}
				} else {
					s4.Outer.Exts[i] = tlsref.SNI(name)
				}
				break
			}
		}
		add("outer-sni-not-public-name", name, []string{IP}, s4.Build().Outer.Record())
	}
	// F5 inner lacks the inner-type ECH extension / carries an outer-type one
	{
		s5 := s
		s5.EncInner = slices.DeleteFunc(slices.Clone(s.EncInner), func(e tlsref.Ext) bool { return e.Type == tlsref.ExtECH })
		add("inner-without-ech-ext", "", []string{IP}, s5.Build().Outer.Record())
		s5.EncInner = slices.Clone(s.EncInner)
		for i, e := range s5.EncInner {
			if e.Type == tlsref.ExtECH {
				s5.EncInner[i] = tlsref.ECHOuter(1, b.AEAD, 42, make([]byte, 32), make([]byte, 40))
			}
		}
		add("inner-with-outer-type-ech", "", []string{IP}, s5.Build().Outer.Record())
	}
	// F6 inner does not offer TLS 1.3
	if !b.Compress {
		// (GREASE values, RFC 8701, are not versions: a list of GREASE + TLS 1.2 does not offer TLS 1.3)
		// ... nor are DTLS versions (0xfefd = DTLS 1.2, 0xfefc = DTLS 1.3) or TLS 1.3 draft versions (0x7f1c): none of them is
		// the TLS 1.3 a backend behind this server could negotiate
		for _, v := range [][]uint16{{0x0303}, {0x0303, 0x0302}, nil, {0x7a7a, 0x0303}, {0x0303, 0xfafa}, {0x0a0a}, {0xfefd}, {0xfefc, 0xfefd}, {0x7f1c, 0x0303}, {0xfeff, 0x0303}} {
			s6 := s
			s6.EncInner = slices.Clone(s.EncInner)
			for i, e := range s6.EncInner {
				if e.Type == tlsref.ExtSupportedVersions {
					if v == nil {
						s6.EncInner = slices.Delete(s6.EncInner, i, i+1)
					} else {
						s6.EncInner[i] = tlsref.SupportedVersions(v...)
					}
					break
				}
			}
			add("inner-no-tls13", fmt.Sprint(v), []string{IP}, s6.Build().Outer.Record())
		}
	}
	// F7 non-zero padding: every padding byte, each of 8 bits
	for _, padLen := range []int{1, 8, 31} {
		for i := 0; i < padLen; i++ {
			for bit := 0; bit < 8; bit++ {
				if !thorough && padLen == 31 && (i%5 != 0 || bit%3 != 0) {
					continue
				}
				s7 := s
				s7.Padding = make([]byte, padLen)
				s7.Padding[i] = 1 << bit
				add("nonzero-padding", fmt.Sprintf("len%d byte%d bit%d", padLen, i, bit), []string{IP}, s7.Build().Outer.Record())
			}
		}
	}
	// ... and several non-zero bytes at once, among them ones whose sum, xor or product is zero in 8 bits (multi-fault)
	for name, pad := range map[string][]byte{"80+80": {0x80, 0x80}, "ff+01": {0, 0xff, 0, 1}, "aa^aa": {0xaa, 0, 0xaa}, "256x01": bytes.Repeat([]byte{1}, 256), "256xff": bytes.Repeat([]byte{0xff}, 256), "10*10": {0x10, 0x10}, "all-ff": bytes.Repeat([]byte{0xff}, 7)} {
		s7 := s
		s7.Padding = pad
		add("nonzero-padding-multi", name, []string{IP}, s7.Build().Outer.Record())
	}
	// F8 reference-list faults (only meaningful with compression)
	if b.Compress {
		refs := []uint16{tlsref.ExtSupportedVersions, tlsref.ExtSupportedGroups, tlsref.ExtSigAlgs, tlsref.ExtKeyShare, tlsref.ExtPSKModes}
		withMarker := func(m ...tlsref.Ext) echx.Spec {
			s8 := s
			s8.EncInner = nil
			for _, e := range s.EncInner {
				if e.Type == tlsref.ExtOuterExtensions {
					s8.EncInner = append(s8.EncInner, m...)
				} else {
					s8.EncInner = append(s8.EncInner, e)
				}
			}
			return s8
		}
		raw := func(d ...byte) tlsref.Ext { return tlsref.Ext{Type: tlsref.ExtOuterExtensions, Data: d} }
		okData := tlsref.OuterExtensions(refs...).Data
		add("refs-odd-length", "", []string{DE, IP}, withMarker(raw(append([]byte{byte(len(okData))}, append(okData[1:], 0x00)...)...)).Build().Outer.Record())
		add("refs-length-prefix+1", "", []string{DE, IP}, withMarker(raw(append([]byte{byte(len(okData))}, okData[1:]...)...)).Build().Outer.Record())
		add("refs-length-prefix-1", "", []string{DE, IP}, withMarker(raw(append([]byte{byte(len(okData) - 2)}, okData[1:]...)...)).Build().Outer.Record())
		add("refs-length-prefix-2-trailing", "", []string{DE, IP}, withMarker(raw(append([]byte{byte(len(okData) - 3)}, okData[1:]...)...)).Build().Outer.Record())
		add("refs-empty-list", "", []string{DE, IP}, withMarker(raw(0)).Build().Outer.Record())
		add("refs-empty-data", "", []string{DE, IP}, withMarker(raw()).Build().Outer.Record())
		for i := 0; i+1 < len(refs); i++ {
			sw := slices.Clone(refs)
			sw[i], sw[i+1] = sw[i+1], sw[i]
			add("refs-out-of-order", fmt.Sprint(i), []string{IP}, withMarker(tlsref.OuterExtensions(sw...)).Build().Outer.Record())
		}
		for i := range refs {
			rep := slices.Insert(slices.Clone(refs), i, refs[i])
			add("refs-repeated", fmt.Sprint(i), []string{IP}, withMarker(tlsref.OuterExtensions(rep...)).Build().Outer.Record())
			rep2 := append(slices.Clone(refs), refs[i])
			add("refs-repeated-at-end", fmt.Sprint(i), []string{IP}, withMarker(tlsref.OuterExtensions(rep2...)).Build().Outer.Record())
		}
		// a repeated reference whose extension the OUTER hello carries twice as well (sealed over exactly that outer hello): the
		// second reference finds a second copy, yet "referenced more than once" is a fault of the list whatever the outer hello holds
		for i := range refs {
			s9 := withMarker(tlsref.OuterExtensions(slices.Insert(slices.Clone(refs), i, refs[i])...))
			o := s9.Outer.Clone()
			for j, e := range o.Exts {
				if e.Type == refs[i] {
					o.Exts = slices.Insert(o.Exts, j+1, e)
					if j < s9.EchIdx {
						s9.EchIdx++
					}
					break
				}
			}
			s9.Outer = o
			add("refs-repeated-and-outer-carries-it-twice", fmt.Sprint(i), []string{IP, DE}, s9.Build().Outer.Record())
		}
		// ... the same with ANOTHER reference between the two: references [.. X Y X ..] over an outer hello [.. X Y X ..]
		for i := 0; i+1 < len(refs); i++ {
			rl := slices.Insert(slices.Clone(refs), i+2, refs[i])
			s9 := withMarker(tlsref.OuterExtensions(rl...))
			o := s9.Outer.Clone()
			jx, jy := -1, -1
			for j, e := range o.Exts {
				if e.Type == refs[i] && jx < 0 {
					jx = j
				}
				if e.Type == refs[i+1] && jy < 0 {
					jy = j
				}
			}
			if jx < 0 || jy < jx {
				ev.ToolError("c04: the referenced extensions are not in the outer hello in reference order")
			}
			o.Exts = slices.Insert(o.Exts, jy+1, o.Exts[jx])
			if jy < s9.EchIdx {
				s9.EchIdx++
			}
			s9.Outer = o
			add("refs-repeated-with-another-between-and-outer-carries-it-twice", fmt.Sprint(i), []string{IP, DE}, s9.Build().Outer.Record())
		}
		for i := range refs {
			miss := slices.Clone(refs)
			miss[i] = 0x7777
			add("refs-absent-from-outer", fmt.Sprint(i), []string{IP}, withMarker(tlsref.OuterExtensions(miss...)).Build().Outer.Record())
		}
		// a reference to an extension type the outer hello does not carry, for type codes that have a special standing elsewhere
		// (GREASE values, the last code point, renegotiation_info): replacing each reference, and inserted at each position
		for _, code := range []uint16{0x0a0a, 0x1a1a, 0xfafa, 0xffff, 0xff01} {
			for i := range refs {
				miss := slices.Clone(refs)
				miss[i] = code
				add("refs-absent-from-outer-special-code", fmt.Sprintf("%#x for %d", code, i), []string{IP}, withMarker(tlsref.OuterExtensions(miss...)).Build().Outer.Record())
			}
			for i := 0; i <= len(refs); i++ {
				add("refs-absent-from-outer-special-code", fmt.Sprintf("%#x inserted at %d", code, i), []string{IP}, withMarker(tlsref.OuterExtensions(slices.Insert(slices.Clone(refs), i, code)...)).Build().Outer.Record())
			}
		}
		for _, bad := range []uint16{tlsref.ExtECH, tlsref.ExtOuterExtensions} {
			for i := 0; i <= len(refs); i++ {
				add("refs-name-ech-extension", fmt.Sprintf("%#x at %d", bad, i), []string{IP}, withMarker(tlsref.OuterExtensions(slices.Insert(slices.Clone(refs), i, bad)...)).Build().Outer.Record())
			}
		}
		add("refs-two-markers", "", []string{IP}, withMarker(tlsref.OuterExtensions(refs[:2]...), tlsref.OuterExtensions(refs[2:]...)).Build().Outer.Record())
		add("refs-two-markers-same", "", []string{IP}, withMarker(tlsref.OuterExtensions(refs...), tlsref.OuterExtensions(refs...)).Build().Outer.Record())
	}
	if !b.Compress {
		// an additional, empty reference list next to a complete inner hello (OuterExtensions<2..254> forbids it)
		s8 := s
		s8.EncInner = append(slices.Clone(s.EncInner), tlsref.Ext{Type: tlsref.ExtOuterExtensions, Data: []byte{0}})
		add("refs-empty-list-extra-marker", "", []string{DE, IP}, s8.Build().Outer.Record())
	}
	// F9a truncations of the outer hello: -1/+1 on every length field
	msg := good.Outer.Msg()
	for _, lf := range tlsref.LengthFieldOffsets(msg) {
		for _, d := range []int{-1, +1} {
			m := tlsref.Bump(msg, lf[0], lf[1], d)
			if m == nil {
				continue
			}
			f := add("outer-length-field", fmt.Sprintf("off%d%+d", lf[0], d), []string{DE, IP, UM, "eof"}, tlsref.Record(22, 0x0301, m))
			f.mayBeValid = true
		}
	}
	// F9b record cut at every byte, record length fixed up (message length says more than there is)
	rec := good.Outer.Record()
	for cut := 0; cut < len(msg); cut++ {
		if !thorough && cut > 60 && cut < len(msg)-60 && cut%3 != 0 {
			continue
		}
		// a record that holds only the beginning of the message is the first fragment of a hello spanning several records:
		// (a) the stream ends there: the transport's end is reported (no TLS error class); (b) the message is "continued" by a
		// record that is not a handshake record: unexpected_message; (c) it is continued by a handshake record with other bytes,
		// so that the reassembled message is garbage: decode_error (or illegal_parameter)
		first := tlsref.Record(22, 0x0301, msg[:cut])
		add("record-cut-then-eof", fmt.Sprint(cut), []string{DE, "eof"}, first)
		if cut >= 4 && (thorough || cut%5 == 0) {
			add("record-cut-then-appdata", fmt.Sprint(cut), []string{UM, DE}, append(slices.Clone(first), tlsref.Record(23, 0x0303, []byte{1, 2, 3})...))
			// ... also when that foreign record is EMPTY: it is a record of another content type in the middle of a handshake
			// message (unexpected_message), not an empty handshake fragment
			for _, ct := range []byte{20, 21, 23} {
				add("record-cut-then-empty-foreign-record", fmt.Sprintf("%d type%d", cut, ct), []string{UM}, append(slices.Clone(first), tlsref.Record(ct, 0x0303, nil)...))
			}
			junk := make([]byte, len(msg)-cut)
			for i := range junk {
				junk[i] = 0xA5
			}
			f := add("record-cut-then-garbage-continuation", fmt.Sprint(cut), []string{DE, IP}, append(slices.Clone(first), tlsref.Record(22, 0x0303, junk)...))
			f.mayBeValid = true // the garbage may fall into opaque fields (key share, ECH payload): then the hello is well formed and is handled transparently
			// and the legal case for comparison is covered by C03/C05/C07 (fragmented hellos)
		}
	}
	_ = rec
	// F9c truncations inside the encoded inner: -1 on every length field, re-sealed so that it authenticates
	{
		innerHello := s.InnerBase.Clone()
		innerHello.Exts = s.EncInner
		innerHello.SessionID = nil
		imsg := innerHello.Msg()
		for _, lf := range tlsref.LengthFieldOffsets(imsg)[1:] {
			for _, d := range []int{-1, +1} {
				m := tlsref.Bump(imsg, lf[0], lf[1], d)
				if m == nil {
					continue
				}
				enc := append(m[4:], s.Padding...)
				o := s.Outer.Clone()
				sealer, _ := tlsref.NewSealer(key.Cfg, s.Suite, detEph(s.EphLabel), nil)
				sealer.Seal(o, s.EchIdx, enc, true)
				f := add("inner-length-field", fmt.Sprintf("off%d%+d", lf[0]-4, d), []string{DE, IP}, o.Record())
				f.mayBeValid = true
			}
		}
	}
	// F9c' an AUTHENTIC payload whose plaintext is empty or a few bytes long (the inner hello is cut off at its very start):
	// authentic but malformed - aborted, not mistaken for "no key matched"
	if !retry {
		for _, n := range []int{0, 1, 2, 5, 34} {
			full := tlsref.EncodeInner(func() *tlsref.Hello { h := s.InnerBase.Clone(); h.Exts = s.EncInner; return h }(), nil)
			o := s.Outer.Clone()
			sealer, _ := tlsref.NewSealer(key.Cfg, s.Suite, detEph(s.EphLabel), nil)
			sealer.Seal(o, s.EchIdx, full[:n], true)
			add("inner-plaintext-cut-short", fmt.Sprint(n), []string{DE, IP}, o.Record())
		}
	}
	// F9d malformed syntax inside the extensions the server interprets, in the outer hello and inside the (authentic) inner hello
	{
		raw := func(t uint16, d ...byte) tlsref.Ext { return tlsref.Ext{Type: t, Data: d} }
		bad := []struct {
			name string
			ext  tlsref.Ext
		}{
			{"sni-empty-data", raw(0)}, {"sni-list-short", raw(0, 0, 2, 0, 0)}, {"sni-truncated", raw(0, 0, 9, 0, 0, 9, 'a')},
			{"alpn-empty-data", raw(16)}, {"alpn-truncated", raw(16, 0, 4, 3, 'h', '2')}, {"alpn-list-short", raw(16, 0, 1)},
			{"sv-empty-data", raw(43)}, {"sv-odd", raw(43, 3, 3, 4, 3)}, {"sv-odd-after-13", raw(43, 5, 3, 4, 3, 3, 3)}, {"sv-overlong", raw(43, 9, 3, 4)},
			{"ech-empty-data", raw(0xfe0d)}, {"ech-outer-cut3", raw(0xfe0d, 0, 0, 1)}, {"ech-outer-cut6", raw(0xfe0d, 0, 0, 1, 0, 1, 42)},
		}
		for _, bx := range bad {
			// outer: the malformed extension replaces / is added to a plain hello (with and without keys)
			h := plain.Clone()
			h.Exts = slices.DeleteFunc(h.Exts, func(e tlsref.Ext) bool { return e.Type == bx.ext.Type })
			h.Exts = append(h.Exts, bx.ext)
			add("outer-malformed-"+bx.name, "", []string{DE, IP}, h.Record())
			f := add("outer-malformed-"+bx.name+"-nokeys", "", []string{DE, IP}, h.Record())
			f.noKeys = true
			// inner: sealed, so that the inner parser meets it
			if bx.ext.Type == 0xfe0d {
				continue
			}
			s9 := s
			s9.EncInner = slices.DeleteFunc(slices.Clone(s.EncInner), func(e tlsref.Ext) bool { return e.Type == bx.ext.Type })
			s9.EncInner = append(s9.EncInner, bx.ext)
			if bx.ext.Type != tlsref.ExtSupportedVersions && b.Compress {
				// keep TLS 1.3 offered so that only the malformed extension is at fault
			}
			add("inner-malformed-"+bx.name, "", []string{DE, IP}, s9.Build().Outer.Record())
		}
	}
	// F9e an inner-type ECH extension that is not empty (the inner variant has no fields): inside the authentic inner hello, and in
	// an outer hello with and without keys
	for _, body := range [][]byte{{1, 0xaa, 0xbb}, {1, 0}} {
		s10 := s
		s10.EncInner = slices.Clone(s.EncInner)
		for i, e := range s10.EncInner {
			if e.Type == tlsref.ExtECH {
				s10.EncInner[i] = tlsref.Ext{Type: tlsref.ExtECH, Data: body}
			}
		}
		add("inner-malformed-ech-inner-not-empty", fmt.Sprint(len(body)), []string{DE, IP}, s10.Build().Outer.Record())
		h := plain.Clone()
		h.Exts = append(h.Exts, tlsref.Ext{Type: tlsref.ExtECH, Data: body})
		add("outer-malformed-ech-inner-not-empty", fmt.Sprint(len(body)), []string{DE, IP}, h.Record())
		f := add("outer-malformed-ech-inner-not-empty-nokeys", fmt.Sprint(len(body)), []string{DE, IP}, h.Record())
		f.noKeys = true
	}
	// F10 first record is not a ClientHello
	for _, ct := range []byte{0, 20, 21, 23, 24, 255} {
		add("first-record-not-handshake", fmt.Sprint(ct), []string{UM}, tlsref.Record(ct, 0x0303, msg))
	}
	for _, mt := range []byte{0, 2, 11, 255} {
		m := append([]byte{}, msg...)
		m[0] = mt
		add("first-message-not-clienthello", fmt.Sprint(mt), []string{UM}, tlsref.Record(22, 0x0301, m))
	}
	return out
}

// evalRetried drives first hello -> HelloRetryRequest -> faulty second hello on a fresh Conn: Read is "the call that met it".
func evalRetried(r *ev.Run, key echx.KeyPair, f fault) {
	keys := echx.Keys(key)
	replay := map[string]any{"fault": f, "first": echx.Hex(f.retryFirst), "stream": echx.Hex(f.stream), "keys": echx.KeysDoc(keys), "history": "first, backend HelloRetryRequest, stream"}
	k := f.Name
	sess, err, p := echx.OpenSession(f.retryFirst, keys)
	if p != nil || err != nil || !sess.C.ECHAccepted() {
		r.Violation("retried:first-hello-not-accepted", fmt.Sprintf("valid first hello: err=%v panic=%v", err, p), replay)
		return
	}
	if _, err, p := sess.ReadOnce(); err != nil || p != nil {
		r.Violation("retried:first-hello-read", fmt.Sprintf("reading the first hello: %v %v", err, p), replay)
		return
	}
	hrr := echx.HRRRecord(tlsref.DetBytes("sid", 32))
	if f.retryPartial {
		hrr = append(hrr, 0x14, 0x03, 0x03) // ... plus the first bytes of the change_cipher_spec record that follows
		k += ":backend-record-pending"
	}
	if n, err, p := sess.BackendSend(hrr); err != nil || p != nil || n != len(hrr) {
		r.Violation("retried:hrr-write", fmt.Sprintf("writing the HelloRetryRequest: %d %v %v", n, err, p), replay)
		return
	}
	before := len(sess.T.OutBytes())
	stream := f.stream
	if f.retryFrag > 0 && len(stream) > 5+f.retryFrag {
		stream = tlsref.Fragment(0x0303, stream[5:], f.retryFrag)
		k += fmt.Sprintf(":second-hello-in-two-records")
	}
	got, err, p := sess.ClientSend(stream)
	oc := ""
	switch {
	case p != nil:
		oc = "panic"
		r.Violation("panic:"+k, fmt.Sprintf("panic: %v", p), replay)
	case err == nil:
		oc = "FORWARDED"
		r.Violation("forwarded:"+k, fmt.Sprintf("illegal retried hello (%s %s) was not aborted: %d bytes delivered to the backend", f.Name, f.Arg, len(got)), replay)
	default:
		class := echx.ErrClass(err)
		oc = "abort:" + class
		if !slices.Contains(f.Allow, class) {
			r.Violation(fmt.Sprintf("wrong-class:%s:%s", k, class), fmt.Sprintf("error class %s (%v), admissible %v", class, err, f.Allow), replay)
		}
		if len(got) > 0 {
			r.Violation("readable-after-abort:"+k, fmt.Sprintf("%d bytes delivered together with the abort", len(got)), replay)
		}
		if more, err2, _ := sess.ReadOnce(); len(more) > 0 || err2 == nil {
			r.Violation("readable-after-abort:"+k, fmt.Sprintf("a later Read returns %d bytes, err=%v", len(more), err2), replay)
		}
		out := sess.T.OutBytes()[before:]
		want := echx.AlertFor(class)
		if want != nil && !bytes.Equal(out, want) {
			r.Violation("alert:"+alertKey(out), fmt.Sprintf("client received %x, want exactly the fatal alert %x (fault %s)", out, want, f.Name), replay)
		}
		if want != nil && sess.T.CloseCount == 0 {
			r.Violation("no-close-after-alert", "transport not closed after the fatal alert (fault "+f.Name+")", replay)
		}
	}
	r.Eval(string(f.stream)+fmt.Sprint("retried", f.retryPartial, f.retryFrag), f.Name+" -> "+oc)
}

func evalFault(r *ev.Run, key echx.KeyPair, f fault) {
	if f.retryFirst != nil {
		evalRetried(r, key, f)
		return
	}
	var keys []ech.Key
	if !f.noKeys {
		keys = echx.Keys(key)
	}
	res := echx.Feed(f.stream, keys)
	replay := map[string]any{"fault": f, "stream": echx.Hex(f.stream), "keys": echx.KeysDoc(keys)}
	k := f.Name
	oc := ""
	switch {
	case res.Panic != nil:
		oc = "panic"
		r.Violation("panic:"+k, fmt.Sprintf("panic: %v", res.Panic), replay)
	case res.Err == nil:
		if f.mayBeValid {
			// tolerated iff handled transparently: passthrough of the same bytes or genuine acceptance
			same := bytes.Equal(res.Forwarded, f.stream)
			if !res.Accepted && !same {
				r.Violation("modified:"+k, "mutation neither aborted nor forwarded unchanged", replay)
			}
			// reassemble the handshake message over the records of the stream and check its framing independently
			var msg []byte
			srecs, _ := tlsref.SplitRecords(f.stream)
			for _, rc := range srecs {
				if rc[0] == 22 {
					msg = append(msg, rc[5:]...)
				}
			}
			if _, err := tlsref.ParseHelloMsg(msg); err != nil && !res.Accepted {
				r.Violation("forwarded-unframed:"+k, "hello whose framing is broken was forwarded instead of aborted", replay)
			}
			oc = fmt.Sprintf("still-valid accepted=%v", res.Accepted)
		} else {
			oc = "FORWARDED"
			r.Violation("forwarded:"+k, fmt.Sprintf("illegal hello (%s %s) was not aborted: accepted=%v forwarded=%d bytes", f.Name, f.Arg, res.Accepted, len(res.Forwarded)), replay)
		}
	default:
		class := echx.ErrClass(res.Err)
		oc = "abort:" + class
		if !slices.Contains(f.Allow, class) {
			r.Violation(fmt.Sprintf("wrong-class:%s:%s", k, class), fmt.Sprintf("error class %s (%v), admissible %v", class, res.Err, f.Allow), replay)
		}
		if len(res.Forwarded) > 0 {
			r.Violation("readable-after-abort:"+k, fmt.Sprintf("%d bytes are readable from the Conn after the abort", len(res.Forwarded)), replay)
		}
		want := echx.AlertFor(class)
		if want != nil && !bytes.Equal(res.ClientOut, want) {
			r.Violation("alert:"+alertKey(res.ClientOut), fmt.Sprintf("client received %x, want exactly the fatal alert %x (fault %s)", res.ClientOut, want, f.Name), replay)
		}
		if want != nil && res.Closed == 0 {
			r.Violation("no-close-after-alert", "transport not closed after the fatal alert (fault "+f.Name+")", replay)
		}
	}
	r.Eval(string(f.stream)+fmt.Sprint(f.noKeys), f.Name+" -> "+oc)
	// round 13: the verdict on an illegal hello is the verdict of every key list that holds the key - in particular of lists in
	// which the key stands BEHIND entries the server cannot use for this hello: the hello's own config (same id, same suites)
	// paired with a private key that does not parse, and another key pair's config under the same id. What the single-key run
	// produced (judged above) is what these lists must produce: error class, alert bytes, close, nothing readable.
	if !f.noKeys && res.Panic == nil {
		t := keys[0]
		unusable := ech.Key{Config: slices.Clone(t.Config), PrivateKey: []byte{1, 2, 3}}
		other := echx.NewKey("c04-another-pair", key.Cfg.ID, echx.AllSuites, "another.example").Key()
		sig := func(x echx.Result) string {
			return fmt.Sprintf("panic=%v err=%s accepted=%v forwarded=%x client=%x closed=%v", x.Panic != nil, echx.ErrClass(x.Err), x.Accepted, x.Forwarded, x.ClientOut, x.Closed > 0)
		}
		for vi, ks := range [][]ech.Key{{unusable, t}, {other, t}, {other, unusable, t, unusable}} {
			res2 := echx.Feed(f.stream, ks)
			oc2 := "same verdict behind other keys"
			if sig(res2) != sig(res) {
				oc2 = "verdict differs behind other keys"
				rp := map[string]any{"fault": f, "stream": echx.Hex(f.stream), "keys": echx.KeysDoc(ks)}
				r.Violation("verdict-depends-on-keys-in-front:"+k, fmt.Sprintf("fault %s %s: with the key alone %s; with key list variant %d (the key behind a same-id entry the server cannot use) %s", f.Name, f.Arg, sig(res), vi, sig(res2)), rp)
			}
			r.Eval(string(f.stream)+fmt.Sprint("keys-in-front", vi), oc2)
		}
	}
}

func alertKey(out []byte) string {
	if len(out) == 0 {
		return "nothing-written"
	}
	return "wrong-bytes"
}

func Run(r *ev.Run) {
	r.Rule("fault enumeration (E1): for each base hello (3 AEADs x compression on/off x ECH extension first/middle/last) the catalogue: ech_outer_extensions in the outer hello at every position (well-formed, empty and malformed bodies); ECH type inner at every position; unknown ECH types; authentic payload with 5 non-matching/absent outer SNIs; inner without / with outer-type ECH extension; inner not offering TLS 1.3; every padding byte x every bit non-zero; reference list odd/short/long/empty/out-of-order (every adjacent swap)/repeated (every element)/absent (every element)/naming 0xfe0d,0xfd00 at every position/two markers; +-1 on every length field of outer and of encoded inner (re-sealed); record cut at every byte (then end of stream / a non-handshake record / a garbage continuation); non-handshake first record; one representative of every kind also with a client transport whose writes fail / are short (the transport is closed all the same); every sealed-spec entry of the catalogue (outer SNI, inner ECH extension, TLS 1.3, padding, reference-list faults, malformed inner extensions) ALSO applied to the hello that follows a HelloRetryRequest (history: valid first hello, backend HRR, faulty second hello sealed at sequence number 1; Conn.Read is the call that meets it; also with the first bytes of the backend's next record already handed to Write when the faulty hello arrives, and with the faulty second hello framed in two records whose first carries 1..4 or 40 bytes of the message); plus all pairs of single faults that compose (multi-fault). distinct = distinct (stream, keys?) inputs")
	r.Assume("reference sender validated against crypto/tls", "admissible error classes per fault are taken from the property statement and draft §5.1/§7/§7.1; for +-1 length mutations that leave a well-formed hello, transparent handling is admissible")
	key := echx.NewKey("c04", 42, echx.AllSuites, pubName)
	if err := c03.SelfValidate(echx.NewKey("c03", 7, echx.AllSuites, "public.example")); err != nil {
		ev.ToolError("%v", err)
	}
	var all []fault
	for _, aead := range []uint16{1, 2, 3} {
		for _, comp := range []bool{false, true} {
			for _, pos := range []int{0, 3, 99} {
				if !r.Thorough() && aead != 1 && pos != 3 {
					continue
				}
				all = append(all, generate(key, base{aead, comp, pos}, r.Thorough())...)
				rf := generateMode(key, base{aead, comp, pos}, r.Thorough(), true)
				all = append(all, rf...)
				seenKind := map[string]bool{}
				for _, f := range rf {
					if !strings.Contains(f.Name, "nonzero-padding") || strings.HasSuffix(f.Arg, "bit0") {
						f.retryPartial = true
						all = append(all, f)
						f.retryPartial = false
					}
					// one representative of each kind also with the second hello framed in two records (first fragment of 1..4 and 40 bytes)
					if !seenKind[f.Name] && !strings.Contains(f.Name, "framing-") { // (framing faults are several records already)
						seenKind[f.Name] = true
						for _, cut := range []int{1, 2, 3, 4, 40} {
							f.retryFrag = cut
							all = append(all, f)
						}
					}
				}
			}
		}
	}
	// multi-fault: a non-zero padding byte combined with each reference-list / inner fault is covered by
	// building both into one spec
	all = append(all, multi(key, r.Thorough())...)
	r.Set("faults", len(all))
	kinds := map[string]bool{}
	for _, f := range all {
		kinds[f.Name] = true
	}
	r.Set("fault_kinds", len(kinds))
	// "followed by end of stream" holds even when the alert itself cannot be written (client gone, short write): one representative
	// of every first-hello fault kind with a failing client transport - the error class is unchanged and the transport is closed
	{
		seen := map[string]bool{}
		for _, f := range all {
			if seen[f.Name] || f.retryFirst != nil || f.mayBeValid {
				continue
			}
			seen[f.Name] = true
			var keys []ech.Key
			if !f.noKeys {
				keys = echx.Keys(key)
			}
			for _, wf := range []string{"error", "short"} {
				res := echx.FeedOpt(f.stream, keys, wf)
				replay := map[string]any{"fault": f, "stream": echx.Hex(f.stream), "client_transport_write": wf}
				switch {
				case res.Panic != nil:
					r.Violation("panic:"+f.Name+":write-"+wf, fmt.Sprint(res.Panic), replay)
				case res.Err == nil:
					r.Violation("forwarded:"+f.Name+":write-"+wf, "illegal hello not aborted", replay)
				case !slices.Contains(f.Allow, echx.ErrClass(res.Err)):
					r.Violation("wrong-class:"+f.Name+":write-"+wf, fmt.Sprintf("error class %s (%v) when the alert cannot be written, admissible %v", echx.ErrClass(res.Err), res.Err, f.Allow), replay)
				case res.Closed == 0:
					r.Violation("no-close-when-alert-write-fails", fmt.Sprintf("the alert could not be written (%s) and the transport was NOT closed: the rejected connection stays open (fault %s)", wf, f.Name), replay)
				}
				r.Eval(string(f.stream)+"wf"+wf, f.Name+" -> abort with failing alert write, closed")
			}
		}
	}
	enum.ParallelFor(len(all), func(i int) {
		evalFault(r, key, all[i])
		if i%(len(all)/5+1) == 7 {
			r.Sample(map[string]any{"fault": all[i], "stream": echx.Hex(all[i].stream)})
		}
	})
	_ = strings.Join
}

// multi builds hellos with two simultaneous faults.
func multi(key echx.KeyPair, thorough bool) []fault {
	var out []fault
	b := base{1, true, 3}
	s := spec(key, b)
	refs := []uint16{tlsref.ExtSupportedVersions, tlsref.ExtSupportedGroups, tlsref.ExtSigAlgs, tlsref.ExtKeyShare, tlsref.ExtPSKModes}
	type mod struct {
		name  string
		class []string
		apply func(s *echx.Spec)
	}
	setMarker := func(s *echx.Spec, m tlsref.Ext) {
		s.EncInner = slices.Clone(s.EncInner)
		for i, e := range s.EncInner {
			if e.Type == tlsref.ExtOuterExtensions {
				s.EncInner[i] = m
			}
		}
	}
	mods := []mod{
		{"nonzero-padding", []string{IP}, func(s *echx.Spec) { s.Padding = []byte{0, 0, 1, 0} }},
		{"outer-sni-not-public-name", []string{IP}, func(s *echx.Spec) {
			s.Outer = s.Outer.Clone()
			for i, e := range s.Outer.Exts {
				if e.Type == tlsref.ExtSNI {
					s.Outer.Exts[i] = tlsref.SNI("evil.example")
				}
			}
		}},
		{"inner-without-ech-ext", []string{IP}, func(s *echx.Spec) {
			s.EncInner = slices.DeleteFunc(slices.Clone(s.EncInner), func(e tlsref.Ext) bool { return e.Type == tlsref.ExtECH })
		}},
		{"refs-out-of-order", []string{IP}, func(s *echx.Spec) {
			sw := slices.Clone(refs)
			sw[1], sw[2] = sw[2], sw[1]
			setMarker(s, tlsref.OuterExtensions(sw...))
		}},
		{"refs-absent-from-outer", []string{IP}, func(s *echx.Spec) {
			m := slices.Clone(refs)
			m[4] = 0x7777
			setMarker(s, tlsref.OuterExtensions(m...))
		}},
		{"refs-odd-length", []string{DE, IP}, func(s *echx.Spec) {
			d := tlsref.OuterExtensions(refs...).Data
			setMarker(s, tlsref.Ext{Type: tlsref.ExtOuterExtensions, Data: append([]byte{d[0] + 1}, append(d[1:], 0)...)})
		}},
		{"outer-has-ech_outer_extensions", []string{IP}, func(s *echx.Spec) {
			s.Outer = s.Outer.Clone()
			s.Outer.Exts = append(s.Outer.Exts, tlsref.OuterExtensions(tlsref.ExtKeyShare))
		}},
		{"inner-sni-nametype", []string{IP, DE}, func(s *echx.Spec) {
			s.EncInner = slices.Clone(s.EncInner)
			for i, e := range s.EncInner {
				if e.Type == tlsref.ExtSNI {
					d := append([]byte{}, e.Data...)
					d[2] = 1
					s.EncInner[i] = tlsref.Ext{Type: 0, Data: d}
				}
			}
		}},
	}
	for i := range mods {
		for j := range mods {
			if i >= j {
				continue
			}
			s2 := s
			mods[i].apply(&s2)
			mods[j].apply(&s2)
			allow := append(slices.Clone(mods[i].class), mods[j].class...)
			out = append(out, fault{Name: "multi:" + mods[i].name + "+" + mods[j].name, Base: b, Allow: allow, stream: s2.Build().Outer.Record()})
		}
	}
	// single versions of the mods not in the main catalogue
	s3 := s
	mods[7].apply(&s3)
	out = append(out, fault{Name: "inner-sni-nametype", Base: b, Allow: []string{IP, DE}, stream: s3.Build().Outer.Record()})
	return out
}

func detEph(label string) *ecdh.PrivateKey { return hpkeref.DetKey("eph:" + label) }

func cat(parts ...[]byte) []byte {
	var out []byte
	for _, p := range parts {
		out = append(out, p...)
	}
	return out
}
