package c05

import "context"

var ctxBG = context.Background()
