// Package c05 decides C05: without ECH acceptance the connection is passed
// through unmodified. Exhaustive small-scope enumeration of ClientHellos (E1).
package c05

import (
	"bytes"
	"context"
	"encoding/hex"
	"fmt"
	"io"
	"slices"
	"strings"

	"github.com/c2FmZQ/ech"

	"verif/internal/echx"
	"verif/internal/enum"
	"verif/internal/ev"
	"verif/internal/memnet"
	"verif/internal/tlsref"
	"verif/internal/tlsx"
)

type helloCase struct {
	Version  uint16 `json:"legacy_version"`
	SID      int    `json:"sid_len"`
	Ciphers  int    `json:"cipher_suites"`
	Comp     int    `json:"compression_kind"`
	Exts     []int  `json:"extension_pool_indexes"` // nil+NoBlock = no extensions block
	NoBlock  bool   `json:"no_extensions_block"`
	KeySet   int    `json:"key_set"` // 0 none, 1 unrelated id, 2 same id
	extNames []string
}

var poolNames = []string{"sni", "alpn", "sv13", "sv12+13", "sv12", "grease-ext", "unknown-empty", "padding512", "ech-unknown-id", "ech-known-id-garbage", "sv10-12", "alpn-long", "sni-mixed-case",
	// not part of the ordered-selection product (dedicated family below): ECH extensions naming a HELD config id whose encapsulated key cannot be used
	"ech-known-id-enc31", "ech-known-id-enc33", "ech-known-id-enc65", "ech-known-id-enc-zero32", "ech-known-id-enc-low-order",
	// a held config id together with a cipher suite that config does not list (another KDF, an unknown AEAD): no key is selected
	"ech-known-id-kdf2", "ech-known-id-aead4", "ech-known-id-aead-ffff",
	// an ALPN list with RFC 8701 GREASE ids (reported like any other id)
	"alpn-grease",
	// ECH of type "inner" in an outer hello: illegal for a server that has keys (C04); a server WITHOUT keys passes everything through
	"ech-type-inner",
	// a held config id with an EMPTY encapsulated key in a first hello (legal syntax: enc<0..2^16-1>): nothing can be decrypted
	"ech-known-id-empty-enc"}

const productPool = 13

func poolExt(i int) tlsref.Ext {
	switch i {
	case 0:
		return tlsref.SNI("plain.example.org")
	case 1:
		return tlsref.ALPN("h2", "http/1.1")
	case 2:
		return tlsref.SupportedVersions(0x0304)
	case 3:
		return tlsref.SupportedVersions(0x0a0a, 0x0304, 0x0303)
	case 4:
		return tlsref.SupportedVersions(0x0303)
	case 5:
		return tlsref.Ext{Type: 0x2a2a, Data: []byte{0}}
	case 6:
		return tlsref.Ext{Type: 0xabcd}
	case 7:
		return tlsref.Ext{Type: tlsref.ExtPadding, Data: make([]byte, 300)}
	case 8:
		return tlsref.ECHOuter(1, 1, 0x99, tlsref.DetBytes("grease-enc", 32), tlsref.DetBytes("grease-payload", 150))
	case 9:
		return tlsref.ECHOuter(1, 1, 42, tlsref.DetBytes("garbage-enc", 32), tlsref.DetBytes("garbage-payload", 150))
	case 10:
		return tlsref.SupportedVersions(0x0301, 0x0302, 0x0303)
	case 11:
		return tlsref.ALPN("a", string(bytes.Repeat([]byte("p"), 255)), "h3")
	case 12:
		return tlsref.SNI("MiXed.Example.ORG")
	case 13:
		return tlsref.ECHOuter(1, 1, 42, tlsref.DetBytes("enc31", 31), tlsref.DetBytes("garbage-payload", 150))
	case 14:
		return tlsref.ECHOuter(1, 1, 42, tlsref.DetBytes("enc33", 33), tlsref.DetBytes("garbage-payload", 150))
	case 15:
		return tlsref.ECHOuter(1, 1, 42, tlsref.DetBytes("enc65", 65), tlsref.DetBytes("garbage-payload", 150))
	case 16:
		return tlsref.ECHOuter(1, 1, 42, make([]byte, 32), tlsref.DetBytes("garbage-payload", 150))
	case 18:
		return tlsref.ECHOuter(2, 1, 42, tlsref.DetBytes("garbage-enc", 32), tlsref.DetBytes("garbage-payload", 150))
	case 19:
		return tlsref.ECHOuter(1, 4, 42, tlsref.DetBytes("garbage-enc", 32), tlsref.DetBytes("garbage-payload", 150))
	case 20:
		return tlsref.ECHOuter(1, 0xffff, 42, tlsref.DetBytes("garbage-enc", 32), tlsref.DetBytes("garbage-payload", 150))
	case 22:
		return tlsref.ECHInner()
	case 23:
		return tlsref.ECHOuter(1, 1, 42, nil, tlsref.DetBytes("garbage-payload", 150))
	case 24:
		// a server name longer than a DNS name can be (256 octets; HostName<1..2^16-1> allows it, crypto/tls reports it)
		return tlsref.SNI(strings.Repeat("a", 63) + "." + strings.Repeat("b", 63) + "." + strings.Repeat("c", 63) + "." + strings.Repeat("d", 64))
	case 25:
		return tlsref.SNI(strings.Repeat("n", 300))
	case 21:
		return tlsref.ALPN("\x0a\x0a", "h2", "\xea\xea", "http/1.1")
	case 17:
		lo, _ := hex.DecodeString("e0eb7a7c3b41b8ae1656e3faf19fc46ada098deb9c32b1fd866205165f49b800")
		return tlsref.ECHOuter(1, 1, 42, lo, tlsref.DetBytes("garbage-payload", 150))
	}
	panic("pool")
}

func isSV(i int) bool  { return i == 2 || i == 3 || i == 4 || i == 10 }
func isECH(i int) bool { return i == 8 || i == 9 || i >= 13 && i <= 20 || i == 22 || i == 23 }
func isALPN(i int) bool {
	return i == 1 || i == 11 || i == 21
}

func ciphers(kind int) []byte {
	switch kind {
	case 0:
		return []byte{0x13, 0x01}
	case 1:
		return []byte{0x13, 0x01, 0xc0, 0x2f, 0x00, 0x9c}
	}
	out := []byte{0x0a, 0x0a}
	for i := 0; i < 149; i++ {
		out = append(out, byte(0xc0+i/100), byte(i))
	}
	return out
}

func (c helloCase) build() *tlsref.Hello {
	h := &tlsref.Hello{Version: c.Version, Random: tlsref.DetBytes("c05-random", 32), SessionID: tlsref.DetBytes("sid", c.SID),
		CipherSuites: ciphers(c.Ciphers), Compression: [][]byte{{0}, {1, 0}}[c.Comp], NoExtBlock: c.NoBlock}
	for _, i := range c.Exts {
		h.Exts = append(h.Exts, poolExt(i))
	}
	return h
}

func keySets() [][]ech.Key {
	unrelated := echx.NewKey("c05-unrelated", 7, echx.AllSuites, "public.example")
	same := echx.NewKey("c05-same", 42, echx.AllSuites, "plain.example.org")
	return [][]ech.Key{nil, echx.Keys(unrelated), echx.Keys(same, unrelated)}
}

func evalHello(r *ev.Run, c helloCase, ks [][]ech.Key, tail []byte, tag string) {
	h := c.build()
	stream := append(h.Record(), tail...)
	res := echx.Feed(stream, ks[c.KeySet])
	replay := map[string]any{"case": c, "stream": echx.Hex(stream), "keys": echx.KeysDoc(ks[c.KeySet])}
	oc := "passthrough"
	switch {
	case res.Panic != nil:
		oc = "panic"
		r.Violation("panic:"+tag, fmt.Sprint(res.Panic), replay)
	case res.Err != nil:
		oc = "refused:" + echx.ErrClass(res.Err)
		r.Violation("valid-hello-refused:"+tag+":"+kindOf(c), fmt.Sprintf("NewConn refused a syntactically valid ClientHello that cannot be accepted as ECH: %v", res.Err), replay)
	case res.Accepted:
		oc = "ACCEPTED"
		r.Violation("accepted-garbage:"+tag, "ECH accepted for a hello with no authentic payload", replay)
	default:
		// (byte for byte, the record header's legacy version included: clients put 0x0301 there on their first hello)
		if !bytes.Equal(res.Forwarded, stream) {
			oc = "modified"
			r.Violation("bytes-modified:"+tag+":"+kindOf(c), fmt.Sprintf("forwarded bytes differ from the client's bytes:\n got  %x\n sent %x", res.Forwarded, stream), replay)
		}
		if len(res.ClientOut) != 0 || res.Closed != 0 {
			r.Violation("wrote-to-client:"+tag, "NewConn wrote to / closed the client transport in pass-through", replay)
		}
		// independent extraction of SNI/ALPN
		if seen, err := tlsx.GoServerSees(h.Record(), nil); err == nil {
			if seen.ServerName != res.ServerName || !slices.Equal(seen.ALPN, res.ALPN) && !(len(seen.ALPN) == 0 && len(res.ALPN) == 0) {
				r.Violation("name-alpn-differs:"+tag, fmt.Sprintf("Conn reports ServerName=%q ALPN=%q; crypto/tls extracts %q %q", res.ServerName, res.ALPN, seen.ServerName, seen.ALPN), replay)
			}
			oc += "+go-agrees"
		}
		// a caller that edits the list it was given must not change what the Conn reports afterwards
		if l := res.Conn.ALPNProtos(); len(l) > 0 {
			want := slices.Clone(l)
			slices.Reverse(l)
			l[0] = "tampered"
			if again := res.Conn.ALPNProtos(); !slices.Equal(again, want) {
				r.Violation("reported-alpn-aliases-state:"+tag, fmt.Sprintf("after the caller modified the slice returned by ALPNProtos(), a second call reports %q (first %q)", again, want), replay)
			}
		}
		// what a relay does when the backend has finished sending: half-close towards the client IF the connection offers it (a
		// type assertion in generic code). Over a transport that has no CloseWrite a Conn either offers no such method or one
		// that leaves the read side alone - the transport is not closed, the client's later bytes still arrive
		if cw, ok := any(res.Conn).(interface{ CloseWrite() error }); ok {
			_ = cw.CloseWrite()
			if res.Transport.CloseCount != 0 {
				r.Violation("closewrite-closes-the-connection:"+tag, "the Conn offers CloseWrite; called over a transport without one it closed the whole connection: what the client sends after the backend has finished is lost", replay)
			}
		}
		// the accessors state facts about the handshake: they read the same after the connection was closed (an access log
		// written at the end of the connection)
		before := fmt.Sprintf("%q %q %v %v", res.Conn.ServerName(), res.Conn.ALPNProtos(), res.Conn.ECHAccepted(), res.Conn.ECHPresented())
		_ = res.Conn.Close()
		if after := fmt.Sprintf("%q %q %v %v", res.Conn.ServerName(), res.Conn.ALPNProtos(), res.Conn.ECHAccepted(), res.Conn.ECHPresented()); after != before {
			r.Violation("accessors-change-after-close:"+tag, fmt.Sprintf("ServerName/ALPNProtos/ECHAccepted/ECHPresented read %s before Close and %s after it", before, after), replay)
		}
	}
	r.Eval(string(stream)+fmt.Sprint(c.KeySet), oc)
}

func kindOf(c helloCase) string {
	if c.NoBlock {
		return "no-extensions-block"
	}
	if len(c.Exts) == 0 {
		return "empty-extensions-block"
	}
	return "with-extensions"
}

func Run(r *ev.Run) {
	r.Rule("E1 exhaustive: ClientHellos = legacy_version{0x0301,0x0303} x session id{0,32} x cipher-suite lists{1,3,150 incl. GREASE} x compression{[0],[1,0]} x every ordered selection of <=k extensions from a 13-item pool (SNI lower-/mixed-case, 2 ALPN lists, 4 supported_versions lists incl. TLS1.2-only/1.0-1.2, GREASE ext, unknown empty ext, 300-byte padding, ECH outer with unknown id, ECH outer with known id and garbage payload; at most one of each kind; plus a family of ECH extensions naming a held id with an unusable encapsulated key: 31/33/65 bytes, all-zero, low-order point) plus 'empty block' and 'no extensions block at all' x key sets{none, unrelated id, same id}; k=3 quick (full product) / k=4 thorough; plus following-stream family: record sequences over {CCS, handshake, alert, app-data} with lengths {0,1,16384,16640} after the hello, and backend->client bytes. distinct = distinct (stream,key set)")
	r.Assume("crypto/tls is the independent extractor of SNI/ALPN (compared only when it parses the hello)", "SNI entries use name_type 0 and ALPN names are non-empty")
	ks := keySets()
	maxExt := 3
	if r.Thorough() {
		maxExt = 4
	}
	var extLists [][]int
	var rec func(cur []int)
	rec = func(cur []int) {
		extLists = append(extLists, slices.Clone(cur))
		if len(cur) == maxExt {
			return
		}
		for i := 0; i < productPool; i++ {
			if slices.Contains(cur, i) {
				continue
			}
			if (i == 0 || i == 12) && (slices.Contains(cur, 0) || slices.Contains(cur, 12)) {
				continue
			}
			if isSV(i) && slices.ContainsFunc(cur, isSV) || isECH(i) && slices.ContainsFunc(cur, isECH) || isALPN(i) && slices.ContainsFunc(cur, isALPN) {
				continue
			}
			rec(append(cur, i))
		}
	}
	rec(nil)
	r.Set("extension_lists", len(extLists))
	prod := enum.Product{len(extLists) + 1, 2, 2, 3, 2, 3}
	enum.ParallelFor(prod.Size(), func(i int) {
		d := prod.Decode(i)
		c := helloCase{Version: []uint16{0x0301, 0x0303}[d[1]], SID: d[2] * 32, Ciphers: d[3], Comp: d[4], KeySet: d[5]}
		if d[0] == len(extLists) {
			c.NoBlock = true
		} else {
			c.Exts = extLists[d[0]]
		}
		if !r.Thorough() && len(c.Exts) == 3 && (d[1]+d[2]+d[3]+d[4])%3 != i%3 {
			return // quick: 3-extension lists with a rotating third of the header variants
		}
		evalHello(r, c, ks, nil, "hello")
		if i%(prod.Size()/4+1) == 5 {
			r.Sample(map[string]any{"case": c, "hello": echx.Hex(c.build().Record())})
		}
	})

	// ---- ECH extensions that name a held config id but whose encapsulated key cannot be used (wrong length, all-zero,
	// low-order point): an undecryptable payload like any other, at every position, with and without TLS 1.3 ----
	for x := productPool; x < len(poolNames); x++ {
		if x == 22 {
			continue // only meaningful without keys: see the coalesced family
		}
		lists := [][]int{{0, 2, x}, {x, 0, 2}, {0, x, 2}, {x}, {0, 1, 3, x, 5}, {12, x, 4}}
		if isALPN(x) {
			lists = [][]int{{0, 2, x}, {x}, {x, 12, 3, 9}, {0, x, 4}}
		}
		for _, exts := range lists {
			for ksi := range ks {
				for _, ver := range []uint16{0x0301, 0x0303} {
					evalHello(r, helloCase{Version: ver, SID: 32, Exts: exts, KeySet: ksi}, ks, nil, "unusable-enc")
				}
			}
		}
	}

	// ---- round 14: server_name lists that hold entries of OTHER name types (RFC 6066 3: NameType is an extensible enum, the
	// entry is type + opaque<1..2^16-1>). This package refuses such hellos with illegal_parameter - its author's choice, recorded
	// in DESIGN 7 as outside the property - but IF a hello is passed through, what ServerName() reports is what crypto/tls
	// extracts from the same bytes: an entry of another type is skipped WITH its contents, whatever the contents look like (a
	// host_name entry spelled inside the opaque field is not a host name) ----
	{
		entry := func(typ byte, name []byte) []byte {
			return append([]byte{typ, byte(len(name) >> 8), byte(len(name))}, name...)
		}
		inner := entry(0, []byte("internal.example"))
		fill := func(b byte, n int) []byte { return bytes.Repeat([]byte{b}, n) }
		opaque := [][]byte{[]byte("x"), inner, append(slices.Clone(inner), fill(1, 0x0110-len(inner))...), append(slices.Clone(inner), fill(2, 0x0101-len(inner))...), append(fill(3, 0x0203-len(inner)), inner...), fill(0, 5)}
		for oi, op := range opaque {
			for _, typ := range []byte{1, 2, 255} {
				for li, list := range [][]byte{entry(typ, op), append(entry(0, []byte("plain.example.org")), entry(typ, op)...), append(entry(typ, op), entry(0, []byte("plain.example.org"))...)} {
					for ksi := range ks {
						data := append([]byte{byte(len(list) >> 8), byte(len(list))}, list...)
						h := &tlsref.Hello{Version: 0x0303, Random: tlsref.DetBytes("c05-random", 32), SessionID: tlsref.DetBytes("sid", 32), CipherSuites: ciphers(0), Compression: []byte{0},
							Exts: []tlsref.Ext{{Type: 0, Data: data}, tlsref.SupportedVersions(0x0304), tlsref.SupportedGroups(), tlsref.SigAlgs(), tlsref.KeyShare(32)}}
						stream := h.Record()
						res := echx.Feed(stream, ks[ksi])
						replay := map[string]any{"case": fmt.Sprintf("server_name list layout %d with an entry of name type %d whose contents are variant %d (%d octets)", li, typ, oi, len(op)), "stream": echx.Hex(stream), "keys": echx.KeysDoc(ks[ksi])}
						oc := ""
						switch {
						case res.Panic != nil:
							oc = "panic"
							r.Violation("panic:other-name-type", fmt.Sprint(res.Panic), replay)
						case res.Err != nil:
							oc = "refused:" + echx.ErrClass(res.Err)
							if echx.ErrClass(res.Err) != "illegal_parameter" {
								r.Violation("other-name-type:refused-as-"+echx.ErrClass(res.Err), fmt.Sprintf("a server_name list with an entry of name type %d is refused with %v (this package's documented choice is illegal_parameter)", typ, res.Err), replay)
							}
						case res.Accepted:
							oc = "ACCEPTED"
							r.Violation("accepted-garbage:other-name-type", "ECH accepted for a hello without an ECH extension", replay)
						default:
							oc = "passthrough"
							if !bytes.Equal(res.Forwarded, stream) {
								r.Violation("bytes-modified:other-name-type", "forwarded bytes differ from the client's bytes", replay)
							}
							if seen, err := tlsx.GoServerSees(stream, nil); err == nil && seen.ServerName != res.ServerName {
								oc = "passthrough, name differs"
								r.Violation("name-alpn-differs:other-name-type", fmt.Sprintf("Conn reports ServerName=%q; crypto/tls extracts %q from the same bytes", res.ServerName, seen.ServerName), replay)
							}
						}
						r.Eval(string(stream)+fmt.Sprint("other-name-type", ksi), "other-name-type -> "+oc)
					}
				}
			}
		}
	}

	// ---- hellos that do not offer TLS 1.3 but carry an AUTHENTIC ECH payload for a held key: pass-through required ----
	{
		key := echx.NewKey("c05-same", 42, echx.AllSuites, "plain.example.org")
		for vi, sv := range [][]uint16{nil, {0x0303}, {0x0303, 0x0302, 0x0301}, {0x7a7a, 0x0303}, {0x0303, 0x0a0a}} { // GREASE values are not versions
			// round 13: legacy_version is not an offer - without 0x0304 in supported_versions the hello offers TLS 1.2 or less "even if
			// ClientHello.legacy_version is 0x0304 or later" (RFC 8446 4.2.1)
			for _, lvpos := range [][2]int{{0x0303, 0}, {0x0303, 2}, {0x0303, 99}, {0x0301, 2}, {0x0304, 0}, {0x0304, 2}, {0x0304, 99}, {0x0305, 2}, {0x03ff, 2}, {0x0400, 2}, {0x7f1c, 2}} {
				lv, pos := uint16(lvpos[0]), lvpos[1]
				outer, idx := echx.StdOuter("plain.example.org", tlsref.DetBytes("sid", 32), pos)
				outer.Version = lv
				outer.Exts = slices.DeleteFunc(outer.Exts, func(e tlsref.Ext) bool { return e.Type == tlsref.ExtSupportedVersions })
				idx = slices.IndexFunc(outer.Exts, func(e tlsref.Ext) bool { return e.Type == tlsref.ExtECH })
				if sv != nil {
					outer.Exts = append(outer.Exts, tlsref.SupportedVersions(sv...))
				}
				b := echx.Spec{Key: key, Suite: tlsref.Suite{KDF: 1, AEAD: 1}, Outer: outer, EchIdx: idx, EncInner: echx.StdEncInner("inner.secret.example", []string{"h2"}, false),
					InnerBase: echx.StdInnerBase(), EphLabel: "c05"}.Build()
				stream := b.Outer.Record()
				res := echx.Feed(stream, ks[2])
				replay := map[string]any{"case": fmt.Sprintf("authentic ECH, outer legacy_version %#04x, supported_versions variant %d, ech position %d", lv, vi, pos), "stream": echx.Hex(stream)}
				switch {
				case res.Panic != nil:
					r.Violation("panic:no-tls13-authentic-ech", fmt.Sprint(res.Panic), replay)
				case res.Accepted:
					r.Violation("accepted-without-tls13", "ECH accepted for a hello that does not offer TLS 1.3", replay)
				case res.Err != nil:
					r.Violation("valid-hello-refused:no-tls13-authentic-ech", res.Err.Error(), replay)
				case !bytes.Equal(res.Forwarded, stream):
					r.Violation("bytes-modified:no-tls13-authentic-ech", "forwarded bytes differ", replay)
				case res.ServerName != "plain.example.org":
					r.Violation("name-alpn-differs:no-tls13-authentic-ech", fmt.Sprintf("ServerName()=%q, the outer hello says plain.example.org", res.ServerName), replay)
				}
				r.Eval(string(stream)+"authentic", "no-tls13-authentic-ech -> passthrough")
			}
		}
	}

	for _, exts := range [][]int{{0, 2, 22}, {22, 0, 2}, {22}, {0, 4, 22}} {
		for _, ver := range []uint16{0x0301, 0x0303} {
			evalHello(r, helloCase{Version: ver, SID: 32, Exts: exts, KeySet: 0}, ks, nil, "type-inner-without-keys")
		}
	}
	for _, exts := range [][]int{{24, 1, 2}, {25, 2}, {24, 2, 9}} {
		for ksi := range ks {
			evalHello(r, helloCase{Version: 0x0303, SID: 32, Exts: exts, KeySet: ksi}, ks, nil, "server-name-over-255-octets")
		}
	}
	// ---- two connections at once: what one connection still has to hand to its backend (here: the first record kept as the
	// client sent it, because bytes follow the hello inside it) is its own - reading the other connection's hello meanwhile, or
	// closing it, changes nothing ----
	{
		h1 := helloCase{Version: 0x0303, SID: 32, Exts: []int{0, 1, 2}}.build()
		h2 := helloCase{Version: 0x0301, SID: 0, Exts: []int{12, 2, 9}}.build()
		rec1 := tlsref.Record(22, 0x0301, append(h1.Msg(), 0x0b, 0, 0, 3, 1, 2, 3))
		rec2 := tlsref.Record(22, 0x0301, append(h2.Msg(), bytes.Repeat([]byte{0xee}, len(rec1))...))
		tail := tlsref.Record(23, 0x0303, tlsref.DetBytes("app", 50))
		for ksi := range ks {
			for order := 0; order < 2; order++ {
				t1, t2 := memnet.New(), memnet.New()
				t1.Feed(append(slices.Clone(rec1), tail...))
				t1.End(io.EOF)
				t2.Feed(append(slices.Clone(rec2), tail...))
				t2.End(io.EOF)
				var opts []ech.Option
				if ks[ksi] != nil {
					opts = append(opts, ech.WithKeys(ks[ksi]))
				}
				c1, err1 := ech.NewConn(context.Background(), t1, opts...)
				c2, err2 := ech.NewConn(context.Background(), t2, opts...)
				replay := map[string]any{"case": "two connections interleaved", "first_record_1": echx.Hex(rec1), "first_record_2": echx.Hex(rec2), "drain_order": order}
				oc := "two-connections-independent"
				if err1 != nil || err2 != nil {
					r.Violation("valid-hello-refused:two-connections", fmt.Sprint(err1, err2), replay)
				} else {
					var got1, got2 []byte
					if order == 0 {
						got2, _ = io.ReadAll(c2)
						got1, _ = io.ReadAll(c1)
					} else {
						got1, _ = io.ReadAll(c1)
						got2, _ = io.ReadAll(c2)
					}
					if !bytes.Equal(got1, append(slices.Clone(rec1), tail...)) || !bytes.Equal(got2, append(slices.Clone(rec2), tail...)) {
						oc = "two-connections-mixed-up"
						r.Violation("bytes-modified:two-connections", fmt.Sprintf("two connections opened one after the other and then drained: connection 1 delivered %d bytes (sent %d, equal=%v), connection 2 %d bytes (sent %d, equal=%v)", len(got1), len(rec1)+len(tail), bytes.Equal(got1, append(slices.Clone(rec1), tail...)), len(got2), len(rec2)+len(tail), bytes.Equal(got2, append(slices.Clone(rec2), tail...))), replay)
					}
				}
				r.Eval(fmt.Sprint("two-conns", ksi, order), oc)
			}
		}
	}
	// ---- bytes that follow the ClientHello message INSIDE the same handshake record (a second, coalesced handshake message or
	// garbage: the backend will judge them; the Conn must hand them on like every later byte) ----
	for _, extra := range [][]byte{{0}, {0x14, 0, 0, 0}, {0x0b, 0, 0, 3, 1, 2, 3}, bytes.Repeat([]byte{0xee}, 40)} {
		for ksi := range ks {
			for _, exts := range [][]int{{0, 1, 2}, {0, 2, 9}, {0, 4}, {0, 2, 22}} {
				if slices.Contains(exts, 22) && ksi != 0 {
					continue // type-inner ECH with keys is C04's subject (illegal_parameter)
				}
				h := helloCase{Version: 0x0303, SID: 32, Exts: exts, KeySet: ksi}.build()
				stream := tlsref.Record(22, 0x0301, append(h.Msg(), extra...))
				res := echx.Feed(stream, ks[ksi])
				replay := map[string]any{"case": fmt.Sprintf("ClientHello followed by %d bytes in the same record", len(extra)), "stream": echx.Hex(stream), "keys": echx.KeysDoc(ks[ksi])}
				oc := "coalesced-passthrough"
				switch {
				case res.Panic != nil:
					r.Violation("panic:coalesced", fmt.Sprint(res.Panic), replay)
				case res.Err != nil && ksi == 0:
					oc = "coalesced-refused"
					r.Violation("valid-hello-refused:coalesced:no-keys", fmt.Sprintf("a server WITHOUT keys refused the first record (hello followed by %d bytes): %v - nothing is interpreted without keys", len(extra), res.Err), replay)
				case res.Err != nil:
					// (with keys, too: the hello is one that is not decrypted, so nothing about it is the Conn's to judge)
					oc = "coalesced-refused"
					r.Violation("valid-hello-refused:coalesced:with-keys", fmt.Sprintf("the first record (a hello that is not decrypted, followed by %d bytes) was refused: %v", len(extra), res.Err), replay)
				case res.Accepted:
					r.Violation("accepted-garbage:coalesced", "ECH accepted", replay)
				case !bytes.Equal(res.Forwarded, stream):
					oc = "coalesced-modified"
					r.Violation("bytes-modified:coalesced", fmt.Sprintf("bytes that follow the ClientHello inside its record were not handed on: forwarded %d bytes, sent %d:\n got  %x\n sent %x", len(res.Forwarded), len(stream), res.Forwarded, stream), replay)
				}
				r.Eval(string(stream)+fmt.Sprint("coalesced", ksi), oc)
			}
		}
	}

	// ---- not accepted + HelloRetryRequest from the backend + a second hello that repeats the (GREASE / undecryptable) ECH
	// extension: still pure pass-through in both directions ----
	for _, extIdx := range []int{8, 9} {
		for ksi := range ks {
			c := helloCase{Version: 0x0303, SID: 32, Exts: []int{0, 2, extIdx}, KeySet: ksi}
			first := c.build().Record()
			second := c.build()
			second.Random = tlsref.DetBytes("c05-second", 32)
			secondRec := second.Record()
			hrr := echx.HRRRecord(tlsref.DetBytes("sid", 32))
			replay := map[string]any{"case": c, "first": echx.Hex(first), "second": echx.Hex(secondRec)}
			sess, err, p := echx.OpenSession(first, ks[ksi])
			oc := "hrr-passthrough"
			switch {
			case p != nil || err != nil:
				r.Violation("valid-hello-refused:hrr-family", fmt.Sprintf("NewConn: err=%v panic=%v", err, p), replay)
			default:
				got1, e1, _ := sess.ReadOnce()
				n, e2, _ := sess.BackendSend(hrr)
				got2, e3, p3 := sess.ClientSend(secondRec)
				if e1 != nil || e2 != nil || n != len(hrr) || !bytes.Equal(got1, first) || !bytes.Equal(sess.T.OutBytes(), hrr) {
					r.Violation("bytes-modified:hrr-family:first-flight", fmt.Sprintf("first hello / HelloRetryRequest not passed through: %v %v", e1, e2), replay)
				}
				if p3 != nil || e3 != nil || !bytes.Equal(got2, secondRec) {
					oc = "hrr-second-hello-touched"
					r.Violation("bytes-modified:hrr-family:second-hello", fmt.Sprintf("after a HelloRetryRequest the second hello of a connection whose ECH was NOT accepted was not passed through verbatim: err=%v panic=%v got %d bytes, sent %d; client transport got %x", e3, p3, len(got2), len(secondRec), sess.T.OutBytes()[len(hrr):]), replay)
				}
			}
			r.Eval(string(first)+fmt.Sprint("hrr", ksi), oc)
		}
	}

	// ---- hellos that the client fragments over several records (small ones at arbitrary cuts, large ones at 2^14): forwarded as framed ----
	{
		small := helloCase{Version: 0x0303, SID: 32, Exts: []int{0, 1, 2}}.build()
		big := helloCase{Version: 0x0303, SID: 32, Exts: []int{0, 2, 9}}.build()
		big.Exts = append(big.Exts, tlsref.Opaque(0x6b6b, 40000)) // a 40 kB hello (e.g. a huge PSK identity): three records
		type fr struct {
			name   string
			stream []byte
			h      *tlsref.Hello
		}
		var frs []fr
		msg := small.Msg()
		for _, cuts := range [][]int{{1}, {3}, {4}, {5}, {38}, {len(msg) - 1}, {2, 4}, {10, 20, 30, 40},
			// three and more records whose last fragment is only a few bytes long
			{10, len(msg) - 3}, {10, len(msg) - 5}, {10, 20, len(msg) - 7}, {10, 20, 30, len(msg) - 12}, {1, 2, 3, 4, 5, 6, 7, 8, len(msg) - 1}, {len(msg) - 3, len(msg) - 2, len(msg) - 1}} {
			frs = append(frs, fr{fmt.Sprintf("small%v", cuts), tlsref.Fragment(0x0301, msg, cuts...), small})
		}
		// messages of exactly 2^14 bytes and one byte either side (one record / two records as the client must frame them), and 2*2^14
		// ... and the largest hello crypto/tls accepts: a handshake body of exactly 65536 bytes (message of 65540), and one byte less
		for _, target := range []int{16383, 16384, 16385, 32768, 65539, 65540} {
			h := helloCase{Version: 0x0303, SID: 32, Exts: []int{0, 1, 2}}.build()
			h.Exts = append(h.Exts, tlsref.Opaque(0x6b6b, 0))
			pad := target - len(h.Msg())
			h.Exts[len(h.Exts)-1] = tlsref.Opaque(0x6b6b, pad)
			if len(h.Msg()) != target {
				ev.ToolError("c05: cannot build a hello of %d bytes (got %d)", target, len(h.Msg()))
			}
			frs = append(frs, fr{fmt.Sprintf("big-exact%d", target), tlsref.FragmentMax(0x0301, h.Msg()), h})
		}
		frs = append(frs, fr{"big-at-16384", tlsref.FragmentMax(0x0301, big.Msg()), big}, fr{"big-uneven", tlsref.Fragment(0x0301, big.Msg(), 1000, 17000, 17001, 33000), big})
		// big hellos in tiny records (the records as received are many times longer than the message), and a hello longer than a
		// record cut into equal halves (the same number of records as the library's own framing would use, cut elsewhere)
		for _, tf := range [][2]int{{24000, 1}, {60000, 4}, {65540, 3}, {20000, 10000}, {33000, 11000}} {
			h := helloCase{Version: 0x0303, SID: 32, Exts: []int{0, 1, 2}}.build()
			h.Exts = append(h.Exts, tlsref.Opaque(0x6b6b, 0))
			h.Exts[len(h.Exts)-1] = tlsref.Opaque(0x6b6b, tf[0]-len(h.Msg()))
			var cuts []int
			for o := tf[1]; o < tf[0]; o += tf[1] {
				cuts = append(cuts, o)
			}
			frs = append(frs, fr{fmt.Sprintf("big%d-in-%d-byte-records", tf[0], tf[1]), tlsref.Fragment(0x0301, h.Msg(), cuts...), h})
		}
		// the records of one hello need not carry the same legacy_record_version (it "MUST be ignored for all purposes"): 0301
		// then 0303, the reverse, a last fragment marked 0304
		for vi, vers := range [][]uint16{{0x0301, 0x0303, 0x0303}, {0x0303, 0x0301, 0x0301}, {0x0301, 0x0301, 0x0304}, {0x0300, 0x0303, 0x0302}} {
			stream := cat2(tlsref.Record(22, vers[0], msg[:40]), tlsref.Record(22, vers[1], msg[40:90]))
			stream = append(stream, tlsref.Record(22, vers[2], msg[90:])...)
			frs = append(frs, fr{fmt.Sprintf("small-mixed-record-versions%d", vi), stream, small})
		}
		tail := cat2(tlsref.Record(20, 0x0303, []byte{1}), tlsref.Record(23, 0x0303, tlsref.DetBytes("app", 50)))
		for _, f := range frs {
			for ksi := range ks {
				stream := append(slices.Clone(f.stream), tail...)
				res := echx.Feed(stream, ks[ksi])
				replay := map[string]any{"case": "fragmented hello " + f.name, "stream": echx.Hex(stream[:min(len(stream), 3000)]), "keys": echx.KeysDoc(ks[ksi])}
				oc := "fragmented-passthrough"
				switch {
				case res.Panic != nil:
					r.Violation("panic:fragmented", fmt.Sprint(res.Panic), replay)
				case res.Err != nil:
					oc = "fragmented-refused"
					r.Violation("valid-hello-refused:fragmented:"+sizeClass(f.name), fmt.Sprintf("NewConn refused a ClientHello that is split over several records (RFC 8446 §5.1): %v", res.Err), replay)
				case res.Accepted:
					r.Violation("accepted-garbage:fragmented", "ECH accepted", replay)
				case !bytes.Equal(res.Forwarded, stream):
					oc = "fragmented-modified"
					r.Violation("bytes-modified:fragmented:"+sizeClass(f.name), fmt.Sprintf("forwarded bytes differ from the client's bytes (got %d bytes, sent %d)", len(res.Forwarded), len(stream)), replay)
				case res.ServerName != "plain.example.org":
					r.Violation("name-alpn-differs:fragmented", fmt.Sprintf("ServerName()=%q", res.ServerName), replay)
				}
				r.Eval(string(stream)+fmt.Sprint("frag", ksi), oc)
			}
		}
	}

	// ---- following streams ----
	recPool := [][]byte{
		tlsref.Record(20, 0x0303, []byte{1}),
		tlsref.Record(22, 0x0303, tlsref.HandshakeMsg(16, tlsref.DetBytes("cke", 37))),
		tlsref.Record(21, 0x0303, []byte{1, 0}),
		tlsref.Record(23, 0x0303, nil),
		tlsref.Record(23, 0x0303, []byte{0x42}),
		tlsref.Record(23, 0x0303, tlsref.DetBytes("app", 16384)),
		tlsref.Record(23, 0x0303, tlsref.DetBytes("app2", 16640)),
		tlsref.Record(22, 0x0303, nil),
	}
	hellos := []helloCase{
		{Version: 0x0303, SID: 32, Exts: []int{0, 1, 2}},
		{Version: 0x0303, SID: 32, Exts: []int{0, 2, 9}, KeySet: 2},
		{Version: 0x0301, Exts: []int{0, 4}, KeySet: 1},
	}
	depth := 3
	if r.Thorough() {
		depth = 4
	}
	var seqs [][]int
	enum.Sequences(len(recPool), depth, func(s []int) { seqs = append(seqs, s) })
	enum.ParallelFor(len(seqs)*len(hellos), func(i int) {
		c := hellos[i%len(hellos)]
		var tail []byte
		for _, k := range seqs[i/len(hellos)] {
			tail = append(tail, recPool[k]...)
		}
		evalHello(r, c, ks, tail, "stream")
	})
	// a trailing incomplete record and raw garbage after the hello must also be forwarded untouched
	for _, tail := range [][]byte{{0x17}, {0x17, 3, 3, 0}, {0x17, 3, 3, 0, 5, 1, 2}, tlsref.DetBytes("noise", 100)} {
		evalHello(r, hellos[0], ks, tail, "stream-partial")
	}

	// ---- backend -> client direction ----
	for hi, c := range hellos {
		for si, s := range seqs {
			if si%7 != hi { // every 7th sequence per hello keeps this family small
				continue
			}
			var data []byte
			for _, k := range s {
				data = append(data, recPool[k]...)
			}
			t := memnet.New()
			t.Feed(c.build().Record())
			t.End(io.EOF)
			func() {
				defer func() {
					if p := recover(); p != nil {
						r.Violation("panic:write", fmt.Sprint(p), echx.Hex(data))
					}
				}()
				conn, err := ech.NewConn(ctxBG, t, ech.WithKeys(ks[c.KeySet]))
				if err != nil {
					return
				}
				n, err := conn.Write(data)
				if err != nil || n != len(data) || !bytes.Equal(t.OutBytes(), data) {
					r.Violation("backend-bytes-modified", fmt.Sprintf("Write(%d bytes)=(%d,%v), transport got %d bytes", len(data), n, err, len(t.OutBytes())), map[string]any{"case": c, "written": echx.Hex(data)})
				}
				r.Eval("w:"+string(data)+fmt.Sprint(hi), "backend-bytes-identical")
			}()
		}
	}
}

func cat2(a, b []byte) []byte { return append(append([]byte{}, a...), b...) }

func sizeClass(name string) string {
	if len(name) >= 3 && name[:3] == "big" {
		return "larger-than-a-record"
	}
	return "small"
}
