//go:build vsched

// Package c10 decides C10 (the NewConn context governs only the initial read) and
// the deadline clause of C08 (NewConn returns by its context's deadline when the
// client stalls at any byte), by stateless exploration of the real, instrumented
// NewConn under the controlled scheduler in virtual time (engine E3).
package c10

import (
	"context"
	"encoding/json"
	"errors"
	"fmt"
	"io"
	"net"
	"os"
	"runtime"
	"strings"
	"time"

	"github.com/c2FmZQ/ech"
	vs "github.com/c2FmZQ/ech/vsched"

	"verif/checks/vnet"
	"verif/internal/echx"
	"verif/internal/ev"
	"verif/internal/tlsref"
)

const unit = time.Second

type scenario struct {
	// Hello: "buffered" (all bytes available before NewConn), "late" (arrives at t=1), "two-fragments" (half at t=0, rest at t=2),
	// "never" (nothing), "stall@N" (first N bytes then silence); first records that make NewConn fail BEFORE a Conn exists (round 13):
	// "bad-record" (content type 23), "oversized-record" (a header announcing 65535 bytes), "eof" (the client hangs up at once),
	// "garbage-then-eof" (plain HTTP on the TLS port, then the client hangs up), "eof-mid-hello" (half a record, then end of stream),
	// "eof-after-first-record" (the first of two records, then end of stream); "rejected-hello" fails after the Conn exists
	Hello   string `json:"hello"`
	StallAt int    `json:"stall_at,omitempty"`
	// Cancel: "never", "t0", "t1", "t3" (a separate thread cancels at that time), "after-return" (the caller cancels right after NewConn returned),
	// "deadline2" (the context carries a deadline at t=2 instead), "background" (round 13: a context that cannot end, context.Background();
	// nobody ever cancels anything). In every other scenario the caller's deferred cancel() runs 10 s after NewConn returned.
	Cancel string `json:"cancel"`
	Keys   bool   `json:"with_keys"`
	// BlockedWrites: the client transport does not accept writes (peer not reading): an alert write can only end through the deadline
	BlockedWrites bool `json:"client_not_reading,omitempty"`
	// Retry: after the return the backend sends a HelloRetryRequest and the client a second hello
	Retry bool `json:"retry_after_return,omitempty"`
	// RetryCut > 0: that second hello arrives framed in two records, the first carrying RetryCut bytes of the message
	RetryCut int `json:"second_hello_first_fragment,omitempty"`
	// Fragmented: the stall offsets refer to the same hello framed in two records (the first record is complete from
	// offset firstRecLen on, the hello is not)
	Fragmented bool `json:"hello_in_two_records,omitempty"`
	// PriorDeadline: the caller had set its own deadline (t=100) on the transport before calling NewConn
	PriorDeadline bool `json:"caller_deadline_before_newconn,omitempty"`
	// DeadlineErr: the transport's SetDeadline takes effect and then reports an error
	DeadlineErr bool `json:"set_deadline_reports_error,omitempty"`
	// SlowDeadline: the transport's SetDeadline takes one second (virtual) before it takes effect: NewConn has to wait for its
	// watcher however long that call takes - returning earlier would let the deadline land on a connection it has handed over
	SlowDeadline bool `json:"set_deadline_takes_1s,omitempty"`
	// TCPLike: the transport also offers CloseRead and CloseWrite, as *net.TCPConn does (optional methods that code may look for
	// with a type assertion): everything the property says holds over such a transport too
	TCPLike bool `json:"transport_offers_closeread_closewrite,omitempty"`
	// Peeked: the transport hands out bytes it has already received without looking at its read deadline first (a buffering
	// wrapper): a deadline that NewConn set on it and did not take back shows on the next real read
	Peeked bool `json:"transport_serves_buffered_bytes_first,omitempty"`
	// Exit (round 14): how NewConn is LEFT once the first hello has been read. "" = it returns; "option-panics" = the last of the
	// caller's Options (the only user code that runs inside NewConn) panics and the caller recovers, as a per-connection server
	// does; "option-goexits" = that Option calls runtime.Goexit (a t.Fatal in a test's Option): the thread that called NewConn is
	// gone from then on, another one ("keeper") sees to the context. When the Options are not reached (the read fails first) NewConn returns as ever.
	Exit string `json:"newconn_left_by,omitempty"`
}

// optionPanic is what the panicking Option panics with.
const optionPanic = "c10: the caller's Option panics"

const priorDeadline = 100 * unit

type observation struct {
	newConnErr error
	// returnedAt / returned: NewConn is over - it returned or (leftBy != "") it was left by a panic / Goexit of the caller's Option
	returnedAt  time.Duration
	returned    bool
	leftBy      string
	seqAtReturn int
	rdlAtReturn time.Time
	wdlAtReturn time.Time
	readN       int
	readErr     error
	readAt      time.Duration
	writeErr    error
	didIO       bool
	cancelAt    time.Duration
	cancelled   bool
	callsAfter  []vnet.Call
	// lingering: logical threads that are neither the caller nor the harness's client/canceller (i.e. goroutines NewConn started)
	// and that were still there at a later virtual time than the one NewConn returned at (or never finished)
	lingering []string
	read2N    int
	read2Err  error
	didRetry  bool
	helloLen  int
}

var helloRec, innerRec, hello2Rec, inner2Rec, hrrRec, fragRec, rejectedRec []byte
var firstRecLen int
var theKey echx.KeyPair

func init() {
	theKey = echx.NewKey("c10", 42, echx.AllSuites, "public.example")
	outer, idx := echx.StdOuter("public.example", tlsref.DetBytes("sid", 32), 99)
	b := echx.Spec{Key: theKey, Suite: tlsref.Suite{KDF: 1, AEAD: 1}, Outer: outer, EchIdx: idx, EncInner: echx.StdEncInner("inner.secret.example", []string{"h2"}, true),
		InnerBase: echx.StdInnerBase(), Padding: make([]byte, 4), EphLabel: "c10"}.Build()
	helloRec = b.Outer.Record()
	fragRec = tlsref.Fragment(0x0301, b.Outer.Msg(), len(b.Outer.Msg())/2)
	{
		rej := b.Outer.Clone()
		for i, e := range rej.Exts {
			if e.Type == tlsref.ExtECH {
				rej.Exts[i] = tlsref.ECHInner()
			}
		}
		rejectedRec = rej.Record()
	}
	firstRecLen = 5 + len(b.Outer.Msg())/2
	innerRec = tlsref.Record(22, 0x0303, b.Expected.Msg())
	// a retried hello (after HelloRetryRequest) sealed with the same HPKE context
	outer2, idx2 := echx.StdOuter("public.example", tlsref.DetBytes("sid", 32), 99)
	for i, e := range outer2.Exts {
		if e.Type == tlsref.ExtKeyShare {
			outer2.Exts[i] = tlsref.KeyShare(65)
		}
	}
	b2 := echx.Spec{Key: theKey, Suite: tlsref.Suite{KDF: 1, AEAD: 1}, Outer: outer2, EchIdx: idx2, EncInner: echx.StdEncInner("inner.secret.example", []string{"h2"}, true),
		InnerBase: echx.StdInnerBase(), Padding: make([]byte, 4), EphLabel: "c10"}.BuildWith(b.Sealer, false)
	hello2Rec = b2.Outer.Record()
	inner2Rec = tlsref.Record(22, 0x0303, b2.Expected.Msg())
	hrrRec = echx.HRRRecord(tlsref.DetBytes("sid", 32))
}

func run(sc scenario, choose vs.Chooser, traceOn bool) (*observation, *vs.Sched, *vnet.Conn) {
	ob := &observation{helloLen: len(helloRec)}
	t := vnet.New()
	t.Blocked = sc.BlockedWrites
	t.DeadlineErr = sc.DeadlineErr
	t.ServeBufferedFirst = sc.Peeked
	if sc.SlowDeadline {
		t.DeadlineDelay = unit
	}
	s := vs.RunOpt(choose, 5000, traceOn, func() {
		var ctx context.Context
		var cancel context.CancelFunc
		if sc.Cancel == "deadline2" {
			ctx, cancel = vs.WithTimeout(context.Background(), 2*unit)
		} else if sc.Cancel == "deadline5-cancelled-at-1" {
			ctx, cancel = vs.WithTimeout(context.Background(), 5*unit)
			c2 := cancel
			vs.GoNamed("canceller", func() {
				vs.Sleep(1 * unit)
				ob.cancelAt, ob.cancelled = vs.Elapsed(), true
				c2()
			})
		} else if sc.Cancel == "background" {
			ctx, cancel = context.Background(), func() {}
		} else {
			ctx, cancel = vs.WithCancel(context.Background())
		}
		// (round 14: a thread that runs on after the caller's thread is gone takes the caller's deferred cancel() over)
		cancelHandedOver := false
		defer func() {
			if !cancelHandedOver {
				cancel()
			}
		}()
		if sc.Cancel == "before-call" {
			ob.cancelAt, ob.cancelled = vs.Elapsed(), true
			cancel()
		}
		// client
		switch sc.Hello {
		case "buffered":
			t.Feed(helloRec)
		case "late":
			vs.GoNamed("client", func() { vs.Sleep(1 * unit); t.Feed(helloRec) })
		case "two-fragments":
			t.Feed(helloRec[:len(helloRec)/2])
			vs.GoNamed("client", func() { vs.Sleep(2 * unit); t.Feed(helloRec[len(helloRec)/2:]) })
		case "stall":
			if sc.Fragmented {
				t.Feed(fragRec[:sc.StallAt])
			} else {
				t.Feed(helloRec[:sc.StallAt])
			}
		case "two-records":
			t.Feed(fragRec[:firstRecLen])
			vs.GoNamed("client", func() { vs.Sleep(2 * unit); t.Feed(fragRec[firstRecLen:]) })
		case "first-record-only":
			t.Feed(fragRec[:firstRecLen])
		case "bad-record":
			// a complete first record that is not a handshake record: NewConn refuses it at once and then WRITES an alert
			t.Feed(tlsref.Record(23, 0x0303, []byte("not a hello")))
		case "rejected-hello":
			// a complete, well-framed ClientHello that the PROCESSING refuses (ECH type "inner" sent to a server with keys)
			t.Feed(rejectedRec)
		case "oversized-record":
			// a record header that announces more than a record may carry: refused after five bytes
			t.Feed([]byte{22, 3, 1, 0xff, 0xff})
		case "eof":
			// the client hangs up without sending anything (a port scan)
			t.End(io.EOF)
		case "garbage-then-eof":
			// plain HTTP on the TLS port ("GET /" reads as a record header announcing 8239 bytes), then the client hangs up
			t.Feed([]byte("GET / HTTP/1.1\r\nHost: public.example\r\n\r\n"))
			t.End(io.EOF)
		case "eof-mid-hello":
			t.Feed(helloRec[:len(helloRec)/2])
			t.End(io.EOF)
		case "eof-after-first-record":
			// the first of the two records of a hello is complete, then the stream ends
			t.Feed(fragRec[:firstRecLen])
			t.End(io.EOF)
		case "never":
		}
		// canceller
		at := map[string]int{"t0": 0, "t1": 1, "t3": 3}
		if d, ok := at[sc.Cancel]; ok {
			vs.GoNamed("canceller", func() {
				if d > 0 {
					// (virtual time only passes when every thread waits: a cancellation "at t=0" must be able to fall between any
					// two steps of NewConn, so it is not put behind a timer)
					vs.Sleep(time.Duration(d) * unit)
				}
				ob.cancelAt, ob.cancelled = vs.Elapsed(), true
				cancel()
			})
		}
		var opts []ech.Option
		if sc.Keys {
			opts = append(opts, ech.WithKeys(echx.Keys(theKey)))
		}
		if sc.PriorDeadline {
			t.SetDeadline(vs.Base.Add(priorDeadline))
		}
		var nc net.Conn = t
		if sc.TCPLike {
			nc = vnet.TCPLike{Conn: t}
		}
		// over: NewConn has just been left (no scheduling point lies between its last step and this)
		over := func() {
			ob.returnedAt, ob.returned = vs.Elapsed(), true
			ob.seqAtReturn = t.Seq()
			ob.rdlAtReturn, ob.wdlAtReturn = t.Deadlines()
		}
		var conn *ech.Conn
		var err error
		switch sc.Exit {
		case "option-panics":
			opts = append(opts, func(*ech.Conn) { panic(optionPanic) })
			func() {
				defer func() {
					if p := recover(); p != nil {
						if p != any(optionPanic) {
							panic(p)
						}
						ob.leftBy = sc.Exit
						over()
					}
				}()
				conn, err = ech.NewConn(ctx, nc, opts...)
			}()
		case "option-goexits":
			optionRan := false
			opts = append(opts, func(*ech.Conn) { optionRan = true; runtime.Goexit() })
			defer func() {
				// (deferred calls also run when the scheduler unwinds a thread that is still inside NewConn at the end of an execution,
				// and after a return)
				if !optionRan || ob.returned {
					return
				}
				ob.leftBy = sc.Exit
				over()
				// the caller's thread is gone from here on; what becomes of the context is seen to by another one
				cancelHandedOver = true
				vs.GoNamed("keeper", func() {
					if sc.Cancel == "after-return" {
						ob.cancelAt, ob.cancelled = vs.Elapsed(), true
						cancel()
					}
					vs.Sleep(10 * unit)
					cancel()
				})
			}()
			conn, err = ech.NewConn(ctx, nc, opts...)
		default:
			conn, err = ech.NewConn(ctx, nc, opts...)
		}
		if ob.leftBy != "" {
			// round 14: NewConn is over although it did not return; what becomes of the context now is, again, none of the
			// transport's business
			if sc.Cancel == "after-return" {
				ob.cancelAt, ob.cancelled = vs.Elapsed(), true
				cancel()
			}
			vs.Sleep(10 * unit)
			return
		}
		over()
		ob.newConnErr = err
		if err != nil {
			// round 13: "the context governs only the initial read" - NewConn has returned, so whatever happens to the context
			// from here on (the caller cancels it at once; another thread or its own timer ends it later; the caller's deferred
			// cancel() runs 10 s later; it never ends) is none of the connection's business any more, whether NewConn succeeded or not
			if sc.Cancel == "after-return" {
				ob.cancelAt, ob.cancelled = vs.Elapsed(), true
				cancel()
			}
			vs.Sleep(10 * unit)
			return
		}
		// the "client does not read" condition only concerns the failure path (the alert write); once NewConn has
		// succeeded the caller's own writes are given a reading peer again
		t.Blocked = false
		if sc.Cancel == "after-return" {
			ob.cancelAt, ob.cancelled = vs.Elapsed(), true
			cancel()
		}
		vs.Yield("after NewConn returned")
		// the caller now uses the connection: one Read (the hello must come out) and one Write
		buf := make([]byte, 70000)
		ob.readN, ob.readErr = conn.Read(buf)
		ob.readAt = vs.Elapsed()
		if sc.Keys && sc.Retry {
			// the backend answers with a HelloRetryRequest and the client sends its second hello: the context must not matter any more
			if _, err := conn.Write(hrrRec); err != nil {
				ob.writeErr = err
			}
			if sc.RetryCut > 0 {
				t.Feed(tlsref.Fragment(0x0303, hello2Rec[5:], sc.RetryCut))
			} else {
				t.Feed(hello2Rec)
			}
			ob.read2N, ob.read2Err = conn.Read(buf)
			ob.didRetry = true
		}
		_, ob.writeErr = firstErr(ob.writeErr, func() error {
			_, e := conn.Write(tlsref.Record(23, 0x0303, []byte("hello client")))
			return e
		})
		ob.didIO = true
		// let any straggler run, then look again
		vs.Sleep(10 * unit)
		_, ob.writeErr = firstErr(ob.writeErr, func() error { _, e := conn.Write(tlsref.Record(23, 0x0303, []byte("again"))); return e })
	})
	for _, c := range t.Calls {
		if ob.returned && c.Seq > ob.seqAtReturn && c.Kind != "Close" {
			ob.callsAfter = append(ob.callsAfter, c)
		}
	}
	for _, te := range s.ThreadEnds() {
		if ob.returned && te.Name != "main" && te.Name != "client" && te.Name != "canceller" && te.Name != "keeper" && (!te.Done || te.At > ob.returnedAt) {
			end := "never finished"
			if te.Done {
				end = fmt.Sprintf("finished at %v", te.At)
			}
			ob.lingering = append(ob.lingering, fmt.Sprintf("thread %d (%s) %s", te.ID, te.Name, end))
		}
	}
	return ob, s, t
}

func firstErr(prev error, f func() error) (int, error) {
	if prev != nil {
		return 0, prev
	}
	return 0, f()
}

// monitor: the property on one execution.
func monitor(sc scenario, ob *observation, s *vs.Sched, t *vnet.Conn) (key, what string) {
	if s.Panic != nil {
		return "panic", fmt.Sprintf("%v\n%s", s.Panic, s.PanicInfo)
	}
	if s.Livelock {
		return "livelock", "step horizon exceeded"
	}
	if !ob.returned || (ob.leftBy != "" && strings.Contains(s.Deadlock, "thread 0 (main) blocked")) {
		// (the second case: the caller's thread was still inside NewConn, behind the Option that had ended it, when nothing could run any more)
		return "newconn-never-returns", "NewConn did not return: " + s.Deadlock
	}
	if s.Deadlock != "" && ob.leftBy == "" {
		return "thread-blocked-forever", s.Deadlock
	}
	helloComplete := sc.Hello == "buffered" || sc.Hello == "late" || sc.Hello == "two-fragments" || sc.Hello == "two-records"
	completeAt := map[string]time.Duration{"buffered": 0, "late": 1 * unit, "two-fragments": 2 * unit, "two-records": 2 * unit}[sc.Hello]
	ctxEnds, ctxEndAt := false, time.Duration(0)
	switch sc.Cancel {
	case "before-call":
		ctxEnds, ctxEndAt = true, 0
	case "t0", "t1", "t3":
		ctxEnds, ctxEndAt = true, map[string]time.Duration{"t0": 0, "t1": unit, "t3": 3 * unit}[sc.Cancel]
	case "deadline2":
		ctxEnds, ctxEndAt = true, 2*unit
	case "deadline5-cancelled-at-1":
		ctxEnds, ctxEndAt = true, 1*unit
	}
	slack := time.Duration(0)
	if sc.SlowDeadline {
		slack = unit // what the watcher does to stop NewConn takes that long on this transport
	}
	if ob.leftBy != "" {
		// round 14: the Options were reached, so the first hello had been read - which the context bounds
		if ctxEnds && ctxEndAt < completeAt {
			return "newconn-ignores-context", fmt.Sprintf("the context ended at %v, the hello only completed at %v, yet NewConn went on to run the caller's Options (%s at %v)", ctxEndAt, completeAt, ob.leftBy, ob.returnedAt)
		}
		return afterExitWithoutReturn(sc, ob, s)
	}
	if refusedAtOnce(sc.Hello) {
		// the refusal itself does not depend on the context; but the alert write may block (client not reading), and then the
		// context is what bounds NewConn
		switch {
		case ob.newConnErr == nil:
			return "newconn-accepts-bad-record", "NewConn succeeded on a first record it must refuse (" + sc.Hello + ")"
		case sc.Hello == "rejected-hello" && !errors.Is(ob.newConnErr, ech.ErrIllegalParameter) && !(ctxEnds && ctxEndAt == 0):
			// the record was there at t=0 and the context ended later (if at all): the hello was read and refused for what it is,
			// whatever happens to the context while the alert is being written
			return "refused-hello-wrong-error-class", fmt.Sprintf("NewConn refused the hello (ECH type inner, illegal_parameter) but returned %v", ob.newConnErr)
		case ctxEnds && ob.returnedAt > ctxEndAt+slack:
			return "newconn-late", fmt.Sprintf("the context ended at %v but NewConn (blocked writing its alert to a client that does not read) returned at %v", ctxEndAt, ob.returnedAt)
		case !sc.BlockedWrites && ob.returnedAt > 0:
			return "newconn-late", fmt.Sprintf("NewConn took until %v to refuse a record that was available at 0", ob.returnedAt)
		}
		return afterFailedReturn(ob)
	}
	if ob.newConnErr != nil {
		// (a) failing is only legitimate if the context ended while NewConn was still reading (or at the same instant)
		if helloComplete && (!ctxEnds || ctxEndAt > completeAt) {
			return "newconn-fails-on-valid-hello", fmt.Sprintf("NewConn failed with %v although the hello was complete at %v and the context did not end before that", ob.newConnErr, completeAt)
		}
		if !helloComplete && !ctxEnds {
			return "", "" // cannot happen: it would block forever (reported as never-returns)
		}
		if ctxEnds && ob.returnedAt > ctxEndAt+slack {
			return "newconn-late", fmt.Sprintf("the context ended at %v but NewConn returned at %v", ctxEndAt, ob.returnedAt)
		}
		return afterFailedReturn(ob)
	}
	// NewConn succeeded
	if !helloComplete {
		return "newconn-succeeds-without-hello", "NewConn returned nil error although the first record never completed"
	}
	if ctxEnds && ctxEndAt < completeAt {
		return "newconn-ignores-context", fmt.Sprintf("the context ended at %v, the hello only completed at %v, yet NewConn succeeded at %v", ctxEndAt, completeAt, ob.returnedAt)
	}
	// (b) after a successful return the context has no effect on the connection
	if sc.PriorDeadline {
		if want := vs.Base.Add(priorDeadline); !ob.rdlAtReturn.Equal(want) || !ob.wdlAtReturn.Equal(want) {
			return "caller-deadline-changed-at-return", fmt.Sprintf("the caller had set the transport deadline to t=%v before NewConn; at the successful return it is %v/%v", priorDeadline, ob.rdlAtReturn.Sub(vs.Base), ob.wdlAtReturn.Sub(vs.Base))
		}
	} else if !ob.rdlAtReturn.IsZero() || !ob.wdlAtReturn.IsZero() {
		return "deadline-left-set-at-return", fmt.Sprintf("NewConn returned successfully with transport deadlines %v/%v still set", ob.rdlAtReturn.Sub(vs.Base), ob.wdlAtReturn.Sub(vs.Base))
	}
	if len(ob.callsAfter) > 0 {
		c := ob.callsAfter[0]
		return "deadline-call-after-return", fmt.Sprintf("%s(%v) on the transport at %v, after NewConn had returned successfully at %v", c.Kind, c.T.Sub(vs.Base), c.At, ob.returnedAt)
	}
	if ob.didIO {
		wantN := len(innerRec)
		if !sc.Keys {
			wantN = len(helloRec) // no keys: the outer hello is passed through
			if sc.Hello == "two-records" {
				wantN = len(fragRec) // ... in the client's own framing
			}
		}
		if ob.readErr != nil || ob.readN != wantN {
			return "read-after-return-fails", fmt.Sprintf("Conn.Read after a successful NewConn: n=%d err=%v (want the %d-byte hello)", ob.readN, ob.readErr, wantN)
		}
		if ob.didRetry && (ob.read2Err != nil || ob.read2N != len(inner2Rec)) {
			return "retried-hello-after-return-fails", fmt.Sprintf("after a successful NewConn and a HelloRetryRequest, reading the second hello: n=%d err=%v (want the %d-byte inner hello)", ob.read2N, ob.read2Err, len(inner2Rec))
		}
		if ob.writeErr != nil {
			return "write-after-return-fails", fmt.Sprintf("Conn.Write after a successful NewConn: %v", ob.writeErr)
		}
	}
	if len(ob.lingering) > 0 {
		return "goroutine-outlives-newconn", fmt.Sprintf("NewConn returned successfully at %v and left a goroutine behind: %s", ob.returnedAt, strings.Join(ob.lingering, "; "))
	}
	return "", ""
}

// refusedAtOnce: first records (all there at t=0) on which NewConn fails whatever the context does.
func refusedAtOnce(hello string) bool {
	switch hello {
	case "bad-record", "rejected-hello", "oversized-record", "eof", "garbage-then-eof", "eof-mid-hello", "eof-after-first-record":
		return true
	}
	return false
}

// afterFailedReturn (round 13): the context governs only the initial read. A NewConn that has returned an error has returned
// just as much as one that succeeded: when the context ends afterwards (or never ends) nothing may happen to the transport the
// caller passed in - it is the caller's object, closed or not, and a wrapper may be counting - and nothing NewConn started may
// still be waiting for that context. The canceller, the context's own timer, the caller's cancel() right after the return and
// the caller's deferred cancel() 10 s later all come after the return in these executions.
func afterFailedReturn(ob *observation) (key, what string) {
	if len(ob.callsAfter) > 0 {
		c := ob.callsAfter[0]
		return "deadline-call-after-failed-return", fmt.Sprintf("%s(%v) on the transport at %v, after NewConn had returned (%v) at %v", c.Kind, c.T.Sub(vs.Base), c.At, ob.newConnErr, ob.returnedAt)
	}
	if len(ob.lingering) > 0 {
		return "goroutine-outlives-failed-newconn", fmt.Sprintf("NewConn returned (%v) at %v and left a goroutine behind: %s", ob.newConnErr, ob.returnedAt, strings.Join(ob.lingering, "; "))
	}
	return "", ""
}

// afterExitWithoutReturn (round 14): the context governs only the initial read. The caller's Options run inside NewConn after
// that read; when one of them does not come back - it panics and the caller recovers, or it ends the calling thread with
// runtime.Goexit - NewConn is over just as it is after a return: the context that ends afterwards (the caller's cancel() at once
// or 10 s later, another thread, its own timer) or never ends must not reach the transport the caller passed in, and nothing
// NewConn started may still be waiting for it.
func afterExitWithoutReturn(sc scenario, ob *observation, s *vs.Sched) (key, what string) {
	how := map[string]string{"option-panics": "option-panic", "option-goexits": "option-goexit"}[ob.leftBy]
	if len(ob.callsAfter) > 0 {
		c := ob.callsAfter[0]
		return "deadline-call-after-newconn-left-by-" + how, fmt.Sprintf("%s(%v) on the transport at %v, after NewConn had been left (%s) at %v", c.Kind, c.T.Sub(vs.Base), c.At, ob.leftBy, ob.returnedAt)
	}
	if len(ob.lingering) > 0 {
		return "goroutine-outlives-newconn-left-by-" + how, fmt.Sprintf("NewConn was left (%s) at %v and left a goroutine behind: %s", ob.leftBy, ob.returnedAt, strings.Join(ob.lingering, "; "))
	}
	if s.Deadlock != "" {
		return "thread-blocked-forever", s.Deadlock
	}
	return "", ""
}

func scenarios() []scenario {
	var out []scenario
	for _, h := range []string{"buffered", "late", "two-fragments", "never", "two-records", "first-record-only"} {
		for _, c := range []string{"never", "t0", "t1", "t3", "after-return", "deadline2", "deadline5-cancelled-at-1"} {
			never := h == "never" || h == "first-record-only"
			if never && (c == "never" || c == "after-return") {
				continue // NewConn legitimately blocks forever
			}
			for _, k := range []bool{true, false} {
				out = append(out, scenario{Hello: h, Cancel: c, Keys: k})
				if k && !never {
					out = append(out, scenario{Hello: h, Cancel: c, Keys: k, Retry: true})
					if h == "buffered" || h == "two-records" {
						out = append(out, scenario{Hello: h, Cancel: c, Keys: k, Retry: true, RetryCut: 3}, scenario{Hello: h, Cancel: c, Keys: k, Retry: true, RetryCut: 100})
					}
				}
				if !never && h != "two-fragments" {
					// the caller's own deadline, set before the call, must come back untouched
					out = append(out, scenario{Hello: h, Cancel: c, Keys: k, PriorDeadline: true})
				}
			}
			// the context ends while NewConn is blocked and the client does not read either: NewConn must still fail promptly
			if (never || h == "two-fragments") && (c == "t1" || c == "deadline2" || c == "t0") {
				out = append(out, scenario{Hello: h, Cancel: c, Keys: true, BlockedWrites: true})
			}
		}
	}
	// the context is already over when NewConn is called (the caller cancelled it, or a deadline passed, beforehand)
	for _, h := range []string{"buffered", "never", "first-record-only", "bad-record"} {
		for _, blocked := range []bool{false, true} {
			out = append(out, scenario{Hello: h, Cancel: "before-call", Keys: true, BlockedWrites: blocked})
		}
	}
	// a transport whose SetDeadline takes effect but reports an error: what the watcher did to the connection still counts
	for _, h := range []string{"buffered", "late", "two-records", "never"} {
		for _, c := range []string{"t0", "t1", "before-call", "after-return", "deadline2"} {
			if h == "never" && c == "after-return" {
				continue
			}
			out = append(out, scenario{Hello: h, Cancel: c, Keys: true, DeadlineErr: true})
		}
	}
	// a first record that is refused outright, with a client that reads the alert or never does
	for _, c := range []string{"never", "t0", "t1", "t3", "deadline2", "deadline5-cancelled-at-1"} {
		for _, blocked := range []bool{false, true} {
			if blocked && c == "never" {
				continue // nothing can ever end the alert write: NewConn legitimately blocks
			}
			out = append(out, scenario{Hello: "bad-record", Cancel: c, Keys: true, BlockedWrites: blocked})
			out = append(out, scenario{Hello: "rejected-hello", Cancel: c, Keys: true, BlockedWrites: blocked})
		}
	}
	// a complete, valid hello and a client that does not read: if the context ends just as the hello completes NewConn may
	// still refuse (and write an alert): that write, too, is bounded by the context
	for _, h := range []string{"buffered", "late", "two-records"} {
		for _, c := range []string{"t0", "t1", "before-call", "deadline2"} {
			out = append(out, scenario{Hello: h, Cancel: c, Keys: true, BlockedWrites: true})
		}
	}
	// a transport that offers CloseRead/CloseWrite like a TCP connection
	for _, h := range []string{"buffered", "late", "two-records", "first-record-only", "never", "bad-record", "rejected-hello"} {
		for _, c := range []string{"never", "t0", "t1", "t3", "before-call", "after-return", "deadline2"} {
			if (h == "never" || h == "first-record-only" || h == "bad-record" || h == "rejected-hello") && c == "after-return" {
				continue
			}
			if (h == "never" || h == "first-record-only") && c == "never" {
				continue // nothing ever ends the wait: NewConn legitimately blocks
			}
			out = append(out, scenario{Hello: h, Cancel: c, Keys: true, TCPLike: true})
			if h == "buffered" || h == "late" || h == "two-records" {
				// (the connection is used after the return: a read side that was shut down meanwhile shows here)
				out = append(out, scenario{Hello: h, Cancel: c, Keys: true, TCPLike: true, Retry: true}, scenario{Hello: h, Cancel: c, Keys: true, TCPLike: true, PriorDeadline: true})
			}
		}
	}
	// a transport that serves what it has buffered before it looks at its deadline
	for _, h := range []string{"buffered", "two-records", "late"} {
		for _, c := range []string{"never", "before-call", "t0", "t1", "after-return", "deadline2"} {
			out = append(out, scenario{Hello: h, Cancel: c, Keys: true, Peeked: true}, scenario{Hello: h, Cancel: c, Keys: true, Peeked: true, Retry: true}, scenario{Hello: h, Cancel: c, Keys: true, Peeked: true, PriorDeadline: true})
		}
	}
	// a transport whose SetDeadline takes a second: the watcher's call may be under way when the hello has been read
	for _, h := range []string{"buffered", "late", "never"} {
		for _, c := range []string{"t0", "t1", "before-call", "after-return", "never"} {
			if h == "never" && (c == "after-return" || c == "never") {
				continue
			}
			out = append(out, scenario{Hello: h, Cancel: c, Keys: true, SlowDeadline: true})
		}
	}
	// round 13: "the context governs only the initial read" also when that read (or what follows it) FAILS: first records that
	// NewConn refuses before a Conn exists (wrong content type, oversized length, end of stream at once / after plain HTTP / in the
	// middle of the record / after the first of two records) and one it refuses afterwards, x what becomes of the context AFTER
	// the failed return {the caller's deferred cancel() 10 s later, the caller's cancel() at once, another thread at t=0/1/3, its
	// own timer at t=2, a timer context cancelled at t=1, nothing ever (context.Background())} and contexts that end before or
	// while NewConn runs x keys x transport {plain, CloseRead/CloseWrite, SetDeadline reporting an error} x client {reads the alert,
	// never reads it - then the context is what ends NewConn}: no deadline call on the caller's transport after the return and
	// nothing NewConn started is still there (afterFailedReturn). The context that cannot end is also run with the valid hellos.
	seen := map[scenario]bool{}
	for _, sc := range out {
		seen[sc] = true
	}
	add := func(sc scenario) {
		if !seen[sc] {
			seen[sc] = true
			out = append(out, sc)
		}
	}
	for _, h := range []string{"bad-record", "oversized-record", "eof", "garbage-then-eof", "eof-mid-hello", "eof-after-first-record", "rejected-hello"} {
		for _, c := range []string{"never", "after-return", "background", "t0", "t1", "t3", "before-call", "deadline2", "deadline5-cancelled-at-1"} {
			for _, k := range []bool{true, false} {
				if h == "rejected-hello" && !k {
					continue // without keys that hello is passed through, not refused
				}
				add(scenario{Hello: h, Cancel: c, Keys: k})
				if k {
					add(scenario{Hello: h, Cancel: c, Keys: k, TCPLike: true})
					if c == "never" || c == "after-return" || c == "t0" || c == "t1" {
						add(scenario{Hello: h, Cancel: c, Keys: k, DeadlineErr: true})
					}
					if c == "t0" || c == "t1" || c == "before-call" || c == "deadline2" {
						add(scenario{Hello: h, Cancel: c, Keys: k, BlockedWrites: true})
					}
				}
			}
		}
	}
	for _, h := range []string{"buffered", "late", "two-records"} {
		for _, k := range []bool{true, false} {
			add(scenario{Hello: h, Cancel: "background", Keys: k})
			add(scenario{Hello: h, Cancel: "background", Keys: k, PriorDeadline: true})
			if k {
				add(scenario{Hello: h, Cancel: "background", Keys: k, Retry: true})
				add(scenario{Hello: h, Cancel: "background", Keys: k, TCPLike: true})
				add(scenario{Hello: h, Cancel: "background", Keys: k, Peeked: true})
			}
		}
	}
	// round 14: "the context governs only the initial read" whichever way NewConn is LEFT after that read: by a return, by a panic
	// of one of the caller's Options that the caller recovers, or by an Option that ends the calling thread (runtime.Goexit) - hello
	// {valid: buffered / late / in two records; one the processing would refuse; a record refused before the Options are reached}
	// x every context of round 13 {ends after the exit: caller's cancel() at once / 10 s later, another thread, its own timer; never
	// ends; ends before or during the call} x keys x transport {plain, CloseRead/CloseWrite, SetDeadline reporting an error}: no
	// deadline call on the transport after the exit, nothing NewConn started still there (afterExitWithoutReturn)
	for _, x := range []string{"option-panics", "option-goexits"} {
		for _, h := range []string{"buffered", "late", "two-records", "rejected-hello", "bad-record"} {
			for _, c := range []string{"never", "after-return", "background", "t3", "t0", "t1", "before-call", "deadline2", "deadline5-cancelled-at-1"} {
				add(scenario{Hello: h, Cancel: c, Keys: true, Exit: x})
				if h == "bad-record" || !(c == "never" || c == "after-return" || c == "background" || c == "t3") {
					continue
				}
				// the context ends after NewConn is over, or never: also without keys and over the other transports
				add(scenario{Hello: h, Cancel: c, Keys: true, Exit: x, TCPLike: true})
				add(scenario{Hello: h, Cancel: c, Keys: true, Exit: x, DeadlineErr: true})
				if h != "rejected-hello" {
					add(scenario{Hello: h, Cancel: c, Keys: false, Exit: x})
				}
			}
		}
	}
	return out
}

// stallScenarios: the deadline clause of C08: the client stalls after every byte offset of the first record.
func stallScenarios(thorough bool) []scenario {
	var out []scenario
	for o := 0; o < len(helloRec); o++ {
		if !thorough && o > 12 && o < len(helloRec)-6 && o%9 != 0 {
			continue
		}
		for _, c := range []string{"deadline2", "t1"} {
			for _, blocked := range []bool{false, true} {
				out = append(out, scenario{Hello: "stall", StallAt: o, Cancel: c, Keys: true, BlockedWrites: blocked})
			}
		}
	}
	// every scenario of C10 in which the client does not read (so that an alert write can only end through the context): complete
	// but refused first records, complete hellos with the context ending as they complete, contexts over before the call
	for _, sc := range scenarios() {
		if sc.BlockedWrites {
			out = append(out, sc)
		}
	}
	// the same hello framed in two records: a stall at every offset of the SECOND record (the first one is complete)
	for o := firstRecLen; o < len(fragRec); o++ {
		if !thorough && o > firstRecLen+8 && o < len(fragRec)-4 && o%11 != 0 {
			continue
		}
		for _, c := range []string{"deadline2", "t1"} {
			for _, blocked := range []bool{false, true} {
				out = append(out, scenario{Hello: "stall", StallAt: o, Cancel: c, Keys: true, BlockedWrites: blocked, Fragmented: true})
			}
		}
	}
	return out
}

type replayFile struct {
	Scenario scenario `json:"scenario"`
	Vector   []int    `json:"choice_vector"`
}

func replayChooser(vec []int) vs.Chooser {
	pos := 0
	return func(n int, kind string) int {
		p := 0
		if pos < len(vec) && vec[pos] < n {
			p = vec[pos]
		}
		pos++
		return p
	}
}

// Explore runs the scenarios under all schedules within the bound and reports into r under property id prop.
func explore(r *ev.Run, scs []scenario, bound int, family string) {
	execs, points := 0, 0
	for _, sc := range scs {
		sc := sc
		outcomes := map[string]int{}
		var vkey, vwhat string
		var vvec []int
		e := &vs.Explorer{Bound: bound, MaxExecs: 200000}
		e.Body = func(x *vs.Execution, choose vs.Chooser) {
			ob, s, t := run(sc, choose, false)
			k, w := monitor(sc, ob, s, t)
			oc := "newconn-ok"
			if ob.newConnErr != nil {
				oc = "newconn-error@" + ob.returnedAt.String()
			}
			if ob.leftBy != "" {
				oc = "newconn-left-by-" + ob.leftBy + "@" + ob.returnedAt.String()
			}
			if len(ob.callsAfter) > 0 {
				oc += "+late-deadline-call"
			}
			outcomes[oc]++
			if k != "" && vkey == "" {
				vec := x.Vector()
				ob2, s2, t2 := run(sc, replayChooser(vec), false)
				k2, _ := monitor(sc, ob2, s2, t2)
				if k2 != k {
					vkey, vwhat = "nondeterministic-replay", fmt.Sprintf("schedule %v gave %q then %q", vec, k, k2)
				} else {
					vkey, vwhat = k, w
				}
				vvec = vec
			}
		}
		e.Explore()
		execs += e.Executions
		points += e.ChoicePoints
		if e.Diverged != "" {
			ev.ToolError("replay diverged: %s", e.Diverged)
		}
		if e.Capped {
			r.Cap(fmt.Sprintf("scenario %+v: execution cap hit", sc))
		}
		if vkey != "" {
			r.Violation(vkey+":"+family, vwhat, replayFile{sc, vvec})
		}
		r.Eval(fmt.Sprintf("%+v", sc), fmt.Sprintf("%s hello=%s cancel=%s distinct-outcomes=%d", family, sc.Hello, sc.Cancel, len(outcomes)))
		if sc.Hello == "buffered" && sc.Cancel == "t0" && sc.Keys {
			r.Sample(map[string]any{"scenario": sc, "executions": e.Executions, "choice_points": e.ChoicePoints, "outcomes": outcomes})
		}
	}
	r.Add("executions", int64(execs))
	r.Add("choice_points", int64(points))
	r.Add("states", int64(points))
	r.Add("transitions", int64(points))
	r.Add("traces_validated_against_impl", int64(execs))
}

func bound(tier string) int {
	if tier == "thorough" {
		return 1000 // effectively unbounded: the whole schedule tree of every scenario
	}
	return 8
}

func doReplay(r *ev.Run, replay string) {
	b, err := os.ReadFile(replay)
	if err != nil {
		ev.ToolError("%v", err)
	}
	var f struct {
		Replay replayFile `json:"replay"`
	}
	if err := json.Unmarshal(b, &f); err != nil {
		ev.ToolError("%v", err)
	}
	ob, s, t := run(f.Replay.Scenario, replayChooser(f.Replay.Vector), true)
	for _, l := range s.Trace {
		fmt.Println(l)
	}
	for _, c := range t.Calls {
		fmt.Printf("transport call #%d %s(%v) at %v\n", c.Seq, c.Kind, c.T, c.At)
	}
	k, w := monitor(f.Replay.Scenario, ob, s, t)
	fmt.Printf("NewConn returned err=%v at %v (transport call seq %d)\nverdict: %q %s\n", ob.newConnErr, ob.returnedAt, ob.seqAtReturn, k, w)
	if k != "" {
		r.Violation(k, w, f.Replay)
	}
}

// Run is the C10 check.
func Run(r *ev.Run, replay string) {
	if r.Tier == "replay" {
		doReplay(r, replay)
		return
	}
	b := bound(r.Tier)
	r.Rule(fmt.Sprintf("E3 stateless exploration of the real NewConn (sources rewritten into scheduler shims at check time) in virtual time: scenarios = hello {already buffered, arriving at t=1, in two fragments at t=0 and t=2, in two TLS records at t=0 and t=2, only the first of two records, never, a complete record that is not a handshake record / a complete ClientHello that the processing refuses (the alert is written to a client that reads or never reads)} x context {never ends, already cancelled before the call, cancelled by another thread at t=0/1/3, cancelled by the caller right after NewConn returned, deadline at t=2, deadline at t=5 cancelled at t=1} x keys {yes,no} x {plain use, HelloRetryRequest + second hello (in one record, or in two records cut after 3 / 100 bytes) after the return, caller's own transport deadline set before the call}; threads = caller (NewConn, then Read/Write on the result), canceller, client, and the watcher NewConn spawns; ALL schedules with at most %d deviations (preemption / non-canonical thread pick, non-first ready select case, timer order). Monitors: NewConn fails only if the context ended before the hello was complete and then no later than that instant; after a successful return no deadline call starts, no deadline is left set (a deadline the caller had set before is still exactly that), and the caller's I/O succeeds. Round 13: first records on which NewConn fails before a Conn exists (content type 23, record length 65535, end of stream at once / after plain HTTP / in mid-record / after the first of two records) and the context ending only AFTER that failed return (caller's cancel() at once or 10 s later, another thread, its own timer) or never (context.Background()): after any return, failed or not, no deadline call reaches the transport and no goroutine NewConn started is still there. Round 14: the same when NewConn is left, after the hello was read, by a panic of one of the caller's Options (recovered by the caller) or by an Option that ends the calling thread with runtime.Goexit, for valid and refused hellos and every one of these contexts. distinct = distinct scenarios", b))
	r.Assume("computation takes zero virtual time; sequentially consistent memory at synchronisation granularity", "the transport is a scheduler-aware fake whose Read honours deadlines")
	explore(r, scenarios(), b, "c10")
}

// RunDeadline is the deadline clause of C08 (invoked by the C08 check through the instrumented binary).
func RunDeadline(r *ev.Run) {
	b := 2
	r.Rule(fmt.Sprintf("E3: the client delivers the first o bytes of the first record for every offset o (quick: offsets 0..12, the last 6 and every 9th) and then stalls, for the hello in one record and for the same hello framed in two records (offsets in the second record); plus every C10 scenario whose client never reads (refused first records, hellos completing as the context ends); the context has a deadline at t=2 or is cancelled at t=1; the client transport either accepts writes or never does (peer not reading); all schedules with at most %d deviations; NewConn must return an error no later than the end of the context and no thread may stay blocked. distinct = distinct scenarios", b))
	explore(r, stallScenarios(r.Thorough()), b, "c08-deadline")
}
