// Package c16 decides C16. This file: sequential histories against a reference
// cache model (engine E4), run in worker processes because the clock hook and
// the DoH transport hook are process-global.
package c16

import (
	"context"
	"fmt"
	"net"
	"sort"
	"strings"
	"time"

	"github.com/c2FmZQ/ech"
	"github.com/c2FmZQ/ech/dns"

	"verif/internal/dnsref"
	"verif/internal/dohmem"
	"verif/internal/workers"
)

// ---- zone data: content depends on the version so that staleness is visible ----

type respSpec struct {
	ttls  []uint32 // TTL of each answer record, in order
	cname bool     // first record is a CNAME to c.example
	// number of records of the asked type = len(ttls) (minus one if cname)
	// foreign: TTLs of further records in the answer section that are NOT on the chain from the asked name (another owner): their
	// data is not used, but they are records of the response - its smallest TTL counts them
	foreign []uint32
	// via: TTLs of further CNAME records on the chain, behind the first one (c.example -> c1.example -> ...): the records of the
	// asked type are then owned by the last alias; every alias followed is a record of the response and bounds its age
	via []uint32
}

// per version: key -> response shape
var versions = []map[string]respSpec{
	{"n1/65": {ttls: []uint32{5}}, "n1/1": {ttls: []uint32{2, 5}}, "n1/28": {ttls: []uint32{1000}, foreign: []uint32{3}},
		"n2/65": {ttls: []uint32{2147483647}} /* the largest TTL RFC 2181 allows */, "n2/1": {ttls: []uint32{5, 1}, cname: true}, "n2/28": {ttls: []uint32{1000, 50}, cname: true, via: []uint32{400, 2}} /* the smallest TTL sits on the third alias of the chain */},
	{"n1/65": {ttls: []uint32{0}}, "n1/1": {ttls: []uint32{5, 2}}, "n1/28": {ttls: []uint32{1000, 400}, foreign: []uint32{900, 2}},
		"n2/65": {}, "n2/1": {ttls: []uint32{0, 5}, cname: true}, "n2/28": {ttls: []uint32{5}, cname: true}},
	{"n1/65": {ttls: []uint32{1}}, "n1/1": {ttls: []uint32{0, 5}}, "n1/28": {},
		"n2/65": {}, "n2/1": {ttls: []uint32{2, 2}, cname: true}, "n2/28": {ttls: []uint32{0}, cname: true}},
}

func minTTL(s respSpec) (uint32, bool) {
	if len(s.ttls) == 0 {
		return 0, false
	}
	m := s.ttls[0]
	for _, t := range s.ttls {
		m = min(m, t)
	}
	for _, t := range s.foreign {
		m = min(m, t)
	}
	for _, t := range s.via {
		m = min(m, t)
	}
	return m, true
}

func keyOf(name string, t uint16) string {
	return fmt.Sprintf("%s/%d", strings.TrimSuffix(name, ".example"), t)
}

func buildAnswer(name string, t uint16, v int) dohmem.Answer {
	s := versions[v][keyOf(name, t)]
	var rrs []dnsref.RR
	owner := name
	ttls := s.ttls
	if s.cname && len(ttls) > 0 {
		rrs = append(rrs, dnsref.RR{Name: name, Type: 5, Class: 1, TTL: ttls[0], Fields: []dnsref.Field{dnsref.N("c.example")}})
		owner = "c.example"
		ttls = ttls[1:]
		for i, ttl := range s.via {
			next := fmt.Sprintf("c%d.example", i+1)
			rrs = append(rrs, dnsref.RR{Name: owner, Type: 5, Class: 1, TTL: ttl, Fields: []dnsref.Field{dnsref.N(next)}})
			owner = next
		}
	}
	for i, ttl := range ttls {
		switch t {
		case 65:
			rrs = append(rrs, dnsref.RR{Name: owner, Type: 65, Class: 1, TTL: ttl, Fields: dnsref.SVCB(1, "", []dnsref.Param{dnsref.ParamALPN("h3", "h2", "x"), dnsref.ParamECH([]byte{0xec, byte(v)})})})
		case 1:
			rrs = append(rrs, dnsref.RR{Name: owner, Type: 1, Class: 1, TTL: ttl, Fields: []dnsref.Field{{Raw: []byte{10, byte(v), byte(t), byte(i + 1)}}}})
		case 28:
			ip := net.ParseIP(fmt.Sprintf("2001:db8:%d::%d", v, i+1))
			rrs = append(rrs, dnsref.RR{Name: owner, Type: 28, Class: 1, TTL: ttl, Fields: []dnsref.Field{{Raw: ip}}})
		}
	}
	for i, ttl := range s.foreign {
		raw := []byte{203, 0, 113, byte(i + 1)}
		if t == 28 {
			raw = net.ParseIP(fmt.Sprintf("2001:db8:ffff::%d", i+1))
		}
		if t == 65 {
			continue
		}
		rrs = append(rrs, dnsref.RR{Name: "other.example", Type: t, Class: 1, TTL: ttl, Fields: []dnsref.Field{{Raw: raw}}})
	}
	return dohmem.Answer{Records: rrs}
}

// contentOf renders what a Resolve result says about one key, as "version" markers.
// snapResult renders every byte a result holds.
func snapResult(res ech.ResolveResult) string {
	var b strings.Builder
	fmt.Fprintf(&b, "port=%d addr=", res.Port)
	for _, ip := range res.Address {
		fmt.Fprintf(&b, "%x,", []byte(ip))
	}
	for _, h := range res.HTTPS {
		fmt.Fprintf(&b, " {%d %q %d %v ech=%x alpn=%q", h.Priority, h.Target, h.Port, h.NoDefaultALPN, h.ECH, h.ALPN)
		for _, ip := range h.IPv4Hint {
			fmt.Fprintf(&b, " %x", []byte(ip))
		}
		for _, ip := range h.IPv6Hint {
			fmt.Fprintf(&b, " %x", []byte(ip))
		}
		b.WriteString("}")
	}
	var names []string
	for n := range res.Additional {
		names = append(names, n)
	}
	sort.Strings(names)
	for _, n := range names {
		fmt.Fprintf(&b, " %s=", n)
		for _, ip := range res.Additional[n] {
			fmt.Fprintf(&b, "%x,", []byte(ip))
		}
	}
	return b.String()
}

func contentOf(res ech.ResolveResult, key string) string {
	switch {
	case strings.HasSuffix(key, "/65"):
		var s []string
		for _, h := range res.HTTPS {
			s = append(s, fmt.Sprintf("ech=%x", h.ECH))
		}
		return strings.Join(s, ",")
	case strings.HasSuffix(key, "/1"):
		var s []string
		for _, ip := range res.Address {
			if len(ip) == 4 {
				s = append(s, ip.String())
			}
		}
		return strings.Join(s, ",")
	default:
		var s []string
		for _, ip := range res.Address {
			if len(ip) == 16 {
				s = append(s, ip.String())
			}
		}
		return strings.Join(s, ",")
	}
}

// expectedContent is what a response of version v for key contributes to the result.
func expectedContent(name string, t uint16, v int) string {
	a := buildAnswer(name, t, v)
	var res ech.ResolveResult
	for _, rr := range a.Records {
		if rr.Name == "other.example" {
			continue // a record of another owner: its data is not the asked name's
		}
		switch rr.Type {
		case 65:
			res.HTTPS = append(res.HTTPS, dns.HTTPS{ECH: []byte{0xec, byte(v)}})
		case 1, 28:
			res.Address = append(res.Address, net.IP(rr.Fields[0].Raw))
		}
	}
	return contentOf(res, keyOf(name, t))
}

// ---- events ----

var eventNames = []string{"resolve(n1)", "resolve(n2)", "advance(1s)", "toggle-https-nxdomain", "advance(5s)", "advance(300s)", "zone-next-version", "toggle-servfail", "toggle-http400", "toggle-rcode9-notauth", "set-cache-size(64)"}

type cacheEntry struct {
	version int
	expires time.Time
	unbound bool // response without any record: the property sets no bound (the code uses 300 s)
}

type histResult struct {
	viol, what string
	queries    int
	calls      int
}

// runHistory replays one history on a fresh Resolver, stepping the model alongside.
func runHistory(hist []int, srv *dohmem.Server, clock *time.Time) (out histResult) {
	version, servfail, http400, notauth, httpsNX := 0, false, false, false, false
	srv.Reset()
	srv.Zone = func(name string, t uint16) dohmem.Answer {
		if http400 {
			return dohmem.Answer{HTTPStatus: 400}
		}
		if servfail {
			// SERVFAIL that nevertheless carries an answer section (a recursive resolver that failed half-way through a CNAME chain)
			return dohmem.Answer{RCode: 2, Records: []dnsref.RR{{Name: name, Type: 5, Class: 1, TTL: 5, Fields: []dnsref.Field{dnsref.N("c.example")}}}}
		}
		if notauth {
			return dohmem.Answer{RCode: 9} // a failure code outside the table of named errors
		}
		if httpsNX && t == 65 {
			// the HTTPS RRset has been withdrawn (NXDOMAIN for that query only): absence, not a failure
			return dohmem.Answer{RCode: 3}
		}
		return buildAnswer(name, t, version)
	}
	res, _ := ech.NewResolver("https://doh.test/dns-query")
	model := map[string]*cacheEntry{}
	fail := func(key, what string) {
		if out.viol == "" {
			out.viol, out.what = key, what
		}
	}
	// results handed out earlier belong to their callers: whatever the resolver does later (refresh an expired entry, replace
	// it, fail) must leave them exactly as they were returned
	type keptResult struct {
		res  ech.ResolveResult
		snap string
		step int
	}
	var kept []keptResult
	for step, e := range hist {
		for _, k := range kept {
			if now := snapResult(k.res); now != k.snap {
				fail("earlier-result-modified", fmt.Sprintf("the result returned at step %d has changed by step %d (%s):\n was %s\n now %s", k.step, step, eventNames[hist[step-1]], k.snap, now))
			}
		}
		switch e {
		case 2:
			*clock = clock.Add(time.Second)
		case 3:
			httpsNX = !httpsNX
		case 10:
			res.SetCacheSize(64) // re-sizing a live resolver's cache keeps what is cached
		case 4:
			*clock = clock.Add(5 * time.Second)
		case 5:
			*clock = clock.Add(300 * time.Second)
		case 6:
			version = (version + 1) % len(versions)
		case 7:
			servfail = !servfail
		case 8:
			http400 = !http400
		case 9:
			notauth = !notauth
		case 0, 1:
			name := []string{"n1.example", "n2.example"}[e]
			before := len(srv.Queries())
			got, err := res.Resolve(context.Background(), name)
			qs := srv.Queries()[before:]
			if err == nil {
				kept = append(kept, keptResult{got, snapResult(got), step})
			}
			out.calls++
			out.queries += len(qs)
			asked := map[string]int{}
			for _, q := range qs {
				asked[keyOf(q.Name, q.Type)]++
			}
			failing := servfail || http400 || notauth
			// step the model in the order Resolve consults the keys
			aborted := false
			for _, t := range []uint16{65, 1, 28} {
				key := keyOf(name, t)
				if aborted {
					if asked[key] > 0 {
						fail("query-after-failure", fmt.Sprintf("step %d: key %s queried after an earlier lookup of the same call failed", step, key))
					}
					continue
				}
				ent := model[key]
				valid := ent != nil && clock.Before(ent.expires)
				switch {
				case valid && !ent.unbound:
					if asked[key] != 0 {
						fail("query-within-ttl:"+key, fmt.Sprintf("step %d (%s): key %s is cached until %v, now %v, yet %d upstream queries were sent", step, eventNames[e], key, ent.expires.Sub(time.Unix(1000, 0)), clock.Sub(time.Unix(1000, 0)), asked[key]))
					}
				case valid && ent.unbound && asked[key] == 0:
					// empty answer served from cache: allowed
				default:
					if asked[key] != 1 && !(valid && ent.unbound) {
						fail("no-query-after-expiry:"+key, fmt.Sprintf("step %d (%s): key %s is not cached (or expired) but %d upstream queries were sent: a stale or failed entry was served", step, eventNames[e], key, asked[key]))
					}
					if asked[key] >= 1 {
						if failing {
							delete(model, key)
							aborted = true
							continue
						}
						if httpsNX && t == 65 {
							// NXDOMAIN on the HTTPS lookup: treated as absence; nothing is cached and NOTHING that was cached before
							// (now expired) may be served in its place
							delete(model, key)
							if c := contentOf(got, key); err == nil && c != "" {
								fail("stale-https-after-nxdomain:"+key, fmt.Sprintf("step %d (%s): the HTTPS lookup of this call was answered NXDOMAIN, yet the result carries HTTPS data %q (an expired entry was served)", step, eventNames[e], c))
							}
							continue
						}
						spec := versions[version][key]
						ttl, bounded := minTTL(spec)
						ent = &cacheEntry{version: version, expires: clock.Add(time.Duration(ttl) * time.Second), unbound: !bounded}
						if !bounded {
							ent.expires = clock.Add(300 * time.Second)
						}
						model[key] = ent
					}
				}
				if ent != nil && err == nil {
					want := expectedContent(name, t, ent.version)
					if gotc := contentOf(got, key); gotc != want {
						fail("stale-or-wrong-content:"+key, fmt.Sprintf("step %d (%s): result for key %s is %q; the model's entry (version %d) says %q", step, eventNames[e], key, gotc, ent.version, want))
					}
				}
			}
			if aborted && err == nil {
				fail("failure-not-reported", fmt.Sprintf("step %d: upstream failed but Resolve returned a result", step))
			}
			if !aborted && err != nil {
				fail("error-without-failure", fmt.Sprintf("step %d: Resolve failed with %v although no upstream query failed", step, err))
			}
		}
	}
	return out
}

// HistWorker runs shard i of n of all histories of the given depth.
func HistWorker(tier string, shard, n int) {
	depth := 6
	if tier == "thorough" {
		depth = 8
	}
	k := len(eventNames)
	total := 1
	for i := 0; i < depth; i++ {
		total *= k
	}
	srv := &dohmem.Server{}
	dns.VerifRoundTripper = srv
	clock := time.Unix(1000, 0)
	restore := ech.VerifSetTimeNow(func() time.Time { return clock })
	defer restore()
	decode := func(idx int) []int {
		h := make([]int, depth)
		for i := depth - 1; i >= 0; i-- {
			h[i] = idx % k
			idx /= k
		}
		return h
	}
	names := func(h []int) []string {
		var s []string
		for _, e := range h {
			s = append(s, eventNames[e])
		}
		return s
	}
	workers.Serve(shard, n, total, 20*time.Second,
		func(idx int) any { return map[string]any{"family": "history", "history": names(decode(idx))} },
		func(idx int) workers.Result {
			h := decode(idx)
			// histories without any resolve are trivial
			clock = time.Unix(1000, 700e6) // not on a whole second: expiry arithmetic must not depend on the phase of the clock
			r := runHistory(h, srv, &clock)
			res := workers.Result{Outcome: fmt.Sprintf("resolve-calls=%d", r.calls), Viol: r.viol, What: r.what, Replay: map[string]any{"history": names(h)}}
			if idx%400009 == shard {
				res.Sample = map[string]any{"history": names(h), "upstream_queries": r.queries}
			}
			return res
		})
}

// ZoneV0 serves zone version 0 (used by the supplementary race pass).
func ZoneV0(name string, t uint16) dohmem.Answer { return buildAnswer(name, t, 0) }

// MultiZone adds, to zone version v, names whose HTTPS RRsets have several records: n3 = three service-mode records
// that the server sends out of priority order (3,1,2); n4 = service-mode records with an alias-mode record between them
// (a set RFC 9460 leaves to the client; whatever the resolver makes of it, it must make the same of it every time).
func MultiZone(v int) func(name string, t uint16) dohmem.Answer {
	return func(name string, t uint16) dohmem.Answer {
		svc := func(prio uint16, target string) dnsref.RR {
			var ps []dnsref.Param
			if prio > 0 {
				ps = []dnsref.Param{dnsref.ParamALPN("h3", "h2"), dnsref.ParamECH([]byte{0xec, byte(prio)})}
			}
			return dnsref.RR{Name: name, Type: 65, Class: 1, TTL: 2, Fields: dnsref.SVCB(prio, target, ps)}
		}
		switch {
		case name == "n3.example" && t == 65:
			return dohmem.Answer{Records: []dnsref.RR{svc(3, ""), svc(1, ""), svc(2, "")}}
		case name == "n4.example" && t == 65:
			return dohmem.Answer{Records: []dnsref.RR{svc(2, ""), svc(0, "elsewhere.example"), svc(1, "")}}
		case (name == "n3.example" || name == "n4.example") && t == 1:
			return dohmem.Answer{Records: []dnsref.RR{{Name: name, Type: 1, Class: 1, TTL: 2, Fields: []dnsref.Field{{Raw: []byte{10, 9, 9, 9}}}}}}
		// n5 = three service-mode records naming three DISTINCT targets, each with its own addresses (used by the supplementary
		// race pass only: lookups of distinct targets done at the same time must not share unguarded state)
		case name == "n5.example" && t == 65:
			return dohmem.Answer{Records: []dnsref.RR{svc(1, "t1.n5.example"), svc(2, "t2.n5.example"), svc(3, "t3.n5.example")}}
		case strings.HasSuffix(name, ".n5.example") && (t == 1 || t == 28):
			ip := []byte{10, 5, 5, name[1]}
			if t == 28 {
				ip = append(make([]byte, 12), ip...)
			}
			return dohmem.Answer{Records: []dnsref.RR{{Name: name, Type: t, Class: 1, TTL: 2, Fields: []dnsref.Field{{Raw: ip}}}}}
		case name == "n5.example" || strings.HasSuffix(name, ".n5.example"):
			return dohmem.Answer{}
		// n6 = one service-mode record whose target has THREE A records and one AAAA record (a cached record set of three
		// elements has spare capacity when it was built by appending; used by the supplementary race pass only: putting a
		// result together must not write into what the cache holds)
		case name == "n6.example" && t == 65:
			return dohmem.Answer{Records: []dnsref.RR{svc(1, "t.n6.example")}}
		case name == "t.n6.example" && t == 1:
			var rrs []dnsref.RR
			for i := byte(1); i <= 3; i++ {
				rrs = append(rrs, dnsref.RR{Name: name, Type: 1, Class: 1, TTL: 2, Fields: []dnsref.Field{{Raw: []byte{10, 6, 6, i}}}})
			}
			return dohmem.Answer{Records: rrs}
		case name == "t.n6.example" && t == 28:
			return dohmem.Answer{Records: []dnsref.RR{{Name: name, Type: 28, Class: 1, TTL: 2, Fields: []dnsref.Field{{Raw: append(make([]byte, 15), 6)}}}}}
		case name == "n6.example" || name == "t.n6.example":
			return dohmem.Answer{}
		case name == "n3.example" || name == "n4.example" || name == "elsewhere.example":
			return dohmem.Answer{}
		}
		return buildAnswer(name, t, v)
	}
}
