//go:build verif

// Supplementary, SAMPLED pass (not exploration, never counted as coverage): the same harness bodies as the
// C16 checks, free-running on real goroutines under the race detector. A report here is a real violation
// (the detector has no false positives); silence proves nothing.
package racepass

import (
	"context"
	"sync"
	"testing"
	"time"

	"github.com/c2FmZQ/ech"
	"github.com/c2FmZQ/ech/dns"

	"verif/checks/c16"
	"verif/internal/dohmem"
)

func TestRacePass(t *testing.T) {
	srv := &dohmem.Server{}
	dns.VerifRoundTripper = srv
	srv.Zone = c16.MultiZone(0)
	res, _ := ech.NewResolver("https://doh.test/dns-query")
	var mu sync.Mutex
	now := time.Unix(1000, 0)
	restore := ech.VerifSetTimeNow(func() time.Time { mu.Lock(); defer mu.Unlock(); return now })
	defer restore()
	var wg sync.WaitGroup
	for g := 0; g < 8; g++ {
		wg.Add(1)
		go func(g int) {
			defer wg.Done()
			for i := 0; i < 200; i++ {
				name := []string{"n1.example", "n2.example", "n3.example", "n4.example", "n5.example", "n6.example"}[(g+i)%6]
				r, err := res.Resolve(context.Background(), name)
				if err != nil {
					continue
				}
				for range r.Targets("tcp") {
				}
				if i%10 == 9 {
					mu.Lock()
					now = now.Add(3 * time.Second)
					mu.Unlock()
				}
			}
		}(g)
	}
	wg.Wait()
}
