//go:build vsched

package c16

import (
	"context"
	"encoding/json"
	"fmt"
	"os"
	"slices"
	"strings"
	"time"

	"github.com/c2FmZQ/ech"
	"github.com/c2FmZQ/ech/dns"
	vs "github.com/c2FmZQ/ech/vsched"

	"verif/internal/dohmem"
	"verif/internal/ev"
	"verif/internal/workers"
)

// step of a thread program
type istep struct {
	Wait int    `json:"wait_s"` // virtual seconds to wait before the lookup
	Name string `json:"name"`
}

type iscenario struct {
	Threads  [][]istep `json:"threads"`
	Latency  int       `json:"upstream_latency_s"`
	ZoneAt   []int     `json:"zone_version_changes_at_s"`
	FailFrom int       `json:"upstream_fails_from_s"` // -1 never
	FailTo   int       `json:"upstream_fails_to_s"`
	// FailClients: every upstream query issued on behalf of these client threads fails (one client's path to the DoH service is
	// broken): failures and successes for one name at the same instant
	FailClients []int `json:"upstream_fails_for_clients,omitempty"`
	// ClockStepBy > 0: the wall clock the resolver reads jumps forward by that many seconds (the machine was suspended, the
	// process was stopped, the clock was set) at a point of the schedule the explorer chooses: after ClockStepAt virtual seconds,
	// between any two steps of the other threads. All times the monitors use are readings of that same clock.
	// CacheOffAt >= 1 (value = 1 + seconds): the application switches the cache OFF (SetCacheSize(0)) at that virtual time, while
	// lookups may be outstanding, and on again (SetCacheSize(64)) one second later. A lookup that is under way finishes with the
	// cache it started with; nothing panics. (After a switch the cache is legitimately empty: the redundant-query monitor is
	// not applied to these scenarios.)
	CacheOffAt  int `json:"cache_off_at_s_plus_1,omitempty"`
	ClockStepBy int `json:"clock_steps_forward_by_s,omitempty"`
	ClockStepAt int `json:"clock_step_after_s,omitempty"`
}

// clockRead is one reading of the clock by the library (every reading goes through the hook the harness installs).
type clockRead struct {
	thread int
	seq    int // position in the common order of clock readings and upstream answers
	value  time.Duration
}

type upstream struct {
	key     string
	at      time.Duration // when the answer was produced (after the run: when the resolver took it over, see runInterOpt)
	atRaw   time.Duration // when the answer was produced
	started time.Duration // when the query reached the upstream
	thread  int           // logical thread that issued it
	version int
	failed  bool
	seq     int // position in the common order of clock readings and upstream answers
}

type lookup struct {
	vthread    int
	thread     int
	name       string
	start, end time.Duration
	err        error
	content    map[string]string
	reads      []clockRead // the clock readings made by this lookup's thread during the call
}

func runInter(sc iscenario, choose vs.Chooser) (ups []upstream, looks []lookup, s *vs.Sched) {
	return runInterOpt(sc, choose, false)
}

// ReplayInter re-executes one recorded schedule of one scenario (a replay file of C16I) with the scheduler's trace on and
// prints every step, the upstream log, the lookups and the monitor's verdict.
func ReplayInter(file string) {
	b, err := os.ReadFile(file)
	if err != nil {
		ev.ToolError("replay file: %v", err)
	}
	var f struct {
		Key    string `json:"key"`
		Replay struct {
			Scenario iscenario `json:"scenario"`
			Vector   []int     `json:"choice_vector"`
		} `json:"replay"`
	}
	if err := json.Unmarshal(b, &f); err != nil {
		ev.ToolError("replay file: %v", err)
	}
	pos := 0
	ups, looks, s := runInterOpt(f.Replay.Scenario, func(n int, kind string) int {
		p := 0
		if pos < len(f.Replay.Vector) && f.Replay.Vector[pos] < n {
			p = f.Replay.Vector[pos]
		}
		pos++
		return p
	}, true)
	fmt.Printf("recorded violation: %s\nscenario: %+v\nschedule: %v\n--- re-execution on the current tree ---\n", f.Key, f.Replay.Scenario, f.Replay.Vector)
	for _, l := range s.Trace {
		fmt.Println("  ", l)
	}
	for _, u := range ups {
		fmt.Printf("upstream %+v\n", u)
	}
	for _, l := range looks {
		fmt.Printf("lookup client%d %s [%v,%v] err=%v %v clock readings %+v\n", l.thread, l.name, l.start, l.end, l.err, l.content, l.reads)
	}
	k, w := monitorInter(f.Replay.Scenario, ups, looks, s)
	fmt.Printf("monitor: %q %s\n", k, w)
}

func runInterOpt(sc iscenario, choose vs.Chooser, traceOn bool) (ups []upstream, looks []lookup, s *vs.Sched) {
	srv := &dohmem.Server{}
	dns.VerifRoundTripper = srv
	version := 0
	var skew time.Duration
	now := func() time.Duration { return vs.Elapsed() + skew }
	seq := 0
	var reads []clockRead
	failing := func() bool {
		t := int(vs.Elapsed() / time.Second)
		return sc.FailFrom >= 0 && t >= sc.FailFrom && t < sc.FailTo
	}
	starts := map[int]time.Duration{}
	clientOf := map[int]int{} // scheduler thread -> client index
	srv.OnQuery = func(q dohmem.Query) {
		starts[vs.ThreadID()] = now()
		vs.Yield("doh query " + q.Name)
		if sc.Latency > 0 {
			vs.Sleep(time.Duration(sc.Latency) * time.Second)
		}
	}
	srv.Zone = func(name string, t uint16) dohmem.Answer {
		// evaluated after the latency: the answer reflects the zone at answer time
		u := upstream{key: keyOf(name, t), at: now(), atRaw: now(), version: version, failed: failing(), seq: seq}
		seq++
		u.thread = vs.ThreadID()
		if ci, ok := clientOf[u.thread]; ok && slices.Contains(sc.FailClients, ci) {
			u.failed = true
		}
		u.started = starts[u.thread]
		ups = append(ups, u)
		if u.failed {
			return dohmem.Answer{RCode: 2}
		}
		return buildAnswer(name, t, version)
	}
	s = vs.RunOpt(choose, 20000, traceOn, func() {
		restore := ech.VerifSetTimeNow(func() time.Time {
			reads = append(reads, clockRead{thread: vs.ThreadID(), seq: seq, value: now()})
			seq++
			return vs.Now().Add(skew)
		})
		defer restore()
		res, _ := ech.NewResolver("https://doh.test/dns-query")
		if sc.CacheOffAt > 0 {
			vs.GoNamed("cache-switch", func() {
				if sc.CacheOffAt > 1 {
					vs.Sleep(time.Duration(sc.CacheOffAt-1) * time.Second)
				}
				vs.Yield("SetCacheSize(0)")
				res.SetCacheSize(0)
				vs.Sleep(time.Second)
				res.SetCacheSize(64)
			})
		}
		if sc.ClockStepBy > 0 {
			vs.GoNamed("clock", func() {
				if sc.ClockStepAt > 0 {
					vs.Sleep(time.Duration(sc.ClockStepAt) * time.Second)
				}
				vs.Yield("clock step")
				skew += time.Duration(sc.ClockStepBy) * time.Second
			})
		}
		for _, at := range sc.ZoneAt {
			at := at
			vs.GoNamed("zone", func() { vs.Sleep(time.Duration(at) * time.Second); version = (version + 1) % len(versions) })
		}
		var wg vs.WaitGroup
		for ti, prog := range sc.Threads {
			ti, prog := ti, prog
			wg.Add(1)
			vs.GoNamed(fmt.Sprintf("client%d", ti), func() {
				defer wg.Done()
				clientOf[vs.ThreadID()] = ti
				for _, st := range prog {
					if st.Wait > 0 {
						vs.Sleep(time.Duration(st.Wait) * time.Second)
					}
					l := lookup{thread: ti, vthread: vs.ThreadID(), name: st.Name, start: now()}
					firstRead := len(reads)
					r, err := res.Resolve(context.Background(), st.Name)
					l.end, l.err = now(), err
					for _, cr := range reads[firstRead:] {
						if cr.thread == l.vthread {
							l.reads = append(l.reads, cr)
						}
					}
					if err == nil {
						l.content = map[string]string{}
						for _, t := range []uint16{65, 1, 28} {
							l.content[keyOf(st.Name, t)] = contentOf(r, keyOf(st.Name, t))
						}
						// use the result like a caller would (write-footprint of Targets is checked separately)
						for range r.Targets("tcp") {
						}
					}
					looks = append(looks, l)
				}
			})
		}
		wg.Wait()
	})
	// An answer's lifetime starts when the resolver takes it over: at the first clock reading its thread makes after the answer
	// arrived (the same instant unless the clock stepped in between).
	for i := range ups {
		if ups[i].failed || sc.ClockStepBy == 0 {
			continue // nothing is taken over / the clock only moves with virtual time: the answer's own instant is the stamp
		}
		for _, cr := range reads {
			if cr.thread == ups[i].thread && cr.seq > ups[i].seq {
				ups[i].at = max(ups[i].at, cr.value)
				break
			}
		}
	}
	return
}

func monitorInter(sc iscenario, ups []upstream, looks []lookup, s *vs.Sched) (key, what string) {
	if s.Panic != nil {
		return "panic", fmt.Sprintf("%v\n%s", s.Panic, s.PanicInfo)
	}
	if s.Livelock {
		return "livelock", "step horizon exceeded"
	}
	if s.Deadlock != "" {
		return "deadlock", s.Deadlock
	}
	// "within the TTL serves repeated lookups from its cache": a lookup that BEGINS strictly after an answer for a key was
	// obtained, while that answer is still within its smallest TTL, must not send an upstream query for that key.
	// (Lookups that began before the answer existed may legitimately fetch it themselves: concurrent first lookups.)
	for _, q := range ups {
		if sc.CacheOffAt > 0 {
			break // the cache was emptied on purpose
		}
		var call *lookup
		for i := range looks {
			if looks[i].vthread == q.thread && looks[i].start <= q.started && q.at <= looks[i].end {
				call = &looks[i]
			}
		}
		if call == nil {
			continue
		}
		// The cache holds ONE answer per key. Successful answers for the key that were obtained before this lookup began make the
		// query redundant when the answer the cache holds is still within its smallest TTL at the time the query is sent -
		// whatever else happened meanwhile (other lookups of the name failing at the same instant: failures store nothing and
		// evict nothing that is fresh). WHICH answer the cache holds is certain only without racing first lookups: two lookups
		// that both miss (between cache.Get and cache.Add) each fetch the key and each install what they got, in the order in
		// which they finish - not necessarily the order in which the answers were obtained (the zone changes between them, the
		// clock steps, one of them is not cacheable). The candidates are therefore the LATEST answer and every other answer whose
		// fetching lookup was still inside Resolve when the latest one was obtained; the query is redundant only if ALL candidates
		// are still valid. (Without such a race the latest answer is the only candidate.)
		latest, have := time.Duration(-1), false
		for i := range ups {
			rr := &ups[i]
			if rr.key == q.key && !rr.failed && rr.at < call.start && rr.at > latest {
				latest, have = rr.at, true
			}
		}
		if !have {
			continue
		}
		allValid, ttlSeen := true, uint32(0)
		for i := range ups {
			rr := &ups[i]
			if rr.key != q.key || rr.failed || rr.at >= call.start {
				continue
			}
			if rr.at != latest {
				racing := false
				for j := range looks {
					if looks[j].vthread == rr.thread && looks[j].start <= rr.started && rr.atRaw <= looks[j].end && looks[j].end >= latest {
						racing = true
					}
				}
				if !racing {
					continue
				}
			}
			ttl, bounded := minTTL(versions[rr.version][rr.key])
			if !bounded || ttl == 0 || rr.at+time.Duration(ttl)*time.Second <= q.started {
				allValid = false
			}
			if rr.at == latest {
				ttlSeen = ttl
			}
		}
		if allValid {
			return "redundant-upstream-query:" + q.key, fmt.Sprintf("client lookup begun at %v sent an upstream query for %s at %v although the latest answer, obtained at %v (smallest TTL %d s), was still valid and no lookup that raced with it can have installed another; upstream log: %+v", call.start, q.key, q.started, latest, ttlSeen, ups)
		}
	}
	for _, l := range looks {
		if l.err != nil {
			// an error needs a failed upstream answer for one of this name's keys during the call
			ok := false
			for _, u := range ups {
				if u.failed && strings.HasPrefix(u.key, strings.TrimSuffix(l.name, ".example")+"/") && u.at >= l.start && u.at <= l.end {
					ok = true
				}
			}
			if !ok {
				return "error-without-upstream-failure", fmt.Sprintf("client %d: Resolve(%s) at [%v,%v] failed with %v although no upstream query of that call failed (a failure was served from the cache?)", l.thread, l.name, l.start, l.end, l.err)
			}
			continue
		}
		for key, got := range l.content {
			name := strings.Split(key, "/")[0] + ".example"
			var t uint16
			fmt.Sscanf(strings.Split(key, "/")[1], "%d", &t)
			ok := false
			for _, u := range ups {
				if u.key != key || u.failed || u.at > l.end {
					continue
				}
				if expectedContent(name, t, u.version) != got {
					continue
				}
				ttl, bounded := minTTL(versions[u.version][key])
				life := time.Duration(ttl) * time.Second
				if !bounded {
					life = 300 * time.Second
				}
				if u.at >= l.start || u.at+life > l.start {
					ok = true
				}
			}
			if ok && !usedWithinLifetime(l, key, got, name, t, ups) {
				return "expired-answer-used:" + key, fmt.Sprintf("client %d: Resolve(%s) at [%v,%v] returned %q for %s without asking upstream itself; every upstream answer with that content had outlived its smallest TTL (or was not cacheable) at each clock reading the lookup made after the answer was obtained, and when the lookup returned; the lookup's clock readings: %+v; upstream log: %+v", l.thread, l.name, l.start, l.end, got, key, l.reads, ups)
			}
			if !ok {
				return "stale-or-unfounded-answer:" + key, fmt.Sprintf("client %d: Resolve(%s) at [%v,%v] returned %q for %s, which no upstream answer still valid at that time (nor one fetched during the call) contains; upstream log: %+v", l.thread, l.name, l.start, l.end, got, key, ups)
			}
		}
	}
	return "", ""
}

// usedWithinLifetime: the lookup either fetched the content itself, or some upstream answer with that content was within its
// smallest TTL when the lookup returned or at one of the clock readings the lookup made after that answer was obtained (a
// resolver decides "still fresh" by reading the clock; what it has not looked at since cannot be known to be fresh). A
// non-cacheable answer (TTL 0) is never within its lifetime for a lookup that did not fetch it.
func usedWithinLifetime(l lookup, key, got, name string, t uint16, ups []upstream) bool {
	for _, u := range ups {
		if u.key != key || u.failed || u.at > l.end || expectedContent(name, t, u.version) != got {
			continue
		}
		if u.thread == l.vthread && u.started >= l.start {
			return true // fetched by this very lookup
		}
		ttl, bounded := minTTL(versions[u.version][key])
		life := time.Duration(ttl) * time.Second
		if !bounded {
			life = 300 * time.Second
		}
		if u.at+life > l.end {
			return true
		}
		for _, cr := range l.reads {
			if cr.seq > u.seq && cr.value < u.at+life {
				return true
			}
		}
	}
	return false
}

func interScenarios(thorough bool) []iscenario {
	var out []iscenario
	progs := [][]istep{
		{{0, "n1.example"}},
		{{0, "n1.example"}, {3, "n1.example"}},
		{{1, "n1.example"}, {1, "n2.example"}},
		{{0, "n2.example"}, {6, "n2.example"}},
		{{2, "n1.example"}},
	}
	for a := range progs {
		for b := a; b < len(progs); b++ {
			for _, lat := range []int{0, 1} {
				for _, zone := range [][]int{nil, {1}, {1, 4}} {
					for _, fail := range [][2]int{{-1, 0}, {1, 3}, {0, 1}, {1, 2}} {
						if fail == [2]int{1, 2} && lat == 0 {
							continue // a one-second failure window only matters when a fetch spans it
						}
						out = append(out, iscenario{Threads: [][]istep{progs[a], progs[b]}, Latency: lat, ZoneAt: zone, FailFrom: fail[0], FailTo: fail[1]})
					}
				}
			}
		}
	}
	// three clients, the upstream failing for two of them: a lookup fails, the one that waited for it succeeds, a third one
	// started meanwhile fails - and the one good answer is what later lookups get
	out = append(out, iscenario{Threads: [][]istep{{{0, "n1.example"}}, {{0, "n1.example"}, {1, "n1.example"}}, {{1, "n1.example"}}}, Latency: 1, FailFrom: -1, FailClients: []int{0, 2}})
	out = append(out, iscenario{Threads: [][]istep{{{0, "n1.example"}}, {{0, "n1.example"}, {1, "n1.example"}}, {{0, "n1.example"}}}, Latency: 1, FailFrom: -1, FailClients: []int{0, 2}})
	// the application switches the cache off and on again while lookups are outstanding (upstream latency 1 s)
	for _, th := range [][][]istep{{progs[0]}, {progs[0], progs[0]}, {progs[1], progs[4]}} {
		for _, at := range []int{1, 2} {
			for _, fail := range [][2]int{{-1, 0}, {0, 2}} {
				out = append(out, iscenario{Threads: th, Latency: 1, FailFrom: fail[0], FailTo: fail[1], CacheOffAt: at})
			}
		}
	}
	// the clock steps forward by 10 s (longer than every TTL but one) at a point the explorer chooses
	for _, th := range [][][]istep{{progs[0], progs[0]}, {progs[0], progs[1]}, {progs[1], progs[4]}} {
		for _, lat := range []int{0, 1} {
			for _, at := range []int{0, 1} {
				for _, zone := range [][]int{nil, {1}} {
					out = append(out, iscenario{Threads: th, Latency: lat, ZoneAt: zone, FailFrom: -1, ClockStepBy: 10, ClockStepAt: at})
				}
			}
		}
	}
	if thorough {
		for _, lat := range []int{0, 1} {
			out = append(out, iscenario{Threads: [][]istep{progs[0], progs[1], progs[4]}, Latency: lat, ZoneAt: []int{1}, FailFrom: -1})
			out = append(out, iscenario{Threads: [][]istep{progs[1], progs[1], progs[2]}, Latency: lat, ZoneAt: []int{1, 4}, FailFrom: 1, FailTo: 3})
		}
	}
	return out
}

// InterWorker explores interleaving scenarios idx = shard, shard+n, ...
func InterWorker(tier string, shard, n int) {
	bound := 2
	if tier == "thorough" {
		bound = 3
	}
	scs := interScenarios(tier == "thorough")
	workers.Serve(shard, n, len(scs), 300*time.Second,
		func(idx int) any { return map[string]any{"family": "interleaving", "scenario": scs[idx]} },
		func(idx int) workers.Result {
			sc := scs[idx]
			var vkey, vwhat string
			var vvec []int
			outcomes := map[string]int{}
			e := &vs.Explorer{Bound: bound, MaxExecs: 30000}
			e.Body = func(x *vs.Execution, choose vs.Chooser) {
				ups, looks, s := runInter(sc, choose)
				k, w := monitorInter(sc, ups, looks, s)
				outcomes[fmt.Sprintf("upstream-queries=%d", len(ups))]++
				if k != "" && vkey == "" {
					vkey, vwhat, vvec = k, w, x.Vector()
				}
			}
			e.Explore()
			res := workers.Result{Outcome: fmt.Sprintf("interleavings: distinct-upstream-query-counts=%d", len(outcomes))}
			if e.Capped {
				res.Outcome += " CAPPED"
			}
			res.Outcome += fmt.Sprintf("|execs=%d|points=%d", e.Executions, e.ChoicePoints)
			if e.Diverged != "" {
				res.Viol, res.What = "tool:replay-diverged", e.Diverged
			}
			if vkey != "" {
				res.Viol, res.What, res.Replay = "interleaving:"+vkey, vwhat, map[string]any{"scenario": sc, "choice_vector": vvec}
			}
			if idx%41 == shard {
				res.Sample = map[string]any{"scenario": sc, "executions": e.Executions, "outcomes": outcomes}
			}
			return res
		})
}

// RunInter is the scheduler-based part of C16 (sub-run C16I of the instrumented binary).
func RunInter(r *ev.Run) {
	bound := 2
	if r.Thorough() {
		bound = 3
	}
	scs := interScenarios(r.Thorough())
	r.Rule(fmt.Sprintf("E3: 2 (thorough also 3) client threads, each running a program of 1-2 lookups on colliding keys at chosen virtual times, a zone thread changing the data at t=1 / t=1,4, an upstream that fails during a window, upstream latency 0 or 1 s (time passes while the entry lock is held); the real, instrumented resolver (RWMutex, LRU calls, clock, DoH round trip are scheduling points); ALL schedules with at most %d deviations per scenario; monitors: no deadlock/panic, every answer is contained in an upstream answer that was still within its smallest TTL when the call started or was fetched during the call, errors only when an upstream query of that call failed, a lookup begun after an answer was obtained sends no upstream query for that key while the answer the cache can hold (the latest one, or one installed by a lookup that raced with it) is within its TTL, and a lookup that did not fetch an answer itself saw it within its lifetime when it returned or at a clock reading it made after the answer was obtained (never for TTL 0). 24 scenarios let the wall clock step forward by 10 s at a point the explorer chooses (every clock reading of the resolver is logged by the harness). distinct = distinct scenarios", bound))
	for _, sc := range scs {
		r.Eval(fmt.Sprintf("%+v", sc), "")
	}
	done, total := workers.Spawn(r, "C16I", 4*1024*1024)
	if done != total {
		r.Cap(fmt.Sprintf("workers explored %d of %d interleaving scenarios", done, total))
	}
	execs, points, capped := int64(0), int64(0), int64(0)
	r.FoldOutcomes(func(label string, n int64) (string, map[string]int64) {
		parts := strings.Split(label, "|")
		add := map[string]int64{}
		for _, p := range parts[1:] {
			var v int64
			if _, err := fmt.Sscanf(p, "execs=%d", &v); err == nil {
				execs += v * n
			} else if _, err := fmt.Sscanf(p, "points=%d", &v); err == nil {
				points += v * n
			}
		}
		if strings.Contains(parts[0], "CAPPED") {
			capped += n
		}
		return parts[0], add
	})
	if capped > 0 {
		r.Cap(fmt.Sprintf("deviation bound %d was not completed in %d of %d scenarios (cap: 30000 executions per scenario); bound 2 is completed in every scenario by the quick tier", bound, capped, total))
	}
	r.Set("executions", execs)
	r.Set("choice_points", points)
	r.Set("deviation_bound", bound)
}
