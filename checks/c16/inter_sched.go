//go:build vsched

package c16

import (
	"context"
	"fmt"
	"slices"
	"strings"
	"time"

	"github.com/c2FmZQ/ech"
	"github.com/c2FmZQ/ech/dns"
	vs "github.com/c2FmZQ/ech/vsched"

	"verif/internal/dohmem"
	"verif/internal/ev"
	"verif/internal/workers"
)

// step of a thread program
type istep struct {
	Wait int    `json:"wait_s"` // virtual seconds to wait before the lookup
	Name string `json:"name"`
}

type iscenario struct {
	Threads  [][]istep `json:"threads"`
	Latency  int       `json:"upstream_latency_s"`
	ZoneAt   []int     `json:"zone_version_changes_at_s"`
	FailFrom int       `json:"upstream_fails_from_s"` // -1 never
	FailTo   int       `json:"upstream_fails_to_s"`
	// FailClients: every upstream query issued on behalf of these client threads fails (one client's path to the DoH service is
	// broken): failures and successes for one name at the same instant
	FailClients []int `json:"upstream_fails_for_clients,omitempty"`
}

type upstream struct {
	key     string
	at      time.Duration // when the answer was produced
	started time.Duration // when the query reached the upstream
	thread  int           // logical thread that issued it
	version int
	failed  bool
}

type lookup struct {
	vthread    int
	thread     int
	name       string
	start, end time.Duration
	err        error
	content    map[string]string
}

func runInter(sc iscenario, choose vs.Chooser) (ups []upstream, looks []lookup, s *vs.Sched) {
	srv := &dohmem.Server{}
	dns.VerifRoundTripper = srv
	version := 0
	failing := func() bool {
		t := int(vs.Elapsed() / time.Second)
		return sc.FailFrom >= 0 && t >= sc.FailFrom && t < sc.FailTo
	}
	starts := map[int]time.Duration{}
	clientOf := map[int]int{} // scheduler thread -> client index
	srv.OnQuery = func(q dohmem.Query) {
		starts[vs.ThreadID()] = vs.Elapsed()
		vs.Yield("doh query " + q.Name)
		if sc.Latency > 0 {
			vs.Sleep(time.Duration(sc.Latency) * time.Second)
		}
	}
	srv.Zone = func(name string, t uint16) dohmem.Answer {
		// evaluated after the latency: the answer reflects the zone at answer time
		u := upstream{key: keyOf(name, t), at: vs.Elapsed(), version: version, failed: failing()}
		u.thread = vs.ThreadID()
		if ci, ok := clientOf[u.thread]; ok && slices.Contains(sc.FailClients, ci) {
			u.failed = true
		}
		u.started = starts[u.thread]
		ups = append(ups, u)
		if u.failed {
			return dohmem.Answer{RCode: 2}
		}
		return buildAnswer(name, t, version)
	}
	s = vs.Run(choose, 20000, func() {
		restore := ech.VerifSetTimeNow(vs.Now)
		defer restore()
		res, _ := ech.NewResolver("https://doh.test/dns-query")
		for _, at := range sc.ZoneAt {
			at := at
			vs.GoNamed("zone", func() { vs.Sleep(time.Duration(at) * time.Second); version = (version + 1) % len(versions) })
		}
		var wg vs.WaitGroup
		for ti, prog := range sc.Threads {
			ti, prog := ti, prog
			wg.Add(1)
			vs.GoNamed(fmt.Sprintf("client%d", ti), func() {
				defer wg.Done()
				clientOf[vs.ThreadID()] = ti
				for _, st := range prog {
					if st.Wait > 0 {
						vs.Sleep(time.Duration(st.Wait) * time.Second)
					}
					l := lookup{thread: ti, vthread: vs.ThreadID(), name: st.Name, start: vs.Elapsed()}
					r, err := res.Resolve(context.Background(), st.Name)
					l.end, l.err = vs.Elapsed(), err
					if err == nil {
						l.content = map[string]string{}
						for _, t := range []uint16{65, 1, 28} {
							l.content[keyOf(st.Name, t)] = contentOf(r, keyOf(st.Name, t))
						}
						// use the result like a caller would (write-footprint of Targets is checked separately)
						for range r.Targets("tcp") {
						}
					}
					looks = append(looks, l)
				}
			})
		}
		wg.Wait()
	})
	return
}

func monitorInter(sc iscenario, ups []upstream, looks []lookup, s *vs.Sched) (key, what string) {
	if s.Panic != nil {
		return "panic", fmt.Sprintf("%v\n%s", s.Panic, s.PanicInfo)
	}
	if s.Livelock {
		return "livelock", "step horizon exceeded"
	}
	if s.Deadlock != "" {
		return "deadlock", s.Deadlock
	}
	// "within the TTL serves repeated lookups from its cache": a lookup that BEGINS strictly after an answer for a key was
	// obtained, while that answer is still within its smallest TTL, must not send an upstream query for that key.
	// (Lookups that began before the answer existed may legitimately fetch it themselves: concurrent first lookups.)
	for _, q := range ups {
		var call *lookup
		for i := range looks {
			if looks[i].vthread == q.thread && looks[i].start <= q.started && q.at <= looks[i].end {
				call = &looks[i]
			}
		}
		if call == nil {
			continue
		}
		// A SUCCESSFUL answer for the key that was obtained before this lookup began and is still within its smallest TTL when the
		// query is sent makes the query redundant: whatever else happened meanwhile - first lookups racing between cache.Get and
		// cache.Add, other lookups of the name failing at the same instant - a fresh answer, once obtained, is what the cache holds
		// (failures store nothing and evict nothing that is fresh).
		for i := range ups {
			rr := &ups[i]
			if rr.key != q.key || rr.failed || rr.at >= call.start {
				continue
			}
			ttl, bounded := minTTL(versions[rr.version][rr.key])
			if !bounded || ttl == 0 || rr.at+time.Duration(ttl)*time.Second <= q.started {
				continue
			}
			return "redundant-upstream-query:" + q.key, fmt.Sprintf("client lookup begun at %v sent an upstream query for %s at %v although the answer obtained at %v (smallest TTL %d s) was still valid; upstream log: %+v", call.start, q.key, q.started, rr.at, ttl, ups)
		}
	}
	for _, l := range looks {
		if l.err != nil {
			// an error needs a failed upstream answer for one of this name's keys during the call
			ok := false
			for _, u := range ups {
				if u.failed && strings.HasPrefix(u.key, strings.TrimSuffix(l.name, ".example")+"/") && u.at >= l.start && u.at <= l.end {
					ok = true
				}
			}
			if !ok {
				return "error-without-upstream-failure", fmt.Sprintf("client %d: Resolve(%s) at [%v,%v] failed with %v although no upstream query of that call failed (a failure was served from the cache?)", l.thread, l.name, l.start, l.end, l.err)
			}
			continue
		}
		for key, got := range l.content {
			name := strings.Split(key, "/")[0] + ".example"
			var t uint16
			fmt.Sscanf(strings.Split(key, "/")[1], "%d", &t)
			ok := false
			for _, u := range ups {
				if u.key != key || u.failed || u.at > l.end {
					continue
				}
				if expectedContent(name, t, u.version) != got {
					continue
				}
				ttl, bounded := minTTL(versions[u.version][key])
				life := time.Duration(ttl) * time.Second
				if !bounded {
					life = 300 * time.Second
				}
				if u.at >= l.start || u.at+life > l.start {
					ok = true
				}
			}
			if !ok {
				return "stale-or-unfounded-answer:" + key, fmt.Sprintf("client %d: Resolve(%s) at [%v,%v] returned %q for %s, which no upstream answer still valid at that time (nor one fetched during the call) contains; upstream log: %+v", l.thread, l.name, l.start, l.end, got, key, ups)
			}
		}
	}
	return "", ""
}

func interScenarios(thorough bool) []iscenario {
	var out []iscenario
	progs := [][]istep{
		{{0, "n1.example"}},
		{{0, "n1.example"}, {3, "n1.example"}},
		{{1, "n1.example"}, {1, "n2.example"}},
		{{0, "n2.example"}, {6, "n2.example"}},
		{{2, "n1.example"}},
	}
	for a := range progs {
		for b := a; b < len(progs); b++ {
			for _, lat := range []int{0, 1} {
				for _, zone := range [][]int{nil, {1}, {1, 4}} {
					for _, fail := range [][2]int{{-1, 0}, {1, 3}, {0, 1}, {1, 2}} {
						if fail == [2]int{1, 2} && lat == 0 {
							continue // a one-second failure window only matters when a fetch spans it
						}
						out = append(out, iscenario{Threads: [][]istep{progs[a], progs[b]}, Latency: lat, ZoneAt: zone, FailFrom: fail[0], FailTo: fail[1]})
					}
				}
			}
		}
	}
	// three clients, the upstream failing for two of them: a lookup fails, the one that waited for it succeeds, a third one
	// started meanwhile fails - and the one good answer is what later lookups get
	out = append(out, iscenario{Threads: [][]istep{{{0, "n1.example"}}, {{0, "n1.example"}, {1, "n1.example"}}, {{1, "n1.example"}}}, Latency: 1, FailFrom: -1, FailClients: []int{0, 2}})
	out = append(out, iscenario{Threads: [][]istep{{{0, "n1.example"}}, {{0, "n1.example"}, {1, "n1.example"}}, {{0, "n1.example"}}}, Latency: 1, FailFrom: -1, FailClients: []int{0, 2}})
	if thorough {
		for _, lat := range []int{0, 1} {
			out = append(out, iscenario{Threads: [][]istep{progs[0], progs[1], progs[4]}, Latency: lat, ZoneAt: []int{1}, FailFrom: -1})
			out = append(out, iscenario{Threads: [][]istep{progs[1], progs[1], progs[2]}, Latency: lat, ZoneAt: []int{1, 4}, FailFrom: 1, FailTo: 3})
		}
	}
	return out
}

// InterWorker explores interleaving scenarios idx = shard, shard+n, ...
func InterWorker(tier string, shard, n int) {
	bound := 2
	if tier == "thorough" {
		bound = 3
	}
	scs := interScenarios(tier == "thorough")
	workers.Serve(shard, n, len(scs), 300*time.Second,
		func(idx int) any { return map[string]any{"family": "interleaving", "scenario": scs[idx]} },
		func(idx int) workers.Result {
			sc := scs[idx]
			var vkey, vwhat string
			var vvec []int
			outcomes := map[string]int{}
			e := &vs.Explorer{Bound: bound, MaxExecs: 30000}
			e.Body = func(x *vs.Execution, choose vs.Chooser) {
				ups, looks, s := runInter(sc, choose)
				k, w := monitorInter(sc, ups, looks, s)
				outcomes[fmt.Sprintf("upstream-queries=%d", len(ups))]++
				if k != "" && vkey == "" {
					vkey, vwhat, vvec = k, w, x.Vector()
				}
			}
			e.Explore()
			res := workers.Result{Outcome: fmt.Sprintf("interleavings: distinct-upstream-query-counts=%d", len(outcomes))}
			if e.Capped {
				res.Outcome += " CAPPED"
			}
			res.Outcome += fmt.Sprintf("|execs=%d|points=%d", e.Executions, e.ChoicePoints)
			if e.Diverged != "" {
				res.Viol, res.What = "tool:replay-diverged", e.Diverged
			}
			if vkey != "" {
				res.Viol, res.What, res.Replay = "interleaving:"+vkey, vwhat, map[string]any{"scenario": sc, "choice_vector": vvec}
			}
			if idx%41 == shard {
				res.Sample = map[string]any{"scenario": sc, "executions": e.Executions, "outcomes": outcomes}
			}
			return res
		})
}

// RunInter is the scheduler-based part of C16 (sub-run C16I of the instrumented binary).
func RunInter(r *ev.Run) {
	bound := 2
	if r.Thorough() {
		bound = 3
	}
	scs := interScenarios(r.Thorough())
	r.Rule(fmt.Sprintf("E3: 2 (thorough also 3) client threads, each running a program of 1-2 lookups on colliding keys at chosen virtual times, a zone thread changing the data at t=1 / t=1,4, an upstream that fails during a window, upstream latency 0 or 1 s (time passes while the entry lock is held); the real, instrumented resolver (RWMutex, LRU calls, clock, DoH round trip are scheduling points); ALL schedules with at most %d deviations per scenario; monitors: no deadlock/panic, every answer is contained in an upstream answer that was still within its smallest TTL when the call started or was fetched during the call, errors only when an upstream query of that call failed, and a lookup begun after an answer was obtained sends no upstream query for that key while the answer is within its TTL. distinct = distinct scenarios", bound))
	for _, sc := range scs {
		r.Eval(fmt.Sprintf("%+v", sc), "")
	}
	done, total := workers.Spawn(r, "C16I", 4*1024*1024)
	if done != total {
		r.Cap(fmt.Sprintf("workers explored %d of %d interleaving scenarios", done, total))
	}
	execs, points := int64(0), int64(0)
	r.FoldOutcomes(func(label string, n int64) (string, map[string]int64) {
		parts := strings.Split(label, "|")
		add := map[string]int64{}
		for _, p := range parts[1:] {
			var v int64
			if _, err := fmt.Sscanf(p, "execs=%d", &v); err == nil {
				execs += v * n
			} else if _, err := fmt.Sscanf(p, "points=%d", &v); err == nil {
				points += v * n
			}
		}
		return parts[0], add
	})
	r.Set("executions", execs)
	r.Set("choice_points", points)
	r.Set("deviation_bound", bound)
}
