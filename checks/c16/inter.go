package c16

import "verif/internal/ev"

// interleavings is filled in by the scheduler-based exploration (engine E3).
var interleavings = func(r *ev.Run) {}
