package c16

import (
	"bytes"
	"context"
	"fmt"
	"net"
	"os"
	"os/exec"
	"strings"
	"time"

	"github.com/c2FmZQ/ech"
	"github.com/c2FmZQ/ech/dns"

	"verif/internal/dnsref"
	"verif/internal/dohmem"
	"verif/internal/ev"
	"verif/internal/workers"
)

// footprint is the deterministic write-footprint oracle: operations the API offers on
// results handed out by the resolver must leave every byte of backing arrays shared with
// the cache (including spare capacity) untouched.
func footprint(r *ev.Run) {
	srv := &dohmem.Server{}
	dns.VerifRoundTripper = srv
	clock := time.Unix(1000, 0)
	restore := ech.VerifSetTimeNow(func() time.Time { return clock })
	defer restore()
	for v := range versions {
		v := v
		srv.Zone = func(name string, t uint16) dohmem.Answer { return buildAnswer(name, t, v) }
		res, _ := ech.NewResolver("https://doh.test/dns-query")
		r1, err := res.Resolve(context.Background(), "n1.example")
		if err != nil {
			r.Violation("footprint:resolve-failed", err.Error(), nil)
			continue
		}
		snap := func(rr ech.ResolveResult) string {
			var b strings.Builder
			for _, h := range rr.HTTPS {
				fmt.Fprintf(&b, "alpn[%d/%d]=%q ech=%x/%d v4=%v v6=%v|", len(h.ALPN), cap(h.ALPN), h.ALPN[:cap(h.ALPN)], h.ECH[:cap(h.ECH)], len(h.ECH), h.IPv4Hint, h.IPv6Hint)
			}
			for _, ip := range rr.Address[:cap(rr.Address)] {
				fmt.Fprintf(&b, "%x ", []byte(ip))
			}
			return b.String()
		}
		// second lookup is served from the cache when the TTL allows, else refetched: both share nothing they may write
		r2, err := res.Resolve(context.Background(), "n1.example")
		if err != nil {
			continue
		}
		for _, net := range []string{"tcp", "tcp4", "tcp6", "udp"} {
			before1, before2 := snap(r1), snap(r2)
			n := 0
			for range r1.Targets(net) {
				n++
			}
			for range r2.Targets(net) {
				n++
			}
			if snap(r1) != before1 || snap(r2) != before2 {
				r.Violation("footprint:targets-writes-shared-alpn", fmt.Sprintf("enumerating Targets(%q) on a resolver result wrote into memory shared with the cached record:\n before %s\n after  %s", net, before2, snap(r2)), map[string]any{"zone_version": v, "network": net})
			}
			r.Eval(fmt.Sprintf("footprint:%d:%s", v, net), fmt.Sprintf("footprint: %d targets, shared memory untouched", n))
		}
		appendOracle(r, res, r1, r2, fmt.Sprint("zone version ", v))
		// a third Resolve must not disturb results handed out earlier
		before := snap(r1)
		clock = clock.Add(400 * time.Second)
		if _, err := res.Resolve(context.Background(), "n1.example"); err == nil && snap(r1) != before {
			r.Violation("footprint:resolve-writes-earlier-result", "a later Resolve modified a result handed out earlier", map[string]any{"zone_version": v})
		}
	}
	// a record with every parameter the resolver uses, in wire order alpn, port, ipv4hint, ech, ipv6hint (what follows a field
	// in the message is what a slice with spare capacity would expose), a target name with its own addresses, TTL 60
	{
		srv.Zone = func(name string, t uint16) dohmem.Answer {
			a := func(b byte) dnsref.RR {
				return dnsref.RR{Name: name, Type: t, Class: 1, TTL: 60, Fields: []dnsref.Field{{Raw: map[uint16][]byte{1: {10, 3, 3, b}, 28: append(make([]byte, 15), b)}[t]}}}
			}
			switch {
			case name == "n1.example" && t == 65:
				return dohmem.Answer{Records: []dnsref.RR{
					{Name: name, Type: 65, Class: 1, TTL: 60, Fields: dnsref.SVCB(1, "", []dnsref.Param{dnsref.ParamALPN("h3", "h2"), dnsref.ParamPort(8443), dnsref.ParamIPv4([]byte{192, 0, 2, 1}, []byte{192, 0, 2, 2}), dnsref.ParamECH([]byte{0xec, 1, 2, 3}), dnsref.ParamIPv6(net.ParseIP("2001:db8::1"))})},
					{Name: name, Type: 65, Class: 1, TTL: 60, Fields: dnsref.SVCB(2, "t.n1.example", []dnsref.Param{dnsref.ParamNoDefaultALPN(), dnsref.ParamALPN("h2"), dnsref.ParamECH([]byte{0xec, 9})})},
				}}
			case (name == "n1.example" || name == "t.n1.example") && (t == 1 || t == 28):
				return dohmem.Answer{Records: []dnsref.RR{a(1), a(2)}}
			}
			return dohmem.Answer{}
		}
		res, _ := ech.NewResolver("https://doh.test/dns-query")
		r1, err1 := res.Resolve(context.Background(), "n1.example")
		r2, err2 := res.Resolve(context.Background(), "n1.example")
		if err1 != nil || err2 != nil || len(r1.HTTPS) != 2 || len(r1.HTTPS[0].IPv6Hint) != 1 {
			ev.ToolError("c16 footprint: the hinted zone does not resolve as built: %v %v %+v", err1, err2, r1)
		}
		appendOracle(r, res, r1, r2, "record with hints after its ech parameter")
	}
}

// appendOracle: a consumer that APPENDS to what it was handed (never writing an element it can see) changes nothing for anybody
// else: every slice in a result ends where its data ends, it is not a window into memory that holds the next field of the
// record - the result another caller already holds (r2) and a later lookup (served from the cache or fetched again; the zone
// does not change) read the same as before.
func appendOracle(r *ev.Run, res *ech.Resolver, r1, r2 ech.ResolveResult, what string) {
	l2 := snapResult(r2)
	// (the append that writes in place is one that fits into the spare capacity: as many octets as the capacity holds)
	fill := func(b []byte, c byte) { _ = append(b, bytes.Repeat([]byte{c}, cap(b)-len(b))...) }
	for i := range r1.HTTPS {
		h := &r1.HTTPS[i]
		fill(h.ECH, 0xaa)
		_ = append(h.ALPN, "appended-by-consumer")
		for _, ip := range h.IPv4Hint {
			fill(ip, 0xbb)
		}
		for _, ip := range h.IPv6Hint {
			fill(ip, 0xcc)
		}
		_ = append(h.IPv4Hint, net.IP{9, 9, 9, 9})
		_ = append(h.IPv6Hint, net.IP{9, 9, 9, 9})
	}
	for _, ip := range r1.Address {
		fill(ip, 0xdd)
	}
	for _, ips := range r1.Additional {
		for _, ip := range ips {
			fill(ip, 0xee)
		}
	}
	oc := "consumer appends: nothing shared is written"
	if got := snapResult(r2); got != l2 {
		oc = "consumer appends reach another result"
		r.Violation("footprint:consumer-append-reaches-another-result", fmt.Sprintf("a consumer appended to the slices of the result it was handed (no element it could see was written); the result ANOTHER caller holds for the same name now reads\n %s\nbefore\n %s", got, l2), what)
	}
	if r3, err := res.Resolve(context.Background(), "n1.example"); err == nil {
		if got := snapResult(r3); got != l2 {
			oc = "consumer appends reach the cache"
			r.Violation("footprint:consumer-append-reaches-the-cache", fmt.Sprintf("a consumer appended to the slices of the result it was handed; the next lookup of the name returns\n %s\nbefore\n %s", got, l2), what)
		}
	}
	r.Eval("footprint-append:"+what, oc)
}

// multiRecord: names whose HTTPS RRset has several records (out of priority order; alias-mode record in the middle):
// two lookups within the TTL and one after it give the same content, none panics, and nothing handed out earlier changes.
// constructors: every exported way to obtain a DoH Resolver gives one that caches (the histories use NewResolver only).
func constructors(r *ev.Run) {
	srv := &dohmem.Server{}
	dns.VerifRoundTripper = srv
	clock := time.Unix(1000, 0)
	restore := ech.VerifSetTimeNow(func() time.Time { return clock })
	defer restore()
	srv.Zone = ZoneV0
	nr, _ := ech.NewResolver("https://doh.test/dns-query")
	for name, res := range map[string]*ech.Resolver{"CloudflareResolver": ech.CloudflareResolver(), "GoogleResolver": ech.GoogleResolver(), "WikimediaResolver": ech.WikimediaResolver(), "NewResolver": nr, "DefaultResolver": ech.DefaultResolver} {
		srv.Reset()
		_, err1 := res.Resolve(context.Background(), "n1.example")
		first := len(srv.Queries())
		clock = clock.Add(time.Second) // n1's records live 2 s or longer
		_, err2 := res.Resolve(context.Background(), "n1.example")
		again := len(srv.Queries()) - first
		oc := "constructor -> caching resolver"
		if err1 != nil || err2 != nil || first == 0 || again != 0 {
			oc = "constructor -> NOT caching"
			r.Violation("constructor-without-cache:"+name, fmt.Sprintf("a resolver from %s: first lookup %d upstream queries (%v), the same lookup one second later %d more (%v); every record of the answers lives 2 s or longer", name, first, err1, again, err2), name)
		}
		r.Eval("constructor:"+name, oc)
	}
}

func multiRecord(r *ev.Run) {
	srv := &dohmem.Server{}
	dns.VerifRoundTripper = srv
	clock := time.Unix(1000, 0)
	restore := ech.VerifSetTimeNow(func() time.Time { return clock })
	defer restore()
	srv.Zone = MultiZone(0)
	show := func(rr ech.ResolveResult) string {
		var b strings.Builder
		for _, h := range rr.HTTPS {
			fmt.Fprintf(&b, "prio=%d target=%q alpn=%q ech=%x|", h.Priority, h.Target, h.ALPN, h.ECH)
		}
		return b.String() + fmt.Sprint(rr.Address)
	}
	for _, name := range []string{"n3.example", "n4.example"} {
		for _, gap := range []time.Duration{0, time.Second, 3 * time.Second} { // within the TTL (2 s) twice, then after it
			res, _ := ech.NewResolver("https://doh.test/dns-query")
			var outs []string
			var q []int
			func() {
				defer func() {
					if p := recover(); p != nil {
						r.Violation("multi-record:panic", fmt.Sprintf("Resolve(%q) number %d (gap %v) panicked: %v", name, len(outs)+1, gap, p), map[string]any{"name": name, "gap": gap.String()})
					}
				}()
				for i := 0; i < 3; i++ {
					before := len(srv.Queries())
					rr, err := res.Resolve(context.Background(), name)
					if err != nil {
						r.Violation("multi-record:resolve-failed", fmt.Sprintf("Resolve(%q) number %d: %v", name, i+1, err), nil)
						return
					}
					for range rr.Targets("tcp") {
					}
					outs = append(outs, show(rr))
					q = append(q, len(srv.Queries())-before)
					clock = clock.Add(gap)
				}
			}()
			for i := 1; i < len(outs); i++ {
				if outs[i] != outs[0] {
					r.Violation("multi-record:repeated-lookup-differs", fmt.Sprintf("Resolve(%q) number %d (served %s) returns\n %s\nthe first one returned\n %s", name, i+1, map[bool]string{true: "from the cache", false: "by new queries"}[q[i] == 0], outs[i], outs[0]), map[string]any{"name": name, "gap": gap.String()})
					break
				}
			}
			if len(outs) == 3 && gap < 2*time.Second && (q[1] != 0 || q[2] != 0) && gap == 0 {
				r.Violation("multi-record:query-within-ttl", fmt.Sprintf("lookups 2 and 3 of %q at the same instant sent %d and %d upstream queries", name, q[1], q[2]), nil)
			}
			if name == "n3.example" && len(outs) > 0 && !strings.HasPrefix(outs[0], "prio=1") {
				r.Violation("multi-record:not-ordered", "service-mode records not ordered by priority: "+outs[0], nil)
			}
			r.Eval(fmt.Sprintf("multi:%s:%v", name, gap), fmt.Sprintf("multi-record RRset: %d lookups agree", len(outs)))
		}
	}
}

func Run(r *ev.Run) {
	depth := 6
	if r.Thorough() {
		depth = 8
	}
	r.Rule(fmt.Sprintf("E4 histories: EVERY sequence of length %d (hence all shorter ones as prefixes) over the 11-event alphabet {resolve(n1), resolve(n2), advance 1s/5s/300s, toggle NXDOMAIN for HTTPS queries only, re-size the cache to 64, zone->next version (3 versions whose answers differ in content and carry TTL vectors [5],[2,5],[5,2],[0],[0,5],[1],[2,2],[1000],[1000,400], CNAME+A, CNAME-only, empty), toggle upstream SERVFAIL (carrying a CNAME in its answer section), toggle upstream HTTP 400, toggle upstream RCODE 9 (a failure code without a named error)} replayed on a fresh Resolver with a virtual clock (starting 700 ms past a whole second) and an in-memory DoH responder, a map-based cache model stepped alongside: per call the model predicts for each key (name,type) whether an upstream query must / must not be sent and which zone version the returned content may come from; plus the deterministic write-footprint oracle on results sharing cached records and repeated lookups of names whose HTTPS RRset has several records (out of priority order / an alias-mode record in the middle); interleavings are explored by the scheduler-based part (see evidence key interleavings). distinct = distinct histories", depth))
	r.Assume("responses without any record have no TTL: the property sets no bound for them (the code keeps them 300 s); either a query or a cache hit is accepted for such keys",
		"clock and DoH transport are owned through the verif hooks; 5xx upstream failures are not used because retryablehttp would back off in real time",
		"plain-memory data races are outside a cooperative scheduler's sight: the write-footprint oracle covers writes by operations that must be read-only")
	k := len(eventNames)
	total := 1
	for i := 0; i < depth; i++ {
		total *= k
	}
	done, tot := workers.Spawn(r, "C16", 2*1024*1024, "hist")
	for i := 0; i < tot; i++ {
		// distinct histories: the index is the identity
		if i%1 == 0 {
			r.Eval(fmt.Sprint("h", i), "")
		}
	}
	r.Set("histories", tot)
	r.Set("histories_replayed", done)
	r.Set("history_depth", depth)
	r.Set("states", tot)
	r.Set("transitions", tot*depth)
	r.Set("traces_validated_against_impl", done)
	if done != tot || tot != total {
		r.Cap(fmt.Sprintf("workers replayed %d of %d histories", done, total))
	}
	footprint(r)
	multiRecord(r)
	constructors(r)
	interleavings(r)
	if os.Getenv("VERIF_RACE_PASS") != "0" {
		racePass(r) // supplementary and sampled; reported separately, never counted as exploration
	}
}

// racePass is the supplementary free-running pass under the race detector (sampled; reported separately).
func racePass(r *ev.Run) {
	cmd := exec.Command("go", "test", "-race", "-tags", "verif", "-count=1", "-run", "TestRacePass", "./checks/c16/racepass/")
	cmd.Dir = ev.Root()
	out, err := cmd.CombinedOutput()
	res := "no report (sampled: proves nothing)"
	if strings.Contains(string(out), "DATA RACE") {
		res = "DATA RACE reported"
		i := strings.Index(string(out), "WARNING: DATA RACE")
		r.Violation("race-detector-report", "the race detector reports a data race in concurrent Resolve/Targets:\n"+string(out[i:min(len(out), i+1500)]), nil)
	} else if strings.Contains(string(out), "fatal error: concurrent map") {
		res = "concurrent map access"
		i := strings.Index(string(out), "fatal error: concurrent map")
		r.Violation("race-detector-report", "concurrent Resolve/Targets crash the process:\n"+string(out[i:min(len(out), i+1500)]), nil)
	} else if err != nil {
		res = "could not run: " + err.Error()
	}
	r.Set("supplementary_race_pass", map[string]any{"kind": "sampled, 8 goroutines x 200 iterations, go test -race; not counted as exploration", "result": res})
}
