//go:build vsched

// Package vnet is a net.Conn for executions under the controlled scheduler: Read
// blocks through the scheduler until data, end of stream, Close or the (virtual)
// deadline; deadline calls are recorded with their virtual time and sequence number.
package vnet

import (
	"errors"
	"io"
	"net"
	"os"
	"time"

	vs "github.com/c2FmZQ/ech/vsched"
)

type Call struct {
	Kind string // SetDeadline | SetReadDeadline | SetWriteDeadline | Close | Read | Write
	T    time.Time
	At   time.Duration
	Seq  int
}

type Conn struct {
	in     []byte
	end    error
	closed bool
	// readShut / writeShut: one direction was shut down (TCPLike.CloseRead / CloseWrite)
	readShut, writeShut bool
	rdl                 time.Time
	wdl                 time.Time
	Out                 []byte
	Calls               []Call
	seq                 int
	Blocked             bool // a Write never completes unless the write deadline passes (a stalled peer on a synchronous transport)
	// YieldAfterWrite adds a scheduling point between the delivery of the bytes to the peer and the return of Write
	// (the peer may react before the writer runs on)
	YieldAfterWrite bool
	// DeadlineErr: the Set*Deadline calls take effect and then report an error (a transport wrapper whose underlying call half
	// succeeded)
	DeadlineErr bool
	// DeadlineDelay: SetDeadline takes this long (virtual time) before it takes effect and returns
	DeadlineDelay time.Duration
	// ServeBufferedFirst: bytes already received are handed out whatever the read deadline says (a connection wrapped by a
	// buffering reader - a protocol sniffer, a PROXY-protocol listener - serves what it has peeked before it asks the socket)
	ServeBufferedFirst bool
}

var errDeadline = errors.New("vnet: deadline call reports an error")

func (c *Conn) dlErr() error {
	if c.DeadlineErr {
		return errDeadline
	}
	return nil
}

func New() *Conn { return &Conn{} }

// TCPLike is a Conn that also offers what *net.TCPConn offers beyond net.Conn: CloseRead and CloseWrite (code that
// type-asserts these optional methods takes another path over such a transport than over a plain net.Conn).
type TCPLike struct{ *Conn }

// CloseRead shuts the read side down: pending and later Reads end with io.EOF.
func (c TCPLike) CloseRead() error {
	c.log("CloseRead", time.Time{})
	c.readShut = true
	return nil
}

// CloseWrite shuts the write side down: later Writes fail; the read side is unaffected.
func (c TCPLike) CloseWrite() error {
	c.log("CloseWrite", time.Time{})
	c.writeShut = true
	return nil
}

func (c *Conn) log(kind string, t time.Time) {
	c.seq++
	c.Calls = append(c.Calls, Call{kind, t, vs.Elapsed(), c.seq})
}

// Seq is the sequence number of the last recorded call.
func (c *Conn) Seq() int { return c.seq }

// Feed appends inbound bytes (call from any thread).
func (c *Conn) Feed(b []byte) { c.in = append(c.in, b...) }
func (c *Conn) End(err error) { c.end = err }

func passed(t time.Time) bool { return !t.IsZero() && !vs.Now().Before(t) }

func (c *Conn) Read(p []byte) (int, error) {
	vs.WaitUntil("conn.Read", func() bool { return len(c.in) > 0 || c.end != nil || c.closed || c.readShut || passed(c.rdl) })
	if c.ServeBufferedFirst && len(c.in) > 0 && !c.closed && !c.readShut {
		n := copy(p, c.in)
		c.in = c.in[n:]
		return n, nil
	}
	switch {
	case c.closed:
		return 0, net.ErrClosed
	case c.readShut:
		return 0, io.EOF
	case passed(c.rdl):
		return 0, os.ErrDeadlineExceeded
	case len(c.in) > 0:
		n := copy(p, c.in)
		c.in = c.in[n:]
		return n, nil
	}
	if c.end == nil {
		return 0, io.ErrUnexpectedEOF
	}
	return 0, c.end
}

func (c *Conn) Write(p []byte) (int, error) {
	if c.Blocked {
		vs.WaitUntil("conn.Write (peer not reading)", func() bool { return c.closed || passed(c.wdl) })
	} else {
		vs.Yield("conn.Write")
	}
	switch {
	case c.closed:
		return 0, net.ErrClosed
	case c.writeShut:
		return 0, errors.New("vnet: write after CloseWrite")
	case passed(c.wdl):
		return 0, os.ErrDeadlineExceeded
	}
	c.Out = append(c.Out, p...)
	if c.YieldAfterWrite {
		vs.Yield("conn.Write delivered")
	}
	return len(p), nil
}

func (c *Conn) Close() error {
	c.log("Close", time.Time{})
	c.closed = true
	return nil
}

func (c *Conn) Closed() bool { return c.closed }

func (c *Conn) arm(t time.Time) {
	if !t.IsZero() && t.After(vs.Now()) {
		vs.AddTimer(t.Sub(vs.Now()), "conn-deadline", func() {})
	}
}

func (c *Conn) SetDeadline(t time.Time) error {
	if c.DeadlineDelay > 0 {
		// a transport on which setting a deadline takes time (it waits for a lock that a Write in progress holds, say): the call
		// takes effect, and returns, only then
		vs.Sleep(c.DeadlineDelay)
	}
	c.log("SetDeadline", t)
	c.rdl, c.wdl = t, t
	c.arm(t)
	return c.dlErr()
}

func (c *Conn) SetReadDeadline(t time.Time) error {
	c.log("SetReadDeadline", t)
	c.rdl = t
	c.arm(t)
	return c.dlErr()
}

func (c *Conn) SetWriteDeadline(t time.Time) error {
	c.log("SetWriteDeadline", t)
	c.wdl = t
	c.arm(t)
	return c.dlErr()
}

// Deadlines returns the effective read and write deadlines.
func (c *Conn) Deadlines() (time.Time, time.Time) { return c.rdl, c.wdl }

type addr struct{}

func (addr) Network() string         { return "vnet" }
func (addr) String() string          { return "vnet" }
func (c *Conn) LocalAddr() net.Addr  { return addr{} }
func (c *Conn) RemoteAddr() net.Addr { return addr{} }
