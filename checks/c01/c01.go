// Package c01 decides C01: the split-mode ECH handshake completes end to end and
// routes on the inner hello. Exhaustive configuration grid through three real
// stacks (crypto/tls client, ech.Conn, crypto/tls backend), engine E1, with a
// direct (no ech.Conn) handshake of the same configurations as differential oracle.
package c01

import (
	"context"
	"crypto/tls"
	"errors"
	"fmt"
	"net"
	"slices"
	"strings"

	"github.com/c2FmZQ/ech"

	"verif/internal/echx"
	"verif/internal/enum"
	"verif/internal/ev"
	"verif/internal/memnet"
	"verif/internal/tlsref"
	"verif/internal/tlsx"
)

const pubName = "public.example"
const oldPubName = "old-public.example"

type cfg struct {
	ClientCurves  int  `json:"client_curves"`  // 0 default, 1 [X25519], 2 [P256], 3 [X25519,P256]
	BackendCurves int  `json:"backend_curves"` // 0 default, 1 [P256]
	ClientALPN    int  `json:"client_alpn"`    // 0 none, 1 [h2], 2 [h2,http/1.1]
	BackendALPN   int  `json:"backend_alpn"`   // 0 none, 1 [http/1.1,h2]
	NameLen       int  `json:"server_name_len"`
	Warm          bool `json:"warm_session_cache"`
	ClientCert    int  `json:"client_cert_pad"` // -1 none, else pad bytes
	Chain         int  `json:"backend_cert_pad"`
	KeySet        int  `json:"key_set"` // 0 [T], 1 [T,otherId], 2 [sameId,T], 3 [T,sameId]
	AEAD          int  `json:"aead"`
	Stale         int  `json:"client_config"` // 0 fresh, 1 stale (other id), 2 stale (same id as the current key), 3 stale (same id, the public name has changed since)
}

var curveSets = [][]tls.CurveID{nil, {tls.X25519}, {tls.CurveP256}, {tls.X25519, tls.CurveP256}}
var backendCurveSets = [][]tls.CurveID{nil, {tls.CurveP256}}
var clientALPNs = [][]string{nil, {"h2"}, {"h2", "http/1.1"}}
var backendALPNs = [][]string{nil, {"http/1.1", "h2"}}

func serverName(n int) string {
	// n = 0: the client names its server by IP literal: no server_name extension is sent at all (neither inner nor ... the
	// outer hello still carries the public name)
	if n == 0 {
		return "192.0.2.77"
	}
	// n = -1: a name with upper-case letters: crypto/tls sends it verbatim, the backend sees it verbatim, so must the Conn report it
	if n == -1 {
		return "Mixed.CASE.Example"
	}
	// valid DNS name of exactly n bytes with >= 2 labels
	if n < 3 {
		n = 3
	}
	var b strings.Builder
	for b.Len() < n {
		rem := n - b.Len()
		l := min(rem, 63)
		if rem-l == 1 {
			l--
		}
		b.WriteString(strings.Repeat("s", l))
		if b.Len() < n {
			b.WriteByte('.')
		}
	}
	return b.String()
}

type env struct {
	T, S1, S2, S3, otherID, sameID echx.KeyPair
}

func mkEnv(aead int) env {
	suite := []tlsref.Suite{{KDF: 1, AEAD: uint16(aead)}}
	return env{
		T:       echx.NewKey(fmt.Sprintf("c01-T-%d", aead), 42, suite, pubName),
		S1:      echx.NewKey(fmt.Sprintf("c01-S1-%d", aead), 17, suite, pubName),    // stale, other id
		S2:      echx.NewKey(fmt.Sprintf("c01-S2-%d", aead), 42, suite, pubName),    // stale, same id as T
		S3:      echx.NewKey(fmt.Sprintf("c01-S3-%d", aead), 42, suite, oldPubName), // stale, same id as T, former public name
		otherID: echx.NewKey("c01-other", 99, echx.AllSuites, pubName),
		sameID:  echx.NewKey("c01-same", 42, echx.AllSuites, pubName),
	}
}

func (e env) keySet(k int) []ech.Key {
	switch k {
	case 0:
		return echx.Keys(e.T)
	case 1:
		return echx.Keys(e.T, e.otherID)
	case 2:
		return echx.Keys(e.sameID, e.T)
	}
	return echx.Keys(e.T, e.sameID)
}

func configList(k echx.KeyPair) []byte {
	l, _ := ech.ConfigList([]ech.Config{k.Cfg.Raw})
	return l
}

type outcome struct {
	OK         bool
	ALPN       string
	Resumed    bool
	Err        string
	SeenName   string
	SeenProtos []string
}

// attempt performs one client connection. useECH=false: direct handshake to the backend (oracle run).
func attempt(c cfg, e env, name string, ccfg *tls.Config, backend *tls.Config, publicSrv *tls.Config, useECH bool) (out outcome, conn *ech.Conn, rej *tls.ECHRejectionError) {
	var seenName string
	var seenProtos []string
	bcfg := backend.Clone()
	bcfg.GetConfigForClient = func(chi *tls.ClientHelloInfo) (*tls.Config, error) {
		seenName, seenProtos = chi.ServerName, slices.Clone(chi.SupportedProtos)
		return nil, nil
	}
	hs := tlsx.Handshake(ccfg, func(t *memnet.Conn) (*tls.Conn, error) {
		if !useECH {
			s := tls.Server(t, bcfg)
			return s, s.Handshake()
		}
		var err error
		conn, err = ech.NewConn(context.Background(), t, ech.WithKeys(e.keySet(c.KeySet)))
		if err != nil {
			if n := t.FirstHandshakeLen(); n+4 > 16384 {
				// the ClientHello message is longer than one record can hold: it spans several records
				return nil, fmt.Errorf("NewConn (ClientHello spans records, message length %d): %w", n, err)
			}
			return nil, fmt.Errorf("NewConn: %w", err)
		}
		target := bcfg
		if !conn.ECHAccepted() {
			// split mode: the outer hello is routed to the public-name server
			if conn.ServerName() != pubName && conn.ServerName() != oldPubName {
				return nil, fmt.Errorf("not accepted and outer SNI %q is not the public name", conn.ServerName())
			}
			target = publicSrv
		}
		s := tls.Server(conn, target)
		return s, s.Handshake()
	})
	out.SeenName, out.SeenProtos = seenName, seenProtos
	if hs.ClientErr != nil {
		errors.As(hs.ClientErr, &rej)
		out.Err = fmt.Sprintf("client: %v | server: %v", hs.ClientErr, hs.ServerErr)
		return
	}
	if hs.ServerErr != nil {
		out.Err = fmt.Sprintf("server: %v", hs.ServerErr)
		return
	}
	if !hs.Pong {
		out.Err = "application data did not flow both ways"
		return
	}
	out.OK = true
	out.ALPN = hs.ClientState.NegotiatedProtocol
	out.Resumed = hs.ClientState.DidResume
	if useECH && !hs.ClientState.ECHAccepted {
		out.OK = false
		out.Err = "client does not observe ECH acceptance"
	}
	if hs.ServerState.NegotiatedProtocol != out.ALPN {
		out.OK = false
		out.Err = "client and backend disagree on ALPN"
	}
	return
}

func evalCfg(c cfg) (key, what, oc string) {
	e := mkEnv(c.AEAD)
	name := serverName(c.NameLen)
	backendCert := tlsx.Leaf(c.Chain, false, name)
	backend := &tls.Config{Certificates: []tls.Certificate{backendCert}, MinVersion: tls.VersionTLS13, NextProtos: backendALPNs[c.BackendALPN], CurvePreferences: backendCurveSets[c.BackendCurves]}
	backend.SetSessionTicketKeys([][32]byte{{1, 2, 3}}) // explicit: clones of the config share it, so resumption works across connections
	if c.ClientCert >= 0 {
		backend.ClientAuth = tls.RequireAndVerifyClientCert
		backend.ClientCAs = tlsx.Pool()
	}
	// the public-name server uses the same curve preferences as the backend, so that a stale-config
	// handshake can also go through a HelloRetryRequest (on the OUTER hello)
	publicSrv := &tls.Config{Certificates: []tls.Certificate{tlsx.Leaf(0, false, pubName, oldPubName)}, MinVersion: tls.VersionTLS13,
		EncryptedClientHelloKeys: []tls.EncryptedClientHelloKey{e.T.Key()}, CurvePreferences: backendCurveSets[c.BackendCurves]}
	mkClient := func(list []byte, cache tls.ClientSessionCache) *tls.Config {
		cc := &tls.Config{ServerName: name, RootCAs: tlsx.Pool(), MinVersion: tls.VersionTLS13, NextProtos: clientALPNs[c.ClientALPN],
			CurvePreferences: curveSets[c.ClientCurves], EncryptedClientHelloConfigList: list, ClientSessionCache: cache}
		if c.ClientCert >= 0 {
			cc.Certificates = []tls.Certificate{tlsx.Leaf(c.ClientCert, true, "client.example")}
		}
		return cc
	}
	newCache := func() tls.ClientSessionCache {
		if c.Warm {
			return tls.NewLRUClientSessionCache(4)
		}
		return nil
	}
	// ---- oracle run: the same client/backend pair without ECH and without ech.Conn ----
	dcache := newCache()
	direct, _, _ := attempt(c, e, name, mkClient(nil, dcache), backend, publicSrv, false)
	var direct2 outcome
	if c.Warm && direct.OK {
		direct2, _, _ = attempt(c, e, name, mkClient(nil, dcache), backend, publicSrv, false)
	}
	if !direct.OK {
		// this client/backend pair cannot talk at all (e.g. no common curve): not a conforming configuration
		return "", "", "not-conforming:" + firstWords(direct.Err)
	}

	list := configList(e.T)
	switch c.Stale {
	case 1:
		list = configList(e.S1)
	case 2:
		list = configList(e.S2)
	case 3:
		list = configList(e.S3)
	}
	cache := newCache()
	check := func(o outcome, conn *ech.Conn, ref outcome, phase string) (string, string) {
		if !o.OK {
			return "handshake-failed:" + phase + ":" + classify(o.Err, c), fmt.Sprintf("%s: split-mode handshake failed where the direct one succeeds: %s", phase, o.Err)
		}
		if conn == nil || !conn.ECHAccepted() {
			return "conn-not-accepted:" + phase, "Conn.ECHAccepted() is false on a fresh config"
		}
		wantSN := name
		if net.ParseIP(name) != nil {
			wantSN = "" // an IP literal is never sent as server_name: the inner hello has none, and that is what must be reported
		}
		if conn.ServerName() != wantSN || o.SeenName != wantSN {
			return "server-name:" + phase, fmt.Sprintf("Conn.ServerName()=%q backend saw %q, client asked %q (server_name on the wire: %q)", conn.ServerName(), o.SeenName, name, wantSN)
		}
		if l := conn.ALPNProtos(); len(l) > 0 {
			// a caller that sorts / edits the list it was handed must not change what the Conn reports (nor what the retry rules compare)
			l[0] = "tampered-by-caller"
		}
		if !slices.Equal(conn.ALPNProtos(), clientALPNs[c.ClientALPN]) || !slices.Equal(o.SeenProtos, clientALPNs[c.ClientALPN]) {
			return "alpn-list:" + phase, fmt.Sprintf("Conn.ALPNProtos()=%q backend saw %q, client offered %q", conn.ALPNProtos(), o.SeenProtos, clientALPNs[c.ClientALPN])
		}
		if o.ALPN != ref.ALPN {
			return "negotiated-alpn:" + phase, fmt.Sprintf("negotiated %q, direct handshake negotiates %q", o.ALPN, ref.ALPN)
		}
		if o.Resumed != ref.Resumed {
			return "resumption:" + phase, fmt.Sprintf("DidResume=%v, direct handshake %v", o.Resumed, ref.Resumed)
		}
		return "", ""
	}
	if c.Stale != 0 {
		o, conn, rej := attempt(c, e, name, mkClient(list, cache), backend, publicSrv, true)
		if o.OK {
			return "stale-config-accepted", "handshake with a stale config completed with ECH", ""
		}
		if conn == nil {
			return "stale:newconn-failed", "NewConn failed on a hello encrypted to a key the server no longer holds: " + o.Err, ""
		}
		if conn.ECHAccepted() {
			return "stale:conn-accepted", "Conn reports acceptance for a stale config", ""
		}
		if rej == nil {
			return "stale:no-rejection-error:" + classify(o.Err, c), "client did not obtain an ECHRejectionError (the outer hello did not reach the public-name server intact): " + o.Err, ""
		}
		if string(rej.RetryConfigList) != string(configList(e.T)) {
			return "stale:retry-configs", fmt.Sprintf("retry configs %x differ from the server's %x", rej.RetryConfigList, configList(e.T)), ""
		}
		list = rej.RetryConfigList
	}
	o1, conn1, _ := attempt(c, e, name, mkClient(list, cache), backend, publicSrv, true)
	if k, w := check(o1, conn1, direct, "first"); k != "" {
		return k, w, ""
	}
	oc = "ok"
	if c.Warm {
		o2, conn2, _ := attempt(c, e, name, mkClient(list, cache), backend, publicSrv, true)
		if k, w := check(o2, conn2, direct2, "resumed"); k != "" {
			return k, w, ""
		}
		oc = fmt.Sprintf("ok resumed=%v", o2.Resumed)
	}
	if c.Stale != 0 {
		oc += " after-retry-configs"
	}
	return "", "", oc
}

func firstWords(s string) string {
	if len(s) > 60 {
		s = s[:60]
	}
	return s
}

func classify(errStr string, c cfg) string {
	switch {
	case strings.Contains(errStr, "ClientHello spans records"):
		return "clienthello-spans-records"
	case strings.Contains(errStr, "record length"):
		return "record-length"
	case strings.Contains(errStr, "decode error"):
		return "decode-error"
	case strings.Contains(errStr, "bad record MAC"):
		return "bad-record-mac"
	}
	return fmt.Sprintf("other(chain=%d,clientcert=%d)", c.Chain, c.ClientCert)
}

func Run(r *ev.Run) {
	r.Rule("E1 exhaustive product of real-stack configurations: client curve lists {default(X25519MLKEM768 first), [X25519], [P256], [X25519,P256]} x backend curves {default,[P256]} (HelloRetryRequest whenever the first share is unusable) x client ALPN {none,[h2],[h2,http/1.1]} x backend ALPN {none,[http/1.1,h2]} x server name {a name with upper-case letters, an IP literal (no server_name sent), DNS names of 3, 63, 253 bytes} x session cache {cold, warm: second connection resumes} x client certificate {none, small, 17 KB} x backend certificate {0.5, 12, 17, 40 KB} x key set {[T],[T,other id],[same id,T],[T,same id]} x AEAD {1,2,3} x client config {fresh, stale other id, stale same id, stale same id with a former public name}; quick = full product over a reduced domain per dimension (stated in evidence), thorough = full product. Each point: direct handshake without ech.Conn as oracle, then split-mode handshake(s); distinct = distinct configuration points that are conforming (direct handshake succeeds)")
	r.Assume("crypto/tls (go1.24) client and server are conforming TLS 1.3 / ECH implementations", "real TLS stacks run goroutines outside any scheduler: a failing point is re-executed and reported only if it fails 5 times out of 5 (else counted as unstable)")
	type dom struct {
		cc, bc, ca, ba, nl, warm, cert, chain, ks, aead, stale []int
	}
	d := dom{cc: []int{0, 1, 2, 3}, bc: []int{0, 1}, ca: []int{0, 1, 2}, ba: []int{0, 1}, nl: []int{-1, 0, 3, 63, 253}, warm: []int{0, 1},
		cert: []int{-1, 0, 17000}, chain: []int{0, 12000, 17000, 40000}, ks: []int{0, 1, 2, 3}, aead: []int{1, 2, 3}, stale: []int{0, 1, 2, 3}}
	if !r.Thorough() {
		d = dom{cc: []int{0, 3}, bc: []int{0, 1}, ca: []int{0, 2}, ba: []int{0, 1}, nl: []int{-1, 0, 3, 253}, warm: []int{0, 1},
			cert: []int{-1, 17000}, chain: []int{0, 17000, 40000}, ks: []int{0, 2}, aead: []int{1, 3}, stale: []int{0, 1, 2, 3}}
	}
	r.Set("domain", fmt.Sprintf("%+v", d))
	prod := enum.Product{len(d.cc), len(d.bc), len(d.ca), len(d.ba), len(d.nl), len(d.warm), len(d.cert), len(d.chain), len(d.ks), len(d.aead), len(d.stale)}
	r.Set("grid_points", prod.Size())
	enum.ParallelFor(prod.Size(), func(i int) {
		x := prod.Decode(i)
		c := cfg{d.cc[x[0]], d.bc[x[1]], d.ca[x[2]], d.ba[x[3]], d.nl[x[4]], d.warm[x[5]] == 1, d.cert[x[6]], d.chain[x[7]], d.ks[x[8]], d.aead[x[9]], d.stale[x[10]]}
		key, what, oc := evalCfg(c)
		if key != "" {
			// 5/5 re-execution rule
			fails := 1
			for k := 0; k < 4; k++ {
				if k2, _, _ := evalCfg(c); k2 != "" {
					fails++
				}
			}
			if fails == 5 {
				if r.Violation(key, what, c) {
					oc = "VIOLATION " + key
				} else {
					oc = "known-finding " + key
				}
			} else {
				r.Add("unstable", 1)
				oc = "unstable"
			}
		}
		nt := ""
		if !strings.HasPrefix(oc, "not-conforming") {
			nt = fmt.Sprintf("%+v", c)
		}
		r.Eval(nt, oc)
		if i%(prod.Size()/5+1) == 9 {
			r.Sample(c)
		}
	})
}
