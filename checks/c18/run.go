//go:build vsched

package c18

import (
	"encoding/json"
	"fmt"
	"os"
	"strings"
	"time"

	vs "github.com/c2FmZQ/ech/vsched"

	"verif/internal/ev"
	"verif/internal/racepass"
	"verif/internal/workers"
)

func bounds(tier string) (bound, maxExecs int) {
	if tier == "thorough" {
		return 2, 200000
	}
	return 1, 20000
}

// Worker explores scenarios idx = shard, shard+n, ...
func Worker(tier string, shard, n int) {
	scs := scenarios(tier == "thorough")
	bound, maxExecs := bounds(tier)
	workers.Serve(shard, n, len(scs), 120*time.Second,
		func(idx int) any { return map[string]any{"family": "scenario", "scenario": scs[idx]} },
		func(idx int) workers.Result {
			sc := scs[idx]
			b := bound
			if tier == "thorough" && len(sc.Plans) == 4 {
				b = 1
			}
			if tier != "thorough" && len(sc.Plans) <= 2 {
				b = 2 // small scenarios get one more deviation in the quick tier as well
			}
			e, k, w, vec, oc := exploreScenario(sc, b, maxExecs)
			res := workers.Result{Outcome: fmt.Sprintf("targets=%d distinct-outcomes=%d", len(sc.Plans), len(oc))}
			if e.Diverged != "" {
				res.Viol, res.What = "tool:replay-diverged", e.Diverged
			}
			if k != "" {
				res.Viol, res.What, res.Replay = k, w, replayFile{sc, vec}
			}
			if e.Capped {
				res.Outcome += " CAPPED"
			}
			res.Sample = nil
			if idx%4001 == shard {
				res.Sample = map[string]any{"scenario": sc, "executions": e.Executions, "choice_points": e.ChoicePoints, "max_depth": e.MaxDepth, "outcomes": oc}
			}
			// executions are reported through a side channel in the outcome histogram
			res.Outcome = fmt.Sprintf("%s|execs=%d|points=%d", res.Outcome, e.Executions, e.ChoicePoints)
			return res
		})
}

func Run(r *ev.Run, replay string) {
	if r.Tier == "replay" {
		b, err := os.ReadFile(replay)
		if err != nil {
			ev.ToolError("%v", err)
		}
		var f struct {
			Replay replayFile `json:"replay"`
		}
		if err := json.Unmarshal(b, &f); err != nil {
			ev.ToolError("%v", err)
		}
		tr, s := runTraced(f.Replay.Scenario, f.Replay.Vector)
		k, w := monitor(f.Replay.Scenario, tr, s)
		for _, l := range s.Trace {
			fmt.Println(l)
		}
		fmt.Printf("verdict: %q %s\n", k, w)
		if k != "" {
			r.Violation(k, w, f.Replay)
		}
		return
	}
	bound, maxExecs := bounds(r.Tier)
	scs := scenarios(r.Thorough())
	r.Rule(fmt.Sprintf("E3 stateless exploration of the real Dial (sources rewritten at check time into scheduler shims, built with -overlay) in virtual time: scenarios = 0..%d targets x per-target plan {succeed@0/1/3, fail@0/1/3, hang, resolution error, succeed@3 but 2 s slow to notice cancellation, ECH rejection with retry configs @1 followed by a retry that hangs, succeed@3 without watching the context (i.e. possibly after the per-attempt timeout), a host name whose DNS lookups take 3 s each (scheduler-aware in-memory DoH; a lookup in flight ends when its context does) and which then accepts at once, another host name on the previous target's address} x MaxConcurrency 1..3 x (delay,timeout) in {(2,5),(1,2)} x caller cancellation {never, t=0, 1, 4} (+ for <=2 targets: a PublicName from which no ECH config can be built, so that Dial fails during set-up; and the same scenarios with the Dialer instantiated for an interface connection type, Dialer[io.Closer]) + families with the documented defaults, delay > timeout, a caller deadline, a caller context of the caller's own type, RequireECH, and failures whose error wraps context.Canceled while no context of Dial is cancelled; for each scenario ALL schedules with at most %d deviations (quick: one more for scenarios with <=2 targets; thorough: one less for 4 targets) (a deviation = any non-default choice: preemption / non-canonical thread pick, non-first ready select case, non-first order of simultaneous timers), capped at %d executions per scenario; monitors over the virtual-time event log (order, in-flight bound, staggering, per-target timeout incl. the ECH retry, first success wins, closing, prompt cancellation, no thread started by Dial finishing later than Dial's return and the last DialFunc return, none blocked forever). distinct = distinct scenarios; executions/choice points are reported separately", len(scs[len(scs)-1].Plans), bound, maxExecs))
	r.Assume("computation takes zero virtual time; memory is sequentially consistent at synchronisation granularity", "addresses are IP literals (no DNS); DialFunc is a scripted fake that honours its context")
	for i := range scs {
		r.Eval(fmt.Sprintf("%+v", scs[i]), "")
	}
	done, total := workers.Spawn(r, "C18", 4*1024*1024)
	r.Set("scenarios", total)
	r.Set("scenarios_explored", done)
	r.Set("deviation_bound", bound)
	if done != total {
		r.Cap(fmt.Sprintf("workers explored %d of %d scenarios", done, total))
	}
	if n := aggregateExecs(r); n > 0 {
		r.Cap(fmt.Sprintf("deviation bound %d was not completed in %d of %d scenarios (execution cap per scenario)", bound, n, total))
	}
	r.MirrorCounters("choice_points", "states", "transitions")
	r.MirrorCounters("executions", "traces_validated_against_impl")
	// supplementary, over real loopback sockets; reported separately, never counted as exploration: the DialFunc that NewDialer
	// installs (replaced by a scripted fake in every scenario above) closes the connection of an attempt that fails by itself,
	// is bounded by its context when the peer never answers, and leaves no deadline behind on the connection it returns
	racepass.Run(r, "./checks/c18/realsock/", "the DialFunc that NewDialer installs", "3 failing attempts against a peer that is no TLS server, 1 attempt against a peer that never answers (bounded by its context), 1 successful attempt used 900 ms after its 300 ms deadline")
}

func runTraced(sc scenario, vec []int) (*trace, *vs.Sched) {
	return runWithTrace(sc, replayChooser(vec))
}

// aggregateExecs sums the execs=/points= counters the workers put into outcome labels.
func aggregateExecs(r *ev.Run) (capped int64) {
	defer func() {
		r.Set("scenarios_capped", capped)
	}()
	r.FoldOutcomes(func(label string, n int64) (string, map[string]int64) {
		if strings.Contains(label, "CAPPED") {
			capped += n
		}
		add := map[string]int64{}
		base := label
		for _, part := range splitBar(label)[1:] {
			var k string
			var v int64
			if _, err := fmt.Sscanf(part, "execs=%d", &v); err == nil {
				k = "executions"
			} else if _, err := fmt.Sscanf(part, "points=%d", &v); err == nil {
				k = "choice_points"
			}
			if k != "" {
				add[k] += v * n
			}
		}
		base = splitBar(label)[0]
		return base, add
	})
	return
}

func splitBar(s string) []string {
	var out []string
	cur := ""
	for _, c := range s {
		if c == '|' {
			out = append(out, cur)
			cur = ""
		} else {
			cur += string(c)
		}
	}
	return append(out, cur)
}
