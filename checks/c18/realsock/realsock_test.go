//go:build verif

// Supplementary pass over REAL loopback sockets (not exploration, never counted as coverage): the DialFunc that NewDialer
// installs is code the scheduler-based check replaces by a scripted fake. Two behaviours of it are part of C18's clauses and
// can only be seen on a socket: (a) an attempt that fails by itself (the peer is no TLS server) leaves no connection behind -
// the peer sees its end closed; (b) the per-attempt Timeout bounds the ATTEMPT, not the life of the connection it produced - a
// connection returned by Dial still works after Timeout has passed. The bounds on wall-clock time are generous (10 s for
// something that takes microseconds); a report names what was seen.
package realsock

import (
	"context"
	"crypto/tls"
	"io"
	"net"
	"testing"
	"time"

	"github.com/c2FmZQ/ech"

	"verif/internal/tlsx"
)

func TestRacePass(t *testing.T) {
	// (a) a peer that answers the ClientHello with garbage and then waits for its end of the connection to be closed
	ln, err := net.Listen("tcp", "127.0.0.1:0")
	if err != nil {
		t.Skipf("no loopback listener: %v", err)
	}
	defer ln.Close()
	closed := make(chan error, 8)
	go func() {
		for {
			c, err := ln.Accept()
			if err != nil {
				return
			}
			go func(c net.Conn) {
				defer c.Close()
				buf := make([]byte, 4096)
				c.Read(buf)
				c.Write([]byte("HTTP/1.1 400 Bad Request\r\n\r\nthis is not a TLS server\r\n"))
				c.SetReadDeadline(time.Now().Add(10 * time.Second))
				for {
					if _, err := c.Read(buf); err != nil {
						closed <- err
						return
					}
				}
			}(c)
		}
	}()
	d := ech.NewDialer()
	for i := 0; i < 3; i++ {
		ctx, cancel := context.WithTimeout(context.Background(), 20*time.Second)
		conn, err := d.DialFunc(ctx, "tcp", ln.Addr().String(), &tls.Config{ServerName: "a.example", RootCAs: tlsx.Pool(), MinVersion: tls.VersionTLS13})
		cancel()
		if err == nil {
			conn.Close()
			t.Fatalf("REALSOCK: the handshake with a peer that is no TLS server succeeded")
		}
		if e := <-closed; e != io.EOF && !isReset(e) {
			t.Errorf("REALSOCK: the attempt failed by itself (%v); 10 s later the peer's end of the connection was still open (%v): the failed attempt left its connection behind", err, e)
		}
	}
	// (c) a peer that accepts the connection and then says nothing: the attempt is bounded by its context (what Dial's Timeout
	// and the caller's cancellation rely on) - it ends within 10 s of a 300 ms deadline, not when the peer pleases
	sln, err := net.Listen("tcp", "127.0.0.1:0")
	if err != nil {
		t.Fatalf("listen: %v", err)
	}
	defer sln.Close()
	hold := make(chan net.Conn, 4)
	go func() {
		for {
			c, err := sln.Accept()
			if err != nil {
				return
			}
			hold <- c // kept open, never answered
		}
	}()
	{
		ctx, cancel := context.WithTimeout(context.Background(), 300*time.Millisecond)
		type res struct {
			c   *tls.Conn
			err error
		}
		out := make(chan res, 1)
		start := time.Now()
		go func() {
			c, err := d.DialFunc(ctx, "tcp", sln.Addr().String(), &tls.Config{ServerName: "a.example", RootCAs: tlsx.Pool(), MinVersion: tls.VersionTLS13})
			out <- res{c, err}
		}()
		select {
		case r := <-out:
			if r.err == nil {
				r.c.Close()
				t.Errorf("REALSOCK: a handshake with a peer that never answers succeeded")
			}
		case <-time.After(10 * time.Second):
			t.Errorf("REALSOCK: an attempt against a peer that accepts and never answers was still running %v after its context's 300 ms deadline: the attempt is not bounded by its context", time.Since(start).Round(time.Second))
		}
		cancel()
		select {
		case c := <-hold:
			c.Close()
		default:
		}
	}
	// (b) a real TLS server; the attempt is made under a context with a 300 ms deadline (what Dial's Timeout hands to DialFunc);
	// 900 ms later the connection must still carry data
	cert := tlsx.Leaf(0, false, "a.example")
	tln, err := tls.Listen("tcp", "127.0.0.1:0", &tls.Config{Certificates: []tls.Certificate{cert}, MinVersion: tls.VersionTLS13})
	if err != nil {
		t.Fatalf("tls listen: %v", err)
	}
	defer tln.Close()
	go func() {
		for {
			c, err := tln.Accept()
			if err != nil {
				return
			}
			go func(c net.Conn) { defer c.Close(); io.Copy(c, c) }(c)
		}
	}()
	ctx, cancel := context.WithTimeout(context.Background(), 300*time.Millisecond)
	conn, err := d.DialFunc(ctx, "tcp", tln.Addr().String(), &tls.Config{ServerName: "a.example", RootCAs: tlsx.Pool(), MinVersion: tls.VersionTLS13})
	if err != nil {
		cancel()
		t.Skipf("handshake over loopback did not finish within 300 ms on this machine: %v", err)
	}
	defer conn.Close()
	time.Sleep(900 * time.Millisecond)
	cancel()
	// (no deadline is set on the connection here: a deadline the attempt left on it must show)
	done := make(chan string, 1)
	go func() {
		if _, err := conn.Write([]byte("ping")); err != nil {
			done <- "Write: " + err.Error()
			return
		}
		buf := make([]byte, 4)
		if _, err := io.ReadFull(conn, buf); err != nil || string(buf) != "ping" {
			done <- "Read: " + string(buf) + " " + err.Error()
			return
		}
		done <- ""
	}()
	select {
	case what := <-done:
		if what != "" {
			t.Fatalf("REALSOCK: the connection the attempt returned stops working once the attempt's deadline has passed: %s", what)
		}
	case <-time.After(10 * time.Second):
		t.Fatalf("REALSOCK: an echo over the connection the attempt returned had not come back after 10 s")
	}
}

func isReset(err error) bool {
	if ne, ok := err.(net.Error); ok && ne.Timeout() {
		return false
	}
	return err != nil // a reset is "closed" too; only a timeout means the peer kept the connection
}
