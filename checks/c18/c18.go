//go:build vsched

// Package c18 decides C18: Dial attempts are ordered, bounded and leak-free; the
// first success wins. Stateless exploration of the real (instrumented) Dial under
// the controlled scheduler in virtual time (engine E3).
package c18

import (
	"context"
	"crypto/tls"
	"errors"
	"fmt"
	"io"
	"net"
	"sort"
	"strings"
	"time"

	"github.com/c2FmZQ/ech"
	"github.com/c2FmZQ/ech/dns"
	vs "github.com/c2FmZQ/ech/vsched"

	"verif/internal/dnsref"
	"verif/internal/dohmem"
)

// plan of one target
type plan struct {
	Kind string `json:"kind"` // ok | fail | hang | resolve-error
	D    int    `json:"after"`
}

type scenario struct {
	Plans    []plan `json:"plans"`
	MaxConc  int    `json:"max_concurrency"`
	Delay    int    `json:"delay"`
	Timeout  int    `json:"timeout"`
	CancelAt int    `json:"cancel_at"` // -1 never
	// BadPublicName: Dialer.PublicName is a 300-byte name (no ECH config can be made from it) and the TLS config has no
	// config list: Dial must fail up front, without starting or leaving behind anything
	BadPublicName bool `json:"unencodable_public_name,omitempty"`
	// RequireECH: Dialer.RequireECH is set and the targets come from ONE resolution result (handed over the way the Transport
	// does) with one service record per target; the records of "no-ech" targets carry no ech parameter: such a target is
	// refused without a DialFunc call (a failure like any other), all other targets are attempted as usual
	RequireECH bool `json:"require_ech,omitempty"`
	// CallerCtx: "" a cancel context; "deadline40" the caller's context carries a deadline far beyond every Timeout (the per-attempt
	// Timeout still bounds each attempt); "counting" the caller's context is of a type of the caller's own that counts what is
	// registered with it (context.AfterFunc protocol): when Dial returns, whatever Dial derived from it has been released
	CallerCtx string `json:"caller_context,omitempty"`
	// ConnType: "" the Dialer is instantiated with the concrete type *fakeConn; "interface" with the interface type io.Closer
	// (Dialer is generic in the connection type: Dialer[net.Conn], Dialer[io.ReadWriteCloser] are what an application with
	// connections of several kinds uses). Everything the property says holds for both.
	ConnType string `json:"conn_type,omitempty"`
}

// dialAs runs Dial on a Dialer[T]; the scenario's DialFunc produces *fakeConn values, wrap/unwrap convert them to and from T.
func dialAs[T any](sc scenario, res *ech.Resolver, df func(ctx context.Context, network, addr string, tc *tls.Config) (*fakeConn, error), wrap func(*fakeConn) T, unwrap func(T) *fakeConn, ctx context.Context, addr string) (*fakeConn, error) {
	d := &ech.Dialer[T]{MaxConcurrency: sc.MaxConc, ConcurrencyDelay: time.Duration(sc.Delay) * unit, Timeout: time.Duration(sc.Timeout) * unit, RequireECH: sc.RequireECH}
	if sc.BadPublicName {
		d.PublicName = strings.Repeat("p", 300)
	}
	if res != nil {
		d.Resolver = res
	}
	d.DialFunc = func(ctx context.Context, network, addr string, tc *tls.Config) (T, error) {
		c, err := df(ctx, network, addr, tc)
		if c == nil {
			var zero T
			return zero, err
		}
		return wrap(c), err
	}
	c, err := d.Dial(ctx, "tcp", addr, nil)
	return unwrap(c), err
}

// countingCtx is a context type of the caller's own. The standard library registers a derived context with such a parent through
// its AfterFunc method (and un-registers it when the derived context is cancelled): live counts the registrations outstanding.
// The registered functions are run by whoever cancels the caller's context (fire), in the same scheduler step.
type countingCtx struct {
	context.Context
	st   *countingState
	done chan struct{} // a channel of its own (never read here: the instrumented code asks Err()), so that the standard library
	// does not recognise the embedded context and registers through AfterFunc
}

type countingState struct {
	live int
	regs []*countingReg
}

type countingReg struct {
	f    func()
	done bool
}

func (c countingCtx) Done() <-chan struct{} { return c.done }

func (c countingCtx) AfterFunc(f func()) (stop func() bool) {
	reg := &countingReg{f: f}
	c.st.live++
	c.st.regs = append(c.st.regs, reg)
	return func() bool {
		if reg.done {
			return false
		}
		reg.done = true
		c.st.live--
		return true
	}
}

// fire runs what is registered (the caller's context has just been cancelled).
func (st *countingState) fire() {
	for _, reg := range st.regs {
		if !reg.done {
			reg.done = true
			st.live--
			reg.f()
		}
	}
}

const unit = time.Second

type fakeConn struct {
	id     int
	closed int
}

func (c *fakeConn) Close() error { c.closed++; return nil }

type attempt struct {
	target         int
	start, end     time.Duration
	ctxDoneAtEntry bool
	ctxDoneAt      time.Duration // when its ctx was first seen done (-1 never while running)
	result         string        // ok | fail | cancelled
	conn           *fakeConn
	finished       bool
	retry          bool // a second DialFunc call for the same target (ECH retry): part of the same attempt
}

type event struct {
	kind string // start | end | return | cancel
	a    *attempt
	at   time.Duration
}

type trace struct {
	events       []event
	attempts     []*attempt
	ret          *fakeConn
	retErr       error
	retAt        time.Duration
	returned     bool
	cancelAt     time.Duration
	noECHAttempt bool
	ctxLive      int // contexts still registered with the caller's context when Dial returned (CallerCtx "counting")
}

// errAttemptFailed is what every failing attempt of the fake DialFunc wraps: the error Dial returns must still carry it
var errAttemptFailed = errors.New("c18: connection refused (sentinel)")

func addrOf(i int) string { return fmt.Sprintf("192.0.2.%d:443", i+1) }

// run executes one scenario under one schedule.
func run(sc scenario, choose vs.Chooser, traceOn bool) (*trace, *vs.Sched) {
	tr := &trace{cancelAt: -1}
	var addrs []string
	slow := false
	for i, p := range sc.Plans {
		switch p.Kind {
		case "resolve-error":
			addrs = append(addrs, strings.Repeat("x", 70)+fmt.Sprintf(".invalid%d.example:443", i))
		case "slow-resolve":
			// a host name whose lookups take D (virtual) seconds each; it resolves to this target's address and then succeeds at once
			addrs = append(addrs, fmt.Sprintf("slow%d.example:443", i))
			slow = true
		case "same-address-as-previous":
			// another host name that resolves (at once) to the address of the PREVIOUS target (shared hosting): a listed target of
			// its own, attempted like any other, which then succeeds
			addrs = append(addrs, fmt.Sprintf("dup%d.example:443", i))
			slow = true
		default:
			addrs = append(addrs, addrOf(i))
		}
	}
	var rr ech.ResolveResult
	if sc.RequireECH {
		rr = ech.ResolveResult{Port: 443, Additional: map[string][]net.IP{}}
		for i, p := range sc.Plans {
			h := dns.HTTPS{Priority: uint16(i + 1), Target: fmt.Sprintf("t%d.example", i)}
			if p.Kind != "no-ech" {
				h.ECH = []byte{0, 4, 0xfe, 0x0d, 0, byte(i)}
			}
			rr.HTTPS = append(rr.HTTPS, h)
			rr.Additional[h.Target] = []net.IP{net.IPv4(192, 0, 2, byte(i+1)).To4()}
		}
		addrs = []string{"h.example:443"}
	}
	s := vs.RunOpt(choose, 20000, traceOn, func() {
		var resolver *ech.Resolver
		if slow {
			srv := &dohmem.Server{}
			dns.VerifRoundTripper = srv
			srv.Delay = func(ctx context.Context, q dohmem.Query) {
				for i, p := range sc.Plans {
					if p.Kind == "slow-resolve" && q.Name == fmt.Sprintf("slow%d.example", i) {
						vs.SleepCtx(ctx, time.Duration(p.D)*unit)
					}
				}
			}
			srv.Zone = func(name string, t uint16) dohmem.Answer {
				for i, p := range sc.Plans {
					if p.Kind == "slow-resolve" && name == fmt.Sprintf("slow%d.example", i) && t == 1 {
						return dohmem.Answer{Records: []dnsref.RR{{Name: name, Type: 1, Class: 1, TTL: 60, Fields: []dnsref.Field{{Raw: []byte{192, 0, 2, byte(i + 1)}}}}}}
					}
					if p.Kind == "same-address-as-previous" && name == fmt.Sprintf("dup%d.example", i) && t == 1 {
						return dohmem.Answer{Records: []dnsref.RR{{Name: name, Type: 1, Class: 1, TTL: 60, Fields: []dnsref.Field{{Raw: []byte{192, 0, 2, byte(max(i, 1))}}}}}}
					}
				}
				return dohmem.Answer{}
			}
			resolver, _ = ech.NewResolver("https://doh.test/dns-query")
		}
		dialFunc := func(ctx context.Context, network, addr string, tc *tls.Config) (*fakeConn, error) {
			ti := -1
			for i := range sc.Plans {
				if addrOf(i) == addr && sc.Plans[i].Kind != "same-address-as-previous" {
					ti = i
				}
			}
			if tc != nil {
				// targets that share an address are told apart by the server name the attempt is made for
				for i, p := range sc.Plans {
					if p.Kind == "same-address-as-previous" && tc.ServerName == fmt.Sprintf("dup%d.example", i) {
						ti = i
					}
				}
			}
			a := &attempt{target: ti, start: vs.Elapsed(), ctxDoneAtEntry: ctx.Err() != nil, ctxDoneAt: -1}
			if sc.RequireECH && (tc == nil || tc.EncryptedClientHelloConfigList == nil) {
				tr.noECHAttempt = true
			}
			tr.attempts = append(tr.attempts, a)
			tr.events = append(tr.events, event{"start", a, vs.Elapsed()})
			defer func() { tr.events = append(tr.events, event{"end", a, vs.Elapsed()}) }()
			if ti < 0 {
				a.finished, a.end, a.result = true, vs.Elapsed(), "fail"
				return nil, errors.New("unknown address " + addr)
			}
			p := sc.Plans[ti]
			full := false
			if p.Kind == "reject-then-ok" || p.Kind == "reject-then-fail" {
				// the first call is answered, after D, by an ECH rejection that carries retry configs; the ONE retry every attempt
				// is entitled to then succeeds / fails at once
				nth := 0
				for _, o := range tr.attempts {
					if o.target == ti {
						nth++
					}
				}
				a.retry = nth > 1
				if nth == 1 {
					if full = vs.SleepCtx(ctx, time.Duration(p.D)*unit); full {
						a.end, a.finished, a.result = vs.Elapsed(), true, "rejected"
						return nil, &tls.ECHRejectionError{RetryConfigList: []byte{0, 1, 2}}
					}
				} else {
					full = ctx.Err() == nil
				}
			} else if p.Kind == "reject-then-hang" {
				// the first call is answered, after D, by an ECH rejection that carries retry configs; the retried call hangs
				nth := 0
				for _, o := range tr.attempts {
					if o.target == ti {
						nth++
					}
				}
				a.retry = nth > 1
				if nth == 1 {
					if full = vs.SleepCtx(ctx, time.Duration(p.D)*unit); full {
						a.end, a.finished, a.result = vs.Elapsed(), true, "rejected"
						return nil, &tls.ECHRejectionError{RetryConfigList: []byte{0, 1, 2}}
					}
				} else {
					vs.WaitDone(ctx)
				}
			} else if p.Kind == "ok-ignoring-deadline" {
				// a DialFunc that does not watch its context: the connection is established after D whatever happened meanwhile
				// (possibly after the per-attempt timeout): it must end up returned or closed, never dropped
				vs.Sleep(time.Duration(p.D) * unit)
				full = true
			} else if p.Kind == "hang" {
				vs.WaitDone(ctx)
			} else if p.Kind == "ok-slow-to-abort" {
				// succeeds after D unless cancelled; when cancelled it needs 2 more seconds to notice
				if full = vs.SleepCtx(ctx, time.Duration(p.D)*unit); !full {
					vs.Sleep(2 * unit)
				}
			} else if p.Kind == "slow-resolve" || p.Kind == "same-address-as-previous" {
				full = ctx.Err() == nil
			} else {
				full = vs.SleepCtx(ctx, time.Duration(p.D)*unit)
			}
			a.end, a.finished = vs.Elapsed(), true
			if !full {
				a.ctxDoneAt = vs.Elapsed()
				a.result = "cancelled"
				return nil, ctx.Err()
			}
			if p.Kind == "ok" || p.Kind == "ok-slow-to-abort" || p.Kind == "ok-ignoring-deadline" || p.Kind == "slow-resolve" || p.Kind == "same-address-as-previous" || p.Kind == "reject-then-ok" {
				a.result = "ok"
				a.conn = &fakeConn{id: ti}
				return a.conn, nil
			}
			a.result = "fail"
			if p.Kind == "fail-wrapping-canceled" {
				// a failure of the attempt's own making whose error wraps context.Canceled (an inner context of the DialFunc was
				// cancelled: an aborted proxy CONNECT, an inner address race) while neither Dial's nor the caller's context is: it is
				// a failed attempt like any other
				return nil, fmt.Errorf("attempt %d failed: %w: inner dial: %w", ti, errAttemptFailed, context.Canceled)
			}
			return nil, fmt.Errorf("attempt %d failed: %w", ti, errAttemptFailed)
		}
		cst := &countingState{}
		ctx, cancel0 := vs.WithCancel(context.Background())
		cancel := func() { cancel0(); cst.fire() }
		if sc.CallerCtx == "deadline40" {
			ctx, cancel0 = vs.WithTimeout(context.Background(), 40*unit)
		}
		// the caller's context outlives the call by far (a request context, not one made for this Dial): whatever Dial leaves
		// running under it is not cleaned up by the caller
		defer func() { vs.Sleep(30 * unit); cancel() }()
		if sc.CancelAt >= 0 {
			vs.GoNamed("canceller", func() {
				if sc.CancelAt > 0 { // (a cancellation at t=0 can fall between any two steps of Dial: no timer in front of it)
					vs.Sleep(time.Duration(sc.CancelAt) * unit)
				}
				tr.cancelAt = vs.Elapsed()
				tr.events = append(tr.events, event{"cancel", nil, vs.Elapsed()})
				cancel()
			})
		}
		dctx := ctx
		if sc.CallerCtx == "counting" {
			dctx = countingCtx{ctx, cst, make(chan struct{})}
		}
		if sc.RequireECH {
			dctx = ech.VerifContextWithResult(ctx, "h.example", rr)
		}
		if sc.ConnType == "interface" {
			tr.ret, tr.retErr = dialAs(sc, resolver, dialFunc, func(c *fakeConn) io.Closer { return c }, func(c io.Closer) *fakeConn {
				if c == nil {
					return nil
				}
				return c.(*fakeConn)
			}, dctx, strings.Join(addrs, ","))
		} else {
			tr.ret, tr.retErr = dialAs(sc, resolver, dialFunc, func(c *fakeConn) *fakeConn { return c }, func(c *fakeConn) *fakeConn { return c }, dctx, strings.Join(addrs, ","))
		}
		tr.retAt, tr.returned = vs.Elapsed(), true
		tr.ctxLive = cst.live
		tr.events = append(tr.events, event{"return", nil, vs.Elapsed()})
	})
	return tr, s
}

// monitor evaluates the property on one execution; it returns a violation key and description, or "".
func monitor(sc scenario, tr *trace, s *vs.Sched) (key, what string) {
	if s.Panic != nil {
		return "panic", fmt.Sprintf("panic: %v\n%s", s.Panic, s.PanicInfo)
	}
	if s.Livelock {
		return "livelock", "step horizon exceeded"
	}
	if s.Deadlock != "" {
		if !tr.returned {
			return "dial-never-returns", "Dial never returned: " + s.Deadlock
		}
		return "goroutine-leak", "threads blocked forever after Dial returned and all attempts finished: " + s.Deadlock
	}
	if !tr.returned {
		return "dial-never-returns", "Dial did not return"
	}
	if sc.BadPublicName {
		switch {
		case tr.retErr == nil:
			return "bad-public-name-accepted", "Dial succeeded although no ECH config can be built from the 300-byte PublicName"
		case len(tr.attempts) > 0:
			return "attempt-despite-setup-error", fmt.Sprintf("%d attempts were started although Dial failed during its set-up", len(tr.attempts))
		}
		for _, te := range s.ThreadEnds() {
			if te.ID != 0 && te.Name != "canceller" && te.Done && te.At > tr.retAt {
				return "goroutine-lingers", fmt.Sprintf("thread %d (%s) finished at %v, Dial returned at %v", te.ID, te.Name, te.At, tr.retAt)
			}
		}
		return "", ""
	}
	if tr.ctxLive != 0 {
		return "dial-context-not-released", fmt.Sprintf("when Dial returned (%v), %d context(s) it had derived from the caller's context were still registered with it: they stay until the caller's context ends (a request-scoped or server-lifetime context)", tr.retErr, tr.ctxLive)
	}
	if tr.noECHAttempt {
		return "attempt-without-ech", "RequireECH is set and DialFunc was called with a TLS config that has no ECH config list"
	}
	// zero values stand for the documented defaults: MaxConcurrency 3, ConcurrencyDelay 1 s, Timeout 30 s
	if sc.MaxConc == 0 {
		sc.MaxConc = 3
	}
	if sc.Delay == 0 {
		sc.Delay = 1
	}
	if sc.Timeout == 0 {
		sc.Timeout = 30
	}
	delay, timeout := time.Duration(sc.Delay)*unit, time.Duration(sc.Timeout)*unit
	// 1. order
	// Start times must be non-decreasing in target order. Attempts released at the same virtual instant (two failures
	// reported together free two workers at once) are concurrent: the order in which their DialFunc calls are entered
	// carries no meaning. Attempts begun after the outcome is decided run with a cancelled context and are exempt too.
	lastT, lastStart := -1, time.Duration(-1)
	byTarget := append([]*attempt{}, tr.attempts...)
	sort.SliceStable(byTarget, func(i, j int) bool { return byTarget[i].target < byTarget[j].target })
	for _, a := range byTarget {
		if a.ctxDoneAtEntry || a.retry {
			continue
		}
		if a.start < lastStart {
			return "start-order", fmt.Sprintf("attempt for target %d started at %v, before the attempt for target %d (%v)", a.target, a.start, lastT, lastStart)
		}
		lastT, lastStart = a.target, a.start
	}
	// 2. in flight, 3. staggering, 7. attempts after the decision
	inflight, returned := 0, false
	var prevStart *event
	failures, earlyStarts := 0, 0 // every failure reported so far allows one start before the delay has elapsed
	for _, p := range sc.Plans {
		if p.Kind == "resolve-error" || p.Kind == "no-ech" {
			failures++ // a resolution error is reported like a failed attempt (conservatively available from the start)
		}
	}
	for i := range tr.events {
		e := &tr.events[i]
		switch e.kind {
		case "start":
			inflight++
			if inflight > sc.MaxConc {
				return "max-concurrency", fmt.Sprintf("%d attempts in flight, MaxConcurrency is %d", inflight, sc.MaxConc)
			}
			if returned && !e.a.ctxDoneAtEntry {
				return "attempt-after-decision-with-live-context", fmt.Sprintf("attempt for target %d began after Dial had returned, with a context that is not cancelled", e.a.target)
			}
			if e.a.retry {
				break // the ECH retry continues the same attempt in the same slot: no new start for the staggering rule
			}
			if prevStart != nil && !e.a.ctxDoneAtEntry && e.at-prevStart.at < delay {
				earlyStarts++
				if earlyStarts > failures {
					return "stagger", fmt.Sprintf("attempt for target %d started %v after the previous one (delay %v); %d early starts but only %d failures so far", e.a.target, e.at-prevStart.at, delay, earlyStarts, failures)
				}
			}
			prevStart = e
		case "end":
			inflight--
			if e.a.result == "fail" || e.a.result == "cancelled" {
				failures++ // (an ECH rejection that is retried is not reported as a failure)
			}
			if k := sc.Plans[max(e.a.target, 0)].Kind; e.a.end-e.a.start > timeout && k != "ok-slow-to-abort" && k != "ok-ignoring-deadline" {
				return "attempt-timeout", fmt.Sprintf("attempt for target %d ran %v, Timeout is %v", e.a.target, e.a.end-e.a.start, timeout)
			}
		case "return":
			returned = true
		}
	}
	// 4b. the per-attempt timeout covers everything done for one target, an ECH retry included
	firstStart, lastEnd := map[int]time.Duration{}, map[int]time.Duration{}
	for _, a := range tr.attempts {
		if _, ok := firstStart[a.target]; !ok {
			firstStart[a.target] = a.start
		}
		lastEnd[a.target] = max(lastEnd[a.target], a.end)
	}
	for t, st := range firstStart {
		if t >= 0 && lastEnd[t]-st > timeout && sc.Plans[t].Kind != "ok-slow-to-abort" && sc.Plans[t].Kind != "ok-ignoring-deadline" {
			return "target-timeout", fmt.Sprintf("the attempt for target %d (with its ECH retry) occupied its slot from %v to %v, Timeout is %v", t, st, lastEnd[t], timeout)
		}
	}
	// 8. no goroutine outlives the outstanding attempts: after Dial has returned, virtual time may only pass while some DialFunc
	// call is still in progress (an attempt that is slow to notice cancellation, or one begun after the decision under a
	// cancelled context). A thread started by Dial that is still alive while time passes with NO call in progress is waiting for
	// something else - a delay, a timer, a lookup - and has been left behind.
	lastThread, lastName := time.Duration(0), ""
	for _, te := range s.ThreadEnds() {
		if te.ID != 0 && te.Name != "canceller" && te.Done && te.At > lastThread {
			lastThread, lastName = te.At, fmt.Sprintf("thread %d (%s)", te.ID, te.Name)
		}
	}
	if lastThread > tr.retAt {
		calls := append([]*attempt{}, tr.attempts...)
		sort.SliceStable(calls, func(i, j int) bool { return calls[i].start < calls[j].start })
		cur := tr.retAt
		for _, a := range calls {
			if a.end <= cur {
				continue
			}
			if a.start > cur {
				break // a gap before this call
			}
			cur = a.end
		}
		if cur < lastThread {
			return "goroutine-lingers", fmt.Sprintf("%s started by Dial finished at %v; Dial had returned at %v and from %v on no DialFunc call was in progress: the thread was waiting for something else (a delay, a timer, a lookup)", lastName, lastThread, tr.retAt, cur)
		}
	}
	// resolve-error targets count as failures for the staggering rule: handled by treating them as instantaneous failures
	// 5/9. winner and closing
	var succ []*attempt
	for _, a := range tr.attempts {
		if a.result == "ok" {
			succ = append(succ, a)
		}
	}
	cancelledFirst := tr.cancelAt >= 0
	if tr.retErr == nil {
		if tr.ret == nil {
			return "nil-conn-nil-error", "Dial returned (nil, nil)"
		}
		var win *attempt
		minEnd := time.Duration(1 << 62)
		for _, a := range succ {
			if a.conn == tr.ret {
				win = a
			}
			minEnd = min(minEnd, a.end)
		}
		if win == nil {
			return "unknown-conn", "Dial returned a connection no attempt produced"
		}
		if win.end != minEnd {
			return "not-first-success", fmt.Sprintf("Dial returned the connection of target %d (ready at %v) although one was ready at %v", win.target, win.end, minEnd)
		}
		if tr.ret.closed != 0 {
			return "winner-closed", "the returned connection was closed"
		}
		if tr.retAt != win.end {
			return "late-return", fmt.Sprintf("winner ready at %v, Dial returned at %v", win.end, tr.retAt)
		}
	} else {
		// failure: legitimate only if cancelled, or nothing could succeed
		if !cancelledFirst {
			for i, p := range sc.Plans {
				if p.Kind == "same-address-as-previous" {
					return "error-despite-success", fmt.Sprintf("Dial failed with %v although target %d (another name on the previous target's address) accepts", tr.retErr, i)
				}
				if p.Kind == "slow-resolve" {
					return "error-despite-success", fmt.Sprintf("Dial failed with %v although target %d resolves (slowly) and then accepts", tr.retErr, i)
				}
				if p.Kind == "reject-then-ok" && p.D < sc.Timeout {
					return "error-despite-success", fmt.Sprintf("Dial failed with %v although target %d accepts on the retry its ECH rejection (with retry configs) entitles it to", tr.retErr, i)
				}
				if (p.Kind == "ok" || p.Kind == "ok-slow-to-abort" || p.Kind == "ok-ignoring-deadline") && p.D < sc.Timeout {
					_ = i
					return "error-despite-success", fmt.Sprintf("Dial failed with %v although target %d succeeds", tr.retErr, i)
				}
			}
			if len(sc.Plans) == 0 {
				if tr.retErr.Error() != "no address" {
					return "no-address-error", "want 'no address', got " + tr.retErr.Error()
				}
			} else {
				for _, a := range tr.attempts {
					if a.result == "fail" && a.target >= 0 && !errors.Is(tr.retErr, errAttemptFailed) {
						return "joined-errors-flattened", fmt.Sprintf("the attempt for target %d failed with an error that wraps a sentinel; errors.Is on the error Dial returned (%v) does not find it: the attempts' errors were joined as text", a.target, tr.retErr)
					}
				}
				u, ok := tr.retErr.(interface{ Unwrap() []error })
				if !ok || len(u.Unwrap()) != len(sc.Plans) {
					n := -1
					if ok {
						n = len(u.Unwrap())
					}
					return "joined-errors", fmt.Sprintf("Dial's error joins %d errors for %d targets: %v", n, len(sc.Plans), tr.retErr)
				}
			}
		} else {
			// cancelled: if the cancellation came strictly before any success, Dial must return at that instant with the context's error
			firstSucc := time.Duration(1 << 62)
			for _, a := range succ {
				firstSucc = min(firstSucc, a.end)
			}
			if tr.cancelAt < firstSucc {
				if tr.retAt != tr.cancelAt && !allDoneBefore(tr, tr.cancelAt) {
					return "cancel-not-prompt", fmt.Sprintf("caller cancelled at %v, Dial returned at %v", tr.cancelAt, tr.retAt)
				}
			}
		}
	}
	for _, a := range succ {
		want := 1
		if a.conn == tr.ret && tr.retErr == nil {
			want = 0
		}
		if a.conn.closed != want {
			return fmt.Sprintf("conn-closed-%d-times", a.conn.closed), fmt.Sprintf("connection established to target %d closed %d times, want %d (returned=%v)", a.target, a.conn.closed, want, a.conn == tr.ret)
		}
	}
	for _, a := range tr.attempts {
		if !a.finished {
			return "attempt-unfinished", "an attempt never returned"
		}
	}
	return "", ""
}

// allDoneBefore: Dial had already returned (with its joined error) before the cancellation.
func allDoneBefore(tr *trace, at time.Duration) bool { return tr.retAt <= at }

// ---- scenarios and exploration ----

var planDomain = []plan{{"ok", 0}, {"ok", 1}, {"ok", 3}, {"fail", 0}, {"fail", 1}, {"fail", 3}, {"hang", 0}, {"resolve-error", 0}, {"ok-slow-to-abort", 3}, {"reject-then-hang", 1}, {"ok-ignoring-deadline", 3}, {"slow-resolve", 3}, {"same-address-as-previous", 0}}

func scenarios(thorough bool) []scenario {
	var out []scenario
	maxT := 3
	if thorough {
		maxT = 4
	}
	for n := 1; n <= maxT; n++ {
		total := 1
		for i := 0; i < n; i++ {
			total *= len(planDomain)
		}
		for idx := 0; idx < total; idx++ {
			var plans []plan
			x := idx
			for i := 0; i < n; i++ {
				plans = append(plans, planDomain[x%len(planDomain)])
				x /= len(planDomain)
			}
			for mc := 1; mc <= 3; mc++ {
				if mc > max(n, 1) {
					continue
				}
				for _, dt := range [][2]int{{2, 5}, {1, 2}} {
					for _, c := range []int{-1, 0, 1, 4} {
						if !thorough && n == 3 && c == 4 && dt[0] == 1 {
							continue
						}
						out = append(out, scenario{Plans: plans, MaxConc: mc, Delay: dt[0], Timeout: dt[1], CancelAt: c})
						if n <= 2 && dt[0] == 2 {
							out = append(out, scenario{Plans: plans, MaxConc: mc, Delay: dt[0], Timeout: dt[1], CancelAt: c, ConnType: "interface"})
						}
						if n <= 2 && c <= 0 && dt[0] == 2 {
							out = append(out, scenario{Plans: plans, MaxConc: mc, Delay: dt[0], Timeout: dt[1], CancelAt: c, BadPublicName: true})
						}
					}
				}
			}
		}
	}
	// the documented defaults (zero values): MaxConcurrency 3, ConcurrencyDelay 1 s, Timeout 30 s
	for _, plans := range [][]plan{
		{{"hang", 0}, {"hang", 0}, {"hang", 0}, {"ok", 1}},
		{{"fail", 1}, {"hang", 0}, {"ok", 3}},
		{{"hang", 0}, {"fail", 3}, {"fail", 0}},
		{{"hang", 0}},
		{{"ok", 3}, {"ok", 1}},
	} {
		for _, c := range []int{-1, 4} {
			out = append(out, scenario{Plans: plans, CancelAt: c})
			out = append(out, scenario{Plans: plans, CancelAt: c, MaxConc: 2})
			out = append(out, scenario{Plans: plans, CancelAt: c, Delay: 2, Timeout: 5})
		}
	}
	// ConcurrencyDelay longer than Timeout, with attempts that are still outstanding after their deadline; a caller deadline
	// far beyond every Timeout; a caller context of the caller's own type that counts registrations
	for _, plans := range [][]plan{
		{{"ok-ignoring-deadline", 3}, {"ok", 0}},
		{{"hang", 0}, {"ok", 1}},
		{{"ok-slow-to-abort", 3}, {"fail", 0}, {"ok", 1}},
		{{"fail", 1}, {"fail", 0}},
		{{"hang", 0}},
		{{"fail", 0}},
		{{"ok", 1}, {"hang", 0}},
		{{"reject-then-fail", 1}, {"reject-then-ok", 1}},
		{{"reject-then-ok", 1}, {"reject-then-ok", 1}},
		{{"reject-then-fail", 1}, {"fail", 0}, {"reject-then-ok", 1}},
		{{"fail-wrapping-canceled", 1}},
		{{"fail-wrapping-canceled", 0}, {"fail", 1}},
		{{"fail", 0}, {"fail-wrapping-canceled", 1}, {"hang", 0}},
		{{"fail-wrapping-canceled", 1}, {"ok", 3}},
		{},
	} {
		for _, c := range []int{-1, 1} {
			if len(plans) > 0 {
				out = append(out, scenario{Plans: plans, MaxConc: 2, Delay: 3, Timeout: 1, CancelAt: c})
				out = append(out, scenario{Plans: plans, MaxConc: 2, Delay: 2, Timeout: 5, CancelAt: c, CallerCtx: "deadline40"})
			}
			out = append(out, scenario{Plans: plans, MaxConc: 2, Delay: 2, Timeout: 5, CancelAt: c, CallerCtx: "counting"})
			out = append(out, scenario{Plans: plans, MaxConc: 2, Delay: 2, Timeout: 5, CancelAt: c, ConnType: "interface"})
			if len(plans) <= 1 {
				out = append(out, scenario{Plans: plans, MaxConc: 2, Delay: 2, Timeout: 5, CancelAt: c, CallerCtx: "counting", BadPublicName: true})
			}
		}
	}
	// RequireECH: 2..maxT targets from one resolution result, at least one of them without an ech parameter
	reqDomain := []plan{{"no-ech", 0}, {"ok", 1}, {"fail", 1}, {"hang", 0}}
	for n := 2; n <= maxT; n++ {
		total := 1
		for i := 0; i < n; i++ {
			total *= len(reqDomain)
		}
		for idx := 0; idx < total; idx++ {
			var plans []plan
			x, miss := idx, false
			for i := 0; i < n; i++ {
				plans = append(plans, reqDomain[x%len(reqDomain)])
				miss = miss || x%len(reqDomain) == 0
				x /= len(reqDomain)
			}
			if !miss {
				continue
			}
			for mc := 1; mc <= min(n, 3); mc++ {
				for _, c := range []int{-1, 1} {
					out = append(out, scenario{Plans: plans, MaxConc: mc, Delay: 2, Timeout: 5, CancelAt: c, RequireECH: true})
				}
			}
		}
	}
	return out
}

type replayFile struct {
	Scenario scenario `json:"scenario"`
	Vector   []int    `json:"choice_vector"`
}

func exploreScenario(sc scenario, bound, maxExecs int) (e *vs.Explorer, vkey, vwhat string, vvec []int, outcomes map[string]int) {
	outcomes = map[string]int{}
	e = &vs.Explorer{Bound: bound, MaxExecs: maxExecs}
	e.Body = func(x *vs.Execution, choose vs.Chooser) {
		tr, s := run(sc, choose, false)
		k, w := monitor(sc, tr, s)
		oc := "error"
		if tr.retErr == nil && tr.ret != nil {
			oc = fmt.Sprintf("conn%d", tr.ret.id)
		} else if tr.retErr != nil && errors.Is(tr.retErr, context.Canceled) {
			oc = "cancelled"
		}
		outcomes[oc]++
		if k != "" && vkey == "" {
			// confirm determinism: the same schedule must fail identically
			vec := x.Vector()
			tr2, s2 := run(sc, replayChooser(vec), false)
			k2, _ := monitor(sc, tr2, s2)
			if k2 != k {
				vkey, vwhat = "nondeterministic-replay", fmt.Sprintf("schedule %v gave %q then %q", vec, k, k2)
			} else {
				vkey, vwhat = k, w
			}
			vvec = vec
		}
	}
	e.Explore()
	return
}

func replayChooser(vec []int) vs.Chooser {
	pos := 0
	return func(n int, kind string) int {
		p := 0
		if pos < len(vec) && vec[pos] < n {
			p = vec[pos]
		}
		pos++
		return p
	}
}

func runWithTrace(sc scenario, choose vs.Chooser) (*trace, *vs.Sched) { return run(sc, choose, true) }
