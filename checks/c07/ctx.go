package c07

import "context"

var ctxBG = context.Background()
