// Package c07 decides C07: Conn is an order-preserving, lossless byte pipe for
// every fragmentation and cut. Deviation-bounded exhaustive exploration of the
// environment's answers (E2): transport read sizes, caller buffer sizes, write
// split points, transport write faults, transport end at every byte offset.
package c07

import (
	"bytes"
	"errors"
	"fmt"
	"io"
	"net"
	"os"
	"slices"
	"sort"
	"time"

	"github.com/c2FmZQ/ech"

	"verif/internal/echx"
	"verif/internal/enum"
	"verif/internal/ev"
	"verif/internal/memnet"
	"verif/internal/tlsref"
)

const innerName = "inner.secret.example"

type step struct {
	dir    byte   // 'c' client->backend, 'b' backend->client
	data   []byte // bytes put on the wire by the sender
	expect []byte // bytes the receiver must get
	// rewritten: input ranges [a,b) (relative to data) whose output is only defined once complete (hello records)
	rewritten [][2]int
	// rewrittenOut: output length of the (single) rewritten range when it is not one record (hello spanning several records)
	rewrittenOut int
}

type scenario struct {
	name  string
	keys  []ech.Key
	steps []step
}

// perturbation is one point of the explored environment space.
type perturbation struct {
	Scenario string `json:"scenario"`
	Buf      int    `json:"read_buffer"`
	// Cuts are fragment boundaries of the inbound transport stream (absolute offsets): a transport Read never crosses one.
	Cuts []int `json:"transport_read_cuts,omitempty"`
	// OneByte makes every transport Read return 1 byte.
	OneByte bool `json:"one_byte_reads,omitempty"`
	// FeedSplit delivers client step Step in two parts; the harness reads what must be available in between.
	FeedSplitStep, FeedSplitAt int
	// WriteSplits are split offsets of the backend's byte stream into Write calls (absolute per backend step).
	WriteStep   int   `json:"write_step"`
	WriteSplits []int `json:"write_splits,omitempty"`
	// EndAt >= 0: the inbound transport stream ends at this absolute offset with EndErr ("eof"/"err").
	EndAt  int    `json:"transport_end_at"`
	EndErr string `json:"transport_end_kind,omitempty"`
	// DataWithEnd: the transport returns the last bytes before the end together with the end error (n > 0, err != nil)
	DataWithEnd bool `json:"last_bytes_returned_with_the_error,omitempty"`
	// WriteFault: the k-th transport Write (0-based) accepts only FaultN bytes and returns FaultErr ("err" or "short").
	FaultK   int    `json:"write_fault_call"`
	FaultN   int    `json:"write_fault_n"`
	FaultErr string `json:"write_fault_kind,omitempty"`
}

var errInjected = errors.New("injected transport error")

func rec(typ byte, n int, label string) []byte {
	return tlsref.Record(typ, 0x0303, tlsref.DetBytes(label, n))
}

func hsRec(msgType byte, n int) []byte {
	return tlsref.Record(22, 0x0303, tlsref.HandshakeMsg(msgType, tlsref.DetBytes("hs", n)))
}

func cat(parts ...[]byte) []byte {
	var out []byte
	for _, p := range parts {
		out = append(out, p...)
	}
	return out
}

func buildScenarios(key echx.KeyPair) []scenario {
	keys := echx.Keys(key)
	mkSpec := func(share int) echx.Spec {
		outer, idx := echx.StdOuter("public.example", tlsref.DetBytes("sid", 32), 99)
		inner := echx.StdEncInner(innerName, []string{"h2"}, true)
		for i, e := range outer.Exts {
			if e.Type == tlsref.ExtKeyShare {
				outer.Exts[i] = tlsref.KeyShare(share)
			}
		}
		return echx.Spec{Key: key, Suite: tlsref.Suite{KDF: 1, AEAD: 1}, Outer: outer, EchIdx: idx, EncInner: inner, InnerBase: echx.StdInnerBase(), Padding: make([]byte, 3), EphLabel: "c07"}
	}
	b1 := mkSpec(32).Build()
	ch1 := b1.Outer.Record()
	in1 := tlsref.Record(22, 0x0301, b1.Expected.Msg())
	b2 := mkSpec(65).BuildWith(b1.Sealer, false)
	ch2 := b2.Outer.Record()
	in2 := tlsref.Record(22, 0x0301, b2.Expected.Msg())
	sid := b1.Outer.SessionID

	clientTail := cat(rec(20, 1, "ccs"), hsRec(20, 36), rec(23, 0, "a0"), rec(23, 1, "a1"), rec(23, 5, "a5"), rec(23, 16384, "a16384"), rec(23, 16385, "a16385"), rec(23, 16640, "a16640"))
	clientTailNoAppFirst := cat(rec(20, 1, "ccs"), rec(22, 16384, "h16384"), rec(21, 2, "alert"), hsRec(20, 36), rec(23, 16640, "a16640"), rec(23, 7, "a7"))
	serverFlight := cat(echx.ServerHelloRecord(sid), rec(20, 1, "ccs"), rec(23, 16401, "enc-hs-16401"), rec(23, 16640, "s16640"), rec(23, 0, "s0"), rec(23, 5, "s5"))
	serverFlight2 := cat(rec(20, 1, "ccs"), rec(21, 2, "al"), rec(22, 16384, "h16384"), rec(23, 1, "s1"), rec(23, 16384, "s16384"))

	plain := &tlsref.Hello{Version: 0x0303, Random: tlsref.DetBytes("plain-random", 32), SessionID: sid, CipherSuites: []byte{0x13, 0x01}, Compression: []byte{0},
		Exts: []tlsref.Ext{tlsref.SNI("plain.example.org"), tlsref.SupportedVersions(0x0304), tlsref.ALPN("h2")}}
	plainRec := plain.Record()

	// hellos spanning several records
	msg1 := b1.Outer.Msg()
	ch1frag := tlsref.Fragment(0x0301, msg1, 3, 150)
	bigSpec := mkSpec(32)
	bigSpec.EncInner = append(slices.Clone(bigSpec.EncInner), tlsref.Opaque(0x7a7a, 17000))
	bigSpec.EphLabel = "c07-big"
	bb := bigSpec.Build()
	chBig := tlsref.FragmentMax(0x0301, bb.Outer.Msg())
	inBig := tlsref.FragmentMax(0x0303, bb.Expected.Msg())
	plainFrag := tlsref.Fragment(0x0301, plain.Msg(), 2, 60)
	// the backend's ServerHello / HelloRetryRequest spanning several records (RFC 8446 §5.1 allows any handshake message to be
	// fragmented; a stack with a small send fragment does it to a ServerHello with a post-quantum key share)
	shMsg := echx.ServerHelloRecord(sid)[5:]
	hrrMsg := echx.HRRRecord(sid)[5:]
	serverFlightFrag := cat(tlsref.Fragment(0x0303, shMsg, 2, 40), serverFlight[len(echx.ServerHelloRecord(sid)):])
	hrrFrag := tlsref.Fragment(0x0303, hrrMsg, 1, 50)
	// a HelloRetryRequest with a 17000-byte cookie: longer than a record, within the handshake message limit
	bigHRRMsg := tlsref.ServerHelloMsg(true, sid, []tlsref.Ext{{Type: tlsref.ExtSupportedVersions, Data: []byte{3, 4}}, {Type: tlsref.ExtKeyShare, Data: []byte{0, 0x17}}, {Type: 44, Data: append([]byte{17000 >> 8, 17000 & 0xff}, tlsref.DetBytes("cookie", 17000)...)}})
	hrrBig := tlsref.FragmentMax(0x0303, bigHRRMsg)
	// the ServerHello shares its record with the message that follows it (any stack may coalesce handshake messages; a TLS 1.2
	// style first flight does), whole and with the record boundary falling inside the ServerHello
	nextMsg := tlsref.HandshakeMsg(8, tlsref.DetBytes("ee", 40))
	serverFlightCoalesced := cat(tlsref.Record(22, 0x0303, cat(shMsg, nextMsg)), serverFlight[len(echx.ServerHelloRecord(sid)):])
	serverFlightCoalescedFrag := cat(tlsref.Fragment(0x0303, cat(shMsg, nextMsg), 30), serverFlight[len(echx.ServerHelloRecord(sid)):])
	return []scenario{
		{"accepted-serverhello-coalesced", keys, []step{
			{dir: 'c', data: cat(ch1, clientTailNoAppFirst), expect: cat(in1, clientTailNoAppFirst), rewritten: [][2]int{{0, len(ch1)}}},
			{dir: 'b', data: serverFlightCoalesced, expect: serverFlightCoalesced},
		}},
		{"accepted-serverhello-coalesced-fragmented", keys, []step{
			{dir: 'c', data: cat(ch1, clientTailNoAppFirst), expect: cat(in1, clientTailNoAppFirst), rewritten: [][2]int{{0, len(ch1)}}},
			{dir: 'b', data: serverFlightCoalescedFrag, expect: serverFlightCoalescedFrag},
		}},
		{"accepted-fragmented-serverhello", keys, []step{
			{dir: 'c', data: cat(ch1, clientTailNoAppFirst), expect: cat(in1, clientTailNoAppFirst), rewritten: [][2]int{{0, len(ch1)}}},
			{dir: 'b', data: serverFlightFrag, expect: serverFlightFrag},
			{dir: 'c', data: clientTail, expect: clientTail},
		}},
		{"accepted-fragmented-hrr", keys, []step{
			{dir: 'c', data: ch1, expect: in1, rewritten: [][2]int{{0, len(ch1)}}},
			{dir: 'b', data: hrrFrag, expect: hrrFrag},
			{dir: 'c', data: cat(rec(20, 1, "ccs"), ch2, clientTailNoAppFirst), expect: cat(rec(20, 1, "ccs"), in2, clientTailNoAppFirst), rewritten: [][2]int{{6, 6 + len(ch2)}}},
			{dir: 'b', data: serverFlightFrag, expect: serverFlightFrag},
			{dir: 'c', data: clientTail, expect: clientTail},
		}},
		{"accepted-big-hrr", keys, []step{
			{dir: 'c', data: ch1, expect: in1, rewritten: [][2]int{{0, len(ch1)}}},
			{dir: 'b', data: hrrBig, expect: hrrBig},
			{dir: 'c', data: cat(rec(20, 1, "ccs"), ch2, clientTailNoAppFirst), expect: cat(rec(20, 1, "ccs"), in2, clientTailNoAppFirst), rewritten: [][2]int{{6, 6 + len(ch2)}}},
			{dir: 'b', data: serverFlight, expect: serverFlight},
		}},
		{"accepted-fragmented-hello", keys, []step{
			{dir: 'c', data: cat(ch1frag, clientTailNoAppFirst), expect: cat(in1, clientTailNoAppFirst), rewritten: [][2]int{{0, len(ch1frag)}}},
			{dir: 'b', data: serverFlight, expect: serverFlight},
			{dir: 'c', data: clientTail, expect: clientTail},
		}},
		{"accepted-big-hello", keys, []step{
			{dir: 'c', data: cat(chBig, clientTail), expect: cat(inBig, clientTail), rewritten: [][2]int{{0, len(chBig)}}, rewrittenOut: len(inBig)},
			{dir: 'b', data: serverFlight2, expect: serverFlight2},
		}},
		{"passthrough-fragmented-hello", keys, []step{
			{dir: 'c', data: cat(plainFrag, clientTailNoAppFirst), expect: cat(plainFrag, clientTailNoAppFirst), rewritten: [][2]int{{0, len(plainFrag)}}, rewrittenOut: len(plainFrag)},
			{dir: 'b', data: serverFlight, expect: serverFlight},
		}},
		{"accepted", keys, []step{
			{dir: 'c', data: cat(ch1, clientTail), expect: cat(in1, clientTail), rewritten: [][2]int{{0, len(ch1)}}},
			{dir: 'b', data: serverFlight, expect: serverFlight},
			{dir: 'c', data: clientTailNoAppFirst, expect: clientTailNoAppFirst},
			{dir: 'b', data: serverFlight2, expect: serverFlight2},
		}},
		{"accepted-handshake-first", keys, []step{
			{dir: 'c', data: cat(ch1, clientTailNoAppFirst), expect: cat(in1, clientTailNoAppFirst), rewritten: [][2]int{{0, len(ch1)}}},
			{dir: 'b', data: serverFlight2, expect: serverFlight2},
			{dir: 'b', data: serverFlight, expect: serverFlight},
		}},
		{"accepted-hrr", keys, []step{
			{dir: 'c', data: ch1, expect: in1, rewritten: [][2]int{{0, len(ch1)}}},
			{dir: 'b', data: echx.HRRRecord(sid), expect: echx.HRRRecord(sid)},
			{dir: 'c', data: cat(rec(20, 1, "ccs"), ch2, clientTailNoAppFirst), expect: cat(rec(20, 1, "ccs"), in2, clientTailNoAppFirst), rewritten: [][2]int{{6, 6 + len(ch2)}}},
			{dir: 'b', data: serverFlight, expect: serverFlight},
			{dir: 'c', data: clientTail, expect: clientTail},
		}},
		{"passthrough", keys, []step{
			{dir: 'c', data: cat(plainRec, clientTailNoAppFirst), expect: cat(plainRec, clientTailNoAppFirst), rewritten: [][2]int{{0, len(plainRec)}}},
			{dir: 'b', data: serverFlight, expect: serverFlight},
			{dir: 'c', data: clientTail, expect: clientTail},
		}},
	}
}

// recordBoundaries returns the offsets at which complete records end in b.
func recordBoundaries(b []byte) []int {
	var out []int
	p := 0
	for p+5 <= len(b) {
		n := int(b[p+3])<<8 | int(b[p+4])
		if p+5+n > len(b) {
			break
		}
		p += 5 + n
		out = append(out, p)
	}
	return out
}

// completeBefore: length of the longest prefix of b made of complete records that ends at or before off.
func completeBefore(b []byte, off int) int {
	best := 0
	for _, e := range recordBoundaries(b) {
		if e <= off {
			best = e
		}
	}
	return best
}

// mapOut maps an input offset of a client step to the number of output bytes that must be
// deliverable once exactly that much input has arrived (complete records only for rewritten ranges);
// partialRewritten reports whether off falls strictly inside a rewritten record.
func (s *step) mapOut(off int) (n int, partialRewritten bool) {
	delta := 0
	for _, rw := range s.rewritten {
		if off >= rw[1] {
			continue
		}
		if off > rw[0] {
			return rw[0] + delta, true
		}
	}
	// all rewritten ranges are either completely before off or after it
	outOff := off
	for _, rw := range s.rewritten {
		if off >= rw[1] {
			// find the output length of this rewritten record: expect has a record at the mapped start
			start := rw[0] + delta
			outLen := 5 + (int(s.expect[start+3])<<8 | int(s.expect[start+4]))
			if s.rewrittenOut > 0 {
				outLen = s.rewrittenOut
			}
			delta += outLen - (rw[1] - rw[0])
		}
	}
	return outOff + delta, false
}

// versionPositions: output offsets holding the record-layer version of rewritten records.
func (s *step) versionPositions() map[int]bool {
	m := map[int]bool{}
	delta := 0
	for _, rw := range s.rewritten {
		start := rw[0] + delta
		if start+5 > len(s.expect) {
			break
		}
		outLen := 5 + (int(s.expect[start+3])<<8 | int(s.expect[start+4]))
		if s.rewrittenOut > 0 {
			outLen = s.rewrittenOut
		}
		// the record-layer version of every record of the rewritten hello may be normalised
		for p := start; p+5 <= start+outLen; {
			m[p+1], m[p+2] = true, true
			p += 5 + (int(s.expect[p+3])<<8 | int(s.expect[p+4]))
		}
		delta += outLen - (rw[1] - rw[0])
	}
	return m
}

type violationSink func(key, what string)

// execute runs one scenario under one perturbation and reports violations through sink.
// It returns an outcome label for the histogram.
func execute(sc scenario, p perturbation, sink violationSink) (outcome string) {
	defer func() {
		if x := recover(); x != nil {
			sink("panic", fmt.Sprintf("panic: %v", x))
			outcome = "panic"
		}
	}()
	t := memnet.New()
	inPos := 0 // absolute inbound offset consumed by transport reads
	cuts := append([]int{}, p.Cuts...)
	sort.Ints(cuts)
	t.ReadHook = func(avail, want int) int {
		n := min(avail, want)
		if p.OneByte {
			n = 1
		}
		for _, c := range cuts {
			if c > inPos && c < inPos+n {
				n = c - inPos
				break
			}
		}
		inPos += n
		return n
	}
	transportWrites := 0
	faulted := false
	if p.FaultErr != "" {
		t.WriteHook = func(b []byte) (int, error) {
			k := transportWrites
			transportWrites++
			if k == p.FaultK {
				n := min(p.FaultN, len(b))
				if p.FaultErr == "short" {
					faulted = n < len(b) // (a "short" write that takes everything it was given is no fault)
					return n, nil
				}
				faulted = true
				return n, errInjected
			}
			return len(b), nil
		}
	}
	t.DataWithEnd = p.DataWithEnd
	// halfClosed: the client's direction has ended with EOF; the backend's remaining records still go out (and must be exactly those)
	halfClosed := false
	endResult := ""
	// absolute offsets of client steps
	abs := 0
	fed := 0
	endAt := p.EndAt
	feed := func(b []byte) {
		// feed respecting the transport end
		if endAt >= 0 {
			if fed >= endAt {
				return
			}
			if fed+len(b) >= endAt {
				t.Feed(b[:endAt-fed])
				fed = endAt
				if p.EndErr == "err" {
					t.End(errInjected)
				} else {
					t.End(io.EOF)
				}
				return
			}
		}
		t.Feed(b)
		fed += len(b)
	}
	if endAt == 0 {
		if p.EndErr == "err" {
			t.End(errInjected)
		} else {
			t.End(io.EOF)
		}
	}
	var conn *ech.Conn
	var backendOut []byte // what the transport must hold: concatenation of backend step data
	outChecked := 0
	buf := make([]byte, p.Buf)
	for si := range sc.steps {
		st := &sc.steps[si]
		switch st.dir {
		case 'c':
			if halfClosed {
				continue
			}
			stepStart := abs
			abs += len(st.data)
			limit := len(st.data) // how much of this step's input will ever arrive
			if endAt >= 0 && endAt < stepStart+len(st.data) {
				limit = max(0, endAt-stepStart)
			}
			ended := endAt >= 0 && endAt <= stepStart+len(st.data)
			gotLen := 0
			var endErr error // error returned together with the last deliverable bytes
			verPos := st.versionPositions()
			readUntil := func(target int) bool {
				guard := 0
				for gotLen < target {
					guard++
					if guard > 200000 {
						sink("read-livelock", "Read loop does not make progress")
						return false
					}
					n, err := conn.Read(buf[:min(len(buf), max(1, target-gotLen))])
					if gotLen+n > len(st.expect) {
						sink("read-too-much", fmt.Sprintf("more bytes delivered than the client sent (step %d)", si))
						return false
					}
					for k := 0; k < n; k++ {
						if buf[k] != st.expect[gotLen+k] && !verPos[gotLen+k] {
							sink("read-not-prefix", fmt.Sprintf("bytes read are not a prefix of the expected stream at output offset %d (step %d)", gotLen+k, si))
							return false
						}
					}
					gotLen += n
					if err != nil {
						if gotLen >= target {
							endErr = err
							return true
						}
						sink("read-error-with-data-pending:"+errKind(err), fmt.Sprintf("Read returned %v after %d of %d deliverable bytes (step %d)", err, gotLen, target, si))
						return false
					}
					if n == 0 {
						sink("read-zero-nil", "Read returned 0, nil")
						return false
					}
				}
				return true
			}
			if si == 0 {
				feedFirst := st.data
				if p.FeedSplitStep == 0 && p.FeedSplitAt > 0 {
					// the first hello (all its records) must be complete for NewConn (it blocks otherwise): split only after it
					first := 5 + (int(st.data[3])<<8 | int(st.data[4]))
					if len(st.rewritten) > 0 {
						first = st.rewritten[0][1]
					}
					if p.FeedSplitAt < first {
						return "skip"
					}
					feedFirst = st.data[:p.FeedSplitAt]
				}
				feed(feedFirst)
				var err error
				conn, err = ech.NewConn(ctxBG, t, ech.WithKeys(sc.keys))
				firstLen := 5 + (int(st.data[3])<<8 | int(st.data[4]))
				if len(st.rewritten) > 0 {
					firstLen = st.rewritten[0][1]
				}
				if ended && limit < firstLen {
					if err == nil {
						sink("newconn-accepts-truncated-hello", "NewConn succeeded although the transport ended inside the first record")
					}
					return "end-in-first-record:" + errKind(err)
				}
				if err != nil {
					sink("newconn-error", fmt.Sprintf("NewConn failed on a valid hello: %v", err))
					return "newconn-error"
				}
				if len(feedFirst) < len(st.data) {
					n, _ := st.mapOut(len(feedFirst))
					nc := completeBefore(st.data, len(feedFirst))
					m, _ := st.mapOut(nc)
					_ = n
					if !readUntil(m) {
						return "violation"
					}
					feed(st.data[len(feedFirst):])
				}
			} else {
				if p.FeedSplitStep == si && p.FeedSplitAt > 0 && p.FeedSplitAt < len(st.data) {
					feed(st.data[:p.FeedSplitAt])
					m, _ := st.mapOut(completeBefore(st.data, p.FeedSplitAt))
					if !readUntil(m) {
						return "violation"
					}
					feed(st.data[p.FeedSplitAt:])
				} else {
					feed(st.data)
				}
			}
			target, partialRW := st.mapOut(limit)
			if !readUntil(target) {
				return "violation"
			}
			if endErr != nil && !ended {
				sink("read-error-without-cause:"+errKind(endErr), fmt.Sprintf("Read returned %v although the transport is healthy (step %d)", endErr, si))
				return "violation"
			}
			if ended {
				// everything before the end was delivered; now the error must be reported, and stay
				var extra []byte
				rerr := endErr
				for i := 0; i < 100000 && rerr == nil; i++ {
					var n int
					n, rerr = conn.Read(buf)
					extra = append(extra, buf[:n]...)
				}
				if !partialRW && len(extra) > 0 {
					sink("bytes-after-end", fmt.Sprintf("%d unexpected bytes delivered after everything received was already delivered", len(extra)))
				}
				wantErr := io.EOF
				if p.EndErr == "err" {
					wantErr = errInjected
				}
				if rerr == nil || !errors.Is(rerr, wantErr) && !(p.EndErr == "eof" && errors.Is(rerr, io.ErrUnexpectedEOF)) {
					sink("end-error-kind", fmt.Sprintf("after the transport ended with %v, Read reports %v", wantErr, rerr))
				}
				if n, err2 := conn.Read(buf); n != 0 || err2 == nil {
					sink("end-error-not-sticky", fmt.Sprintf("second Read after the error returned (%d,%v)", n, err2))
				}
				if p.EndErr == "eof" && conn != nil {
					// a half-closed client can still be written to: run the backend's remaining steps
					halfClosed, endResult = true, "end-delivered-then-"+errKind(rerr)+"+backend-flight-after-half-close"
					if t.CloseCount > 0 {
						sink("transport-closed-on-read-end", "the Conn closed the transport because the client's direction ended")
					}
					continue
				}
				return "end-delivered-then-" + errKind(rerr)
			}
		case 'b':
			splits := []int{}
			if p.WriteStep == si {
				splits = append(splits, p.WriteSplits...)
			}
			sort.Ints(splits)
			prev := 0
			pieces := [][]byte{}
			for _, s := range splits {
				if s > prev && s < len(st.data) {
					pieces = append(pieces, st.data[prev:s])
					prev = s
				}
			}
			pieces = append(pieces, st.data[prev:])
			written := 0
			base := len(backendOut)
			bounds := recordBoundaries(st.data)
			for _, orig := range pieces {
				// the backend reuses its buffer after every Write (io.CopyBuffer style): hand over a scratch copy and scribble on it afterwards
				piece := append([]byte{}, orig...)
				n, err := conn.Write(piece)
				for i := range piece {
					piece[i] = 0xEE
				}
				written += len(piece)
				out := t.Out // single-threaded harness: direct access, no copy
				for ; outChecked < len(out); outChecked++ {
					var want byte
					switch {
					case outChecked < base:
						want = backendOut[outChecked]
					case outChecked-base < written:
						want = st.data[outChecked-base]
					default:
						sink("write-not-prefix", fmt.Sprintf("client transport holds more bytes than the backend has written (step %d)", si))
						return "violation"
					}
					if out[outChecked] != want {
						sink("write-not-prefix", fmt.Sprintf("client transport holds bytes that are not a prefix of the backend's output (step %d)", si))
						return "violation"
					}
				}
				if faulted {
					if err == nil && n == len(piece) {
						sink("write-fault-swallowed:"+p.FaultErr, "transport Write failed/was short but Conn.Write reported success")
					}
					if n < 0 || n > len(piece) {
						sink("write-count-out-of-range", fmt.Sprintf("Write returned n=%d for %d bytes", n, len(piece)))
					}
					return "write-fault-reported:" + errKind(err)
				}
				if err != nil || n != len(piece) {
					sink("write-error:"+errKind(err), fmt.Sprintf("Write(%d bytes) = (%d, %v) on a healthy transport (step %d, record stream legal)", len(piece), n, err, si))
					return "violation"
				}
				// at most one incomplete record withheld
				cb := 0
				for _, e := range bounds {
					if e <= written {
						cb = e
					}
				}
				if need := base + cb; len(out) < need {
					sink("write-withholds-complete-record", fmt.Sprintf("after %d backend bytes only %d are on the wire although %d form complete records", base+written, len(out), need))
					return "violation"
				}
			}
			backendOut = append(backendOut, st.data...)
			if len(t.Out) != len(backendOut) {
				sink("write-incomplete", "backend bytes of complete records not fully delivered")
				return "violation"
			}
		}
	}
	if endResult != "" {
		return endResult
	}
	return "ok"
}

func errKind(err error) string {
	switch {
	case err == nil:
		return "nil"
	case errors.Is(err, errInjected):
		return "injected"
	case errors.Is(err, io.EOF):
		return "eof"
	case errors.Is(err, io.ErrShortWrite):
		return "short-write"
	case errors.Is(err, memnet.ErrStall):
		return "stall"
	}
	return echx.ErrClass(err)
}

func Run(r *ev.Run) {
	r.Rule("E2 deviation-bounded exhaustive exploration, re-executing 4 scenarios (accepted, accepted with handshake records first, accepted+HelloRetryRequest retry, pass-through; flights of 4-8 records per direction with protected-record lengths {0,1,5,16384,16385,16640}) from scratch for every perturbation: caller buffer {1,2,5,6,4096,17000,70000} x [0 deviations | 1 deviation: a transport-read fragment boundary at EVERY byte offset / one-byte reads / a feed split at every record-relevant offset / a backend Write split at EVERY offset / transport end (EOF and error) at EVERY inbound byte offset / k-th transport write failing or short (n in {0,1,len-1}) | 2 deviations (thorough): pairs of cuts, pairs of write splits around record and header boundaries]; plus every record length 0..16640 x content types {20,21,22,23} in both directions. distinct = distinct (scenario, perturbation)")
	r.Assume("reference = two byte queues with ClientHello records replaced by the reference reconstruction (tlsref)", "delivery of the bytes of a partially received record that would have been rewritten (a cut inside a ClientHello) is not constrained")
	key := echx.NewKey("c07", 42, echx.AllSuites, "public.example")
	scs := buildScenarios(key)
	type job struct {
		sc int
		p  perturbation
	}
	var jobs []job
	none := perturbation{FeedSplitStep: -1, WriteStep: -1, EndAt: -1, FaultK: -1}
	bufs := []int{1, 2, 5, 6, 4096, 17000, 70000}
	for si, sc := range scs {
		// inbound stream layout
		var inbound []byte
		var stepAbs []int
		for _, st := range sc.steps {
			if st.dir == 'c' {
				stepAbs = append(stepAbs, len(inbound))
				inbound = append(inbound, st.data...)
			}
		}
		interesting := map[int]bool{}
		for _, e := range append([]int{0}, recordBoundaries(inbound)...) {
			for d := -1; d <= 6; d++ {
				if e+d > 0 && e+d < len(inbound) {
					interesting[e+d] = true
				}
			}
		}
		var hot []int
		for o := range interesting {
			hot = append(hot, o)
		}
		sort.Ints(hot)
		for _, b := range bufs {
			p := none
			p.Scenario, p.Buf = sc.name, b
			jobs = append(jobs, job{si, p}) // bound 0
			p1 := p
			p1.OneByte = true
			if b >= 4096 {
				jobs = append(jobs, job{si, p1})
			}
		}
		for _, b := range []int{5, 70000} {
			// one cut at every byte offset (bound 1)
			for o := 1; o < len(inbound); o++ {
				if !r.Thorough() && !interesting[o] && o%17 != 0 {
					continue
				}
				p := none
				p.Scenario, p.Buf, p.Cuts = sc.name, b, []int{o}
				jobs = append(jobs, job{si, p})
			}
			// transport end at every byte offset, both kinds
			for o := 0; o <= len(inbound); o++ {
				if !r.Thorough() && !interesting[o] && o%29 != 0 {
					continue
				}
				for _, k := range []string{"eof", "err"} {
					for _, dwe := range []bool{false, true} {
						p := none
						p.Scenario, p.Buf, p.EndAt, p.EndErr, p.DataWithEnd = sc.name, b, o, k, dwe
						jobs = append(jobs, job{si, p})
					}
				}
			}
		}
		// pairs of cuts (bound 2) over the interesting offsets
		if r.Thorough() {
			for i, a := range hot {
				for _, b := range hot[i+1:] {
					p := none
					p.Scenario, p.Buf, p.Cuts = sc.name, 70000, []int{a, b}
					jobs = append(jobs, job{si, p})
				}
			}
		} else {
			for i := 0; i+1 < len(hot); i++ {
				p := none
				p.Scenario, p.Buf, p.Cuts = sc.name, 6, []int{hot[i], hot[i+1]}
				jobs = append(jobs, job{si, p})
			}
		}
		// feed split at every interesting offset of every client step
		ci := 0
		for stepIdx, st := range sc.steps {
			if st.dir != 'c' {
				continue
			}
			for o := 1; o < len(st.data); o++ {
				if !interesting[stepAbs[ci]+o] && !(r.Thorough() && o%97 == 0) {
					continue
				}
				p := none
				p.Scenario, p.Buf, p.FeedSplitStep, p.FeedSplitAt = sc.name, 70000, stepIdx, o
				jobs = append(jobs, job{si, p})
			}
			ci++
		}
		// backend write splits: every single offset (bound 1); pairs around boundaries (bound 2)
		for stepIdx, st := range sc.steps {
			if st.dir != 'b' {
				continue
			}
			whot := map[int]bool{}
			for _, e := range append([]int{0}, recordBoundaries(st.data)...) {
				for d := -1; d <= 6; d++ {
					if e+d > 0 && e+d < len(st.data) {
						whot[e+d] = true
					}
				}
			}
			var wh []int
			for o := range whot {
				wh = append(wh, o)
			}
			sort.Ints(wh)
			for o := 1; o < len(st.data); o++ {
				if !r.Thorough() && !whot[o] && o%23 != 0 {
					continue
				}
				p := none
				p.Scenario, p.Buf, p.WriteStep, p.WriteSplits = sc.name, 4096, stepIdx, []int{o}
				jobs = append(jobs, job{si, p})
			}
			for i, a := range wh {
				for _, b := range wh[i+1:] {
					if !r.Thorough() && b-a > 12 {
						continue
					}
					p := none
					p.Scenario, p.Buf, p.WriteStep, p.WriteSplits = sc.name, 4096, stepIdx, []int{a, b}
					jobs = append(jobs, job{si, p})
				}
			}
			// every record in its own Write, and every byte in its own Write
			p := none
			p.Scenario, p.Buf, p.WriteStep, p.WriteSplits = sc.name, 4096, stepIdx, recordBoundaries(st.data)
			jobs = append(jobs, job{si, p})
			if len(st.data) < 40000 || r.Thorough() {
				all := make([]int, 0, len(st.data))
				for o := 1; o < len(st.data); o += 1 {
					all = append(all, o)
				}
				p.WriteSplits = all
				jobs = append(jobs, job{si, p})
			}
		}
		// transport write faults at every transport write call
		nWrites := 0
		for _, st := range sc.steps {
			if st.dir == 'b' {
				nWrites += len(recordBoundaries(st.data))
			}
		}
		for k := 0; k < nWrites; k++ {
			for _, kind := range []string{"err", "short"} {
				for _, n := range []int{0, 1, 4} {
					p := none
					p.Scenario, p.Buf, p.FaultK, p.FaultN, p.FaultErr = sc.name, 4096, k, n, kind
					jobs = append(jobs, job{si, p})
				}
			}
		}
		// two deviations: the backend's first flight handed over in three pieces (the last one short: 1 or 2 bytes that complete
		// a record buffered by the earlier calls) AND the transport write that flushes it failing / being short: the count Write
		// reports stays within what it was given
		for stepIdx, st := range sc.steps {
			if st.dir != 'b' || len(st.data) < 12 {
				continue
			}
			firstRec := recordBoundaries(st.data)[0]
			for _, tail := range []int{1, 2} {
				for _, kind := range []string{"err", "short"} {
					for _, n := range []int{0, 1, 4, firstRec - 1} {
						p := none
						p.Scenario, p.Buf, p.WriteStep, p.WriteSplits = sc.name, 4096, stepIdx, []int{3, firstRec - tail}
						p.FaultK, p.FaultN, p.FaultErr = 0, n, kind
						jobs = append(jobs, job{si, p})
					}
				}
			}
			break
		}
	}
	r.Set("perturbations", len(jobs))
	enum.ParallelFor(len(jobs), func(i int) {
		j := jobs[i]
		sc := scs[j.sc]
		oc := execute(sc, j.p, func(key, what string) {
			r.Violation(key+":"+sc.name, what, j.p)
		})
		r.Eval(fmt.Sprintf("%+v", j.p), sc.name+" -> "+oc)
		if i%(len(jobs)/5+1) == 2 {
			r.Sample(j.p)
		}
	})

	// ---- record-layer versions: legacy_record_version "MUST be ignored for all purposes" (RFC 8446 §5.1): records of every content
	// type carrying unusual version bytes cross the Conn unchanged, in both directions, before and after application data ----
	{
		b0 := scs[0]
		ch0 := b0.steps[0].data[:b0.steps[0].rewritten[0][1]]
		in0 := b0.steps[0].expect[:5+(int(b0.steps[0].expect[3])<<8|int(b0.steps[0].expect[4]))]
		for _, ver := range []uint16{0x0000, 0x0200, 0x0300, 0x0301, 0x0304, 0x0400, 0x7f1c, 0xfefd, 0xffff} {
			for _, typ := range []byte{20, 21, 22, 23} {
				for _, dirB := range []bool{false, true} {
					var rc []byte
					if typ == 22 {
						rc = tlsref.Record(22, ver, tlsref.HandshakeMsg(11, tlsref.DetBytes("ver", 30)))
					} else {
						rc = tlsref.Record(typ, ver, tlsref.DetBytes("ver", 20))
					}
					tail := tlsref.Record(23, ver, tlsref.DetBytes("ver-app", 9))
					sc := scenario{name: fmt.Sprintf("version-%04x-type%d", ver, typ), keys: b0.keys}
					if dirB {
						sc.steps = []step{{dir: 'c', data: ch0, expect: in0, rewritten: [][2]int{{0, len(ch0)}}}, {dir: 'b', data: cat(rc, tail, rc), expect: cat(rc, tail, rc)}}
					} else {
						sc.steps = []step{{dir: 'c', data: cat(ch0, rc, tail, rc), expect: cat(in0, rc, tail, rc), rewritten: [][2]int{{0, len(ch0)}}}}
					}
					p := none
					p.Scenario, p.Buf = fmt.Sprintf("%s backend=%v", sc.name, dirB), 70000
					oc := execute(sc, p, func(key, what string) {
						r.Violation(fmt.Sprintf("%s:record-version:type%d:backend=%v", key, typ, dirB), what, p)
					})
					r.Eval(p.Scenario, "record-version -> "+oc)
				}
			}
		}
	}
	// ---- a read that fails TEMPORARILY (the caller's own read deadline expires, as net/http does between requests) on a
	// pass-through connection: the deadline is lifted, more bytes arrive, and they are delivered ----
	{
		plainSc := scs[len(scs)-1]
		for _, sc := range scs {
			if sc.name == "pass-through" {
				plainSc = sc
			}
		}
		hello := plainSc.steps[0].data
		t := memnet.New()
		t.Feed(hello)
		conn, err := ech.NewConn(ctxBG, t, ech.WithKeys(plainSc.keys))
		buf := make([]byte, 70000)
		if err != nil || conn.ECHAccepted() {
			ev.ToolError("c07: pass-through scenario does not pass through: %v", err)
		}
		var got []byte
		for i := 0; i < 1000 && (t.Pending() > 0 || len(got) == 0); i++ {
			n, err := conn.Read(buf)
			got = append(got, buf[:n]...)
			if err != nil {
				break
			}
		}
		for round := 0; round < 3; round++ {
			conn.SetReadDeadline(time.Now().Add(-time.Second))
			if n, err := conn.Read(buf); err == nil || n != 0 {
				ev.ToolError("c07: expired read deadline did not fail the read (%d, %v)", n, err)
			}
			conn.SetReadDeadline(time.Time{})
			chunk := tlsref.Record(23, 0x0303, tlsref.DetBytes(fmt.Sprint("after-timeout", round), 25))
			t.Feed(chunk)
			n, err := conn.Read(buf)
			if err != nil || !bytes.Equal(buf[:n], chunk) {
				r.Violation("temporary-read-error-sticky:pass-through", fmt.Sprintf("after the caller's read deadline had expired and was lifted again, Read returned (%d, %v) instead of the %d bytes that arrived (round %d)", n, err, len(chunk), round), map[string]any{"round": round})
				break
			}
		}
		_ = got
		r.Eval("temporary-read-error", "pass-through: deadline expiry is not sticky")
	}

	// ---- bytes that follow an ACCEPTED ClientHello inside its record (first hello and retried hello): they are bytes of the
	// client's stream like any others - either the connection is refused (the client is told), or the backend receives them
	// after the reconstructed hello; they must not vanish ----
	{
		var acc, hrr *scenario
		for i := range scs {
			switch scs[i].name {
			case "accepted":
				acc = &scs[i]
			case "accepted-hrr":
				hrr = &scs[i]
			}
		}
		if acc == nil || hrr == nil {
			ev.ToolError("c07: scenarios accepted / accepted-hrr not found")
		}
		recLen := func(b []byte) int { return 5 + (int(b[3])<<8 | int(b[4])) }
		ch1 := acc.steps[0].data[:acc.steps[0].rewritten[0][1]]
		in1 := acc.steps[0].expect[:recLen(acc.steps[0].expect)]
		st := hrr.steps[2]
		ch2 := st.data[st.rewritten[0][0]:st.rewritten[0][1]]
		in2 := st.expect[st.rewritten[0][0]:][:recLen(st.expect[st.rewritten[0][0]:])]
		hrrRec := hrr.steps[1].data
		tail := rec(23, 5, "after")
		extras := map[string][]byte{"1-zero-byte": {0}, "4-bytes": {0xde, 0xad, 0xbe, 0xef}, "40-zero-bytes": make([]byte, 40), "a-whole-handshake-message": tlsref.HandshakeMsg(11, tlsref.DetBytes("coalesced", 20))}
		for _, ek := range []string{"1-zero-byte", "4-bytes", "40-zero-bytes", "a-whole-handshake-message"} {
			extra := extras[ek]
			for _, variant := range []int{0, 1, 2, 3} {
				retried, frag := variant&1 == 1, variant&2 == 2
				kind := "first-hello"
				if retried {
					kind = "retried-hello"
				}
				if frag {
					kind += "-in-two-records"
				}
				desc := fmt.Sprintf("%s followed by %s inside its record", kind, ek)
				coalesce := func(chRec []byte) []byte { return tlsref.Record(22, 0x0301, cat(chRec[5:], extra)) }
				if frag {
					// the hello spans two records and the bytes follow it in the second one
					coalesce = func(chRec []byte) []byte {
						return cat(tlsref.Record(22, 0x0301, chRec[5:155]), tlsref.Record(22, 0x0301, cat(chRec[155:], extra)))
					}
				}
				t := memnet.New()
				var conn *ech.Conn
				var err error
				buf := make([]byte, 70000)
				readAll := func() (got []byte, rerr error) {
					for i := 0; i < 1000 && t.Pending() > 0; i++ {
						n, e := conn.Read(buf)
						got = append(got, buf[:n]...)
						if e != nil {
							return got, e
						}
					}
					return got, nil
				}
				var got []byte
				var wantMsg []byte
				func() {
					defer func() {
						if p := recover(); p != nil {
							r.Violation("panic:bytes-after-accepted-hello", fmt.Sprintf("%s: %v", desc, p), desc)
							err = fmt.Errorf("panic")
						}
					}()
					if !retried {
						t.Feed(cat(coalesce(ch1), tail))
						wantMsg = in1[5:]
						if conn, err = ech.NewConn(ctxBG, t, ech.WithKeys(acc.keys)); err == nil {
							got, err = readAll()
						}
						return
					}
					t.Feed(ch1)
					if conn, err = ech.NewConn(ctxBG, t, ech.WithKeys(acc.keys)); err != nil {
						ev.ToolError("c07: accepted hello refused: %v", err)
					}
					if n, e := conn.Read(buf); e != nil || n < 5 || !bytes.Equal(buf[5:n], in1[5:]) {
						ev.ToolError("c07: first hello not delivered: %d %v", n, e)
					}
					if _, err = conn.Write(hrrRec); err != nil {
						ev.ToolError("c07: HelloRetryRequest not written: %v", err)
					}
					t.Feed(cat(coalesce(ch2), tail))
					wantMsg = in2[5:]
					got, err = readAll()
				}()
				oc := "refused"
				if err == nil {
					// the handshake bytes delivered (payloads of the leading type-22 records), then the tail
					var hs []byte
					rest := got
					for len(rest) >= 5 && rest[0] == 22 && recLen(rest) <= len(rest) {
						hs = append(hs, rest[5:recLen(rest)]...)
						rest = rest[recLen(rest):]
					}
					oc = "delivered"
					if !bytes.Equal(hs, cat(wantMsg, extra)) || !bytes.Equal(rest, tail) {
						oc = "lost"
						what := "something else"
						if bytes.Equal(hs, wantMsg) && bytes.Equal(rest, tail) {
							what = "the reconstructed hello and the next record, WITHOUT those bytes"
						}
						r.Violation("bytes-after-accepted-hello-lost:"+kind, fmt.Sprintf("%s: no error was reported and the backend received %s (%d handshake bytes, want %d = hello %d + %d)", desc, what, len(hs), len(wantMsg)+len(extra), len(wantMsg), len(extra)), desc)
					}
				}
				r.Eval("coalesced-after-accepted:"+desc, "bytes after an accepted hello in its record -> "+oc)
			}
		}
	}

	// ---- a backend record that Write REFUSES (a handshake record that cannot be a ServerHello: cut short, a session id length
	// beyond the body, an extensions length beyond the body, a declared length of zero; an over-long record) is not handed on -
	// and nothing the backend writes afterwards is: the client must never receive a stream with a hole in it ----
	{
		var acc *scenario
		for i := range scs {
			if scs[i].name == "accepted" {
				acc = &scs[i]
			}
		}
		ch1 := acc.steps[0].data[:acc.steps[0].rewritten[0][1]]
		good := echx.ServerHelloRecord(tlsref.DetBytes("sid", 32))
		msg := good[5:]
		mut := func(f func(m []byte) []byte) []byte { return tlsref.Record(22, 0x0303, f(slices.Clone(msg))) }
		bads := map[string][]byte{
			"cut-short":                    mut(func(m []byte) []byte { return m[:40] }),
			"session-id-length-beyond":     mut(func(m []byte) []byte { m[4+2+32] = 0xff; return m }),
			"extensions-length-beyond":     mut(func(m []byte) []byte { m[len(m)-len(m[4+2+32+1+32+3:])] = 0xff; return m }),
			"declared-length-beyond":       mut(func(m []byte) []byte { m[1], m[2], m[3] = 0, 0xff, 0xff; return m[:60] }),
			"record-longer-than-permitted": append([]byte{22, 3, 3, 0x50, 0x00}, make([]byte, 0x5000)...),
		}
		var names []string
		for k := range bads {
			names = append(names, k)
		}
		sort.Strings(names)
		later := [][]byte{rec(23, 30, "later-appdata"), good, rec(22, 20, "later-handshake")}
		for _, name := range names {
			for li, lt := range later {
				t := memnet.New()
				t.Feed(ch1)
				conn, err := ech.NewConn(ctxBG, t, ech.WithKeys(acc.keys))
				if err != nil || !conn.ECHAccepted() {
					ev.ToolError("c07: accepted hello refused: %v", err)
				}
				var e1, e2 error
				func() {
					defer func() {
						if p := recover(); p != nil {
							r.Violation("panic:refused-backend-record", fmt.Sprintf("%s: %v", name, p), name)
							e1 = fmt.Errorf("panic")
						}
					}()
					_, e1 = conn.Write(bads[name])
					_, e2 = conn.Write(lt)
				}()
				got := t.OutBytes()
				all := cat(bads[name], lt)
				oc := "refused for good"
				switch {
				case e1 == nil && bytes.Equal(got, all):
					oc = "handed on unchanged" // (not a ServerHello the Conn has to understand: transparency is fine too)
				case !bytes.HasPrefix(all, got):
					oc = "hole"
					r.Violation("backend-stream-with-a-hole", fmt.Sprintf("the backend's record %q was refused by Write (%v); the next Write returned %v and the client has received %d bytes that are not a prefix of what the backend wrote: the refused bytes are missing in between", name, e1, e2, len(got)), map[string]any{"refused": name, "then": li})
				case e1 != nil && e2 == nil:
					oc = "error forgotten"
					r.Violation("write-error-not-sticky", fmt.Sprintf("the backend's record %q was refused by Write (%v); the next Write reported success", name, e1), map[string]any{"refused": name, "then": li})
				}
				r.Eval(fmt.Sprintf("refused-backend-record:%s:%d", name, li), "refused backend record -> "+oc)
			}
		}
	}

	// ---- a read that fails TEMPORARILY in the middle of a record while the client's stream is still interpreted (between the
	// HelloRetryRequest and the second hello): whatever the Conn does afterwards - stay failed, or carry on - the bytes it
	// delivers are a prefix of what the client sent (with the second hello replaced): the record framing is never lost ----
	{
		var hrr *scenario
		for i := range scs {
			if scs[i].name == "accepted-hrr" {
				hrr = &scs[i]
			}
		}
		ch1 := hrr.steps[0].data
		st := hrr.steps[2]
		clientBytes, want := st.data, st.expect // ccs + second hello + tail  ->  ccs + inner second hello + tail
		timeout := os.ErrDeadlineExceeded
		for cut := 1; cut <= 6; cut++ { // inside the change_cipher_spec record that precedes the second hello, and right after it
			// (a cut inside the hello's own record leaves a partial record whose delivery the main oracle of this check defines)
			for _, again := range []int{1, 3} { // the read fails once, or three times in a row, before the bytes arrive
				sc := &scriptConn{}
				sc.reads = append(sc.reads, scriptRead{data: ch1})
				conn, err := ech.NewConn(ctxBG, sc, ech.WithKeys(hrr.keys))
				if err != nil {
					ev.ToolError("c07: %v", err)
				}
				buf := make([]byte, 70000)
				if n, err := conn.Read(buf); err != nil || n < 5 {
					ev.ToolError("c07: first hello not delivered: %d %v", n, err)
				}
				if _, err := conn.Write(hrr.steps[1].data); err != nil {
					ev.ToolError("c07: %v", err)
				}
				sc.reads = append(sc.reads, scriptRead{data: clientBytes[:cut]})
				for i := 0; i < again; i++ {
					sc.reads = append(sc.reads, scriptRead{err: timeout})
				}
				sc.reads = append(sc.reads, scriptRead{data: clientBytes[cut:]}, scriptRead{err: io.EOF})
				var got []byte
				sawErr, recovered := false, false
				func() {
					defer func() {
						if p := recover(); p != nil {
							r.Violation("panic:temporary-read-error-mid-record", fmt.Sprint(p), cut)
						}
					}()
					for i := 0; i < 200 && len(sc.reads) > 0; i++ {
						n, err := conn.Read(buf)
						got = append(got, buf[:n]...)
						if err != nil {
							sawErr = true
						} else if sawErr && n > 0 {
							recovered = true
						}
					}
				}()
				oc := "stays failed"
				if recovered {
					oc = "carries on"
				}
				if !bytes.HasPrefix(want, got) {
					oc = "FRAMING LOST"
					r.Violation("temporary-read-error-mid-record:framing-lost", fmt.Sprintf("the transport read failed temporarily %d time(s) after %d of the client's bytes (in the middle of a record); afterwards the Conn delivered %d bytes that are NOT a prefix of the client's stream with the second hello replaced (first difference at offset %d)", again, cut, len(got), firstDiff(got, want)), cut)
				}
				r.Eval(fmt.Sprint("tmp-mid-record:", cut, again), "temporary read error mid-record -> "+oc)
			}
		}
	}

	// ---- every record length x content type, both directions ----
	lengths := []int{}
	for l := 0; l <= 16640; l++ {
		if r.Thorough() || l <= 40 || l >= 16360 || l%512 < 2 || l%1000 == 999 {
			lengths = append(lengths, l)
		}
	}
	r.Set("record_lengths_swept", len(lengths))
	base := scs[0]
	ch := base.steps[0].data[:base.steps[0].rewritten[0][1]]
	in := base.steps[0].expect[:5+(int(base.steps[0].expect[3])<<8|int(base.steps[0].expect[4]))]
	enum.ParallelFor(len(lengths)*4*2, func(i int) {
		l := lengths[i/8]
		typ := []byte{20, 21, 22, 23}[i/2%4]
		dirB := i%2 == 1
		var rc []byte
		if typ == 22 && l >= 4 {
			rc = tlsref.Record(22, 0x0303, tlsref.HandshakeMsg(11, tlsref.DetBytes("sweep", l-4)))
		} else {
			rc = rec(typ, l, "sweep")
		}
		if typ == 22 && l == 0 || typ != 23 && l > 16384 {
			// zero-length handshake fragments are forbidden (RFC 8446 §5.1) and only protected
			// (application_data-typed) records may exceed 2^14: not "lengths TLS permits"
			return
		}
		sc := scenario{name: fmt.Sprintf("sweep-type%d", typ), keys: base.keys}
		if dirB {
			sc.steps = []step{{dir: 'c', data: ch, expect: in, rewritten: [][2]int{{0, len(ch)}}}, {dir: 'b', data: cat(rc, rc), expect: cat(rc, rc)}}
		} else {
			sc.steps = []step{{dir: 'c', data: cat(ch, rc, rc), expect: cat(in, rc, rc), rewritten: [][2]int{{0, len(ch)}}}}
		}
		p := none
		p.Scenario, p.Buf = fmt.Sprintf("%s len=%d backend=%v", sc.name, l, dirB), 70000
		oc := execute(sc, p, func(key, what string) {
			cls := "len<=16384"
			if l > 16384 {
				cls = "len>16384"
			}
			if l == 0 {
				cls = "len=0"
			}
			r.Violation(fmt.Sprintf("%s:sweep:type%d:%s:backend=%v", key, typ, cls, dirB), what, p)
		})
		r.Eval(p.Scenario, "sweep -> "+oc)
	})
}

// scriptConn is a transport whose Read results are scripted one by one (data, or an error); writes are recorded.
type scriptRead struct {
	data []byte
	err  error
}

type scriptConn struct {
	reads []scriptRead
	out   []byte
}

func (c *scriptConn) Read(p []byte) (int, error) {
	if len(c.reads) == 0 {
		return 0, io.EOF
	}
	r := &c.reads[0]
	if r.err != nil {
		c.reads = c.reads[1:]
		return 0, r.err
	}
	n := copy(p, r.data)
	r.data = r.data[n:]
	if len(r.data) == 0 {
		c.reads = c.reads[1:]
	}
	return n, nil
}
func (c *scriptConn) Write(p []byte) (int, error)      { c.out = append(c.out, p...); return len(p), nil }
func (c *scriptConn) Close() error                     { return nil }
func (c *scriptConn) LocalAddr() net.Addr              { return nil }
func (c *scriptConn) RemoteAddr() net.Addr             { return nil }
func (c *scriptConn) SetDeadline(time.Time) error      { return nil }
func (c *scriptConn) SetReadDeadline(time.Time) error  { return nil }
func (c *scriptConn) SetWriteDeadline(time.Time) error { return nil }

func firstDiff(a, b []byte) int {
	for i := 0; i < len(a) && i < len(b); i++ {
		if a[i] != b[i] {
			return i
		}
	}
	return min(len(a), len(b))
}
