// Package c12 decides C12: decoding any DNS message terminates, within bounds,
// without panicking, and yields typed data the resolver can consume. Grammar-
// bounded exhaustive enumeration (E1) in memory-capped worker processes.
package c12

import (
	"bytes"
	"compress/gzip"
	"context"
	"crypto/tls"
	"encoding/binary"
	"fmt"
	"io"
	"net"
	"net/http"
	"net/http/httptest"
	"runtime"
	"strings"
	"time"
	"verif/internal/dnsref"

	"github.com/c2FmZQ/ech"
	"github.com/c2FmZQ/ech/dns"

	"verif/internal/dohmem"
	"verif/internal/ev"
	"verif/internal/workers"
)

type kase struct {
	Family string
	Desc   string
	Msg    []byte
	N      int // size parameter for scaling families (0 = none)
}

// ---- generator ----

func hdr(qd, an, ns, ar int) []byte {
	h := make([]byte, 12)
	h[2] = 0x81
	h[3] = 0x80
	binary.BigEndian.PutUint16(h[4:], uint16(qd))
	binary.BigEndian.PutUint16(h[6:], uint16(an))
	binary.BigEndian.PutUint16(h[8:], uint16(ns))
	binary.BigEndian.PutUint16(h[10:], uint16(ar))
	return h
}

var qA = []byte{1, 'a', 0, 0, 1, 0, 1} // question "a" A IN, at offset 12..18

func rrFixed(typ uint16, ttl uint32, rdlen int) []byte {
	b := make([]byte, 10)
	binary.BigEndian.PutUint16(b, typ)
	binary.BigEndian.PutUint16(b[2:], 1)
	binary.BigEndian.PutUint32(b[4:], ttl)
	binary.BigEndian.PutUint16(b[8:], uint16(rdlen))
	return b
}

// nameStringsWithStarts is nameStrings that also reports the absolute offsets of the token starts.
func nameStringsWithStarts(base, maxTok int, f func(desc string, b []byte, starts []int)) {
	nameStringsImpl(base, maxTok, f)
}

// nameStrings enumerates hostile name encodings of up to maxTok tokens placed at absolute offset base.
func nameStrings(base, maxTok int, f func(desc string, b []byte)) {
	nameStringsImpl(base, maxTok, func(d string, b []byte, _ []int) { f(d, b) })
}

func nameStringsImpl(base, maxTok int, f func(desc string, b []byte, starts []int)) {
	type tok struct {
		name string
		gen  func(at int, starts []int) []byte
	}
	toks := []tok{
		{"a", func(int, []int) []byte { return []byte{1, 'a'} }},
		{"L63", func(int, []int) []byte { return append([]byte{63}, strings.Repeat("b", 63)...) }},
		{"end", func(int, []int) []byte { return []byte{0} }},
		{"ptr-self", func(at int, _ []int) []byte { return []byte{0xc0 | byte(at>>8), byte(at)} }},
		{"ptr-fwd", func(at int, _ []int) []byte { return []byte{0xc0 | byte((at+2)>>8), byte(at + 2)} }},
		{"ptr-hdr0", func(int, []int) []byte { return []byte{0xc0, 0} }},
		{"ptr-hdr11", func(int, []int) []byte { return []byte{0xc0, 11} }},
		{"ptr-q", func(int, []int) []byte { return []byte{0xc0, 12} }},
		{"ptr-q-mid", func(int, []int) []byte { return []byte{0xc0, 13} }},
		{"ptr-past-end", func(int, []int) []byte { return []byte{0xff, 0xff} }},
		{"ptr-first", func(_ int, st []int) []byte { return []byte{0xc0 | byte(st[0]>>8), byte(st[0])} }},
		{"ptr-prev", func(_ int, st []int) []byte { return []byte{0xc0 | byte(st[len(st)-1]>>8), byte(st[len(st)-1])} }},
		{"x40", func(int, []int) []byte { return []byte{0x40} }},
		{"x80", func(int, []int) []byte { return []byte{0x80, 1} }},
		{"half-ptr", func(int, []int) []byte { return []byte{0xc0} }},
	}
	var rec func(desc []string, b []byte, starts []int)
	rec = func(desc []string, b []byte, starts []int) {
		f(strings.Join(desc, " "), b, starts)
		if len(desc) == maxTok {
			return
		}
		for _, t := range toks {
			if (t.name == "ptr-first" || t.name == "ptr-prev") && len(starts) == 0 {
				continue
			}
			at := base + len(b)
			nb := append(append([]byte{}, b...), t.gen(at, starts)...)
			rec(append(append([]string{}, desc...), t.name), nb, append(append([]int{}, starts...), at))
		}
	}
	rec(nil, nil, nil)
}

type rdCtx struct {
	name string
	typ  uint16
	pre  []byte
	post []byte
	two  bool // two names (SOA)
}

var rdCtxs = []rdCtx{
	{"NS", 2, nil, nil, false}, {"CNAME", 5, nil, nil, false}, {"PTR", 12, nil, nil, false},
	{"MX", 15, []byte{0, 10}, nil, false}, {"SOA", 6, nil, make([]byte, 20), true},
	{"SRV", 33, []byte{0, 1, 0, 2, 0, 80}, nil, false},
	{"SVCB", 64, []byte{0, 1}, []byte{0, 1, 0, 3, 2, 'h', '2'}, false},
	{"HTTPS", 65, []byte{0, 1}, []byte{0, 3, 0, 2, 0x20, 0xfb}, false},
	{"NSEC", 47, nil, []byte{0, 1, 0x40}, false},
	{"RRSIG", 46, append([]byte{0, 1, 8, 2}, make([]byte, 14)...), []byte("sig"), false},
}

func generate(thorough bool, emit func(kase)) {
	maxTok := 4
	if thorough {
		maxTok = 5
	}
	// (i) hostile names in every name position
	nameStrings(12, maxTok+1, func(desc string, nb []byte) { // question position (one token more: it is the cheapest context)
		emit(kase{Family: "name:question", Desc: desc, Msg: append(append(hdr(1, 0, 0, 0), nb...), 0, 1, 0, 1)})
	})
	base := 12 + len(qA)
	nameStrings(base, maxTok, func(desc string, nb []byte) {
		m := append(hdr(1, 1, 0, 0), qA...)
		m = append(m, nb...)
		m = append(m, rrFixed(1, 60, 4)...)
		emit(kase{Family: "name:owner", Desc: desc, Msg: append(m, 192, 0, 2, 1)})
	})
	for _, c := range rdCtxs {
		c := c
		rdBase := base + 2 + 10 + len(c.pre)
		nameStrings(rdBase, maxTok, func(desc string, nb []byte) {
			rd := append(append([]byte{}, c.pre...), nb...)
			if c.two {
				rd = append(rd, 0xc0, 12)
			}
			rd = append(rd, c.post...)
			for _, d := range []int{0, -1, +1} {
				if d != 0 && len(desc)%3 != 0 && !thorough {
					continue
				}
				if len(rd)+d < 0 {
					continue
				}
				m := append(hdr(1, 1, 0, 0), qA...)
				m = append(m, 0xc0, 12)
				m = append(m, rrFixed(c.typ, 60, len(rd)+d)...)
				emit(kase{Family: "name:rdata:" + c.name, Desc: fmt.Sprintf("%s rdlen%+d", desc, d), Msg: append(m, rd...)})
			}
		})
	}
	// (i-b) a hostile token string hosted in the RDATA of an unknown-type record (never parsed as a name itself), entered
	// from the next record's owner name through a pointer to each of its token starts: cycles that lie entirely
	// before the name being decoded
	{
		regionBase := 12 + len(qA) + 2 + 10
		regionTok := maxTok - 1
		nameStringsWithStarts(regionBase, regionTok, func(desc string, nb []byte, starts []int) {
			if len(starts) == 0 {
				return
			}
			for ei, entry := range starts {
				m := append(hdr(1, 2, 0, 0), qA...)
				m = append(m, 0xc0, 12)
				m = append(m, rrFixed(99, 1, len(nb))...)
				m = append(m, nb...)
				m = append(m, 0xc0|byte(entry>>8), byte(entry))
				m = append(m, rrFixed(1, 1, 4)...)
				m = append(m, 9, 9, 9, 9)
				emit(kase{Family: "name:via-opaque-region", Desc: fmt.Sprintf("%s entry%d", desc, ei), Msg: m})
			}
		})
		// the 12 header bytes as compression targets: ID / flags / counts that read as pointers or labels
		for _, id := range []uint16{0xc000, 0xc002, 0xc00c, 0x0161, 0x3f00} {
			for _, ptr := range []byte{0, 1, 2, 4, 10} {
				h := hdr(1, 0, 0, 0)
				h[0], h[1] = byte(id>>8), byte(id)
				m := append(h, 0xc0, ptr, 0, 1, 0, 1)
				emit(kase{Family: "name:pointer-into-header", Desc: fmt.Sprintf("id=%04x ptr=%d", id, ptr), Msg: m})
				m2 := append(append([]byte{}, h...), 1, 'a', 0xc0, ptr, 0, 1, 0, 1)
				emit(kase{Family: "name:pointer-into-header", Desc: fmt.Sprintf("id=%04x label+ptr=%d", id, ptr), Msg: m2})
			}
		}
	}
	// (ii) per-type RDATA: every truncation and every byte of structure +-1
	rdatas := []struct {
		name string
		typ  uint16
		rd   []byte
	}{
		{"A", 1, []byte{1, 2, 3, 4}}, {"AAAA", 28, make([]byte, 16)},
		{"TXT", 16, []byte{3, 'a', 'b', 'c', 0, 2, 'x', 'y'}},
		{"HTTPS", 65, []byte{0, 1, 0, 0, 0, 0, 2, 0, 1, 0, 1, 0, 6, 2, 'h', '3', 2, 'h', '2', 0, 2, 0, 0, 0, 3, 0, 2, 1, 187, 0, 4, 0, 8, 1, 2, 3, 4, 5, 6, 7, 8, 0, 5, 0, 4, 0xfe, 0x0d, 0, 0, 0, 6, 0, 16, 1, 1, 1, 1, 1, 1, 1, 1, 1, 1, 1, 1, 1, 1, 1, 1, 0xff, 0xff, 0, 1, 9}},
		{"SVCB", 64, []byte{0, 0, 1, 'x', 0, 0, 1, 0, 3, 2, 'h', '2', 0, 7, 0, 0}},
		{"OPT", 41, []byte{0, 12, 0, 3, 0, 0, 0, 0, 10, 0, 8, 1, 2, 3, 4, 5, 6, 7, 8}},
		{"CAA", 257, []byte{0, 5, 'i', 's', 's', 'u', 'e', 'c', 'a'}},
		{"CERT", 37, []byte{0, 1, 0, 2, 3, 9, 9}}, {"DS", 43, []byte{0, 1, 8, 2, 7, 7}}, {"DNSKEY", 48, []byte{1, 1, 3, 8, 5, 5}},
		{"LOC", 29, make([]byte, 16)}, {"URI", 256, []byte{0, 1, 0, 2, 'h', 't', 't', 'p'}},
		{"SOA", 6, append([]byte{1, 'm', 0, 1, 'r', 0}, make([]byte, 20)...)},
		{"MX", 15, []byte{0, 5, 1, 'm', 0}}, {"SRV", 33, []byte{0, 1, 0, 2, 0, 3, 1, 't', 0}},
		{"RRSIG", 46, append(append([]byte{0, 1, 8, 2}, make([]byte, 14)...), 1, 's', 0, 9, 9)},
		{"NSEC", 47, []byte{1, 'n', 0, 0, 1, 0x40}},
		{"unknown", 99, []byte{1, 2, 3}},
	}
	for _, r := range rdatas {
		mk := func(rd []byte, rdlen int) []byte {
			m := append(hdr(1, 1, 0, 0), qA...)
			m = append(m, 0xc0, 12)
			m = append(m, rrFixed(r.typ, 60, rdlen)...)
			return append(m, rd...)
		}
		for cut := 0; cut <= len(r.rd); cut++ {
			emit(kase{Family: "rdata-cut:" + r.name, Desc: fmt.Sprint(cut), Msg: mk(r.rd[:cut], cut)})
			emit(kase{Family: "rdata-cut-lying-rdlen:" + r.name, Desc: fmt.Sprint(cut), Msg: mk(r.rd[:cut], len(r.rd))})
		}
		for i := range r.rd {
			for _, d := range []int{-1, +1, 0x80} {
				rd := append([]byte{}, r.rd...)
				rd[i] = byte(int(rd[i]) + d)
				emit(kase{Family: "rdata-byte:" + r.name, Desc: fmt.Sprintf("byte%d%+d", i, d), Msg: mk(rd, len(rd))})
			}
		}
		emit(kase{Family: "rdata-rdlen:" + r.name, Desc: "+1", Msg: mk(r.rd, len(r.rd)+1)})
		emit(kase{Family: "rdata-rdlen:" + r.name, Desc: "65535", Msg: mk(r.rd, 65535)})
	}
	// (ii-b) SVCB/HTTPS parameters: every key 0..9 and 65535 with every value length 0..5 (and 2 values of its bytes)
	for _, typ := range []uint16{64, 65} {
		for _, key := range []int{0, 1, 2, 3, 4, 5, 6, 7, 8, 9, 65535} {
			for vl := 0; vl <= 5; vl++ {
				for _, fill := range []byte{0x00, 0x01, 0xff} {
					rd := []byte{0, 1, 0, byte(key >> 8), byte(key), 0, byte(vl)}
					rd = append(rd, bytes.Repeat([]byte{fill}, vl)...)
					m := append(hdr(1, 1, 0, 0), qA...)
					m = append(m, 0xc0, 12)
					m = append(m, rrFixed(typ, 60, len(rd))...)
					emit(kase{Family: fmt.Sprintf("svcparam-shape:%d", typ), Desc: fmt.Sprintf("key%d len%d fill%02x", key, vl, fill), Msg: append(m, rd...)})
				}
			}
		}
	}
	// (ii-c) a record of EVERY type code 0..300 (and a few high ones) owned by the queried name, whose RDATA is a domain name,
	// four bytes, or empty: decoded, then consumed by the resolver for that name
	var allTypes []int
	for t := 0; t <= 300; t++ {
		allTypes = append(allTypes, t)
	}
	for _, t := range append(allTypes, 32768, 32769, 65280, 65535) {
		for ri, rd := range [][]byte{{1, 'b', 0}, {192, 0, 2, 1}, {}, {0xc0, 12}} {
			m := append(hdr(1, 1, 0, 0), qA...)
			m = append(m, 0xc0, 12)
			m = append(m, rrFixed(uint16(t), 60, len(rd))...)
			m = append(m, rd...)
			// ... followed by an address record for the name the RDATA spells, so that a consumer that follows it finds something
			emit(kase{Family: "every-type", Desc: fmt.Sprintf("type%d rdata%d", t, ri), Msg: m})
		}
	}
	// (ii-e) HTTPS answers whose alias / service target contains a "label" with a length octet of 64..191 (reserved by RFC 1035;
	// whatever the decoder makes of it, following that target must not crash the resolver)
	for _, ll := range []int{63, 64, 65, 100, 191} {
		for _, prio := range []byte{0, 1} {
			rd := []byte{0, prio, byte(ll)}
			rd = append(rd, bytes.Repeat([]byte{'x'}, ll)...)
			rd = append(rd, 7, 'e', 'x', 'a', 'm', 'p', 'l', 'e', 0)
			m := append(hdr(1, 1, 0, 0), qA[:3]...)
			m = append(m, 0, 65, 0, 1) // the question asks for HTTPS
			m = append(m, 0xc0, 12)
			m = append(m, rrFixed(65, 60, len(rd))...)
			emit(kase{Family: "long-label-target", Desc: fmt.Sprintf("label%d prio%d", ll, prio), Msg: append(m, rd...)})
		}
	}
	// (ii-d) responses whose header RCODE is 0..15 and whose OPT record carries every extended-RCODE octet of interest in its
	// TTL (the 12-bit response code is assembled from both): decoded, then consumed by the resolver
	for rc := 0; rc < 16; rc++ {
		for _, hi := range []byte{0, 1, 2, 0x0f, 0x10, 0x80, 0xff} {
			for _, withAnswer := range []bool{false, true} {
				m := hdr(1, 0, 0, 1)
				m[3] = m[3]&0xf0 | byte(rc)
				if withAnswer {
					m = hdr(1, 1, 0, 1)
					m[3] = m[3]&0xf0 | byte(rc)
				}
				m = append(m, qA...)
				if withAnswer {
					m = append(m, 0xc0, 12)
					m = append(m, rrFixed(1, 60, 4)...)
					m = append(m, 10, 0, 0, 1)
				}
				m = append(m, 0) // root owner of the OPT record
				opt := rrFixed(41, uint32(hi)<<24, 0)
				opt[2], opt[3] = 0x10, 0x00 // class = UDP payload size 4096
				m = append(m, opt...)
				emit(kase{Family: "extended-rcode", Desc: fmt.Sprintf("rcode%d ext%#x answer=%v", rc, hi, withAnswer), Msg: m})
			}
		}
	}
	// (ii-e) the same, the OPT record carrying ONE option: every option code 0..20 (+3 high ones) x 0..5 data bytes x two fills
	// (cookies, padding, extended DNS errors, ... of any length, well-formed for their code or not), under response codes that
	// the resolver reports and under rcode 0
	for _, rc := range []int{0, 2, 3, 5} {
		for _, hi := range []byte{0, 1} {
			for _, code := range []int{0, 1, 2, 3, 4, 5, 6, 7, 8, 9, 10, 11, 12, 13, 14, 15, 16, 17, 18, 19, 20, 0x0f00, 65001, 65535} {
				for dl := 0; dl <= 5; dl++ {
					for _, fill := range []byte{0, 0xff} {
						m := hdr(1, 0, 0, 1)
						m[3] = m[3]&0xf0 | byte(rc)
						m = append(m, qA...)
						m = append(m, 0)
						opt := rrFixed(41, uint32(hi)<<24, 4+dl)
						opt[2], opt[3] = 0x10, 0x00
						m = append(m, opt...)
						m = append(m, byte(code>>8), byte(code), 0, byte(dl))
						m = append(m, bytes.Repeat([]byte{fill}, dl)...)
						emit(kase{Family: "opt-option", Desc: fmt.Sprintf("rcode%d ext%d code%d len%d fill%#x", rc, hi, code, dl, fill), Msg: m})
					}
				}
			}
		}
	}
	// (v) DoH response bodies: content-length missing / lying / over the cap, with bodies up to 8 MiB (see runCase)
	for _, v := range []string{"no-length-1MiB", "no-length-8MiB", "length-65536", "length-70000", "length-negative", "length-garbage", "length-10-body-5", "length-5-body-1MiB", "length-65535-full", "gzip-8MiB-in-9KB", "deflate-8MiB-in-9KB", "status-403", "status-400", "status-403-body-8MiB", "status-404-body-8MiB-no-length", "real-transport-plain", "real-transport-gzip-8MiB", "real-transport-chunked-8MiB"} {
		emit(kase{Family: "doh-body", Desc: v, Msg: append(hdr(1, 0, 0, 0), qA...)})
	}
	// (iii) header counts x number of records actually present
	rrA := append([]byte{0xc0, 12}, append(rrFixed(1, 60, 4), 10, 0, 0, 1)...)
	for _, qd := range []int{0, 1, 2, 65535} {
		for _, an := range []int{0, 1, 2, 65535} {
			for _, ns := range []int{0, 1, 65535} {
				for _, ar := range []int{0, 1, 65535} {
					for present := 0; present <= 3; present++ {
						m := hdr(qd, an, ns, ar)
						if qd > 0 {
							m = append(m, qA...)
						}
						for i := 0; i < present; i++ {
							m = append(m, rrA...)
						}
						emit(kase{Family: "header-counts", Desc: fmt.Sprintf("qd%d an%d ns%d ar%d present%d", qd, an, ns, ar, present), Msg: m})
					}
				}
			}
		}
	}
	for l := 0; l < 12; l++ {
		emit(kase{Family: "short-header", Desc: fmt.Sprint(l), Msg: hdr(1, 1, 1, 1)[:l]})
	}
	// (iv) scaling families
	sizes := []int{64, 256, 1024, 4096, 16384}
	if thorough {
		sizes = append(sizes, 65535)
	}
	for _, n := range sizes {
		// opaque record (unknown type) whose RDATA hosts compression targets; then names that point into it
		opaque := func(body []byte) []byte {
			m := append(hdr(1, 0, 0, 0), qA...)
			m = append(m, 0xc0, 12)
			m = append(m, rrFixed(99, 1, len(body))...)
			return append(m, body...)
		}
		bodyAt := 12 + len(qA) + 2 + 10
		// pointer chain: n/2 pointers, each pointing at the previous one; an owner name pointing at the last
		{
			var body []byte
			prev := 12
			for len(body)+40 < n && bodyAt+len(body) < 0x3ff0 {
				at := bodyAt + len(body)
				body = append(body, 0xc0|byte(prev>>8), byte(prev))
				prev = at
			}
			m := opaque(body)
			m = append(m, 0xc0|byte(prev>>8), byte(prev))
			m = append(m, rrFixed(1, 1, 4)...)
			m = append(m, 1, 2, 3, 4)
			binary.BigEndian.PutUint16(m[6:], 2)
			emit(kase{Family: "scale:pointer-chain", Desc: fmt.Sprint(n), Msg: m, N: n})
		}
		// one name made of n/2 one-byte labels
		{
			m := hdr(1, 0, 0, 0)
			for len(m)+8 < n {
				m = append(m, 1, 'x')
			}
			emit(kase{Family: "scale:many-labels", Desc: fmt.Sprint(n), Msg: append(m, 0, 0, 1, 0, 1), N: n})
		}
		// label chain (label + pointer to the previous chunk) of n/8 chunks, then records all pointing at the last chunk
		{
			var body []byte
			prev := 12
			for len(body) < n/2 && bodyAt+len(body) < 0x3ff0 {
				at := bodyAt + len(body)
				body = append(body, 1, 'c', 0xc0|byte(prev>>8), byte(prev))
				prev = at
			}
			m := opaque(body)
			cnt := 1
			for len(m)+16 < n {
				m = append(m, 0xc0|byte(prev>>8), byte(prev))
				m = append(m, rrFixed(1, 1, 4)...)
				m = append(m, 1, 2, 3, 4)
				cnt++
			}
			binary.BigEndian.PutUint16(m[6:], uint16(cnt))
			emit(kase{Family: "scale:label-chain-x-records", Desc: fmt.Sprint(n), Msg: m, N: n})
		}
		// a question name of 127 one-octet labels that are DOTS (the longest legal name; a dot is an octet like any other), then
		// records whose owner points at it: every record decodes 127 labels that need escaping
		{
			m := hdr(1, 0, 0, 0)
			for i := 0; i < 127; i++ {
				m = append(m, 1, '.')
			}
			m = append(m, 0, 0, 1, 0, 1)
			cnt := 0
			for len(m)+16 < n {
				m = append(m, 0xc0, 12)
				m = append(m, rrFixed(1, 1, 4)...)
				m = append(m, 1, 2, 3, 4)
				cnt++
			}
			binary.BigEndian.PutUint16(m[6:], uint16(cnt))
			if cnt > 0 {
				emit(kase{Family: "scale:dotted-labels-x-records", Desc: fmt.Sprint(n), Msg: m, N: n})
			}
		}
		// the classic loops, padded to n
		for _, loop := range [][]byte{{1, 'a', 0xc0, 12}, {0xc0, 12}, {0xc0, 14, 0xc0, 12}, {1, 'a', 1, 'b', 0xc0, 14}} {
			m := append(hdr(1, 0, 0, 0), loop...)
			m = append(m, 0, 1, 0, 1)
			for len(m) < n {
				m = append(m, 0)
			}
			emit(kase{Family: "scale:pointer-loop", Desc: fmt.Sprintf("%x n=%d", loop, n), Msg: m, N: n})
		}
		// many SVCB params / many OPT options / many TXT strings
		{
			m := append(hdr(1, 1, 0, 0), qA...)
			m = append(m, 0xc0, 12)
			var rd []byte
			rd = append(rd, 0, 1, 0)
			for k := 0; len(rd)+40 < n && len(rd) < 65000; k++ {
				rd = append(rd, byte(k>>8), byte(k), 0, 0)
			}
			m = append(m, rrFixed(65, 1, len(rd))...)
			emit(kase{Family: "scale:many-params", Desc: fmt.Sprint(n), Msg: append(m, rd...), N: n})
		}
		// round 14: ONE parameter of an HTTPS record holding many items - n/2 one-octet alpn ids, n/4 ipv4 hints, n/16 ipv6 hints (a
		// list that is copied for every item it gains costs n^2 x the item size: 0.5 GB for 8000 ids)
		for _, it := range []struct {
			name string
			key  byte
			item []byte
		}{{"alpn-ids", 1, []byte{1, 'x'}}, {"ipv4-hints", 4, []byte{10, 1, 2, 3}}, {"ipv6-hints", 6, []byte{0x20, 1, 0xd, 0xb8, 0, 0, 0, 0, 0, 0, 0, 0, 0, 0, 0, 1}}} {
			m := append(hdr(1, 1, 0, 0), qA...)
			m = append(m, 0xc0, 12)
			var val []byte
			for len(val)+len(it.item)+40 < n && len(val)+len(it.item) < 65000 {
				val = append(val, it.item...)
			}
			if len(val) == 0 {
				continue
			}
			rd := append([]byte{0, 1, 0, 0, it.key, byte(len(val) >> 8), byte(len(val))}, val...)
			m = append(m, rrFixed(65, 1, len(rd))...)
			emit(kase{Family: "scale:https-list-" + it.name, Desc: fmt.Sprint(n), Msg: append(m, rd...), N: n})
		}
	}
}

// ---- worker ----

func goTypeOK(rr dns.RR) bool {
	want := map[uint16]string{1: "net.IP", 28: "net.IP", 2: "string", 5: "string", 12: "string", 6: "dns.SOA", 15: "dns.MX", 16: "dns.TXT",
		29: "dns.LOC", 33: "dns.SRV", 37: "dns.CERT", 41: "[]dns.Option", 43: "dns.DS", 46: "dns.RRSIG", 47: "dns.NSEC", 48: "dns.DNSKEY",
		64: "dns.SVCB", 65: "dns.HTTPS", 256: "dns.URI", 257: "dns.CAA"}
	w, ok := want[rr.Type]
	if !ok {
		w = "[]uint8"
	}
	return fmt.Sprintf("%T", rr.Data) == w
}

// budget is the allocation budget in bytes for decoding a message of n bytes: a small polynomial.
func budget(n int) uint64 {
	return 256*1024 + 512*uint64(n) + uint64(n)*uint64(n)/2
}

// runDoHBody: the resolver must bound what it reads from a DoH response whatever the headers say.
func runDoHBody(k kase, srv *dohmem.Server, res *ech.Resolver) (r workers.Result) {
	r.Replay = map[string]any{"family": k.Family, "desc": k.Desc}
	valid := append(hdr(1, 1, 0, 0), qA...)
	valid = append(valid, 0xc0, 12)
	valid = append(valid, rrFixed(1, 60, 4)...)
	valid = append(valid, 10, 0, 0, 1)
	big := func(n int) []byte { return append(append([]byte{}, valid...), make([]byte, n-len(valid))...) }
	if strings.HasPrefix(k.Desc, "real-transport-") {
		// the same hostile bodies through a REAL http.Transport over loopback TLS (the in-memory responder sits below the
		// transport's own handling of Content-Encoding: what the transport inflates on the client's behalf is only seen this way)
		var zb bytes.Buffer
		zw := gzip.NewWriter(&zb)
		bigBody := big(8 << 20)
		zw.Write(bigBody)
		zw.Close()
		ts := httptest.NewTLSServer(http.HandlerFunc(func(w http.ResponseWriter, req *http.Request) {
			io.Copy(io.Discard, req.Body)
			w.Header().Set("Content-Type", "application/dns-message")
			switch {
			case k.Desc == "real-transport-gzip-8MiB" && strings.Contains(req.Header.Get("Accept-Encoding"), "gzip"):
				w.Header().Set("Content-Encoding", "gzip")
				w.Write(zb.Bytes())
			case k.Desc == "real-transport-chunked-8MiB":
				w.(http.Flusher).Flush() // no Content-Length: chunked
				w.Write(bigBody)
			default:
				w.Write(valid)
			}
		}))
		defer ts.Close()
		prev := dns.VerifRoundTripper
		tr := &http.Transport{TLSClientConfig: &tls.Config{InsecureSkipVerify: true}}
		dns.VerifRoundTripper = tr
		defer func() { dns.VerifRoundTripper = prev; tr.CloseIdleConnections() }()
		res2, err := ech.NewResolver(ts.URL + "/dns-query")
		if err != nil {
			r.Viol, r.What = "tool:real-transport", err.Error()
			return
		}
		var ms0, ms1 runtime.MemStats
		runtime.ReadMemStats(&ms0)
		func() {
			defer func() {
				if p := recover(); p != nil {
					r.Viol, r.What = "panic:doh-body", fmt.Sprintf("Resolve panicked: %v", p)
				}
			}()
			ctx, cancel := context.WithTimeout(context.Background(), 10*time.Second)
			defer cancel()
			_, err := res2.Resolve(ctx, "a")
			r.Outcome = fmt.Sprintf("doh-body %s -> err=%v", k.Desc, err != nil)
		}()
		runtime.ReadMemStats(&ms1)
		// (the server side of the loopback connection lives in this process too: it writes the compressed body from one buffer;
		// TLS records and the transport's own buffers are bounded)
		if alloc := ms1.TotalAlloc - ms0.TotalAlloc; alloc > 4<<20 && r.Viol == "" {
			r.Viol, r.What = "alloc:doh-body:"+k.Desc, fmt.Sprintf("consuming the DoH response allocated %d bytes: the body size cap (65535) is not enforced on what the transport inflates", alloc)
		}
		return
	}
	a := dohmem.Answer{}
	switch k.Desc {
	case "no-length-1MiB":
		a = dohmem.Answer{Raw: big(1 << 20), NoLength: true}
	case "no-length-8MiB":
		a = dohmem.Answer{Raw: big(8 << 20), NoLength: true}
	case "length-65536":
		a = dohmem.Answer{Raw: big(65536)}
	case "length-70000":
		a = dohmem.Answer{Raw: big(70000)}
	case "length-negative":
		a = dohmem.Answer{Raw: big(1 << 20), LengthHeader: "-1"}
	case "length-garbage":
		a = dohmem.Answer{Raw: big(1 << 20), LengthHeader: "abc"}
	case "length-10-body-5":
		a = dohmem.Answer{Raw: valid[:5], LengthHeader: "10"}
	case "length-5-body-1MiB":
		a = dohmem.Answer{Raw: big(1 << 20), LengthHeader: "5"}
	case "length-65535-full":
		a = dohmem.Answer{Raw: big(65535)}
	case "status-403":
		a = dohmem.Answer{HTTPStatus: 403}
	case "status-400":
		a = dohmem.Answer{HTTPStatus: 400}
	case "status-403-body-8MiB":
		// a refusal that comes with a huge error page: what is read of it is bounded like any other body
		a = dohmem.Answer{HTTPStatus: 403, Raw: big(8 << 20)}
	case "status-404-body-8MiB-no-length":
		a = dohmem.Answer{HTTPStatus: 404, Raw: big(8 << 20), NoLength: true}
	case "gzip-8MiB-in-9KB", "deflate-8MiB-in-9KB":
		// an honest content-length (a few KB) and a Content-Encoding header: the body inflates to 8 MiB. The size cap is about what
		// is decoded, not about what travelled
		var zb bytes.Buffer
		zw := gzip.NewWriter(&zb)
		zw.Write(big(8 << 20))
		zw.Close()
		enc := "gzip"
		if strings.HasPrefix(k.Desc, "deflate") {
			enc = "deflate"
		}
		a = dohmem.Answer{Raw: zb.Bytes(), ContentEncoding: enc}
	}
	srv.Zone = func(string, uint16) dohmem.Answer { return a }
	openBefore := dohmem.OpenBodies.Load()
	defer func() {
		if left := dohmem.OpenBodies.Load() - openBefore; left != 0 && r.Viol == "" {
			r.Viol, r.What = "doh-body-not-closed:"+k.Desc, fmt.Sprintf("%d response bodies were left open (a refused response must be closed like any other: the connection and its buffers stay allocated otherwise)", left)
		}
	}()
	var ms0, ms1 runtime.MemStats
	runtime.ReadMemStats(&ms0)
	func() {
		defer func() {
			if p := recover(); p != nil {
				r.Viol, r.What = "panic:doh-body", fmt.Sprintf("Resolve panicked: %v", p)
			}
		}()
		ctx, cancel := context.WithTimeout(context.Background(), 10*time.Second)
		defer cancel()
		_, err := res.Resolve(ctx, "a")
		r.Outcome = fmt.Sprintf("doh-body %s -> err=%v", k.Desc, err != nil)
	}()
	runtime.ReadMemStats(&ms1)
	alloc := ms1.TotalAlloc - ms0.TotalAlloc
	// 3 lookups, each may hold one body of at most 65535 bytes plus bookkeeping
	if alloc > 3*(65535*4)+512*1024 && r.Viol == "" {
		r.Viol, r.What = "alloc:doh-body:"+k.Desc, fmt.Sprintf("consuming the DoH response allocated %d bytes: the body size cap (65535) is not enforced", alloc)
	}
	return
}

func runCase(k kase, srv *dohmem.Server, res *ech.Resolver) (r workers.Result) {
	if k.Family == "doh-body" {
		return runDoHBody(k, srv, res)
	}
	r.Replay = map[string]any{"family": k.Family, "desc": k.Desc, "message": fmt.Sprintf("%x", k.Msg[:min(len(k.Msg), 600)]), "len": len(k.Msg)}
	fam := k.Family
	var ms0, ms1 runtime.MemStats
	runtime.ReadMemStats(&ms0)
	t0 := time.Now()
	var msg *dns.Message
	var err error
	func() {
		defer func() {
			if p := recover(); p != nil {
				r.Viol, r.What = "panic:decode:"+fam, fmt.Sprintf("DecodeMessage panicked: %v", p)
			}
		}()
		msg, err = dns.DecodeMessage(k.Msg)
	}()
	dur := time.Since(t0)
	runtime.ReadMemStats(&ms1)
	if r.Viol != "" {
		r.Outcome = fam + " -> panic"
		return
	}
	alloc := ms1.TotalAlloc - ms0.TotalAlloc
	if alloc > budget(len(k.Msg)) {
		r.Viol, r.What = "alloc:"+fam, fmt.Sprintf("decoding %d bytes allocated %d bytes (budget %d)", len(k.Msg), alloc, budget(len(k.Msg)))
	}
	if dur > 5*time.Second {
		r.Viol, r.What = "slow:"+fam, fmt.Sprintf("decoding %d bytes took %v", len(k.Msg), dur)
	}
	if k.N >= 4096 {
		r.Sample = map[string]any{"family": fam, "n": len(k.Msg), "alloc_bytes": alloc, "ns": dur.Nanoseconds(), "error": err != nil}
	}
	if err != nil {
		r.Outcome = fam + " -> error"
		return
	}
	r.Outcome = fam + " -> decoded"
	for _, sec := range [][]dns.RR{msg.Answer, msg.Authority, msg.Additional} {
		for _, rr := range sec {
			if !goTypeOK(rr) {
				r.Viol, r.What = fmt.Sprintf("go-type:%d", rr.Type), fmt.Sprintf("RR type %d decoded to Go type %T", rr.Type, rr.Data)
			}
		}
	}
	// drive the decoded message through the resolver as a DoH body
	names := map[string]bool{"a": true}
	for _, q := range msg.Question {
		names[q.Name] = true
	}
	for _, rr := range msg.Answer {
		names[rr.Name] = true
	}
	srv.Zone = func(string, uint16) dohmem.Answer { return dohmem.Answer{Raw: k.Msg} }
	for name := range names {
		if name == "" || len(name) > 100 || strings.ContainsAny(name, ":/ []") || net.ParseIP(name) != nil {
			continue
		}
		func() {
			defer func() {
				if p := recover(); p != nil {
					r.Viol, r.What = "panic:resolve:"+fam, fmt.Sprintf("Resolve(%q) panicked consuming the decoded message: %v", name, p)
				}
			}()
			ctx, cancel := context.WithTimeout(context.Background(), 5*time.Second)
			defer cancel()
			rr, err := res.Resolve(ctx, name)
			if err == nil {
				for range rr.Targets("tcp") {
				}
				r.Outcome = fam + " -> decoded+resolved"
			}
		}()
	}
	return
}

func Worker(tier string, shard, n int) {
	srv := &dohmem.Server{}
	dns.VerifRoundTripper = srv
	res, err := ech.NewResolver("https://doh.test/dns-query")
	if err != nil {
		panic(err)
	}
	res.SetCacheSize(0)
	workers.ServeIter(shard, n, 15*time.Second, func(yield func(describe func() any, run func() workers.Result)) {
		generate(tier == "thorough", func(k kase) {
			yield(func() any {
				return map[string]any{"family": k.Family, "desc": k.Desc, "message": fmt.Sprintf("%x", k.Msg[:min(len(k.Msg), 600)]), "len": len(k.Msg)}
			}, func() workers.Result {
				srv.Reset()
				return runCase(k, srv, res)
			})
		})
	})
}

func Run(r *ev.Run) {
	r.Rule("grammar-bounded exhaustive enumeration (E1) in 16 single-threaded worker processes under ulimit -v 3 GiB with a 15 s per-case watchdog: (0) header RCODE 0..15 x extended-RCODE octet {0,1,2,15,16,128,255} in an OPT record, with and without an answer; SVCB/HTTPS parameters with every key 0..9/65535 x value length 0..5 x 3 fill bytes, and one record of EVERY type code 0..300 (+4 high codes) with 4 RDATA shapes owned by the queried name (decoded, then consumed by Resolve); (i) every string of <=4 (thorough 5; question position one more) name tokens out of {label 'a', 63-byte label, end, pointer to self / forward / header offset 0 / header offset 11 / question name / middle of the question label / past the end / first earlier token / previous token, 0x40 and 0x80 prefixes, half a pointer} in every name position: question, owner, and inside the RDATA of NS, CNAME, PTR, MX, SOA, SRV, SVCB, HTTPS, NSEC, RRSIG with rdlength true/-1/+1; (ii) for 18 RDATA layouts every truncation (honest and lying rdlength), every byte +-1/+128, rdlength +1/65535; (iii) header counts {0,1,2,65535}x{0,1,2,65535}x{0,1,65535}^2 x 0..3 records present, short headers; (iv) scaling families at n in {64..16384 (thorough 65535)}: pointer chains, n/2 labels, label chain x n/16 records, pointer loops, n/4 parameters, a 127-label name of dots x n/16 records. Oracles: returns (watchdog), TotalAlloc delta <= 256KiB+512n+n^2/2, Go type of Data matches Type, and the decoded message served as DoH body to Resolver.Resolve (+Targets) for every name it mentions does not panic. distinct = distinct message byte strings")
	r.Assume("arbitrary byte noise outside the token grammar is not explored", "allocation measured as runtime TotalAlloc delta with GOMAXPROCS=1 in the worker")
	generate(r.Thorough(), func(k kase) { r.Eval(k.Family+"|"+string(k.Msg), "") })
	done, total := workers.Spawn(r, "C12", 3*1024*1024)
	r.Set("cases", total)
	r.Set("cases_executed_by_workers", done)
	if done != total {
		r.Cap(fmt.Sprintf("workers executed %d of %d cases", done, total))
	}
	retention(r)
	retentionLookups(r)
}

// retention: memory is bounded per MESSAGE - nothing of a decoded message stays reachable from the package once the caller has
// dropped it. 200 000 small messages with 200 000 distinct names are decoded and dropped; what the process holds afterwards
// (heap in use after two collections) has grown by less than 4 MiB (an interning table, a memo keyed by name, a log grows by
// ~100 octets per message: 20+ MiB).
func retention(r *ev.Run) {
	inUse := func() uint64 {
		runtime.GC()
		runtime.GC()
		var ms runtime.MemStats
		runtime.ReadMemStats(&ms)
		return ms.HeapAlloc
	}
	mk := func(i int) []byte {
		label := fmt.Sprintf("name-%07d-%s", i, strings.Repeat("x", 40))
		m := []byte{byte(i >> 8), byte(i), 0x81, 0x80, 0, 1, 0, 1, 0, 0, 0, 0, byte(len(label))}
		m = append(append(m, label...), 7, 'e', 'x', 'a', 'm', 'p', 'l', 'e', 0, 0, 1, 0, 1)
		m = append(m, 0xc0, 12, 0, 1, 0, 1, 0, 0, 0, 60, 0, 4, 10, byte(i>>16), byte(i>>8), byte(i))
		return m
	}
	for i := 0; i < 1000; i++ { // warm-up: one-time tables
		dns.DecodeMessage(mk(i))
	}
	before := inUse()
	const n = 200000
	bad := 0
	for i := 0; i < n; i++ {
		if m, err := dns.DecodeMessage(mk(1000 + i)); err != nil || len(m.Answer) != 1 {
			bad++
		}
	}
	after := inUse()
	oc := "retention: bounded"
	if bad > 0 {
		ev.ToolError("c12 retention: %d of the generated messages did not decode", bad)
	}
	if after > before && after-before > 4<<20 {
		oc = "retention: grows with the number of messages decoded"
		r.Violation("memory-retained-across-messages", fmt.Sprintf("after %d small messages with distinct names were decoded and dropped, the heap in use grew from %d to %d octets (%d per message): something keeps what was decoded", n, before, after, (after-before)/n), nil)
	}
	r.Eval("retention", oc)
	r.Set("retention_messages", n)
}

// retentionLookups (round 13): memory is bounded per LOOKUP too - what a finished DoH lookup started is gone when it has
// returned, also when the caller's context is never cancelled (context.Background(), a server-wide context): 3000 lookups
// through the in-memory responder (no sockets, no goroutines of its own) with a context that never ends; afterwards the process
// runs as many goroutines as before (a grace period lets goroutines that are merely finishing finish; one that waits for the
// context never does), no response body is left open, and the heap in use has not grown by more than 4 MiB.
func retentionLookups(r *ev.Run) {
	srv := &dohmem.Server{}
	prev := dns.VerifRoundTripper
	dns.VerifRoundTripper = srv
	defer func() { dns.VerifRoundTripper = prev }()
	srv.Zone = func(name string, t uint16) dohmem.Answer {
		if t == 1 {
			return dohmem.Answer{Records: []dnsref.RR{{Name: name, Type: 1, Class: 1, TTL: 60, Fields: []dnsref.Field{{Raw: []byte{10, 0, 0, 1}}}}}}
		}
		return dohmem.Answer{}
	}
	inUse := func() uint64 {
		runtime.GC()
		runtime.GC()
		var ms runtime.MemStats
		runtime.ReadMemStats(&ms)
		return ms.HeapAlloc
	}
	lookup := func(i int) error {
		q := dns.Message{ID: uint16(i), RD: 1, Question: []dns.Question{{Name: fmt.Sprintf("n%d.lookups.example", i), Type: 1, Class: 1}}}
		_, err := dns.DoH(context.Background(), &q, "https://doh.test/dns-query")
		return err
	}
	for i := 0; i < 50; i++ { // warm-up
		lookup(i)
	}
	srv.Reset()
	settle := func(limit int) int {
		g := runtime.NumGoroutine()
		for i := 0; i < 500 && g > limit; i++ { // grace period, not an oracle: at most 5 s, left as soon as the count is back
			time.Sleep(10 * time.Millisecond)
			g = runtime.NumGoroutine()
		}
		return g
	}
	g0 := settle(0)
	g0 = runtime.NumGoroutine()
	open0, before := dohmem.OpenBodies.Load(), inUse()
	const n = 3000
	failed := 0
	for i := 0; i < n; i++ {
		if lookup(50+i) != nil {
			failed++
		}
	}
	srv.Reset()
	if failed > 0 {
		ev.ToolError("c12 retentionLookups: %d of %d plain lookups failed", failed, n)
	}
	g1 := settle(g0 + 8)
	open1, after := dohmem.OpenBodies.Load(), inUse()
	oc := "lookups: nothing left behind"
	switch {
	case g1 > g0+8:
		oc = "lookups: goroutines left behind"
		r.Violation("goroutines-retained-across-lookups", fmt.Sprintf("after %d finished DoH lookups under context.Background() the process runs %d goroutines, %d before: every lookup leaves something waiting (and what it references reachable) for as long as the context lives", n, g1, g0), nil)
	case open1 > open0:
		oc = "lookups: response bodies left open"
		r.Violation("bodies-open-across-lookups", fmt.Sprintf("after %d finished DoH lookups %d response bodies are still open (%d before)", n, open1, open0), nil)
	case after > before && after-before > 4<<20:
		oc = "lookups: heap grows with the number of lookups"
		r.Violation("memory-retained-across-lookups", fmt.Sprintf("after %d finished DoH lookups the heap in use grew from %d to %d octets (%d per lookup)", n, before, after, (after-before)/n), nil)
	}
	r.Eval("retention-lookups", oc)
	r.Set("retention_lookups", n)
}
