//go:build verif

// Supplementary, SAMPLED pass (not exploration, never counted as coverage): target enumeration of DIFFERENT results on
// free-running goroutines under the race detector. The cooperative explorer of C15 nests enumerations at every yield point;
// what it cannot see is unsynchronised package-level state touched between yields. A report here is a real violation (the
// detector has no false positives); silence proves nothing.
package racepass

import (
	"fmt"
	"net"
	"sync"
	"testing"

	"github.com/c2FmZQ/ech"
	"github.com/c2FmZQ/ech/dns"
)

func result(g int) ech.ResolveResult {
	ip := func(b byte) net.IP { return net.IP{10, byte(g), 0, b} }
	return ech.ResolveResult{
		Address: []net.IP{ip(1), ip(2)},
		HTTPS: []dns.HTTPS{
			{Priority: 1, Target: fmt.Sprintf("t%d.example", g), Port: 8443, ALPN: []string{"h2"}, ECH: []byte{0xec, byte(g)}, IPv4Hint: []net.IP{ip(3), ip(3)}},
			{Priority: 2, IPv4Hint: []net.IP{ip(1), ip(4)}},
		},
		Additional: map[string][]net.IP{fmt.Sprintf("t%d.example", g): {ip(3), ip(5)}},
	}
}

func enumerate(r ech.ResolveResult) string {
	var s string
	for t := range r.Targets("tcp") {
		s += fmt.Sprintf("%v/%x/%v;", t.Address, t.ECH, t.ALPN)
	}
	return s
}

func TestRacePass(t *testing.T) {
	var wg sync.WaitGroup
	for g := 0; g < 8; g++ {
		wg.Add(1)
		go func(g int) {
			defer wg.Done()
			r := result(g)
			want := enumerate(result(g))
			for i := 0; i < 2000; i++ {
				if got := enumerate(r); got != want {
					t.Errorf("IMPURE: goroutine %d iteration %d: %s, alone: %s", g, i, got, want)
					return
				}
			}
		}(g)
	}
	wg.Wait()
}
