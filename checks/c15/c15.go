// Package c15 decides C15: ResolveResult.Targets is a pure, rule-conforming
// function of the resolution result. Reference function + total replay (E1).
package c15

import (
	"fmt"
	"net"
	"net/netip"
	"reflect"
	"runtime"
	"slices"
	"sort"
	"strings"

	"github.com/c2FmZQ/ech"
	"github.com/c2FmZQ/ech/dns"

	"verif/internal/enum"
	"verif/internal/ev"
	"verif/internal/racepass"
)

var (
	v4a = net.IP{192, 0, 2, 1}
	v4b = net.IP{192, 0, 2, 2}
	v4h = net.IP{198, 51, 100, 7}
	v6a = net.ParseIP("2001:db8::1")
	v6b = net.ParseIP("2001:db8::2")
	v6h = net.ParseIP("2001:db8::77")
	// a 16-byte IPv4-mapped address (what an AAAA record or an ipv6hint with ::ffff:192.0.2.1 decodes to): an IPv6-family
	// value whose unmapped form equals v4a
	v6m = net.ParseIP("::ffff:192.0.2.1").To16()
)

// recSpec is the abstract description of one HTTPS record (the model's input).
type recSpec struct {
	Prio   int    `json:"prio"`
	Target string `json:"target"`
	Port   int    `json:"port"`
	Hints  int    `json:"hints"` // bit0 v4, bit1 v6
	ECH    int    `json:"ech"`   // 0 nil, n>0 = distinct list n
	ALPN   int    `json:"alpn"`  // index in alpnDomain
}

type alpnSpec struct {
	protos []string
	spare  int
	nodef  bool
}

var alpnDomain = []alpnSpec{
	{nil, 0, false},
	{[]string{"h2"}, 0, false},
	{[]string{"h2"}, 3, false},            // spare capacity: append would write into it
	{[]string{"h3", "h2", "x"}, 1, false}, // like a decoded 3-entry list with cap 4
	{[]string{"h3"}, 2, true},
	{nil, 0, true},
	{[]string{"h3", "h3", "h2"}, 1, true}, // a protocol id listed twice in a row (legal on the wire); only used by family D
}

const plainALPNDomain = 6

type world struct {
	Recs    []recSpec `json:"records"`
	Addr    int       `json:"address"`    // index in addrDomain
	Addl    int       `json:"additional"` // index in addlDomain
	Port    int       `json:"port"`
	Network string    `json:"network"`
	Stop    int       `json:"stop_after"` // -1 = never
}

var addrDomain = [][]net.IP{nil, {v4a}, {v6a}, {v4a, v6a}, {v4a, v4a, v4b},
	// only used by the mapped-address family (indexes 5..7)
	{v6m}, {v6m, v4a}, {v4a, v6m, v6a},
	// index 8: an address list that is EMPTY BUT NOT NIL (make(...,0,n), what filtering leaves behind, a JSON "[]"): "the origin
	// has none" all the same (used by families 0 and E)
	{}}

const plainAddrDomain = 5
const emptyNonNilAddr = 8

// Additional for target "t1" (t2 never has an entry)
var addlDomain = [][]net.IP{{v4a, v6b}, {v4b}, {},
	{v6m, v4a}} // mapped-address family only

const plainAddlDomain = 3

const sentinel = "SENTINEL-spare-capacity"

func build(w world) ech.ResolveResult {
	r := ech.ResolveResult{Port: uint16(w.Port)}
	if a := addrDomain[w.Addr]; w.Addr == emptyNonNilAddr {
		r.Address = make([]net.IP, 0, 2)
		_ = a
	} else if a != nil {
		r.Address = make([]net.IP, len(a), len(a)+2)
		for i := range a {
			r.Address[i] = append(net.IP{}, a[i]...)
		}
		sp := r.Address[:cap(r.Address)]
		sp[len(a)] = net.IP{9, 9, 9, 9}
		sp[len(a)+1] = net.IP{9, 9, 9, 9}
	}
	r.Additional = map[string][]net.IP{}
	if a := addlDomain[w.Addl]; len(a) > 0 {
		for _, ip := range a {
			r.Additional["t1"] = append(r.Additional["t1"], append(net.IP{}, ip...))
			// a target name as the wire spelled it (mixed case): the map is keyed by that very spelling
			r.Additional["Up.T3"] = append(r.Additional["Up.T3"], append(net.IP{}, ip...))
		}
	}
	r.HTTPS = make([]dns.HTTPS, 0, len(w.Recs)+1)
	for _, s := range w.Recs {
		h := dns.HTTPS{Priority: uint16(s.Prio), Target: s.Target, Port: uint16(s.Port)}
		// hint lists are built like the decoder builds them (append): spare capacity behind the elements, with sentinels planted there
		if s.Hints&1 != 0 {
			h.IPv4Hint = append(make([]net.IP, 0, 4), append(net.IP{}, v4h...), append(net.IP{}, v4a...))
			h.IPv4Hint[:4][2], h.IPv4Hint[:4][3] = net.IP{9, 9, 9, 9}, net.IP{9, 9, 9, 9}
		}
		if s.Hints&2 != 0 {
			h.IPv6Hint = append(make([]net.IP, 0, 3), append(net.IP{}, v6h...))
			h.IPv6Hint[:3][1], h.IPv6Hint[:3][2] = net.IP{9, 9, 9, 9}, net.IP{9, 9, 9, 9}
		}
		if s.Hints&4 != 0 {
			// entries whose byte length is not the one of their list's family: a 16-byte (IPv4-mapped) value among the ipv4 hints,
			// a 4-byte value among the ipv6 hints (a result built by hand with net.ParseIP / To4); the family of an address is what
			// its length says, whichever list it stands in
			h.IPv4Hint = append(h.IPv4Hint, append(net.IP{}, v6m...))
			h.IPv6Hint = append(h.IPv6Hint, append(net.IP{}, v4b...))
		}
		if s.ECH > 0 {
			h.ECH = append(make([]byte, 0, 8), 0, byte(s.ECH), 0xec) // (with spare capacity, like a view into a longer buffer)
		} else if s.ECH < 0 {
			h.ECH = []byte{} // an ech parameter of length zero: present, empty
		}
		a := alpnDomain[s.ALPN]
		h.NoDefaultALPN = a.nodef
		if a.protos != nil || a.spare > 0 {
			h.ALPN = make([]string, len(a.protos), len(a.protos)+a.spare)
			copy(h.ALPN, a.protos)
			sp := h.ALPN[:cap(h.ALPN)]
			for i := len(a.protos); i < len(sp); i++ {
				sp[i] = sentinel
			}
		}
		r.HTTPS = append(r.HTTPS, h)
	}
	return r
}

// snapshot renders every byte reachable from r, including spare capacity of
// every slice, as a string (the purity oracle compares snapshots).
func snapshot(r ech.ResolveResult) string {
	var b strings.Builder
	ips := func(l []net.IP) {
		fmt.Fprintf(&b, "[%d/%d:", len(l), cap(l))
		for _, ip := range l[:cap(l)] {
			fmt.Fprintf(&b, "%x/%d ", []byte(ip[:cap(ip)]), len(ip))
		}
		b.WriteString("]")
	}
	fmt.Fprintf(&b, "port=%d addr=", r.Port)
	ips(r.Address)
	fmt.Fprintf(&b, " https[%d/%d]:", len(r.HTTPS), cap(r.HTTPS))
	for _, h := range r.HTTPS[:cap(r.HTTPS)] {
		fmt.Fprintf(&b, "{%d %q %d nd=%v ech=%x/%d alpn[%d/%d]=%q v4=", h.Priority, h.Target, h.Port, h.NoDefaultALPN, h.ECH[:cap(h.ECH)], len(h.ECH), len(h.ALPN), cap(h.ALPN), h.ALPN[:cap(h.ALPN)])
		ips(h.IPv4Hint)
		b.WriteString(" v6=")
		ips(h.IPv6Hint)
		b.WriteString("}")
	}
	keys := make([]string, 0, len(r.Additional))
	for k := range r.Additional {
		keys = append(keys, k)
	}
	sort.Strings(keys)
	for _, k := range keys {
		fmt.Fprintf(&b, " addl[%s]=", k)
		ips(r.Additional[k])
	}
	return b.String()
}

type tgt struct {
	Addr string
	ECH  string
	ALPN string // sorted set
}

// echKey tells an absent list (nil) from one that is present and empty: Dial decides "this record has ECH" by that difference
func echKey(b []byte) string {
	if b == nil {
		return "absent"
	}
	return fmt.Sprintf("present:%x", b)
}

func alpnSet(l []string) string {
	m := map[string]bool{}
	for _, p := range l {
		m[p] = true
	}
	var k []string
	for p := range m {
		k = append(k, p)
	}
	sort.Strings(k)
	return strings.Join(k, ",")
}

// reference is the specification, written from the property text and RFC 9460
// (§2.4.3 port, §7.1 alpn/no-default-alpn, §7.3 hints, §9.5 http upgrade).
// hintsForEmptyTarget selects the one point the property leaves open: a record
// naming a target for which no addresses are known contributes nothing (false)
// or its hints (true); the check accepts either.
func reference(w world, hintsForEmptyTarget bool) []tgt {
	return referenceOf(build(w), w.Network, w.Port, hintsForEmptyTarget)
}

// referenceOf is the specification applied to a result (r.Port is taken from the port argument).
func referenceOf(r ech.ResolveResult, network string, wPort int, hintsForEmptyTarget bool) []tgt {
	w := struct {
		Network string
		Port    int
	}{network, wPort}
	famOK := func(ip net.IP) bool {
		switch w.Network {
		case "tcp4", "udp4":
			return len(ip) == 4
		case "tcp6", "udp6":
			return len(ip) == 16
		}
		return len(ip) == 4 || len(ip) == 16
	}
	var out []tgt
	seen := map[string]bool{}
	emit := func(ip net.IP, port int, echList []byte, alpn []string) {
		if !famOK(ip) {
			return
		}
		a, _ := netip.AddrFromSlice(ip)
		ap := netip.AddrPortFrom(a, uint16(port)).String()
		if seen[ap] {
			return
		}
		seen[ap] = true
		out = append(out, tgt{ap, echKey(echList), alpnSet(alpn)})
	}
	for _, h := range r.HTTPS {
		if h.Priority == 0 {
			continue
		}
		port := w.Port
		if port == 80 {
			port = 443
		}
		if h.Port > 0 {
			port = int(h.Port)
		}
		alpn := append([]string{}, h.ALPN...)
		if !h.NoDefaultALPN {
			alpn = append(alpn, "http/1.1")
		}
		var addrs []net.IP
		useHints := false
		if h.Target != "" {
			addrs = r.Additional[h.Target]
			useHints = len(addrs) == 0 && hintsForEmptyTarget
		} else {
			addrs = r.Address
			useHints = len(r.Address) == 0
		}
		for _, ip := range addrs {
			emit(ip, port, h.ECH, alpn)
		}
		if useHints {
			for _, ip := range h.IPv4Hint {
				emit(ip, port, h.ECH, alpn)
			}
			for _, ip := range h.IPv6Hint {
				emit(ip, port, h.ECH, alpn)
			}
		}
	}
	if len(out) == 0 {
		for _, ip := range r.Address {
			emit(ip, w.Port, nil, nil)
		}
	}
	return out
}

// wantFull is what a complete enumeration of world w yields on the implementation when nothing interferes (computed on a fresh
// result; the comparison with the reference is made elsewhere).
func wantFull(w world) []tgt {
	full, _ := collect(build(w), w.Network, -1)
	return full
}

func collect(r ech.ResolveResult, network string, stop int) (got []tgt, callsAfterStop int) {
	return collectSeq(r.Targets(network), stop)
}

func collectSeq(seq func(func(ech.Target) bool), stop int) (got []tgt, callsAfterStop int) {
	stopped := false
	// the targets are kept as yielded and only looked at after the enumeration has ended (a caller that collects them, as
	// Dial does, must find each one as it was yielded: later records must not change earlier targets)
	var kept []ech.Target
	defer func() {
		got = nil
		for _, t := range kept {
			got = append(got, tgt{t.Address.String(), echKey(t.ECH), alpnSet(t.ALPN)})
		}
	}()
	seq(func(t ech.Target) bool {
		kept = append(kept, t)
		if stopped {
			callsAfterStop++
			return false
		}
		if stop >= 0 && len(kept) >= stop+1 {
			stopped = true
			return false
		}
		return true
	})
	return
}

func evalWorld(r *ev.Run, w world) {
	defer func() {
		if p := recover(); p != nil {
			r.Violation("panic", fmt.Sprintf("Targets panicked: %v", p), w)
		}
	}()
	res := build(w)
	before := snapshot(res)
	got, after := collect(res, w.Network, w.Stop)
	mid := snapshot(res)
	got2, _ := collect(res, w.Network, w.Stop)
	end := snapshot(res)
	if before != mid || before != end {
		r.Violation("impure:writes-into-result", fmt.Sprintf("enumerating targets modified the ResolveResult:\n before %s\n after  %s", before, end), w)
	}
	if !reflect.DeepEqual(got, got2) {
		r.Violation("impure:two-enumerations-differ", fmt.Sprintf("two successive enumerations differ: %v vs %v", got, got2), w)
	}
	// the SAME sequence value ranged over twice (a caller that keeps the iterator, e.g. to retry) gives the same targets
	seq := res.Targets(w.Network)
	s1, _ := collectSeq(seq, w.Stop)
	s2, _ := collectSeq(seq, w.Stop)
	if !reflect.DeepEqual(s1, got) || !reflect.DeepEqual(s2, got) {
		r.Violation("impure:same-sequence-ranged-twice", fmt.Sprintf("ranging twice over one value returned by Targets gives %v then %v (a fresh call gives %v)", s1, s2, got), w)
	}
	// two enumerations of the same sequence value in progress at once (a nested loop, or a cursor left open): each sees all targets
	if w.Stop < 0 && len(got) > 0 {
		var outer, innerAtFirst []tgt
		first := true
		seq(func(t ech.Target) bool {
			outer = append(outer, tgt{t.Address.String(), echKey(t.ECH), alpnSet(t.ALPN)})
			if first {
				first = false
				innerAtFirst, _ = collectSeq(seq, -1)
			}
			return true
		})
		if !reflect.DeepEqual(outer, got) || !reflect.DeepEqual(innerAtFirst, got) {
			r.Violation("impure:nested-enumeration", fmt.Sprintf("an enumeration started inside another one over the same sequence value: outer %v, inner %v, a fresh call gives %v", outer, innerAtFirst, got), w)
		}
	}
	// every yielded address is of the requested family, in the form the result holds it (16-byte values stay IPv6)
	for _, g := range got {
		ap, err := netip.ParseAddrPort(g.Addr)
		if err != nil {
			continue
		}
		switch w.Network {
		case "tcp4", "udp4":
			if !ap.Addr().Is4() {
				r.Violation("wrong-family:"+w.Network, fmt.Sprintf("network %s but target %s", w.Network, g.Addr), w)
			}
		case "tcp6", "udp6":
			if !ap.Addr().Is6() {
				r.Violation("wrong-family:"+w.Network, fmt.Sprintf("network %s but target %s (an IPv4 address; a 16-byte IPv4-mapped value must stay an IPv6 address)", w.Network, g.Addr), w)
			}
		}
	}
	if after > 0 {
		r.Violation("yield-after-stop", "yield called again after it returned false", w)
	}
	okAny := false
	var want []tgt
	for _, variant := range []bool{false, true} {
		want = reference(w, variant)
		if w.Stop >= 0 && len(want) > w.Stop+1 {
			want = want[:w.Stop+1]
		}
		if reflect.DeepEqual(got, want) || (len(got) == 0 && len(want) == 0) {
			okAny = true
			break
		}
	}
	if !okAny {
		key := "sequence-differs"
		switch {
		case len(got) != len(want):
			key += ":length"
		default:
			for i := range got {
				if got[i].Addr != want[i].Addr {
					key += ":address-or-port"
					break
				}
				if got[i].ECH != want[i].ECH {
					key += ":ech"
					break
				}
				if got[i].ALPN != want[i].ALPN {
					key += ":alpn"
					break
				}
			}
		}
		r.Violation(key, fmt.Sprintf("targets differ from the reference:\n got  %v\n want %v", got, want), w)
	}
	// the sequence describes the result AS IT WAS when Targets was called: assigning to the variable's fields afterwards (the
	// variable is reused for the next lookup, cleared, ...) does not change what the sequence yields
	{
		res4 := build(w)
		seq4 := res4.Targets(w.Network)
		res4.HTTPS, res4.Address, res4.Additional, res4.Port = nil, nil, nil, 1
		if late, _ := collectSeq(seq4, w.Stop); !reflect.DeepEqual(late, got) {
			r.Violation("impure:sequence-follows-later-assignments", fmt.Sprintf("Targets was called, then the variable's fields were reassigned, then the sequence was ranged over: %v (the result at the time of the call gives %v)", late, got), w)
		}
	}
	// ... and when every record takes the default protocol (the list handed out is then made for the occasion, not the record's
	// own), ranging again over the SAME sequence value after the consumer edited what it got gives the reference targets too
	allDefault := true
	for _, rc := range w.Recs {
		allDefault = allDefault && !alpnDomain[rc.ALPN].nodef
	}
	if w.Stop < 0 && len(got) > 0 && allDefault {
		seq2 := res.Targets(w.Network)
		seq2(func(t ech.Target) bool {
			for i := range t.ALPN {
				t.ALPN[i] = "scribbled-by-consumer"
			}
			return true
		})
		if again, _ := collectSeq(seq2, -1); !reflect.DeepEqual(again, got) {
			r.Violation("impure:same-sequence-after-consumer-edits", fmt.Sprintf("a consumer edited the ALPN lists it was handed and ranged over the same sequence value again: %v (a fresh call gave %v)", again, got), w)
		}
	}
	// what a target is handed is ITS list: a consumer that appends to the ALPN list or the ECH config list of one target (writing
	// no element it can see) does not write into what the consumer of another target appended to its own (lists with spare
	// capacity shared between the targets of one record would make the appends land in the same memory)
	if w.Stop < 0 && len(got) > 1 {
		var held []ech.Target
		res.Targets(w.Network)(func(t ech.Target) bool { held = append(held, t); return true })
		var alpns [][]string
		var echs [][]byte
		for i, t := range held {
			alpns = append(alpns, append(t.ALPN, fmt.Sprint("appended-by-consumer-", i)))
			echs = append(echs, append(t.ECH, byte(i)))
		}
		for i := range held {
			if a := alpns[i]; a[len(a)-1] != fmt.Sprint("appended-by-consumer-", i) {
				r.Violation("impure:targets-share-spare-capacity:alpn", fmt.Sprintf("the consumer of target %d appended %q to the ALPN list it was handed; after the consumers of the other targets did the same with theirs, its list ends in %q", i, fmt.Sprint("appended-by-consumer-", i), a[len(a)-1]), w)
				break
			}
			if e := echs[i]; e[len(e)-1] != byte(i) {
				r.Violation("impure:targets-share-spare-capacity:ech", fmt.Sprintf("the consumer of target %d appended the octet %d to the ECH config list it was handed; after the consumers of the other targets did the same with theirs, its list ends in %d", i, i, e[len(e)-1]), w)
				break
			}
		}
		if again, _ := collect(res, w.Network, -1); !reflect.DeepEqual(again, got) {
			r.Violation("impure:result-changed-by-consumer-appends", fmt.Sprintf("after consumers appended to the lists of the targets they held, the same result yields %v (before: %v)", again, got), w)
		}
	}
	// a consumer may do what it likes with the targets it was handed (sort the ALPN list, overwrite entries): an enumeration of
	// ANOTHER result built from the same description still gives the reference targets (nothing is shared between results
	// through package-level storage)
	if w.Stop < 0 && len(got) > 0 {
		seq(func(t ech.Target) bool {
			for i := range t.ALPN {
				t.ALPN[i] = "scribbled-by-consumer"
			}
			for i := range t.ECH {
				t.ECH[i] ^= 0xff
			}
			return true
		})
		fresh := build(w)
		if got3, _ := collect(fresh, w.Network, w.Stop); !reflect.DeepEqual(got3, got) {
			r.Violation("impure:another-result-affected-by-consumer-edits", fmt.Sprintf("after a consumer edited the ALPN/ECH slices of the targets it had been handed, an independent result built from the same data yields %v (before: %v)", got3, got), w)
		}
		// (the edited result itself is used no more: for no-default-alpn records the yielded list IS the record's own)
	}
	// a consumer that leaves the loop body by a PANIC (recovered further up) or by runtime.Goexit (t.Fatal inside the loop): the
	// enumeration is abandoned there; enumerations made afterwards - of this or any other result - are what they always are
	if w.Stop == 0 && len(got) > 0 {
		func() {
			defer func() { recover() }()
			res.Targets(w.Network)(func(ech.Target) bool { panic("consumer gives up") })
		}()
		if again, _ := collect(build(w), w.Network, -1); !reflect.DeepEqual(again, wantFull(w)) {
			r.Violation("impure:enumeration-after-a-consumer-panicked", fmt.Sprintf("a consumer panicked inside the loop body (and recovered); the next enumeration of an equal result yields %v", again), w)
		}
		done := make(chan struct{})
		go func() {
			defer close(done)
			res.Targets(w.Network)(func(ech.Target) bool { runtime.Goexit(); return true })
		}()
		<-done
		if again, _ := collect(build(w), w.Network, -1); !reflect.DeepEqual(again, wantFull(w)) {
			r.Violation("impure:enumeration-after-a-consumer-panicked", fmt.Sprintf("a consumer left the loop body through runtime.Goexit; the next enumeration of an equal result yields %v", again), w)
		}
	}
	oc := fmt.Sprintf("n=%d", len(got))
	nontrivial := ""
	if len(got) > 0 {
		nontrivial = fmt.Sprintf("%v|%d|%d|%d|%s|%d", w.Recs, w.Addr, w.Addl, w.Port, w.Network, w.Stop)
	}
	r.Eval(nontrivial, oc)
	r.Add("transitions", int64(len(got)+1)) // model steps compared: each yield plus termination
}

func Run(r *ev.Run) {
	r.Rule("E1 exhaustive: all ResolveResults with 1 HTTPS record over the full per-record domain (priority{0,1,2} x target{'',t1,t2} x port{0,8443,80} x hints{none,v4,v6,both} x ECH{nil,e1} x 6 ALPN shapes incl. spare capacity), and with 0, 2 and 3 records over a reduced per-record domain, x 5 Address lists x 3 Additional maps x Port{80,443,8443} x 6 networks x early termination after {never,0,1,2} yields, plus a family with 16-byte IPv4-mapped addresses next to their 4-byte twins and one with a mixed-case target name; targets are retained and compared after the enumeration has ended; hint lists carry spare capacity with sentinels; one enumeration nested inside another over the same sequence value; an ALPN list with a repeated id under no-default-alpn; each enumerated by two fresh calls and twice over one kept sequence value, compared with a reference function, with a byte-level snapshot (incl. spare capacity) before/after. distinct = distinct worlds yielding >=1 target")
	r.Assume("reference function in checks/c15 written from the property text and RFC 9460 is correct",
		"ALPN compared as a set; a record whose target has no known address may contribute nothing or its hints (the property leaves that open)",
		"addresses are 4-byte IPv4 or 16-byte IPv6; a 16-byte IPv4-mapped value counts as IPv6 (it is what an AAAA record carried) and is distinct from its 4-byte twin")

	var worlds []func(i int) world
	var sizes []int
	networks := []string{"tcp", "tcp4", "tcp6", "udp", "udp4", "udp6"}
	ports := []int{80, 443, 8443}
	stops := []int{-1, 0, 1, 2}

	// family 1: one record, full domain
	targets := []string{"", "t1", "t2"}
	recPorts := []int{0, 8443, 80}
	p1 := enum.Product{3, 3, len(recPorts), 4, 2, plainALPNDomain, plainAddrDomain, plainAddlDomain, len(ports), len(networks), len(stops)}
	worlds = append(worlds, func(i int) world {
		d := p1.Decode(i)
		return world{Recs: []recSpec{{d[0], targets[d[1]], recPorts[d[2]], d[3], d[4], d[5]}}, Addr: d[6], Addl: d[7], Port: ports[d[8]], Network: networks[d[9]], Stop: stops[d[10]]}
	})
	sizes = append(sizes, p1.Size())

	// family H: one service record whose hint lists hold entries of the other byte length, and/or an empty-but-present ECH list
	pH := enum.Product{2, 4, 2, 2, 2, len(networks)}
	worlds = append(worlds, func(i int) world {
		d := pH.Decode(i)
		return world{Recs: []recSpec{{1, targets[d[0]], 0, 4 + d[1], []int{-1, 1}[d[2]], d[3]}}, Addr: d[4], Addl: 2, Port: 443, Network: networks[d[5]], Stop: -1}
	})
	sizes = append(sizes, pH.Size())

	// family 0: no record
	p0 := enum.Product{plainAddrDomain, len(ports), len(networks), len(stops)}
	worlds = append(worlds, func(i int) world {
		d := p0.Decode(i)
		return world{Addr: d[0], Port: ports[d[1]], Network: networks[d[2]], Stop: stops[d[3]]}
	})
	sizes = append(sizes, p0.Size())

	// families 2 and 3: reduced record domain; ECH value = record index+1 so producers are distinguishable
	type red struct{ prio, tgt, port, hints, alpn int }
	redPorts := []int{0, 8443, 80}
	var reds []red
	prios := []int{0, 1, 2}
	alpns := []int{0, 3, 4}
	if !r.Thorough() {
		prios = []int{0, 1}
		alpns = []int{0, 3}
	}
	for _, pr := range prios {
		for tg := 0; tg < 2; tg++ {
			for po := 0; po < 3; po++ {
				if po == 2 && !r.Thorough() && tg == 1 {
					continue
				}
				for _, hi := range []int{0, 3} {
					for _, al := range alpns {
						reds = append(reds, red{pr, tg, po, hi, al})
					}
				}
			}
		}
	}
	nets3 := []string{"tcp", "tcp4", "udp6"}
	for _, n := range []int{2, 3} {
		n := n
		reds := reds // per-family copy (captured by the closure below)
		if n == 3 && r.Thorough() {
			// keep the three-record family at ~50 M worlds: two ALPN shapes (none / 3 entries with spare capacity)
			var keep []red
			for _, rd := range reds {
				if rd.alpn != 4 {
					keep = append(keep, rd)
				}
			}
			reds = keep
		}
		dims := enum.Product{}
		for k := 0; k < n; k++ {
			dims = append(dims, len(reds))
		}
		addrs := []int{0, 1, 3, 4}
		addls := []int{0, 2}
		stops2 := []int{-1, 1}
		ports, nets3 := ports, nets3
		if n == 3 && !r.Thorough() {
			ports, nets3 = []int{80, 8443}, []string{"tcp", "tcp4"}
		}
		dims = append(dims, len(addrs), len(addls), len(ports), len(nets3), len(stops2))
		worlds = append(worlds, func(i int) world {
			d := dims.Decode(i)
			w := world{Addr: addrs[d[n]], Addl: addls[d[n+1]], Port: ports[d[n+2]], Network: nets3[d[n+3]], Stop: stops2[d[n+4]]}
			for k := 0; k < n; k++ {
				rd := reds[d[k]]
				w.Recs = append(w.Recs, recSpec{rd.prio, targets[rd.tgt], redPorts[rd.port], rd.hints, k + 1, rd.alpn})
			}
			return w
		})
		sizes = append(sizes, dims.Size())
	}

	// family M: IPv4-mapped 16-byte addresses in Address / Additional next to their 4-byte twins (one record, reduced domain)
	pm := enum.Product{2, 2, 2, 3, 2, len(ports), len(networks), len(stops)}
	worlds = append(worlds, func(i int) world {
		d := pm.Decode(i)
		return world{Recs: []recSpec{{1 + d[0], targets[d[1]], 0, 0, d[2], 1}}, Addr: plainAddrDomain + d[3], Addl: []int{3, 2}[d[4]], Port: ports[d[5]], Network: networks[d[6]], Stop: stops[d[7]]}
	})
	sizes = append(sizes, pm.Size())

	// family U: a target name with upper-case letters (Additional is keyed by the spelling found on the wire), alone and
	// next to a record for the origin
	pu := enum.Product{2, 2, 2, plainAddrDomain, 2, len(ports), 3, 2}
	worlds = append(worlds, func(i int) world {
		d := pu.Decode(i)
		w := world{Recs: []recSpec{{1, "Up.T3", []int{0, 8443}[d[0]], d[1] * 3, 1, 1 + d[2]*2}}, Addr: d[3], Addl: []int{0, 2}[d[4]], Port: ports[d[5]], Network: []string{"tcp", "tcp4", "udp6"}[d[6]], Stop: -1}
		if d[7] == 1 {
			w.Recs = append(w.Recs, recSpec{2, "", 0, 0, 2, 3})
		}
		return w
	})
	sizes = append(sizes, pu.Size())

	// family E: the origin's address list is empty but not nil; one record over targets x hints x ports x networks x stops
	pe := enum.Product{3, 4, 2, len(ports), len(networks), len(stops), 3}
	worlds = append(worlds, func(i int) world {
		d := pe.Decode(i)
		return world{Recs: []recSpec{{1 + d[2], targets[d[0]], 0, d[1], 1, []int{0, 1, 4}[d[6]]}}, Addr: emptyNonNilAddr, Addl: 0, Port: ports[d[3]], Network: networks[d[4]], Stop: stops[d[5]]}
	})
	sizes = append(sizes, pe.Size())

	// family D: an ALPN list with the same protocol id twice in a row, with no-default-alpn (the record's own slice is what is
	// yielded then), one or two records
	pd := enum.Product{3, 2, plainAddrDomain, len(ports), 3, 2, 2}
	worlds = append(worlds, func(i int) world {
		d := pd.Decode(i)
		w := world{Recs: []recSpec{{1, targets[d[0]], 0, d[1] * 3, 1, 6}}, Addr: d[2], Addl: 0, Port: ports[d[3]], Network: []string{"tcp", "tcp4", "udp6"}[d[4]], Stop: []int{-1, 0}[d[5]]}
		if d[6] == 1 {
			w.Recs = append(w.Recs, recSpec{2, "", 8443, 0, 2, 6})
		}
		return w
	})
	sizes = append(sizes, pd.Size())

	for f := range worlds {
		f := f
		enum.ParallelFor(sizes[f], func(i int) {
			w := worlds[f](i)
			evalWorld(r, w)
			if i%(sizes[f]/2+1) == 1 {
				r.Sample(w)
			}
		})
	}
	// family S (round 10): results built by hand, compared with the specification applied to the same result.
	// S1 addresses that are special to some layer but ordinary to this one (unspecified, broadcast, loopback, link-local,
	// multicast, the mapped unspecified address) in every position; S2 scale: n distinct address/port pairs followed by a repeat of
	// the i-th, for every i, over origin addresses, target addresses and hints (a de-duplication that changes its representation
	// at some size forgets or invents a pair there)
	{
		nS := 0
		evalS := func(tag string, res ech.ResolveResult, desc any) {
			for _, network := range []string{"tcp", "tcp4", "tcp6"} {
				got, _ := collect(res, network, -1)
				// what a target is handed is its own: consumers that each append to the lists of the target they hold do not
				// find each other's values (see evalWorld)
				var held []ech.Target
				res.Targets(network)(func(t ech.Target) bool { held = append(held, t); return true })
				var alpns [][]string
				for i, t := range held {
					alpns = append(alpns, append(t.ALPN, fmt.Sprint("appended-by-consumer-", i)))
				}
				for i := range held {
					if a := alpns[i]; a[len(a)-1] != fmt.Sprint("appended-by-consumer-", i) {
						r.Violation("impure:targets-share-spare-capacity:alpn", fmt.Sprintf("the consumer of target %d appended %q to the ALPN list it was handed (%d entries); after the consumers of the other targets did the same with theirs, its list ends in %q", i, fmt.Sprint("appended-by-consumer-", i), len(held[i].ALPN), a[len(a)-1]), desc)
						break
					}
				}
				w0, w1 := referenceOf(res, network, int(res.Port), false), referenceOf(res, network, int(res.Port), true)
				oc := fmt.Sprintf("n=%d", len(got))
				if !reflect.DeepEqual(got, w0) && !reflect.DeepEqual(got, w1) {
					oc = "differs"
					r.Violation("sequence-differs:"+tag, fmt.Sprintf("Targets(%q) differ from the reference:\n got  %v\n want %v", network, got, w0), desc)
				}
				r.Eval(fmt.Sprintf("S|%s|%v|%s", tag, desc, network), oc)
				nS++
			}
		}
		special := []net.IP{net.IPv4zero.To4(), net.IPv6unspecified, net.IPv4bcast.To4(), {127, 0, 0, 1}, net.IPv6loopback, net.ParseIP("::ffff:0.0.0.0").To16(), net.ParseIP("fe80::1"), {224, 0, 0, 1}, net.ParseIP("ff02::1")}
		for i, ip := range special {
			for pos := 0; pos < 4; pos++ {
				res := ech.ResolveResult{Port: 443, Additional: map[string][]net.IP{}}
				h := dns.HTTPS{Priority: 1, ECH: []byte{0, 1, 0xec}, ALPN: []string{"h2"}}
				switch pos {
				case 0: // origin address, record for the origin
					res.Address = []net.IP{ip, v4a}
				case 1: // the target's only address (the origin's addresses must then stay unused)
					h.Target = "t1"
					res.Additional["t1"] = []net.IP{ip}
					res.Address = []net.IP{v4a, v6a}
				case 2: // hint (the origin has no address)
					if len(ip) == 4 {
						h.IPv4Hint = []net.IP{ip}
					} else {
						h.IPv6Hint = []net.IP{ip}
					}
				case 3: // no HTTPS record at all: plain addresses
					res.Address = []net.IP{ip}
				}
				if pos != 3 {
					res.HTTPS = []dns.HTTPS{h}
				}
				evalS("special-address", res, fmt.Sprintf("address %d (%v) in position %d", i, ip, pos))
			}
		}
		// ALPN lists of every size 0..40 (RFC 9460 sets no limit), with and without the default protocol, three targets per record
		for n := 0; n <= 40; n++ {
			for _, nodef := range []bool{false, true} {
				var ids []string
				for k := 0; k < n; k++ {
					ids = append(ids, fmt.Sprint("proto-", k))
				}
				if n == 0 && nodef {
					continue
				}
				h := dns.HTTPS{Priority: 1, ALPN: ids, NoDefaultALPN: nodef, ECH: []byte{0, 1, 0xec}}
				evalS("alpn-size", ech.ResolveResult{Port: 443, Address: []net.IP{v4a, v4b, v6a}, HTTPS: []dns.HTTPS{h}}, fmt.Sprintf("a record with %d ALPN ids, no-default-alpn=%v, three addresses", n, nodef))
			}
		}
		distinct := func(n int) []net.IP {
			var l []net.IP
			for k := 0; k < n; k++ {
				l = append(l, net.IP{10, 77, byte(k >> 8), byte(k)})
			}
			return l
		}
		for _, n := range []int{1, 2, 7, 8, 9, 10, 15, 16, 17, 31, 32, 33, 64, 65} {
			for i := 0; i < n; i++ {
				if n > 17 && i != 0 && i != n-1 && i != n/2 && i != 7 && i != 8 && i != 9 {
					continue
				}
				l := distinct(n)
				rep := append(slices.Clone(l), l[i])
				h := dns.HTTPS{Priority: 1, ECH: []byte{0, 1, 0xec}}
				h2 := dns.HTTPS{Priority: 2, ECH: []byte{0, 2, 0xec}, ALPN: []string{"h3"}, NoDefaultALPN: true} // a later record that repeats the pair: its own list must not win
				evalS("scale:origin", ech.ResolveResult{Port: 443, Address: rep, HTTPS: []dns.HTTPS{h, h2}}, fmt.Sprintf("%d distinct origin addresses then a repeat of number %d", n, i))
				ht, h2t := h, h2
				ht.Target, h2t.Target = "t1", "t2"
				evalS("scale:targets", ech.ResolveResult{Port: 443, Address: []net.IP{v4a}, Additional: map[string][]net.IP{"t1": l, "t2": {l[i], v4b}}, HTTPS: []dns.HTTPS{ht, h2t}}, fmt.Sprintf("%d distinct addresses of target t1, then target t2 = {number %d, another}", n, i))
				hh := h
				hh.IPv4Hint = rep
				evalS("scale:hints", ech.ResolveResult{Port: 443, HTTPS: []dns.HTTPS{hh, h2}}, fmt.Sprintf("%d distinct hints then a repeat of number %d", n, i))
			}
		}
		sizes = append(sizes, nS)
	}
	r.Set("families", fmt.Sprint(sizes))
	total := 0
	for _, s := range sizes {
		total += s
	}
	r.Set("states", total)                        // model inputs (each is one initial state of the pure function)
	r.Set("traces_validated_against_impl", total) // every model trace is replayed on the real Targets
	// supplementary and sampled; reported separately, never counted as exploration: enumerations of DIFFERENT results at the same
	// time share nothing, so the detector must stay silent and every enumeration equals the one made alone
	racepass.Run(r, "./checks/c15/racepass/", "concurrent enumerations of the targets of different results", "8 goroutines x 2000 enumerations of 8 different results")
}
