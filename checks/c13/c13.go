// Package c13 decides C13: the DNS codec round-trips and agrees with an
// independent RFC 1035/9460 codec in both directions; AddPadding. Engine E1.
package c13

import (
	"bytes"
	"fmt"
	"net"
	"reflect"
	"slices"
	"sort"
	"strings"
	"sync"
	"sync/atomic"

	"github.com/c2FmZQ/ech/dns"
	"golang.org/x/net/dns/dnsmessage"

	"verif/internal/dnsref"
	"verif/internal/enum"
	"verif/internal/ev"
	"verif/internal/tlsref"
)

// ---- conversions to the reference's canonical form ----

func httpsParams(h dns.HTTPS) []dnsref.Param {
	var ps []dnsref.Param
	if len(h.ALPN) > 0 {
		ps = append(ps, dnsref.ParamALPN(h.ALPN...))
	}
	if h.NoDefaultALPN {
		ps = append(ps, dnsref.ParamNoDefaultALPN())
	}
	if h.Port > 0 {
		ps = append(ps, dnsref.ParamPort(h.Port))
	}
	if len(h.IPv4Hint) > 0 {
		var ips [][]byte
		for _, ip := range h.IPv4Hint {
			ips = append(ips, ip)
		}
		ps = append(ps, dnsref.ParamIPv4(ips...))
	}
	if len(h.ECH) > 0 {
		ps = append(ps, dnsref.ParamECH(h.ECH))
	}
	if len(h.IPv6Hint) > 0 {
		var ips [][]byte
		for _, ip := range h.IPv6Hint {
			ips = append(ips, ip)
		}
		ps = append(ps, dnsref.ParamIPv6(ips...))
	}
	return ps
}

func fieldsFromPkg(rr dns.RR) ([]dnsref.Field, error) {
	switch d := rr.Data.(type) {
	case net.IP:
		return []dnsref.Field{{Raw: d}}, nil
	case string:
		return []dnsref.Field{dnsref.N(d)}, nil
	case dns.MX:
		return []dnsref.Field{dnsref.U16(d.Preference), dnsref.N(d.Exchange)}, nil
	case dns.SOA:
		return []dnsref.Field{dnsref.N(d.MName), dnsref.N(d.RName), dnsref.U32(d.Serial), dnsref.U32(d.Refresh), dnsref.U32(d.Retry), dnsref.U32(d.Expire), dnsref.U32(d.Minimum)}, nil
	case dns.TXT:
		return dnsref.TXT(d...), nil
	case dns.SRV:
		return []dnsref.Field{dnsref.U16(d.Priority), dnsref.U16(d.Weight), dnsref.U16(d.Port), dnsref.N(d.Target)}, nil
	case []dns.Option:
		var ps []dnsref.Param
		for _, o := range d {
			ps = append(ps, dnsref.Param{Key: o.Code, Value: o.Data})
		}
		return dnsref.OPT(ps...), nil
	case dns.SVCB:
		var ps []dnsref.Param
		for _, p := range d.Params {
			ps = append(ps, dnsref.Param{Key: p.Key, Value: p.Value})
		}
		return dnsref.SVCB(d.Priority, d.Target, ps), nil
	case dns.HTTPS:
		return dnsref.SVCB(d.Priority, d.Target, httpsParams(d)), nil
	case []byte:
		return []dnsref.Field{{Raw: d}}, nil
	}
	return nil, fmt.Errorf("unexpected Go type %T for RR type %d", rr.Data, rr.Type)
}

// wantGoType is the package's documented mapping RR type -> Go type of Data.
func wantGoType(t uint16) string {
	switch t {
	case 1, 28:
		return "net.IP"
	case 2, 5, 12:
		return "string"
	case 6:
		return "dns.SOA"
	case 15:
		return "dns.MX"
	case 16:
		return "dns.TXT"
	case 33:
		return "dns.SRV"
	case 41:
		return "[]dns.Option"
	case 64:
		return "dns.SVCB"
	case 65:
		return "dns.HTTPS"
	}
	return ""
}

func fromPkg(m *dns.Message) (*dnsref.Msg, error) {
	out := &dnsref.Msg{ID: m.ID,
		Flags: uint16(m.QR&1)<<15 | uint16(m.OpCode&0xf)<<11 | uint16(m.AA&1)<<10 | uint16(m.TC&1)<<9 | uint16(m.RD&1)<<8 | uint16(m.RA&1)<<7 | uint16(m.RCode&0xf)}
	for _, q := range m.Question {
		out.Q = append(out.Q, dnsref.Question{Name: strings.TrimSuffix(q.Name, "."), Type: q.Type, Class: q.Class})
	}
	for s, sec := range [][]dns.RR{m.Answer, m.Authority, m.Additional} {
		for _, rr := range sec {
			f, err := fieldsFromPkg(rr)
			if err != nil {
				return nil, err
			}
			if w := wantGoType(rr.Type); w != "" && fmt.Sprintf("%T", rr.Data) != w {
				return nil, fmt.Errorf("RR type %d carries Go type %T, want %s", rr.Type, rr.Data, w)
			}
			out.Sec[s] = append(out.Sec[s], dnsref.RR{Name: rr.Name, Type: rr.Type, Class: rr.Class, TTL: rr.TTL, Fields: f})
		}
	}
	return out, nil
}

func xname(n dnsmessage.Name) string { return strings.TrimSuffix(n.String(), ".") }

// fromXnet converts a parsed dnsmessage.Message; ok=false if it holds a body we do not map.
func fromXnet(m *dnsmessage.Message) (*dnsref.Msg, bool) {
	var flags uint16
	h := m.Header
	b := func(v bool, sh uint) uint16 {
		if v {
			return 1 << sh
		}
		return 0
	}
	flags = b(h.Response, 15) | uint16(h.OpCode&0xf)<<11 | b(h.Authoritative, 10) | b(h.Truncated, 9) | b(h.RecursionDesired, 8) | b(h.RecursionAvailable, 7) | uint16(h.RCode&0xf)
	out := &dnsref.Msg{ID: h.ID, Flags: flags}
	for _, q := range m.Questions {
		out.Q = append(out.Q, dnsref.Question{Name: xname(q.Name), Type: uint16(q.Type), Class: uint16(q.Class)})
	}
	for s, sec := range [][]dnsmessage.Resource{m.Answers, m.Authorities, m.Additionals} {
		for _, r := range sec {
			rr := dnsref.RR{Name: xname(r.Header.Name), Type: uint16(r.Header.Type), Class: uint16(r.Header.Class), TTL: r.Header.TTL}
			switch d := r.Body.(type) {
			case *dnsmessage.AResource:
				rr.Fields = []dnsref.Field{{Raw: d.A[:]}}
			case *dnsmessage.AAAAResource:
				rr.Fields = []dnsref.Field{{Raw: d.AAAA[:]}}
			case *dnsmessage.NSResource:
				rr.Fields = []dnsref.Field{dnsref.N(xname(d.NS))}
			case *dnsmessage.CNAMEResource:
				rr.Fields = []dnsref.Field{dnsref.N(xname(d.CNAME))}
			case *dnsmessage.PTRResource:
				rr.Fields = []dnsref.Field{dnsref.N(xname(d.PTR))}
			case *dnsmessage.MXResource:
				rr.Fields = []dnsref.Field{dnsref.U16(d.Pref), dnsref.N(xname(d.MX))}
			case *dnsmessage.SOAResource:
				rr.Fields = []dnsref.Field{dnsref.N(xname(d.NS)), dnsref.N(xname(d.MBox)), dnsref.U32(d.Serial), dnsref.U32(d.Refresh), dnsref.U32(d.Retry), dnsref.U32(d.Expire), dnsref.U32(d.MinTTL)}
			case *dnsmessage.TXTResource:
				rr.Fields = dnsref.TXT(d.TXT...)
			case *dnsmessage.SRVResource:
				rr.Fields = []dnsref.Field{dnsref.U16(d.Priority), dnsref.U16(d.Weight), dnsref.U16(d.Port), dnsref.N(xname(d.Target))}
			case *dnsmessage.OPTResource:
				var ps []dnsref.Param
				for _, o := range d.Options {
					ps = append(ps, dnsref.Param{Key: o.Code, Value: o.Data})
				}
				rr.Fields = dnsref.OPT(ps...)
			case *dnsmessage.UnknownResource:
				if rr.Type == 64 || rr.Type == 65 {
					return nil, false
				}
				rr.Fields = []dnsref.Field{{Raw: d.Data}}
			default:
				return nil, false
			}
			out.Sec[s] = append(out.Sec[s], rr)
		}
	}
	return out, true
}

// ---- alphabets ----

func nameOf(nLabels, labelLen int) string {
	ls := make([]string, nLabels)
	for i := range ls {
		ls[i] = strings.Repeat(string(rune('a'+i%26)), labelLen)
	}
	return strings.Join(ls, ".")
}

// names with 0,1,2,127 labels x label length 1/63 where the wire form fits 255 bytes
func namePool() []string {
	return []string{"", "a", nameOf(1, 63), "a.b", nameOf(2, 63), nameOf(3, 63) + "." + nameOf(1, 61), nameOf(127, 1), "www.example.com", "example.com"}
}

var ip4a, ip4b = net.IP{192, 0, 2, 1}, net.IP{10, 255, 0, 254}
var ip6a, ip6b = net.ParseIP("2001:db8::1"), net.ParseIP("::")
var ip6mapped = net.ParseIP("::ffff:192.0.2.1") // 16-byte IPv4-mapped address: legal AAAA content

func httpsPool(thorough bool) []dns.HTTPS {
	var out []dns.HTTPS
	// every subset of the 7 features
	enum.Subsets(7, func(idx []int) {
		has := map[int]bool{}
		for _, i := range idx {
			has[i] = true
		}
		variants := 1
		if thorough {
			variants = 2
		}
		for v := 0; v < variants; v++ {
			h := dns.HTTPS{Priority: uint16(1 + len(idx))}
			if has[0] {
				h.Target = []string{"svc.example.net", nameOf(2, 63)}[v]
			}
			if has[1] {
				h.ALPN = [][]string{{"h2"}, {"h3", "h2", "http/1.1"}}[v]
			}
			h.NoDefaultALPN = has[2]
			if has[3] {
				h.Port = []uint16{8443, 65535}[v]
			}
			if has[4] {
				h.IPv4Hint = [][]net.IP{{ip4a}, {ip4a, ip4b}}[v]
			}
			if has[5] {
				h.ECH = [][]byte{{0, 4, 0xfe, 0x0d, 0, 0}, bytes.Repeat([]byte{0xec}, 300)}[v]
			}
			if has[6] {
				h.IPv6Hint = [][]net.IP{{ip6a}, {ip6a, ip6b}}[v]
			}
			out = append(out, h)
		}
	})
	out = append(out, dns.HTTPS{Priority: 0, Target: "alias.example"}, dns.HTTPS{Priority: 0, Target: ""})
	return out
}

type violationKey struct{ kind, detail string }

func checkPkgMessage(r *ev.Run, m dns.Message, tag string, useXnet bool) {
	defer func() {
		if p := recover(); p != nil {
			r.Violation("panic:"+tag, fmt.Sprintf("panic: %v on %+v", p, m), fmt.Sprintf("%+v", m))
		}
	}()
	want, err := fromPkg(&m)
	if err != nil {
		ev.ToolError("c13 generator produced an unmappable message: %v", err)
	}
	wire := m.Bytes()
	replay := map[string]any{"message": fmt.Sprintf("%+v", m), "wire": fmt.Sprintf("%x", wire)}
	// (1) round trip through the package's own decoder
	back, err := dns.DecodeMessage(wire)
	if err != nil {
		r.Violation("roundtrip-decode-error:"+tag, fmt.Sprintf("DecodeMessage(m.Bytes()) failed: %v", err), replay)
	} else if got, err := fromPkg(back); err != nil {
		r.Violation("roundtrip-type:"+tag, err.Error(), replay)
	} else if got.Canon() != want.Canon() {
		r.Violation("roundtrip-differs:"+tag, fmt.Sprintf("DecodeMessage(m.Bytes()) differs:\n got  %s\n want %s", got.Canon(), want.Canon()), replay)
	}
	// (2) the independent codec reads the package's bytes
	ref, err := dnsref.Decode(wire)
	if err != nil {
		r.Violation("ref-rejects-encoding:"+tag, fmt.Sprintf("independent RFC 1035 decoder rejects m.Bytes(): %v", err), replay)
	} else if ref.Canon() != want.Canon() {
		r.Violation("ref-reads-differently:"+tag, fmt.Sprintf("independent decoder reads m.Bytes() differently:\n got  %s\n want %s", ref.Canon(), want.Canon()), replay)
	}
	// (3) third opinion
	if useXnet {
		var xm dnsmessage.Message
		if err := xm.Unpack(wire); err != nil {
			r.Violation("xnet-rejects-encoding:"+tag, fmt.Sprintf("x/net dnsmessage rejects m.Bytes(): %v", err), replay)
		} else if x, ok := fromXnet(&xm); ok && x.Canon() != want.Canon() {
			r.Violation("xnet-reads-differently:"+tag, fmt.Sprintf("dnsmessage reads m.Bytes() differently:\n got  %s\n want %s", x.Canon(), want.Canon()), replay)
		}
	}
	r.Eval(string(wire), "encode-ok")
}

// appendToEveryByteSlice walks a decoded value and appends to every []byte (net.IP, option data, parameter values,
// digests, ...) it can reach, writing no element any holder can see; it returns how many slices it found.
func appendToEveryByteSlice(v reflect.Value) int {
	switch v.Kind() {
	case reflect.Pointer, reflect.Interface:
		if v.IsNil() {
			return 0
		}
		return appendToEveryByteSlice(v.Elem())
	case reflect.Struct:
		n := 0
		for i := 0; i < v.NumField(); i++ {
			n += appendToEveryByteSlice(v.Field(i))
		}
		return n
	case reflect.Slice:
		if v.Type().Elem().Kind() == reflect.Uint8 {
			if v.Len() == 0 && v.IsNil() {
				return 0
			}
			b := v.Bytes()
			// (an append that fits into the spare capacity is the one that writes in place: fill the capacity exactly, and
			// append one more octet than fits as well)
			_ = append(b, bytes.Repeat([]byte{0xa5}, cap(b)-len(b))...)
			_ = append(b, bytes.Repeat([]byte{0xa5}, cap(b)-len(b)+1)...)
			return 1
		}
		n := 0
		for i := 0; i < v.Len(); i++ {
			n += appendToEveryByteSlice(v.Index(i))
		}
		return n
	}
	return 0
}

// namesOf lists every name string of a decoded message (question and owner names).
func namesOf(m *dns.Message) string {
	var b strings.Builder
	for _, q := range m.Question {
		fmt.Fprintf(&b, "%q,", q.Name)
	}
	for _, sec := range [][]dns.RR{m.Answer, m.Authority, m.Additional} {
		for _, rr := range sec {
			fmt.Fprintf(&b, "%q", rr.Name)
			switch d := rr.Data.(type) {
			case string:
				fmt.Fprintf(&b, "=%q", d)
			case dns.HTTPS:
				fmt.Fprintf(&b, "=%q", d.Target)
			}
			b.WriteString(",")
		}
	}
	return b.String()
}

func typesOf(l []dns.RR) string {
	var b strings.Builder
	for _, rr := range l {
		fmt.Fprintf(&b, "%s/%d,", rr.Name, rr.Type)
	}
	return b.String()
}

func checkRefMessage(r *ev.Run, m *dnsref.Msg, tag string) {
	for _, compress := range []bool{false, true} {
		wire := m.Encode(compress)
		replay := map[string]any{"message": m.Canon(), "wire": fmt.Sprintf("%x", wire), "compressed": compress}
		func() {
			defer func() {
				if p := recover(); p != nil {
					r.Violation("panic-decode:"+tag, fmt.Sprintf("DecodeMessage panicked: %v", p), replay)
				}
			}()
			// sanity: the reference reads its own bytes
			if self, err := dnsref.Decode(wire); err != nil || self.Canon() != m.Canon() {
				ev.ToolError("dnsref self round trip failed: %v\n%s\n%s", err, m.Canon(), fmt.Sprintf("%x", wire))
			}
			got, err := dns.DecodeMessage(wire)
			if err != nil {
				r.Violation(fmt.Sprintf("decode-rejects-valid:%s:compressed=%v", tag, compress), fmt.Sprintf("DecodeMessage rejects a valid packet: %v", err), replay)
				return
			}
			g, err := fromPkg(got)
			if err != nil {
				r.Violation("decode-type:"+tag, err.Error(), replay)
				return
			}
			if g.Canon() != m.Canon() {
				r.Violation(fmt.Sprintf("decode-differs:%s:compressed=%v", tag, compress), fmt.Sprintf("DecodeMessage disagrees with the independent codec:\n got  %s\n want %s", g.Canon(), m.Canon()), replay)
			}
			// what was decoded stays what it was: (1) names are strings - they do not change when the caller reuses the buffer the
			// message was decoded from; (2) a caller that APPENDS a record to one section (writing no element it can see) does not
			// change another section
			// (0) every octet string of the decoded message ends where its data ends: appending to each of them changes nothing
			appended := appendToEveryByteSlice(reflect.ValueOf(got))
			if g2, err := fromPkg(got); err != nil || g2.Canon() != m.Canon() {
				c2 := ""
				if err == nil {
					c2 = g2.Canon()
				}
				r.Violation("decoded-octet-strings-share-memory:"+tag, fmt.Sprintf("after octets were appended to each of the %d octet strings of the decoded message (as many as its capacity holds; no element was written), the message reads\n %s (%v)\nbefore\n %s", appended, c2, err, m.Canon()), replay)
			}
			names1 := namesOf(got)
			evalKey := string(wire)
			for i := range wire {
				wire[i] = 0xaa
			}
			if names2 := namesOf(got); names2 != names1 {
				r.Violation("decoded-names-follow-the-input-buffer:"+tag, fmt.Sprintf("after the buffer the message was decoded from was overwritten, the decoded names read %q (before: %q)", names2, names1), replay)
			}
			secs := func() string {
				return fmt.Sprintf("%d/%v|%d/%v|%d/%v|%d/%v", len(got.Question), got.Question, len(got.Answer), typesOf(got.Answer), len(got.Authority), typesOf(got.Authority), len(got.Additional), typesOf(got.Additional))
			}
			before := secs()
			_ = append(got.Question, dns.Question{Name: "appended.example", Type: 1, Class: 1})
			_ = append(got.Answer, dns.RR{Name: "appended.example", Type: 999})
			_ = append(got.Authority, dns.RR{Name: "appended.example", Type: 998})
			_ = append(got.Additional, dns.RR{Name: "appended.example", Type: 997})
			if after := secs(); after != before {
				r.Violation("decoded-sections-share-memory:"+tag, fmt.Sprintf("after a record was appended to each section of a decoded message (no element of them was written), the sections read %s (before: %s)", after, before), replay)
			}
			r.Eval(evalKey, fmt.Sprintf("decode-ok-compressed=%v", compress))
		}()
	}
}

func Run(r *ev.Run) {
	r.Rule("E1 exhaustive families: (A) package-built messages: all 2^5 header flag combinations x opcode{0,15} x rcode{0,3,15}; name pool (0,1,2,127 labels; label length 1/63) in question, owner and RDATA position; A/AAAA/NS/CNAME/PTR/OPT(0..2 options)/HTTPS(every subset of 7 parameters) records; every message with <=2 records per section over a record pool -> round trip, independent decoder, x/net dnsmessage; (B) reference-built packets incl. MX/SOA/TXT/SRV/SVCB(arbitrary params), uncompressed and maximally compressed, every message with <=2 records per section -> DecodeMessage must agree; x/net-packed packets likewise; reference-built messages of 8..16 KiB whose compression pointers target offsets above 8192; question names spelled with a final dot (and the dot alone); HTTPS records from another encoder carrying keys 0/7/9/65280/65535 next to representable ones; (C) extended RCODE; (D) AddPadding for question names of every length 1..253 x OPT states x extra records x query/response header. distinct = distinct wire strings")
	r.Assume("dnsref (independent codec) and x/net dnsmessage v0.42.0 are correct", "HTTPS records use parameter keys 1..6 in ascending order (the package's HTTPS struct cannot represent others); label bytes are LDH and contain no dots")
	names := namePool()

	// ---- A1 headers ----
	for flags := 0; flags < 32; flags++ {
		for _, op := range []uint8{0, 15} {
			for _, rc := range []uint8{0, 3, 15} {
				for _, id := range []uint16{0, 0xbeef} {
					m := dns.Message{ID: id, QR: uint8(flags & 1), AA: uint8(flags >> 1 & 1), TC: uint8(flags >> 2 & 1), RD: uint8(flags >> 3 & 1), RA: uint8(flags >> 4 & 1), OpCode: op, RCode: rc,
						Question: []dns.Question{{Name: "example.com", Type: 65, Class: 1}}}
					checkPkgMessage(r, m, "header", true)
				}
			}
		}
	}
	// ---- A2 names in every position ----
	for _, n := range names {
		tag := fmt.Sprintf("name-labels=%d", len(strings.Split(n, ".")))
		if n == "" {
			tag = "root-name"
		}
		checkPkgMessage(r, dns.Message{Question: []dns.Question{{Name: n, Type: 1, Class: 1}}}, "question:"+tag, true)
		checkPkgMessage(r, dns.Message{QR: 1, Answer: []dns.RR{{Name: n, Type: 1, Class: 1, TTL: 60, Data: ip4a}}}, "owner:"+tag, true)
		for _, t := range []uint16{2, 5, 12} {
			checkPkgMessage(r, dns.Message{QR: 1, Answer: []dns.RR{{Name: "o.example", Type: t, Class: 1, TTL: 1, Data: n}}}, fmt.Sprintf("rdata-name:type%d:%s", t, tag), true)
		}
		checkPkgMessage(r, dns.Message{QR: 1, Answer: []dns.RR{{Name: "o.example", Type: 65, Class: 1, TTL: 1, Data: dns.HTTPS{Priority: 1, Target: n}}}}, "https-target:"+tag, true)
	}
	// two questions in one message, every ordered pair of the name pool (state must not leak from one question to the next)
	for _, n1 := range names {
		for _, n2 := range names {
			checkPkgMessage(r, dns.Message{Question: []dns.Question{{Name: n1, Type: 1, Class: 1}, {Name: n2, Type: 28, Class: 1}}}, "two-questions", true)
		}
	}
	for _, n1 := range []string{"example.com", "a"} {
		for _, n2 := range []string{".", ""} {
			m := dns.Message{Question: []dns.Question{{Name: n1, Type: 1, Class: 1}, {Name: n2, Type: 2, Class: 1}}}
			if back, err := dns.DecodeMessage(m.Bytes()); err != nil || len(back.Question) != 2 || back.Question[0].Name != n1 || back.Question[1].Name != "" || back.Question[1].Type != 2 {
				r.Violation("roundtrip-differs:two-questions:root-second", fmt.Sprintf("questions [%q, %q] decode back as %+v (%v)", n1, n2, back, err), fmt.Sprintf("%x", m.Bytes()))
			}
		}
	}
	// IPv4-mapped IPv6 addresses are ordinary AAAA / ipv6hint content (16 bytes on the wire)
	checkPkgMessage(r, dns.Message{QR: 1, Answer: []dns.RR{{Name: "m.example", Type: 28, Class: 1, TTL: 1, Data: ip6mapped}}}, "aaaa-v4-mapped", true)
	checkPkgMessage(r, dns.Message{QR: 1, Answer: []dns.RR{{Name: "m.example", Type: 65, Class: 1, TTL: 1, Data: dns.HTTPS{Priority: 1, IPv6Hint: []net.IP{ip6mapped, ip6a}}}}}, "ipv6hint-v4-mapped", true)
	checkPkgMessage(r, dns.Message{QR: 1, Answer: []dns.RR{{Name: "m.example", Type: 1, Class: 1, TTL: 1, Data: net.IP{0, 0, 0, 0}}, {Name: "m.example", Type: 1, Class: 1, TTL: 1, Data: net.IP{255, 255, 255, 255}}}}, "a-boundary", true)
	// ---- A3 HTTPS parameter subsets; OPT option lists ----
	hp := httpsPool(r.Thorough())
	for i, h := range hp {
		checkPkgMessage(r, dns.Message{QR: 1, Answer: []dns.RR{{Name: "h.example", Type: 65, Class: 1, TTL: 300, Data: h}}}, "https-params", true)
		if i == 77 {
			r.Sample(fmt.Sprintf("%+v", h))
		}
	}
	optLists := [][]dns.Option{{}, {{Code: 12, Data: []byte{}}}, {{Code: 10, Data: []byte{1, 2, 3, 4, 5, 6, 7, 8}}}, {{Code: 12, Data: make([]byte, 5)}, {Code: 3, Data: []byte("x")}}, {{Code: 65001, Data: make([]byte, 300)}, {Code: 12, Data: nil}}}
	for _, ol := range optLists {
		for _, ttl := range []uint32{0, 0x01000000, 0xff008000} {
			checkPkgMessage(r, dns.Message{Question: []dns.Question{{Name: "example.com", Type: 1, Class: 1}}, Additional: []dns.RR{{Type: 41, Class: 4096, TTL: ttl, Data: ol}}}, "opt", true)
		}
	}
	// ---- A4 all messages with <=2 records per section over a pool ----
	pool := []dns.RR{
		{Name: "example.com", Type: 1, Class: 1, TTL: 5, Data: ip4a},
		{Name: "www.example.com", Type: 28, Class: 1, TTL: 0, Data: ip6a},
		{Name: "www.example.com", Type: 5, Class: 1, TTL: 4294967295, Data: "example.com"},
		{Name: "example.com", Type: 65, Class: 1, TTL: 60, Data: hp[127%len(hp)]},
		{Name: "", Type: 41, Class: 1232, TTL: 0, Data: []dns.Option{{Code: 12, Data: []byte{0, 0}}}},
	}
	if r.Thorough() {
		pool = append(pool, dns.RR{Name: "example.com", Type: 2, Class: 1, TTL: 1, Data: "ns.example.com"}, dns.RR{Name: "1.2.0.192.in-addr.arpa", Type: 12, Class: 1, TTL: 1, Data: "example.com"})
	}
	var secs [][]dns.RR
	enum.Sequences(len(pool), 2, func(seq []int) {
		var s []dns.RR
		for _, i := range seq {
			s = append(s, pool[i])
		}
		secs = append(secs, s)
	})
	n := len(secs)
	enum.ParallelFor(n*n*n, func(i int) {
		m := dns.Message{ID: uint16(i), QR: 1, RD: 1, RA: 1, Question: []dns.Question{{Name: "example.com", Type: 65, Class: 1}},
			Answer: secs[i/(n*n)], Authority: secs[i/n%n], Additional: secs[i%n]}
		checkPkgMessage(r, m, "sections", true)
	})

	// ---- B reference-built packets, both compression modes ----
	rpool := []dnsref.RR{
		{Name: "example.com", Type: 1, Class: 1, TTL: 7, Fields: []dnsref.Field{{Raw: ip4a}}},
		{Name: "www.example.com", Type: 5, Class: 1, TTL: 9, Fields: []dnsref.Field{dnsref.N("cdn.example.com")}},
		{Name: "example.com", Type: 15, Class: 1, TTL: 1, Fields: []dnsref.Field{dnsref.U16(10), dnsref.N("mail.example.com")}},
		{Name: "example.com", Type: 6, Class: 1, TTL: 2, Fields: []dnsref.Field{dnsref.N("ns1.example.com"), dnsref.N("hostmaster.example.com"), dnsref.U32(2024), dnsref.U32(7200), dnsref.U32(3600), dnsref.U32(1209600), dnsref.U32(300)}},
		{Name: "example.com", Type: 16, Class: 1, TTL: 3, Fields: dnsref.TXT("v=spf1 -all", "", strings.Repeat("x", 255))},
		{Name: "_sip._tcp.example.com", Type: 33, Class: 1, TTL: 4, Fields: []dnsref.Field{dnsref.U16(1), dnsref.U16(2), dnsref.U16(5060), dnsref.N("sip.example.com")}},
		{Name: "example.com", Type: 64, Class: 1, TTL: 5, Fields: dnsref.SVCB(1, "svc.example.com", []dnsref.Param{{Key: 0, Value: []byte{0, 1}}, dnsref.ParamALPN("h2"), {Key: 7, Value: []byte("/dns-query{?dns}")}, {Key: 65000, Value: nil}})},
		{Name: "example.com", Type: 65, Class: 1, TTL: 6, Fields: dnsref.SVCB(1, "", []dnsref.Param{dnsref.ParamALPN("h3", "h2"), dnsref.ParamPort(8443), dnsref.ParamIPv4(ip4a, ip4b), dnsref.ParamECH([]byte{0, 1, 2}), dnsref.ParamIPv6(ip6a)})},
		{Name: "", Type: 41, Class: 4096, TTL: 0x02000000, Fields: dnsref.OPT(dnsref.Param{Key: 12, Value: make([]byte, 3)})},
		{Name: "example.com", Type: 2, Class: 1, TTL: 8, Fields: []dnsref.Field{dnsref.N("")}},
		{Name: "example.com", Type: 99, Class: 1, TTL: 8, Fields: []dnsref.Field{{Raw: []byte("opaque")}}},
	}
	if !r.Thorough() {
		rpool = rpool[:9]
	}
	var rsecs [][]dnsref.RR
	enum.Sequences(len(rpool), 2, func(seq []int) {
		var s []dnsref.RR
		for _, i := range seq {
			s = append(s, rpool[i])
		}
		rsecs = append(rsecs, s)
	})
	rn := len(rsecs)
	total := rn * rn * rn
	stride := 1
	if !r.Thorough() {
		// quick: answer x additional complete, authority restricted to {empty, each single record}
		stride = 1
	}
	_ = stride
	enum.ParallelFor(total, func(i int) {
		au := rsecs[i/rn%rn]
		if !r.Thorough() && len(au) > 1 {
			return
		}
		m := &dnsref.Msg{ID: uint16(i), Flags: 0x8180, Q: []dnsref.Question{{Name: "www.example.com", Type: 65, Class: 1}}}
		m.Sec[0], m.Sec[1], m.Sec[2] = rsecs[i/(rn*rn)], au, rsecs[i%rn]
		checkRefMessage(r, m, "sections")
		if i == total/3 {
			r.Sample(map[string]any{"canon": m.Canon(), "wire_compressed": fmt.Sprintf("%x", m.Encode(true))})
		}
	})
	// names in every RDATA position, built by the reference (incl. root and 127 labels)
	for _, nm := range names {
		for _, rr := range []dnsref.RR{
			{Name: nm, Type: 1, Class: 1, TTL: 1, Fields: []dnsref.Field{{Raw: ip4a}}},
			{Name: "o.example", Type: 5, Class: 1, TTL: 1, Fields: []dnsref.Field{dnsref.N(nm)}},
			{Name: "o.example", Type: 15, Class: 1, TTL: 1, Fields: []dnsref.Field{dnsref.U16(1), dnsref.N(nm)}},
			{Name: "o.example", Type: 33, Class: 1, TTL: 1, Fields: []dnsref.Field{dnsref.U16(1), dnsref.U16(1), dnsref.U16(1), dnsref.N(nm)}},
			{Name: "o.example", Type: 65, Class: 1, TTL: 1, Fields: dnsref.SVCB(1, nm, nil)},
			{Name: "o.example", Type: 64, Class: 1, TTL: 1, Fields: dnsref.SVCB(0, nm, nil)},
		} {
			m := &dnsref.Msg{Flags: 0x8000, Q: []dnsref.Question{{Name: nm, Type: 255, Class: 1}}}
			m.Sec[0] = []dnsref.RR{rr, rr}
			tag := "names"
			if nm == "" {
				tag = "names:root"
			}
			checkRefMessage(r, m, tag)
		}
	}
	// messages larger than 8 KiB and up to the 16 KiB that compression pointers can address: names first spelled out at
	// offsets 8192..16383 and referenced from later records (the 14-bit offset needs all its bits)
	for _, filler := range []int{28, 34, 44, 58} {
		m := &dnsref.Msg{ID: 77, Flags: 0x8180, Q: []dnsref.Question{{Name: "big.example.com", Type: 16, Class: 1}}}
		for i := 0; i < filler; i++ {
			m.Sec[0] = append(m.Sec[0], dnsref.RR{Name: "big.example.com", Type: 16, Class: 1, TTL: 30, Fields: dnsref.TXT(strings.Repeat(string(rune('a'+i%26)), 255))})
		}
		for i := 0; i < 3; i++ {
			late := fmt.Sprintf("late%d.zone%d.test", i, filler)
			m.Sec[1] = append(m.Sec[1],
				dnsref.RR{Name: late, Type: 2, Class: 1, TTL: 9, Fields: []dnsref.Field{dnsref.N("ns." + late)}},
				dnsref.RR{Name: late, Type: 15, Class: 1, TTL: 9, Fields: []dnsref.Field{dnsref.U16(5), dnsref.N("mx.ns." + late)}})
			m.Sec[2] = append(m.Sec[2], dnsref.RR{Name: "ns." + late, Type: 1, Class: 1, TTL: 9, Fields: []dnsref.Field{{Raw: ip4a}}},
				dnsref.RR{Name: "mx.ns." + late, Type: 28, Class: 1, TTL: 9, Fields: []dnsref.Field{{Raw: ip6a}}})
		}
		if n := len(m.Encode(true)); n <= 8192+200 && filler >= 34 {
			ev.ToolError("c13 big-message family: only %d bytes", n)
		}
		checkRefMessage(r, m, "big-message")
	}
	// QUESTION names spelled with a trailing dot (fully qualified) or consisting of the dot alone: the question encoder accepts
	// that spelling (it strips the dot), so the wire form must be that of the bare name. (Owner and RDATA names are only
	// defined in the bare form the decoder produces; dotted spellings there are outside the property's domain.)
	for _, nm := range []string{".", "example.com.", "a."} {
		bare := strings.TrimSuffix(nm, ".")
		func() {
			tag := "dotted-question-name:" + map[bool]string{true: "root", false: "fqdn"}[bare == ""]
			defer func() {
				if p := recover(); p != nil {
					r.Violation("panic:"+tag, fmt.Sprint(p), nm)
				}
			}()
			mk := func(n string) dns.Message { return dns.Message{Question: []dns.Question{{Name: n, Type: 1, Class: 1}}} }
			got, want := mk(nm).Bytes(), mk(bare).Bytes()
			if !bytes.Equal(got, want) {
				r.Violation("encode-differs:"+tag, fmt.Sprintf("question name %q encodes to %x, the same name without the final dot to %x", nm, got, want), nm)
			}
			if ref, err := dnsref.Decode(got); err != nil {
				r.Violation("ref-rejects-encoding:"+tag, fmt.Sprintf("independent decoder rejects the encoding of question name %q: %v (%x)", nm, err, got), nm)
			} else if ref.Q[0].Name != bare {
				r.Violation("ref-reads-differently:"+tag, fmt.Sprintf("question name %q reads back as %q", nm, ref.Q[0].Name), nm)
			}
			if back, err := dns.DecodeMessage(got); err != nil || len(back.Question) != 1 || back.Question[0].Name != bare || back.Question[0].Type != 1 {
				r.Violation("roundtrip-differs:"+tag, fmt.Sprintf("question name %q decodes back as %+v (%v)", nm, back, err), nm)
			}
			r.Eval(string(got)+tag, "encode-ok")
		}()
	}
	// hand-compressed forms other encoders may produce: a pointer whose target is itself a pointer (chains of 1..4 hops),
	// pointers into the middle of a name, pointers from RDATA names to owner names and to RDATA names
	for _, hops := range []int{1, 2, 3, 4, 9, 10, 11, 12, 20, 40} { // (x/net gives up after 10 jumps per name: it is consulted up to 9)
		for _, tail := range []string{"", "example.com"} {
			var w []byte
			w = append(w, 0, 9, 0x81, 0x80, 0, 1, 0, byte(hops+1), 0, 0, 0, 0)
			qn := "www.example.com"
			for _, l := range strings.Split(qn, ".") {
				w = append(w, byte(len(l)))
				w = append(w, l...)
			}
			w = append(w, 0, 0, 1, 0, 1)
			target := 12 // "www.example.com"
			want := &dnsref.Msg{ID: 9, Flags: 0x8180, Q: []dnsref.Question{{Name: qn, Type: 1, Class: 1}}}
			for h := 0; h <= hops; h++ {
				at := len(w)
				name := qn
				if h == 0 && tail != "" {
					// first owner: label + pointer into the middle of the question name ("example.com" at offset 16)
					w = append(w, 3, 'a', 'p', 'i', 0xc0, 16)
					name = "api.example.com"
				} else {
					w = append(w, 0xc0|byte(target>>8), byte(target))
					if tail != "" {
						name = "api.example.com"
					}
				}
				target = at // the next owner points at this owner field (which is a bare pointer from the 2nd record on)
				w = append(w, 0, 1, 0, 1, 0, 0, 0, byte(h+1), 0, 4, 192, 0, 2, byte(h))
				want.Sec[0] = append(want.Sec[0], dnsref.RR{Name: name, Type: 1, Class: 1, TTL: uint32(h + 1), Fields: []dnsref.Field{{Raw: []byte{192, 0, 2, byte(h)}}}})
			}
			replay := map[string]any{"wire": fmt.Sprintf("%x", w), "hops": hops}
			if ref, err := dnsref.Decode(w); err != nil || ref.Canon() != want.Canon() {
				ev.ToolError("c13 pointer-chain generator is wrong: %v\n%s\n%s", err, want.Canon(), fmt.Sprintf("%x", w))
			}
			var xm dnsmessage.Message
			if err := xm.Unpack(w); err != nil && hops <= 9 {
				ev.ToolError("dnsmessage rejects the pointer-chain packet: %v", err)
			}
			got, err := dns.DecodeMessage(w)
			if err != nil {
				r.Violation("decode-rejects-valid:pointer-to-pointer", fmt.Sprintf("DecodeMessage rejects a packet whose owner names are pointers to pointers (up to %d jumps for one name; RFC 1035 sets no limit, each jump goes strictly backwards): %v", hops, err), replay)
			} else if g, err := fromPkg(got); err != nil || g.Canon() != want.Canon() {
				r.Violation("decode-differs:pointer-to-pointer", fmt.Sprintf("err=%v\n got  %s\n want %s", err, g.Canon(), want.Canon()), replay)
			}
			r.Eval(string(w), "decode-ok-pointer-chain")
		}
	}
	// agreement on REJECTION: every strict prefix of a valid packet (cuts inside and exactly between records,
	// header counts unchanged) is rejected by the independent codecs; so must it be by the package
	for _, compress := range []bool{false, true} {
		full := &dnsref.Msg{ID: 3, Flags: 0x8180, Q: []dnsref.Question{{Name: "www.example.com", Type: 65, Class: 1}}}
		full.Sec[0], full.Sec[1], full.Sec[2] = rpool[:3], rpool[3:5], rpool[5:9]
		wire := full.Encode(compress)
		for cut := 0; cut < len(wire); cut++ {
			pre := wire[:cut]
			_, refErr := dnsref.Decode(pre)
			var xm dnsmessage.Message
			xErr := xm.Unpack(pre)
			if refErr == nil || xErr == nil {
				continue // (cannot happen for a strict prefix with unchanged counts; guards the oracle)
			}
			if got, err := dns.DecodeMessage(pre); err == nil {
				r.Violation("decode-accepts-truncated-packet", fmt.Sprintf("DecodeMessage accepts the first %d of %d bytes of a packet whose header announces %d+%d+%d records (decoded %d+%d+%d); both independent codecs reject it", cut, len(wire), len(full.Sec[0]), len(full.Sec[1]), len(full.Sec[2]), len(got.Answer), len(got.Authority), len(got.Additional)), map[string]any{"wire": fmt.Sprintf("%x", pre)})
			}
			r.Eval("prefix:"+string(pre), "truncated-rejected")
		}
	}
	// x/net-packed packets (its own compression) -> DecodeMessage
	mustName := func(s string) dnsmessage.Name { return dnsmessage.MustNewName(s) }
	xm := dnsmessage.Message{Header: dnsmessage.Header{ID: 7, Response: true, RecursionAvailable: true, RCode: dnsmessage.RCodeNameError},
		Questions: []dnsmessage.Question{{Name: mustName("www.example.com."), Type: dnsmessage.TypeA, Class: dnsmessage.ClassINET}},
		Answers: []dnsmessage.Resource{
			{Header: dnsmessage.ResourceHeader{Name: mustName("www.example.com."), Type: dnsmessage.TypeCNAME, Class: dnsmessage.ClassINET, TTL: 30}, Body: &dnsmessage.CNAMEResource{CNAME: mustName("cdn.example.com.")}},
			{Header: dnsmessage.ResourceHeader{Name: mustName("cdn.example.com."), Type: dnsmessage.TypeA, Class: dnsmessage.ClassINET, TTL: 31}, Body: &dnsmessage.AResource{A: [4]byte{192, 0, 2, 1}}},
			{Header: dnsmessage.ResourceHeader{Name: mustName("example.com."), Type: dnsmessage.TypeMX, Class: dnsmessage.ClassINET, TTL: 32}, Body: &dnsmessage.MXResource{Pref: 5, MX: mustName("mail.example.com.")}},
			{Header: dnsmessage.ResourceHeader{Name: mustName("example.com."), Type: dnsmessage.TypeTXT, Class: dnsmessage.ClassINET, TTL: 33}, Body: &dnsmessage.TXTResource{TXT: []string{"a", "bc"}}},
			{Header: dnsmessage.ResourceHeader{Name: mustName("_x._tcp.example.com."), Type: dnsmessage.TypeSRV, Class: dnsmessage.ClassINET, TTL: 34}, Body: &dnsmessage.SRVResource{Priority: 1, Weight: 2, Port: 3, Target: mustName("t.example.com.")}},
		},
		Authorities: []dnsmessage.Resource{
			{Header: dnsmessage.ResourceHeader{Name: mustName("example.com."), Type: dnsmessage.TypeSOA, Class: dnsmessage.ClassINET, TTL: 35}, Body: &dnsmessage.SOAResource{NS: mustName("ns.example.com."), MBox: mustName("h.example.com."), Serial: 1, Refresh: 2, Retry: 3, Expire: 4, MinTTL: 5}},
			{Header: dnsmessage.ResourceHeader{Name: mustName("example.com."), Type: dnsmessage.TypeNS, Class: dnsmessage.ClassINET, TTL: 36}, Body: &dnsmessage.NSResource{NS: mustName("ns.example.com.")}},
		},
		Additionals: []dnsmessage.Resource{
			{Header: dnsmessage.ResourceHeader{Name: mustName("ns.example.com."), Type: dnsmessage.TypeAAAA, Class: dnsmessage.ClassINET, TTL: 37}, Body: &dnsmessage.AAAAResource{AAAA: [16]byte{0x20, 1}}},
			{Header: dnsmessage.ResourceHeader{Name: mustName("."), Type: dnsmessage.TypeOPT, Class: 1232, TTL: 0}, Body: &dnsmessage.OPTResource{Options: []dnsmessage.Option{{Code: 12, Data: []byte{0, 0, 0}}}}},
		},
	}
	// every sub-message obtained by choosing a subset of the answers
	enum.Subsets(len(xm.Answers), func(idx []int) {
		sub := xm
		sub.Answers = nil
		for _, i := range idx {
			sub.Answers = append(sub.Answers, xm.Answers[i])
		}
		wire, err := sub.Pack()
		if err != nil {
			ev.ToolError("dnsmessage pack: %v", err)
		}
		want, _ := fromXnet(&sub)
		replay := map[string]any{"wire": fmt.Sprintf("%x", wire)}
		got, err := dns.DecodeMessage(wire)
		if err != nil {
			r.Violation("decode-rejects-xnet-packet", err.Error(), replay)
		} else if g, err := fromPkg(got); err != nil || g.Canon() != want.Canon() {
			r.Violation("decode-differs-xnet-packet", fmt.Sprintf("err=%v\n got  %s\n want %s", err, g.Canon(), want.Canon()), replay)
		}
		r.Eval(string(wire), "decode-ok-xnet")
	})

	// ---- B2 HTTPS (type 65) records from another encoder that carry parameters the HTTPS struct cannot hold (key 0 "mandatory",
	// key 7, private-use keys) next to the ones it can: such a record is valid RFC 9460 and must decode, with the representable
	// parameters intact ----
	{
		rep := []dnsref.Param{dnsref.ParamALPN("h2"), dnsref.ParamPort(8443), dnsref.ParamIPv4(ip4a)}
		foreign := [][]dnsref.Param{
			{{Key: 0, Value: []byte{0, 1}}},
			{{Key: 0, Value: []byte{0, 1, 0, 3}}, {Key: 7, Value: []byte("/dns-query{?dns}")}},
			{{Key: 7, Value: []byte("/q")}},
			{{Key: 65280, Value: nil}},
			{{Key: 0, Value: []byte{0, 1}}, {Key: 9, Value: []byte{1}}, {Key: 65535, Value: []byte{2}}},
		}
		// alias-mode (priority 0) records that nevertheless carry parameters: a wire codec keeps them (ignoring them is the
		// RESOLVER's business, RFC 9460 §2.4.2), for SVCB and for HTTPS
		for _, typ := range []uint16{64, 65} {
			ps := []dnsref.Param{dnsref.ParamALPN("h3"), dnsref.ParamPort(8443)}
			m := &dnsref.Msg{ID: 3, Flags: 0x8180, Q: []dnsref.Question{{Name: "al.example", Type: typ, Class: 1}}}
			m.Sec[0] = []dnsref.RR{{Name: "al.example", Type: typ, Class: 1, TTL: 60, Fields: dnsref.SVCB(0, "target.example", ps)}}
			checkRefMessage(r, m, fmt.Sprintf("alias-mode-with-params:type%d", typ))
			// ... and a truncated parameter block in such a record is as malformed as in any other
			wire := m.Encode(false)
			cut := append([]byte{}, wire[:len(wire)-1]...)
			binaryPutU16(cut, len(cut)-rdlenBack(m, wire), -1)
			if _, err := dns.DecodeMessage(cut); err == nil {
				r.Violation(fmt.Sprintf("decode-accepts-truncated:alias-mode-params:type%d", typ), "an alias-mode record whose last parameter is cut short (RDLENGTH adjusted) is accepted", fmt.Sprintf("%x", cut))
			}
		}
		checkPkgMessage(r, dns.Message{QR: 1, Answer: []dns.RR{{Name: "al.example", Type: 65, Class: 1, TTL: 1, Data: dns.HTTPS{Priority: 0, Target: "target.example", ALPN: []string{"h3"}, Port: 8443}}}}, "https-alias-mode-with-params", true)
		for fi, fp := range foreign {
			for _, withRep := range []bool{false, true} {
				all := slices.Clone(fp)
				var kept []dnsref.Param
				if withRep {
					all = append(all, rep...)
					kept = rep
				}
				sort.SliceStable(all, func(i, j int) bool { return all[i].Key < all[j].Key })
				m := &dnsref.Msg{ID: 9, Flags: 0x8180, Q: []dnsref.Question{{Name: "h.example", Type: 65, Class: 1}}}
				m.Sec[0] = []dnsref.RR{{Name: "h.example", Type: 65, Class: 1, TTL: 60, Fields: dnsref.SVCB(1, "", all)}}
				want := &dnsref.Msg{ID: 9, Flags: 0x8180, Q: m.Q}
				want.Sec[0] = []dnsref.RR{{Name: "h.example", Type: 65, Class: 1, TTL: 60, Fields: dnsref.SVCB(1, "", kept)}}
				tag := fmt.Sprintf("https-foreign-params:%d", fi)
				wire := m.Encode(false)
				func() {
					defer func() {
						if p := recover(); p != nil {
							r.Violation("panic-decode:"+tag, fmt.Sprint(p), fmt.Sprintf("%x", wire))
						}
					}()
					got, err := dns.DecodeMessage(wire)
					if err != nil {
						r.Violation("decode-rejects-valid:"+tag, fmt.Sprintf("DecodeMessage rejects a valid HTTPS record carrying parameter keys %v: %v", keysOfParams(all), err), fmt.Sprintf("%x", wire))
						return
					}
					if g, err := fromPkg(got); err != nil || g.Canon() != want.Canon() {
						r.Violation("decode-differs:"+tag, fmt.Sprintf("representable parameters differ (%v):\n got  %s\n want %s", err, g.Canon(), want.Canon()), fmt.Sprintf("%x", wire))
					}
					r.Eval(string(wire), "decode-ok-foreign-params")
				}()
			}
		}
	}

	// ---- B10 classes other than IN: address records of class CH, NONE, ANY and the mDNS cache-flush class (0x8001) carry
	// addresses like any others; questions of class 0, CH, NONE, ANY, 0x8001 keep their class through encode and decode ----
	for _, class := range []uint16{0, 1, 3, 254, 255, 0x8001} {
		if class != 0 {
			m := &dnsref.Msg{ID: 5, Flags: 0x8180, Q: []dnsref.Question{{Name: "cls.example", Type: 255, Class: class}}}
			m.Sec[0] = []dnsref.RR{{Name: "cls.example", Type: 1, Class: class, TTL: 60, Fields: []dnsref.Field{{Raw: ip4a}}}, {Name: "cls.example", Type: 28, Class: class, TTL: 60, Fields: []dnsref.Field{{Raw: ip6a}}}}
			checkRefMessage(r, m, "address-record-class")
		}
		checkPkgMessage(r, dns.Message{ID: 6, RD: 1, Question: []dns.Question{{Name: "cls.example", Type: 1, Class: class}}}, "question-class", class != 0)
		pm := dns.Message{ID: 7, QR: 1, Question: []dns.Question{{Name: "cls.example", Type: 28, Class: class}}, Answer: []dns.RR{{Name: "cls.example", Type: 28, Class: max(class, 1), TTL: 9, Data: ip6a}}}
		checkPkgMessage(r, pm, "question-class", class != 0)
	}

	// ---- B11 the SAME service-parameter octets in an SVCB (type 64) and in an HTTPS (type 65) record: the two decoders of this
	// package agree on whether the RDATA is well-formed, and what the HTTPS decoder extracts (port, alpn) is what the generic
	// parameters say - for keys in any order, unknown keys in front of known ones, and malformed parameters BEHIND an unknown key ----
	{
		par := func(key uint16, val ...byte) []byte {
			return append([]byte{byte(key >> 8), byte(key), byte(len(val) >> 8), byte(len(val))}, val...)
		}
		alpn, port, unk, hi := par(1, 2, 'h', '2'), par(3, 0x20, 0xfb), par(7, 'x', 'y'), par(65280, 1)
		var blobs [][]byte
		enum.Sequences(4, 3, func(seq []int) {
			var b []byte
			for _, i := range seq {
				b = append(b, [][]byte{alpn, port, unk, hi}[i]...)
			}
			blobs = append(blobs, b)
			for _, bad := range [][]byte{{0, 9}, {0, 9, 0}, {0, 9, 0, 5, 1}, {0xff}} { // cut key + length, cut length, length beyond the data, a stray octet (framing faults; what a VALUE must look like only the HTTPS decoder knows)
				blobs = append(blobs, append(slices.Clone(b), bad...))
			}
		})
		for _, blob := range blobs {
			mk := func(typ uint16) []byte {
				rd := append([]byte{0, 1, 0}, blob...)
				w := []byte{0, 9, 0x81, 0x80, 0, 1, 0, 1, 0, 0, 0, 0, 1, 's', 7, 'e', 'x', 'a', 'm', 'p', 'l', 'e', 0, byte(typ >> 8), byte(typ), 0, 1}
				w = append(w, 0xc0, 12, byte(typ>>8), byte(typ), 0, 1, 0, 0, 0, 60, byte(len(rd)>>8), byte(len(rd)))
				return append(w, rd...)
			}
			s64, e64 := dns.DecodeMessage(mk(64))
			h65, e65 := dns.DecodeMessage(mk(65))
			oc := "svcb and https agree"
			switch {
			case (e64 == nil) != (e65 == nil):
				oc = "svcb and https disagree"
				r.Violation("decode-https-vs-svcb", fmt.Sprintf("the service parameters %x: as an SVCB record %v, as an HTTPS record %v", blob, e64, e65), fmt.Sprintf("%x", blob))
			case e64 == nil:
				sv, h := s64.Answer[0].Data.(dns.SVCB), h65.Answer[0].Data.(dns.HTTPS)
				var wantPort uint16
				var wantALPN []string
				for _, p := range sv.Params {
					switch {
					case p.Key == 3 && len(p.Value) == 2:
						wantPort = uint16(p.Value[0])<<8 | uint16(p.Value[1])
					case p.Key == 1:
						wantALPN = append(wantALPN, string(p.Value[1:]))
					}
				}
				if h.Port != wantPort || !slices.Equal(h.ALPN, wantALPN) {
					oc = "https drops parameters"
					r.Violation("decode-https-vs-svcb", fmt.Sprintf("the service parameters %x: the SVCB decoder sees port %d alpn %q, the HTTPS decoder port %d alpn %q", blob, wantPort, wantALPN, h.Port, h.ALPN), fmt.Sprintf("%x", blob))
				}
			}
			r.Eval("https-vs-svcb:"+string(blob), oc)
		}
	}

	// ---- B12 (round 13) what is INSIDE the known service parameters of an HTTPS record ----
	// (a) ALPN ids are octet strings (RFC 9460 7.1.1: 1*255OCTET): commas, quotes, backslashes, NUL and 8-bit octets are part of
	// the id and survive encode and decode; the presentation-format escaping of commas is nobody's business on the wire
	for _, ids := range [][]string{{"a,b"}, {","}, {"h2", "a,b", "h3"}, {`a\,b`}, {`"`}, {"\x00"}, {"\xff\xfe"}, {"h2,h3"}, {" "}, {strings.Repeat(",", 255)}, {"=", ";"}} {
		pm := dns.Message{ID: 12, QR: 1, Question: []dns.Question{{Name: "ids.example", Type: 65, Class: 1}}, Answer: []dns.RR{{Name: "ids.example", Type: 65, Class: 1, TTL: 9, Data: dns.HTTPS{Priority: 1, Target: "", ALPN: ids, Port: 443}}}}
		checkPkgMessage(r, pm, "https-alpn-id-octets", false)
		m := &dnsref.Msg{ID: 12, Flags: 0x8180, Q: []dnsref.Question{{Name: "ids.example", Type: 65, Class: 1}}}
		m.Sec[0] = []dnsref.RR{{Name: "ids.example", Type: 65, Class: 1, TTL: 9, Fields: dnsref.SVCB(1, "", []dnsref.Param{dnsref.ParamALPN(ids...), dnsref.ParamPort(443)})}}
		checkRefMessage(r, m, "https-alpn-id-octets")
	}
	// (b) values of the wrong SIZE for the keys whose value has a fixed size or is a list of fixed-size items (RFC 9460 7.1.1, 7.2,
	// 7.3: no-default-alpn has no value, port is exactly two octets, the hints are whole addresses; 2.2: a client MUST treat the
	// record as malformed): refused, wherever the parameter stands; the well-sized control is accepted
	{
		par := func(key uint16, val ...byte) []byte {
			return append([]byte{byte(key >> 8), byte(key), byte(len(val) >> 8), byte(len(val))}, val...)
		}
		type vcase struct {
			name string
			p    []byte
			ok   bool
		}
		seq := func(n int) []byte {
			b := make([]byte, n)
			for i := range b {
				b[i] = byte(i + 1)
			}
			return b
		}
		cases := []vcase{{"control", nil, true}, {"no-default-alpn-empty", par(2), true}, {"port-2", par(3, 1, 187), true}, {"ipv4hint-4", par(4, seq(4)...), true}, {"ipv4hint-8", par(4, seq(8)...), true}, {"ipv6hint-16", par(6, seq(16)...), true}}
		// round 14: EMPTY lists - "an empty list of addresses is invalid" (7.3), the alpn value "consists of at least one alpn-id" and
		// an alpn-id is 1*255OCTET (7.1.1), the mandatory value is a non-empty list of two-octet keys (8)
		cases = append(cases, vcase{"alpn-one-id", par(1, 2, 'h', '2'), true}, vcase{"alpn-two-ids", par(1, 2, 'h', '3', 2, 'h', '2'), true}, vcase{"mandatory-one-key", par(0, 0, 1), true}, vcase{"mandatory-names-key-8", par(0, 0, 1, 0, 8), true}, vcase{"mandatory-names-key-7-and-65280", par(0, 0, 7, 0xff, 0), true}, vcase{"mandatory-names-key-65535", par(0, 0xff, 0xff), true}, // which keys a client understands is the consumer's business (8), not the codec's
			vcase{"ipv4hint-0-octets", par(4), false}, vcase{"ipv6hint-0-octets", par(6), false},
			vcase{"alpn-0-octets", par(1), false}, vcase{"alpn-empty-id", par(1, 0), false}, vcase{"alpn-empty-id-behind-an-id", par(1, 2, 'h', '2', 0), false}, vcase{"alpn-empty-id-before-an-id", par(1, 0, 2, 'h', '2'), false}, vcase{"alpn-id-longer-than-the-value", par(1, 3, 'h', '2'), false},
			vcase{"mandatory-0-octets", par(0), false}, vcase{"mandatory-1-octet", par(0, 1), false}, vcase{"mandatory-3-octets", par(0, 0, 1, 0), false})
		for _, n := range []int{1, 2} {
			cases = append(cases, vcase{fmt.Sprintf("no-default-alpn-%d-octets", n), par(2, seq(n)...), false})
		}
		for _, n := range []int{0, 1, 3, 4} {
			cases = append(cases, vcase{fmt.Sprintf("port-%d-octets", n), par(3, seq(n)...), false})
		}
		for _, n := range []int{1, 3, 5, 7, 9} {
			cases = append(cases, vcase{fmt.Sprintf("ipv4hint-%d-octets", n), par(4, seq(n)...), false})
		}
		for _, n := range []int{1, 4, 15, 17, 20, 31, 33} {
			cases = append(cases, vcase{fmt.Sprintf("ipv6hint-%d-octets", n), par(6, seq(n)...), false})
		}
		for _, c := range cases {
			for _, ctx := range []struct {
				name      string
				pre, post []byte
			}{{"alone", nil, nil}, {"after-alpn", par(1, 2, 'h', '2'), nil}, {"before-unknown", nil, par(7, 'x')}, {"between", par(1, 2, 'h', '3'), par(65280, 9)}} {
				rd := append([]byte{0, 1, 0}, ctx.pre...)
				rd = append(append(rd, c.p...), ctx.post...)
				w := []byte{0, 9, 0x81, 0x80, 0, 1, 0, 1, 0, 0, 0, 0, 1, 'v', 7, 'e', 'x', 'a', 'm', 'p', 'l', 'e', 0, 0, 65, 0, 1}
				w = append(w, 0xc0, 12, 0, 65, 0, 1, 0, 0, 0, 60, byte(len(rd)>>8), byte(len(rd)))
				w = append(w, rd...)
				_, err := dns.DecodeMessage(w)
				oc := "as the sizes say"
				if (err == nil) != c.ok {
					oc = "not as the sizes say"
					what := "is refused"
					if err == nil {
						what = "is accepted"
					}
					r.Violation("decode-https-value-size:"+c.name, fmt.Sprintf("an HTTPS record whose parameters are %x (%s, %s) %s (%v)", rd[3:], c.name, ctx.name, what, err), fmt.Sprintf("%x", w))
				}
				r.Eval("https-value-size:"+c.name+":"+ctx.name, oc)
			}
		}
	}

	// ---- B3 the smallest records there are: a root (or no) question plus option-less OPT records (11 octets each) and nothing else ----
	for _, q := range [][]dns.Question{nil, {{Name: "", Type: 2, Class: 1}}, {{Name: ".", Type: 2, Class: 1}}} {
		for nopt := 1; nopt <= 3; nopt++ {
			for _, rc := range []uint8{0, 1} {
				m := dns.Message{ID: 5, QR: 1, RCode: rc, Question: q}
				for i := 0; i < nopt; i++ {
					m.Additional = append(m.Additional, dns.RR{Type: 41, Class: 4096, TTL: uint32(i) << 24, Data: []dns.Option{}})
				}
				checkPkgMessage(r, m, "minimal-records", false)
				wire := m.Bytes()
				if dec, err := dns.DecodeMessage(wire); err != nil || len(dec.Additional) != nopt {
					r.Violation("decode-rejects-valid:minimal-records", fmt.Sprintf("a message of %d bytes (root/no question, %d option-less OPT records) does not decode back: %v", len(wire), nopt, err), fmt.Sprintf("%x", wire))
				}
			}
		}
	}

	// ---- B4 labels that contain a dot or a backslash (any octet may occur in a label): what was decoded encodes back to the
	// same octets, in question, owner and RDATA position ----
	{
		wireName := func(labels []string) []byte {
			var b []byte
			for _, l := range labels {
				b = append(append(b, byte(len(l))), l...)
			}
			return append(b, 0)
		}
		dots127 := make([]string, 127) // the longest legal name (254 octets before the root label), every label a dot
		for i := range dots127 {
			dots127[i] = "."
		}
		labelSets := [][]string{dots127, {strings.Repeat(".", 63), strings.Repeat("\\", 63), strings.Repeat(".", 63), strings.Repeat("a.", 30)}, {"a.b", "example"}, {"a.", "example", "com"}, {".", "x"}, {"\\", "x"}, {"a\\.b"}, {strings.Repeat("\\", 63)}, {strings.Repeat(".", 63), "y"}, {"www", "com."}, {"w\\"}, {"plain", "name"}}
		// any octet may occur in a label: a dot or a backslash NEXT TO octets that are not ASCII - valid UTF-8, a lone Latin-1
		// octet, octets that are no UTF-8 at all, NUL (an escaper that walks runes instead of octets rewrites those)
		for _, x := range []string{"a", "\xe9", "\xc3\xa9", "\xff\xfe", "\x00"} {
			for _, y := range []string{"a", "\xe9", "\xc3\xa9", "\xff\xfe", "\x00"} {
				for _, sep := range []string{".", "\\", ""} {
					labelSets = append(labelSets, []string{x + sep + y, "example"})
				}
			}
		}
		for _, ls := range labelSets {
			for _, rd := range [][]string{{"t.t", "example"}, {"target", "example"}} {
				wire := []byte{0, 7, 0x81, 0x80, 0, 1, 0, 2, 0, 0, 0, 0}
				wire = append(append(wire, wireName(ls)...), 0, 65, 0, 1)
				rdata := wireName(rd)
				wire = append(append(wire, wireName(ls)...), 0, 5, 0, 1, 0, 0, 0, 60, byte(len(rdata)>>8), byte(len(rdata)))
				wire = append(wire, rdata...)
				svcb := append([]byte{0, 0}, wireName(rd)...)
				wire = append(append(wire, wireName(rd)...), 0, 65, 0, 1, 0, 0, 0, 60, byte(len(svcb)>>8), byte(len(svcb)))
				wire = append(wire, svcb...)
				desc := fmt.Sprintf("%q/%q", ls, rd)
				dec, err := dns.DecodeMessage(wire)
				if err != nil {
					r.Violation("decode-rejects-valid:label-with-dot", fmt.Sprintf("labels %s: %v", desc, err), fmt.Sprintf("%x", wire))
					continue
				}
				var re []byte
				func() {
					defer func() {
						if p := recover(); p != nil {
							r.Violation("encode-panic:label-with-dot", fmt.Sprintf("labels %s: %v", desc, p), fmt.Sprintf("%x", wire))
						}
					}()
					re = dec.Bytes()
				}()
				oc := "label-with-dot-ok"
				if re != nil && !bytes.Equal(re, wire) {
					oc = "label-with-dot-differs"
					r.Violation("roundtrip-bytes:label-with-dot", fmt.Sprintf("a message whose names have the labels %s decodes (question name %q) and encodes back to other octets:\n got  %x\n want %x", desc, dec.Question[0].Name, re, wire), fmt.Sprintf("%x", wire))
				}
				r.Eval("dotlabel:"+desc, oc)
			}
		}
	}

	// ---- B5 reserved label types are not pointers: a valid compressed message in which the two high bits of a pointer octet are
	// changed from 11 to 10 or 01 must be rejected (as the independent codec does), in owner and RDATA position ----
	{
		base := []byte{0, 9, 0x81, 0x80, 0, 1, 0, 2, 0, 0, 0, 0, 1, 'o', 7, 'e', 'x', 'a', 'm', 'p', 'l', 'e', 0, 0, 2, 0, 1}
		ownerAt := len(base)
		base = append(base, 0xc0, 12, 0, 2, 0, 1, 0, 0, 0, 60, 0, 2)
		rdataAt := len(base)
		base = append(base, 0xc0, 12)
		base = append(base, 0xc0, 12, 0, 1, 0, 1, 0, 0, 0, 60, 0, 4, 10, 0, 0, 1)
		if _, err := dns.DecodeMessage(base); err != nil {
			ev.ToolError("c13: pointer base message does not decode: %v", err)
		}
		if _, err := dnsref.Decode(base); err != nil {
			ev.ToolError("c13: pointer base message refused by the reference codec: %v", err)
		}
		for _, at := range []int{ownerAt, rdataAt} {
			for _, hi := range []byte{0x80, 0x40} {
				m := slices.Clone(base)
				m[at] = hi | m[at]&0x3f
				_, refErr := dnsref.Decode(m)
				dec, err := dns.DecodeMessage(m)
				oc := "reserved-label-type-rejected"
				if refErr != nil && err == nil {
					oc = "reserved-label-type-accepted"
					r.Violation("decode-accepts-invalid:reserved-label-type", fmt.Sprintf("length octet %#x (a reserved label type, not a pointer) at offset %d is accepted; decoded answers: %+v", m[at], at, dec.Answer), fmt.Sprintf("%x", m))
				}
				r.Eval(fmt.Sprintf("reserved:%d:%x", at, hi), oc)
			}
		}
	}

	// ---- B8 pointer sweep: in every name position (owner; NS, CNAME, PTR, MX, SOA x2, SRV, SVCB, HTTPS RDATA) a name made of
	// {nothing, one 1-octet label, one 63-octet label} followed by a pointer to EVERY offset 0..len+3 (and 0x3fff), over
	// question names of 17 and 190..255 octets: the package and the independent codec agree on accept/reject and on what was
	// read (a pointer to exactly the end of the message, a compressed SRV target and a name that exceeds 255 octets only through
	// its pointer are points of this grid) ----
	{
		longName := func(wire int) []byte { // a name of exactly `wire` octets on the wire, root label included
			var b []byte
			rest := wire - 1
			for c := byte('a'); rest > 0; c++ {
				l := min(63, rest-1)
				b = append(b, byte(l))
				b = append(b, bytes.Repeat([]byte{c}, l)...)
				rest -= 1 + l
			}
			return append(b, 0)
		}
		qnames := [][]byte{{3, 'w', 'w', 'w', 7, 'e', 'x', 'a', 'm', 'p', 'l', 'e', 3, 'c', 'o', 'm', 0}}
		for _, w := range []int{190, 191, 192, 193, 252, 253, 254, 255} {
			qnames = append(qnames, longName(w))
		}
		type pos struct {
			name       string
			typ        uint16
			pre, post  []byte // RDATA before / after the name under test; owner position: typ 1, pre nil
			ownerIsSut bool
		}
		soaTail := make([]byte, 20)
		positions := []pos{
			{"owner", 1, nil, nil, true},
			{"ns", 2, nil, nil, false}, {"cname", 5, nil, nil, false}, {"ptr", 12, nil, nil, false},
			{"mx", 15, []byte{0, 10}, nil, false},
			{"soa-mname", 6, nil, append([]byte{0}, soaTail...), false},
			{"soa-rname", 6, []byte{0}, soaTail, false},
			{"srv", 33, []byte{0, 1, 0, 2, 0x13, 0xc4}, nil, false},
			{"svcb", 64, []byte{0, 1}, nil, false}, {"https", 65, []byte{0, 1}, nil, false}, {"https-alias", 65, []byte{0, 0}, nil, false},
		}
		prefixes := [][]byte{nil, {1, 'p'}, append([]byte{63}, bytes.Repeat([]byte{'P'}, 63)...)}
		var agree, accepted int
		for _, qn := range qnames {
			for _, ps := range positions {
				for pi, pre := range prefixes {
					build := func(ptr int) []byte {
						sut := append(slices.Clone(pre), 0xc0|byte(ptr>>8), byte(ptr))
						m := []byte{0, 9, 0x81, 0x80, 0, 1, 0, 1, 0, 0, 0, 0}
						m = append(m, qn...)
						m = append(m, 0, 255, 0, 1)
						var rd []byte
						if ps.ownerIsSut {
							m = append(m, sut...)
							rd = []byte{10, 0, 0, 1}
						} else {
							m = append(m, 0xc0, 12)
							rd = append(append(slices.Clone(ps.pre), sut...), ps.post...)
						}
						m = append(m, byte(ps.typ>>8), byte(ps.typ), 0, 1, 0, 0, 0, 60, byte(len(rd)>>8), byte(len(rd)))
						return append(m, rd...)
					}
					n := len(build(0))
					ptrs := []int{0x3fff, 0x2000, n + 256}
					for o := 0; o <= n+3; o++ {
						ptrs = append(ptrs, o)
					}
					for _, ptr := range ptrs {
						m := build(ptr)
						tag := fmt.Sprintf("pointer-sweep:%s", ps.name)
						replay := map[string]any{"wire": fmt.Sprintf("%x", m), "position": ps.name, "pointer": ptr, "message_length": len(m), "own_labels": pi}
						oc := "both-reject"
						func() {
							defer func() {
								if p := recover(); p != nil {
									oc = "panic"
									r.Violation("panic-decode:"+tag, fmt.Sprintf("DecodeMessage panicked on a pointer to offset %d of a %d-octet message: %v", ptr, len(m), p), replay)
								}
							}()
							ref, refErr := dnsref.Decode(m)
							got, err := dns.DecodeMessage(m)
							switch {
							case refErr != nil && err == nil:
								oc = "pkg-accepts-what-ref-refuses"
								r.Violation("decode-accepts-invalid:"+tag, fmt.Sprintf("pointer to offset %d after %d own octets (question name %d octets): the independent codec refuses the message, DecodeMessage returns %+v", ptr, len(pre), len(qn), got.Answer), replay)
							case refErr == nil && err != nil:
								oc = "pkg-refuses-what-ref-accepts"
								r.Violation("decode-rejects-valid:"+tag, fmt.Sprintf("pointer to offset %d after %d own octets (question name %d octets): valid for the independent codec (%s), DecodeMessage: %v", ptr, len(pre), len(qn), ref.Canon(), err), replay)
							case refErr == nil:
								oc = "both-accept"
								accepted++
								if g, err := fromPkg(got); err != nil {
									r.Violation("decode-type:"+tag, err.Error(), replay)
								} else if g.Canon() != ref.Canon() {
									oc = "read-differently"
									r.Violation("decode-differs:"+tag, fmt.Sprintf("DecodeMessage disagrees with the independent codec:\n got  %s\n want %s", g.Canon(), ref.Canon()), replay)
								}
							}
						}()
						agree++
						r.Eval(string(m), oc)
					}
				}
			}
		}
		if accepted < 500 {
			ev.ToolError("c13 pointer sweep: only %d of %d grid points are valid messages", accepted, agree)
		}
		r.Set("pointer_sweep_points", agree)
		r.Set("pointer_sweep_valid_messages", accepted)
	}

	// ---- B9 record types whose RDATA ends in an octet string (CERT, DS, RRSIG, NSEC, DNSKEY, an unknown type, OPT options, SVCB
	// parameter values), each FOLLOWED by an A record: appending to every octet string of the decoded message leaves the message
	// as it was (a view with the rest of the message as capacity would let the append rewrite the A record) ----
	{
		name := []byte{1, 'x', 7, 'e', 'x', 'a', 'm', 'p', 'l', 'e', 0}
		rdatas := map[uint16][]byte{
			37: append([]byte{0, 1, 0, 2, 8}, tlsref.DetBytes("cert", 20)...),
			43: append([]byte{0x12, 0x34, 8, 2}, tlsref.DetBytes("digest", 32)...),
			46: append(append([]byte{0, 1, 8, 2, 0, 0, 0, 60, 0, 0, 0, 2, 0, 0, 0, 1, 0x12, 0x34}, name...), tlsref.DetBytes("sig", 24)...),
			47: append(slices.Clone(name), 0, 1, 0x40),
			48: append([]byte{1, 1, 3, 8}, tlsref.DetBytes("key", 24)...),
			99: tlsref.DetBytes("opaque", 17),
			41: {0, 10, 0, 8, 1, 2, 3, 4, 5, 6, 7, 8, 0, 12, 0, 3, 0, 0, 0},
			64: append(append([]byte{0, 1}, name...), 0, 1, 0, 3, 2, 'h', '2', 0, 3, 0, 2, 1, 0xbb, 0xff, 0x00, 0, 4, 9, 9, 9, 9),
		}
		for _, typ := range []uint16{37, 43, 46, 47, 48, 99, 41, 64} {
			rd := rdatas[typ]
			wire := []byte{0, 9, 0x81, 0x80, 0, 1, 0, 2, 0, 0, 0, 0}
			wire = append(append(wire, name...), 0, 255, 0, 1)
			owner := []byte{0xc0, 12}
			if typ == 41 {
				owner = []byte{0}
			}
			wire = append(append(wire, owner...), byte(typ>>8), byte(typ), 0, 1, 0, 0, 0, 60, byte(len(rd)>>8), byte(len(rd)))
			wire = append(wire, rd...)
			wire = append(wire, 0xc0, 12, 0, 1, 0, 1, 0, 0, 0, 60, 0, 4, 192, 0, 2, 1)
			dec, err := dns.DecodeMessage(slices.Clone(wire))
			oc := "octet strings end where their data ends"
			if err != nil {
				oc = "not decoded"
				r.Violation("decode-rejects-valid:octet-string-types", fmt.Sprintf("type %d: %v", typ, err), fmt.Sprintf("%x", wire))
			} else {
				before := fmt.Sprintf("%v", *dec)
				n := appendToEveryByteSlice(reflect.ValueOf(dec))
				if after := fmt.Sprintf("%v", *dec); after != before || n == 0 {
					oc = "append reaches another field"
					r.Violation("decoded-octet-strings-share-memory:type", fmt.Sprintf("a record of type %d followed by an A record: after octets were appended to each of the %d octet strings of the decoded message (as many as its capacity holds) it reads\n %s\nbefore\n %s", typ, n, after, before), fmt.Sprintf("%x", wire))
				}
			}
			r.Eval(fmt.Sprint("octet-string-type:", typ), oc)
		}
	}

	// ---- B5' the header bits this package has no field for - AD and CD (RFC 4035), set by validating resolvers and by stub
	// resolvers that ask for them: a response or query carrying them decodes like the same message without them ----
	{
		base := []byte{0, 9, 0x81, 0x80, 0, 1, 0, 1, 0, 0, 0, 0, 1, 'o', 7, 'e', 'x', 'a', 'm', 'p', 'l', 'e', 0, 0, 1, 0, 1,
			0xc0, 12, 0, 1, 0, 1, 0, 0, 0, 60, 0, 4, 10, 0, 0, 1}
		plain, err := dns.DecodeMessage(base)
		if err != nil {
			ev.ToolError("c13: %v", err)
		}
		for _, flags := range []uint16{0x81a0, 0x8190, 0x81b0, 0x0120, 0x0110} {
			m := slices.Clone(base)
			m[2], m[3] = byte(flags>>8), byte(flags)
			_, refErr := dnsref.Decode(m)
			dec, err := dns.DecodeMessage(m)
			oc := "ad-cd-bits-accepted"
			if refErr == nil && (err != nil || len(dec.Answer) != len(plain.Answer) || len(dec.Question) != 1 || dec.Question[0].Name != plain.Question[0].Name) {
				oc = "ad-cd-bits-REFUSED"
				r.Violation("decode-rejects-valid:ad-cd-bits", fmt.Sprintf("a message with header flags %#04x (AD/CD set, as a validating resolver sends them) does not decode like the same message with 0x8180: %v", flags, err), fmt.Sprintf("%x", m))
			}
			r.Eval(fmt.Sprintf("adcd:%04x", flags), oc)
		}
	}

	// ---- B6 what Bytes returned stays what it was: the encoding of one record must not change when another one is encoded ----
	{
		pool := []dns.RR{
			{Name: "a.example", Type: 1, Class: 1, TTL: 60, Data: ip4a},
			{Name: "bb.example", Type: 28, Class: 1, TTL: 61, Data: ip6a},
			{Name: "c.example", Type: 5, Class: 1, TTL: 62, Data: "target.example"},
			{Name: "d.example", Type: 65, Class: 1, TTL: 63, Data: dns.HTTPS{Priority: 1, Target: "svc.example", ALPN: []string{"h2", "h3"}, Port: 8443}},
			{Name: "", Type: 41, Class: 1232, Data: []dns.Option{{Code: 12, Data: make([]byte, 40)}}},
		}
		for i := range pool {
			for j := range pool {
				first := pool[i].Bytes()
				keep := slices.Clone(first)
				_ = pool[j].Bytes()
				_ = dns.Message{Question: []dns.Question{{Name: "q.example", Type: 1, Class: 1}}, Answer: []dns.RR{pool[j]}}.Bytes()
				oc := "bytes-stable"
				if !bytes.Equal(first, keep) {
					oc = "bytes-overwritten"
					r.Violation("earlier-output-overwritten:rr-bytes", fmt.Sprintf("the slice returned by RR.Bytes for record %d changed when record %d was encoded afterwards:\n was %x\n now %x", i, j, keep, first), fmt.Sprint(i, j))
				}
				r.Eval(fmt.Sprintf("rrbytes:%d:%d", i, j), oc)
			}
		}
	}

	// ---- B7 SUPPLEMENTARY (free-running goroutines: a sample of schedules, reported separately): encoding and decoding are pure;
	// eight goroutines working on DIFFERENT messages whose names need escaping get what a sequential call gets ----
	{
		const workers, iters = 8, 3000
		var msgs []dns.Message
		var wires [][]byte
		for w := 0; w < workers; w++ {
			name := fmt.Sprintf("w%d\\.%s.l%d\\\\x.example", w, strings.Repeat(string(rune('a'+w)), 5+w), w)
			m := dns.Message{ID: uint16(w), RD: 1, Question: []dns.Question{{Name: name, Type: 65, Class: 1}},
				Answer: []dns.RR{{Name: name, Type: 5, Class: 1, TTL: 60, Data: fmt.Sprintf("t%d\\.target.example", w)}}}
			msgs, wires = append(msgs, m), append(wires, m.Bytes())
			if dec, err := dns.DecodeMessage(wires[w]); err != nil || dec.Question[0].Name != name {
				ev.ToolError("c13: concurrent family: message %d does not round-trip sequentially (%v)", w, err)
			}
		}
		var wg sync.WaitGroup
		var bad atomic.Int64
		var firstBad atomic.Value
		for w := 0; w < workers; w++ {
			wg.Add(1)
			go func(w int) {
				defer wg.Done()
				for i := 0; i < iters; i++ {
					enc := msgs[w].Bytes()
					dec, err := dns.DecodeMessage(wires[w])
					if !bytes.Equal(enc, wires[w]) || err != nil || dec.Question[0].Name != msgs[w].Question[0].Name {
						if bad.Add(1) == 1 {
							firstBad.Store(fmt.Sprintf("goroutine %d, iteration %d: Bytes() equal=%v, decode err=%v", w, i, bytes.Equal(enc, wires[w]), err))
						}
						return
					}
				}
			}(w)
		}
		wg.Wait()
		oc := "concurrent-codec-calls-agree"
		if bad.Load() > 0 {
			oc = "concurrent-codec-calls-DISAGREE"
			r.Violation("concurrent-use:codec-result-differs", "eight goroutines encoding and decoding DIFFERENT messages at the same time: "+firstBad.Load().(string), nil)
		}
		r.Eval("concurrent-codec", oc)
		r.Set("supplementary_concurrent_calls", workers*iters*2)
	}

	// ---- C extended RCODE ----
	for rc := 0; rc < 16; rc++ {
		for _, hi := range []uint32{0, 1, 0x80, 0xff} {
			for pos := 0; pos < 3; pos++ {
				m := dns.Message{RCode: uint8(rc)}
				opt := dns.RR{Type: 41, Class: 4096, TTL: hi<<24 | 0x8000, Data: []dns.Option{}}
				other := dns.RR{Name: "x", Type: 1, Class: 1, Data: ip4a}
				switch pos {
				case 0:
					m.Additional = []dns.RR{opt, other}
				case 1:
					m.Additional = []dns.RR{other, opt}
				case 2:
					m.Additional = []dns.RR{other}
				}
				want := uint16(rc)
				if pos != 2 {
					want |= uint16(hi) << 4
				}
				dec, err := dns.DecodeMessage(m.Bytes())
				if err != nil || dec.ResponseCode() != want || m.ResponseCode() != want {
					r.Violation(fmt.Sprintf("extended-rcode:pos%d", pos), fmt.Sprintf("ResponseCode=%d want %d (rcode %d, OPT ttl high byte %#x) err=%v", m.ResponseCode(), want, rc, hi, err), fmt.Sprintf("%+v", m))
				}
				r.Eval(fmt.Sprintf("rc:%d:%d:%d", rc, hi, pos), "rcode-ok")
			}
		}
	}

	// ---- D AddPadding ----
	type padCase struct {
		NameLen int    `json:"qname_len"`
		OPT     string `json:"opt_state"`
		Extra   int    `json:"extra_records"`
		QType   string `json:"qtype"`
	}
	optStates := []string{"none", "empty", "other-options", "stale-padding", "stale-padding-twice", "opt-not-last", "opt-without-data", "opt-nil-option-list"}
	// (sizes: extra = 2 adds TXT answers up to ~1200 / ~4000 octets; the OPT class - the advertised UDP payload size - takes 512/1232/4096)
	pp := enum.Product{253, len(optStates), 4, 2, 2}
	enum.ParallelFor(pp.Size(), func(i int) {
		d := pp.Decode(i)
		nl := d[0] + 1
		pc := padCase{nl, optStates[d[1]], d[2], []string{"HTTPS", "A"}[d[3]]}
		name := lenName(nl)
		// (the guarantee is about every message: responses - QR=1, with RA/AA - as well as queries)
		m := dns.Message{RD: 1, QR: uint8(d[4]), RA: uint8(d[4]), AA: uint8(d[4] & d[3]), Question: []dns.Question{{Name: name, Type: dns.RRType(pc.QType), Class: 1}}}
		pc.OPT += []string{"", ":response"}[d[4]]
		switch optStates[d[1]] {
		case "empty":
			m.Additional = []dns.RR{{Type: 41, Class: 4096, Data: []dns.Option{}}}
		case "other-options":
			m.Additional = []dns.RR{{Type: 41, Class: 4096, Data: []dns.Option{{Code: 10, Data: make([]byte, 8)}}}}
		case "stale-padding":
			m.Additional = []dns.RR{{Type: 41, Class: 4096, Data: []dns.Option{{Code: 12, Data: make([]byte, 77)}, {Code: 10, Data: make([]byte, 8)}}}}
		case "stale-padding-twice":
			m.Additional = []dns.RR{{Type: 41, Class: 4096, Data: []dns.Option{{Code: 12, Data: make([]byte, 1)}, {Code: 12, Data: make([]byte, 130)}}}}
		case "opt-without-data":
			// an OPT record written as dns.RR{Type: 41, Class: 4096}: no Data at all
			m.Additional = []dns.RR{{Type: 41, Class: 4096}}
		case "opt-nil-option-list":
			m.Additional = []dns.RR{{Type: 41, Class: 4096, Data: []dns.Option(nil)}}
		case "opt-not-last":
			m.Additional = []dns.RR{{Type: 41, Class: 4096, Data: []dns.Option{}}, {Name: "z.example", Type: 1, Class: 1, Data: ip4a}}
		}
		if pc.Extra == 1 {
			m.Answer = []dns.RR{{Name: name, Type: 1, Class: 1, TTL: 1, Data: ip4b}}
		}
		if pc.Extra >= 2 && optStates[d[1]] != "opt-without-data" { // (a record without Data cannot be serialised before AddPadding has run)
			// a long message: address records until about 1180 (Extra 2) / 3990 (Extra 3) octets, with the OPT class varied
			target := map[int]int{2: 1180 + nl%60, 3: 3960 + nl%100}[pc.Extra]
			for len(m.Bytes()) < target {
				m.Answer = append(m.Answer, dns.RR{Name: "a", Type: 28, Class: 1, TTL: 1, Data: ip6a})
			}
			for i := range m.Additional {
				if m.Additional[i].Type == 41 {
					m.Additional[i].Class = []uint16{512, 1232, 4096, 0}[nl%4]
				}
			}
		}
		func() {
			defer func() {
				if p := recover(); p != nil {
					r.Violation("padding-panic:"+pc.OPT, fmt.Sprint(p), pc)
				}
			}()
			m.AddPadding()
			wire := m.Bytes()
			if len(wire)%128 != 0 {
				r.Violation("padding-length:"+pc.OPT, fmt.Sprintf("len(Bytes())=%d is not a multiple of 128", len(wire)), pc)
			}
			dec, err := dns.DecodeMessage(wire)
			if err != nil || len(dec.Question) != 1 || dec.Question[0].Name != name || dec.Question[0].Type != m.Question[0].Type || dec.Question[0].Class != 1 {
				r.Violation("padding-question:"+pc.OPT, fmt.Sprintf("padded message does not decode to the same question: %v", err), pc)
				return
			}
			npad, nopt := 0, 0
			for _, rr := range dec.Additional {
				if rr.Type == 41 {
					nopt++
					for _, o := range rr.Data.([]dns.Option) {
						if o.Code == 12 {
							npad++
							if !bytes.Equal(o.Data, make([]byte, len(o.Data))) {
								r.Violation("padding-nonzero", "padding bytes are not zero", pc)
							}
						}
					}
				}
			}
			if npad != 1 || nopt != 1 {
				r.Violation("padding-options:"+pc.OPT, fmt.Sprintf("%d OPT records, %d padding options after AddPadding", nopt, npad), pc)
			}
			if ref, err := dnsref.Decode(wire); err != nil || len(ref.Q) != 1 || ref.Q[0].Name != name {
				r.Violation("padding-ref:"+pc.OPT, fmt.Sprintf("independent decoder: %v", err), pc)
			}
			r.Eval(fmt.Sprintf("pad:%d:%d:%d:%d:%d", nl, d[1], d[2], d[3], d[4]), fmt.Sprintf("padded-to-%d", len(wire)))
		}()
		if i == 4242 {
			r.Sample(pc)
		}
	})
	_ = reflect.DeepEqual
}

// lenName returns a name whose presentation form has exactly n bytes (labels <= 63).
// rdlenBack returns the distance from the end of wire to the RDLENGTH field of the last record (which is the only record).
func rdlenBack(m *dnsref.Msg, wire []byte) int {
	rd := 0
	for _, f := range m.Sec[0][0].Fields {
		rd += len(f.Raw)
		if f.IsName {
			rd += len(f.Name) + 2
			if f.Name == "" {
				rd--
			}
		}
	}
	return rd + 2
}

// binaryPutU16 adds delta to the big-endian 16-bit value at off.
func binaryPutU16(b []byte, off int, delta int) {
	v := int(b[off])<<8 | int(b[off+1])
	v += delta
	b[off], b[off+1] = byte(v>>8), byte(v)
}

func keysOfParams(ps []dnsref.Param) []uint16 {
	var out []uint16
	for _, p := range ps {
		out = append(out, p.Key)
	}
	return out
}

func lenName(n int) string {
	var b strings.Builder
	for b.Len() < n {
		rem := n - b.Len()
		l := min(rem, 63)
		if rem-l == 1 {
			l--
		}
		b.WriteString(strings.Repeat("p", l))
		if b.Len() < n {
			b.WriteByte('.')
		}
	}
	return b.String()
}
