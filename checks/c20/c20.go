// Package c20 decides C20: PublishECH changes exactly the ech parameter of
// exactly the requested records. Histories of publishes against a map-based
// model (E4), API failures as single deviations (E2), over an in-memory fake
// of the Cloudflare API (cfmem, hook H3).
package c20

import (
	"bytes"
	"context"
	"encoding/base64"
	"errors"
	"fmt"
	"net/url"
	"strings"

	"github.com/c2FmZQ/ech/publish"

	"verif/internal/cfmem"
	"verif/internal/enum"
	"verif/internal/ev"
)

// lengths 4 and 8: not multiples of 3, so that the base64 padding matters
// (lists 2 and 3 are different lists whose base64 texts, "AQIDBAUG" and "aqidbaug", differ only in letter case)
var cfgLists = [][]byte{{0xfe, 0x0d, 1, 1}, {0xfe, 0x0d, 2, 2, 2, 2, 2, 2}, {1, 2, 3, 4, 5, 6}, {0x6a, 0xa8, 0x9d, 0x6d, 0xab, 0xa0}}

func b64(i int) string { return base64.StdEncoding.EncodeToString(cfgLists[i]) }

// initial parameter strings for record r1 (space-free parameter values)
func r1Values() []string {
	return []string{
		``,
		`alpn="h2"`,
		`ech="b2xk"`,
		`alpn="h2" ech="b2xk" port=8443`,
		`ech="b2xk" ipv4hint=1.2.3.4`,
		`ech="` + b64(0) + `" alpn="h3,h2" ech="b2xk"`, // two entries, the last one is not current
		`alpn="h2" ech="` + b64(0) + `"`,               // already current for list 0
		`ech=` + b64(1) + ` no-default-alpn`,           // unquoted, already current for list 1
		"alpn=\"h2\th3\"  ech=\"b2xk\" port=8443",      // a tab inside a quoted value, two blanks between parameters
		`ech="b2xk" alpn="h3" ech="` + b64(0) + `"`,    // two entries, the LAST one is current for list 0: still two entries
		`alpn="h2" key65400="x ech=y z" ech="b2xk"`,    // a quoted value with blanks, one of its words looks like an ech entry
		`alpn="h2" ech`, // the key alone (an empty value in presentation format)
		`alpn="h2" key65400="C:\\" ech="b2xk" port=8443`,       // an escaped backslash right before the closing quote
		"alpn=\"h2\"\tech=\"b2xk\"\tport=8443",                 // tabs between the parameters (white space of the presentation format)
		`alpn="h2" key65400="100%" key65401=%s%d%v ech="b2xk"`, // percent signs (a value is data, never a format)
		`alpn="h2" ech="` + nonCanonicalB64(0) + `"`,           // ANOTHER spelling of list 0 (non-zero trailing bits in the last character): not "equal to the base64 of the given list", hence rewritten
	}
}

// nonCanonicalB64 spells list i in base64 with non-zero padding bits in its last character: a lenient decoder yields the same
// octets, the text differs from what the standard encoder writes.
func nonCanonicalB64(i int) string {
	const alphabet = "ABCDEFGHIJKLMNOPQRSTUVWXYZabcdefghijklmnopqrstuvwxyz0123456789+/"
	s := []byte(b64(i))
	k := len(s) - 1
	for s[k] == '=' {
		k--
	}
	if k == len(s)-1 {
		panic("c20: list length is a multiple of 3: no padding bits to vary")
	}
	s[k] = alphabet[strings.IndexByte(alphabet, s[k])+1]
	if d, err := base64.StdEncoding.DecodeString(string(s)); err != nil || !bytes.Equal(d, cfgLists[i]) {
		panic("c20: the non-canonical spelling does not decode to the list")
	}
	return string(s)
}

type target struct{ Zone, Name string }

var targetPool = []target{
	{"example.org", "example.org"},         // r1
	{"example.org", "www.example.org"},     // r2
	{"example.org", "missing.example.org"}, // no such record
	{"unknown.test", "unknown.test"},       // no such zone
	{"example.net", "example.net"},         // other zone, r3
	// only used by the "same name in two zones" family: a parent zone and its delegated child both hold an HTTPS record named
	// sub.example.org (rec4 in example.org, rec5 at the apex of sub.example.org)
	{"example.org", "sub.example.org"},
	{"sub.example.org", "sub.example.org"},
	{"sub.example.org", "www.example.org"}, // a name that exists in ANOTHER zone only: not found here
	// index 8: r1's zone spelled with upper-case letters (the API matches zone names without regard to case and answers with
	// the canonical spelling): the same record as index 0
	{"Example.ORG", "example.org"},
	// index 9: r1's name spelled with the final dot of a fully-qualified name. The API lists names without it and this package
	// compares names as given: no record of that name (whatever one thinks of that, it must be so wherever the name occurs in a list)
	{"example.org", "example.org."},
	// index 10 (round 14): the record with priority 0
	{"example.org", "zero-prio.example.org"},
	// index 11, 12 (round 14): ZONE names spelled with the final dot - the API knows no zone of that spelling (it matches the name
	// as sent), so nothing is found there; what was learnt about that spelling says nothing about the plain one
	{"example.org.", "example.org"},
	{"unknown.test.", "unknown.test"},
	// index 13 (round 14): NO zone name at all. The API takes an empty name filter for no filter and lists every zone of the
	// account; none of them is the zone that was asked for, so this is an unknown zone: not found, nothing touched
	{"", "example.org"},
}

const basePool = 5

func newStore(v1 string, pages bool) *cfmem.API {
	z1 := &cfmem.Zone{ID: "zone1", Name: "example.org", Records: []*cfmem.Record{
		{ID: "rec1", Name: "example.org", Priority: 1, Target: ".", Value: v1},
		{ID: "rec2", Name: "www.example.org", Priority: 2, Target: "svc.example.org", Value: `alpn="h2" ipv6hint=2001:db8::1`},
		{ID: "rec9", Name: "untouched.example.org", Priority: 1, Target: ".", Value: `alpn="h3" ech="b2xk"`},
		// records of OTHER types that share the targets' names (an API listing that is not restricted to HTTPS would return them)
		{ID: "rec4", Name: "sub.example.org", Priority: 1, Target: ".", Value: `alpn="h2" port=8443`},
		// a record with the largest priority there is (an int16 cannot hold it)
		{ID: "rec8", Name: "hi-prio.example.org", Priority: 65535, Target: "last-resort.example.org", Value: `alpn="h2"`},
		{ID: "recA1", Name: "example.org", Type: "A", Value: "192.0.2.1"},
		{ID: "recT2", Name: "www.example.org", Type: "TXT", Value: "v=spf1 -all"},
		// round 14: a record with priority 0 (the smallest there is, and what a missing member decodes to): a record like any other
		{ID: "rec0", Name: "zero-prio.example.org", Priority: 0, Target: "pool.example.net", Value: `alpn="h2"`},
	}}
	if pages {
		// 45 more records so that r1/r2 are spread over three pages
		var recs []*cfmem.Record
		for i := 0; i < 45; i++ {
			recs = append(recs, &cfmem.Record{ID: fmt.Sprintf("pad%d", i), Name: fmt.Sprintf("p%d.example.org", i), Priority: 1, Target: ".", Value: `alpn="h2"`})
		}
		// r1 on page 1, r2 on page 2 (index 25), untouched on page 3
		z1.Records = append(append(append(append([]*cfmem.Record{}, z1.Records[0]), recs[:24]...), z1.Records[1]), append(recs[24:], z1.Records[2])...)
	}
	// (example.net is a zone that has been added to the account and is still PENDING: its records are published like any other's)
	z2 := &cfmem.Zone{ID: "zone2", Name: "example.net", Status: "pending", Records: []*cfmem.Record{
		{ID: "rec3", Name: "example.net", Priority: 1, Target: ".", Value: `alpn="h2" ech="b2xk"`},
	}}
	if pages {
		// the second zone has two pages too (25 records) and its target sits on the second page
		var recs []*cfmem.Record
		for i := 0; i < 24; i++ {
			recs = append(recs, &cfmem.Record{ID: fmt.Sprintf("npad%d", i), Name: fmt.Sprintf("p%d.example.net", i), Priority: 1, Target: ".", Value: `alpn="h2"`})
		}
		z2.Records = append(recs, z2.Records[0])
	}
	z3 := &cfmem.Zone{ID: "zone3", Name: "sub.example.org", Records: []*cfmem.Record{
		{ID: "rec5", Name: "sub.example.org", Priority: 1, Target: ".", Value: `alpn="h3"`},
	}}
	return cfmem.New([]*cfmem.Zone{z1, z2, z3})
}

type call struct {
	Targets []int `json:"targets"` // indexes into targetPool
	Config  int   `json:"config_list"`
}

type scenario struct {
	V1       int    `json:"r1_initial_value"`
	Pages    bool   `json:"paged_zone"`
	Calls    []call `json:"calls"`
	FailCall int    `json:"fail_call"` // -1 none
	FailAt   int    `json:"fail_request_index"`
	FailKind string `json:"fail_kind,omitempty"`
	// PageCap > 0: the API serves at most that many records per page, whatever page size is asked for
	PageCap int `json:"server_page_cap,omitempty"`
	// R2Empty: the second record (on the second page of a paged zone) has no parameters at all and the API lists it without a
	// "value" member
	R2Empty bool `json:"r2_without_parameters,omitempty"`
	// BigPad: the other records of the (paged) zone carry 4 KB parameter strings: a page of 20 records is larger than 64 KiB
	BigPad bool `json:"other_records_have_4kB_values,omitempty"`
	// ExternalEdit: between the calls somebody else edits the zone (r1's value is put back to what it was at the start; a
	// publisher that remembers an earlier listing would not see it)
	ExternalEdit bool `json:"zone_edited_by_someone_else_between_calls,omitempty"`
	// ManyPages: the zone has 1003 more records and the API serves ONE record per page (r1 stays on the first page, r2 moves to the
	// last one)
	ManyPages bool `json:"one_record_per_page_1005_pages,omitempty"`
}

// tokens of a parameter string, ech entries separated out
// quote-aware tokens: blanks and tabs separate parameters only outside double quotes (RFC 9460 presentation format)
func tokens(v string) []string {
	var out []string
	cur, inq := "", false
	for _, c := range v {
		switch {
		case c == '"':
			inq = !inq
			cur += string(c)
		case (c == ' ' || c == '\t') && !inq:
			if cur != "" {
				out = append(out, cur)
				cur = ""
			}
		default:
			cur += string(c)
		}
	}
	if cur != "" {
		out = append(out, cur)
	}
	return out
}

func splitValue(v string) (others []string, echs []string) {
	for _, t := range tokens(v) {
		if k, val, _ := strings.Cut(t, "="); k == "ech" { // (the key alone is an entry with an empty value)
			echs = append(echs, strings.Trim(val, `"`))
		} else {
			others = append(others, t)
		}
	}
	return
}

func run(r *ev.Run, sc scenario) {
	api := newStore(r1Values()[sc.V1], sc.Pages)
	api.MaxPerPage = sc.PageCap
	if sc.R2Empty {
		api.OmitEmptyValue = true
		for _, z := range api.Zones {
			for _, rec := range z.Records {
				if rec.ID == "rec2" {
					rec.Value = ""
				}
			}
		}
	}
	if sc.BigPad {
		for _, z := range api.Zones {
			for _, rec := range z.Records {
				if strings.HasPrefix(rec.ID, "pad") || strings.HasPrefix(rec.ID, "npad") {
					rec.Value = `alpn="h2" key65000="` + strings.Repeat("x", 4000) + `"`
				}
			}
		}
	}
	if sc.ManyPages {
		api.MaxPerPage = 1
		for _, z := range api.Zones {
			if z.Name != "example.org" {
				continue
			}
			var pad []*cfmem.Record
			for i := 0; i < 1003; i++ {
				pad = append(pad, &cfmem.Record{ID: fmt.Sprintf("many%d", i), Name: fmt.Sprintf("m%d.example.org", i), Priority: 1, Target: ".", Value: `alpn="h2"`})
			}
			// r1 first, the padding, then everything else (r2 among it)
			z.Records = append(append([]*cfmem.Record{z.Records[0]}, pad...), z.Records[1:]...)
		}
	}
	r1Initial := ""
	for _, z := range api.Zones {
		for _, rec := range z.Records {
			if rec.ID == "rec1" {
				r1Initial = rec.Value
			}
		}
	}
	ctx, cancelCtx := context.WithCancel(context.Background())
	defer cancelCtx()
	curCall := 0
	api.Hook = func(idx int) {
		if sc.FailKind == "cancel-context" && curCall == sc.FailCall && idx == sc.FailAt {
			cancelCtx()
		}
	}
	pub := publish.NewCloudflarePublisher("token")
	pub.VerifConfigure(url.URL{Scheme: "https", Host: "cf.test", Path: "/client/v4/zones"}, api)
	defer func() {
		if p := recover(); p != nil {
			r.Violation("panic", fmt.Sprint(p), sc)
		}
	}()
	oc := "ok"
	listBuf := make([]byte, 0, 64)
	for ci, c := range sc.Calls {
		if sc.ExternalEdit && ci > 0 {
			for _, z := range api.Zones {
				for _, rec := range z.Records {
					if rec.ID == "rec1" {
						rec.Value = r1Initial
					}
				}
			}
		}
		before := api.Snapshot()
		curCall = ci
		api.ResetCall()
		api.FailAt = -1
		if ci == sc.FailCall {
			api.FailAt, api.FailKind = sc.FailAt, sc.FailKind
		}
		var targets []publish.Target
		for _, t := range c.Targets {
			targets = append(targets, publish.Target{Zone: targetPool[t].Zone, Name: targetPool[t].Name})
		}
		// (the caller keeps ONE buffer for the list it publishes and refills it for every call, as a key-rotation loop does: what
		// a call is given is what it publishes, whatever the buffer held during an earlier call)
		listBuf = append(listBuf[:0], cfgLists[c.Config]...)
		results := pub.PublishECH(ctx, targets, listBuf)
		if !bytes.Equal(listBuf, cfgLists[c.Config]) {
			r.Violation("config-list-modified", fmt.Sprintf("call%d: PublishECH changed the caller's config list", ci), sc)
		}
		after := api.Snapshot()
		if om := api.OtherMembers(); len(om) > 0 {
			r.Violation("record-members-outside-data-written", fmt.Sprintf("call%d: a PATCH carried members of the record other than \"data\" (the API overwrites what it is given: a TTL set by hand, the proxied flag, a comment): %v", ci, om), sc)
		}
		log := api.CallLog()
		failed := ci == sc.FailCall && sc.FailAt < len(log) || sc.FailKind == "cancel-context" && ctx.Err() != nil
		tag := fmt.Sprintf("call%d", ci)
		if len(results) != len(targets) {
			r.Violation("result-count", fmt.Sprintf("%s: %d results for %d targets", tag, len(results), len(targets)), sc)
			return
		}
		for ti, res := range results {
			// a result is there to be looked at: printing it, or its error, must work
			func() {
				defer func() {
					if p := recover(); p != nil {
						r.Violation("result-cannot-be-printed", fmt.Sprintf("%s target %d: status code %d; String()/Err().Error() panics: %v", tag, ti, res.Code, p), sc)
					}
				}()
				if res.Code == publish.StatusError && res.Error != nil && !errors.Is(res.Err(), res.Error) && !isUncomparable(res.Error) {
					r.Violation("err-does-not-wrap-the-cause", fmt.Sprintf("%s target %d: errors.Is(result.Err(), result.Error) is false (Err() = %v): the cause cannot be inspected through the error Err() returns", tag, ti, res.Err()), sc)
				}
				if res.Code == publish.StatusError && sc.FailKind == "cancel-context" && ctx.Err() != nil && errors.Is(res.Error, context.Canceled) && !errors.Is(res.Err(), context.Canceled) {
					r.Violation("err-does-not-wrap-the-cause", fmt.Sprintf("%s target %d: the request was cancelled (Error = %v) but errors.Is(result.Err(), context.Canceled) is false", tag, ti, res.Error), sc)
				}
				if res.Code != publish.StatusError && res.Error != nil {
					r.Violation("error-field-set-without-error-status", fmt.Sprintf("%s target %d: status %q, yet its Error field holds %v (another target's error)", tag, ti, res.String(), res.Error), sc)
				}
				_ = res.String()
				if err := res.Err(); err != nil {
					_ = err.Error()
				}
				if res.Error != nil {
					_ = res.Error.Error()
				}
			}()
		}
		newVal := b64(c.Config)
		// model: walk the targets in order over the 'before' store
		cur := map[string]string{}
		for k, v := range before {
			cur[k] = v
		}
		patches := map[string]int{}
		for _, q := range log {
			if q.Method == "PATCH" {
				patches[q.Path]++
			}
		}
		named := map[string]bool{}
		reportedUpdated := map[string]bool{}
		for ti, t := range c.Targets {
			tp := targetPool[t]
			key := strings.ToLower(tp.Zone) + "|" + tp.Name
			named[key] = true
			got := results[ti].Code
			if got == publish.StatusUpdated {
				reportedUpdated[key] = true
			}
			old, exists := cur[key]
			want := publish.StatusNotFound
			if exists {
				val := strings.SplitN(old, "|", 3)[2]
				_, echs := splitValue(val)
				if len(echs) == 1 && echs[0] == newVal {
					want = publish.StatusNoChange
				} else {
					want = publish.StatusUpdated
				}
			}
			if failed {
				if got != want && got != publish.StatusError {
					r.Violation(fmt.Sprintf("status-under-failure:%v-vs-%v", got, want), fmt.Sprintf("%s target %d (%v): status %v, model %v or error", tag, ti, tp, results[ti], want), sc)
				}
				if got == publish.StatusError {
					oc = "error-reported"
					continue
				}
			} else if got != want {
				r.Violation(fmt.Sprintf("status:%v-vs-%v:%s", results[ti].String(), publish.TargetResult{Code: want}.String(), dupKind(c.Targets, ti)), fmt.Sprintf("%s target %d (%v): status %q, model says %q", tag, ti, tp, results[ti].String(), publish.TargetResult{Code: want}.String()), sc)
			}
			if got == publish.StatusUpdated && exists {
				parts := strings.SplitN(old, "|", 3)
				others, _ := splitValue(parts[2])
				cur[key] = parts[0] + "|" + parts[1] + "|" + strings.Join(append(others, `ech="`+newVal+`"`), " ")
			}
		}
		// store oracle
		for key, was := range before {
			now := after[key]
			if !named[key] {
				if now != was {
					r.Violation("untouched-record-changed", fmt.Sprintf("%s: record %s not named in the call changed from %q to %q", tag, key, was, now), sc)
				}
				continue
			}
			wp, np := strings.SplitN(was, "|", 3), strings.SplitN(now, "|", 3)
			if wp[0] != np[0] || wp[1] != np[1] {
				r.Violation("priority-or-target-changed", fmt.Sprintf("%s: record %s: %q -> %q", tag, key, was, now), sc)
			}
			wo, _ := splitValue(wp[2])
			no, ne := splitValue(np[2])
			if strings.Join(wo, " ") != strings.Join(no, " ") {
				r.Violation("other-params-changed", fmt.Sprintf("%s: record %s: parameters other than ech changed or were reordered: %q -> %q", tag, key, wp[2], np[2]), sc)
			}
			// whatever else happened in the call: a target reported as updated is stored with exactly the new list
			if reportedUpdated[key] && (len(ne) != 1 || ne[0] != newVal) {
				r.Violation("update-reported-but-not-stored", fmt.Sprintf("%s: record %s was reported as updated but the store holds ech entries %q (want [%q]); the API had answered %s to request %d", tag, key, ne, newVal, sc.FailKind, sc.FailAt), sc)
			}
			// "afterwards the stored value holds exactly one ech entry equal to the given list": also when nothing was written
			if !failed && (len(ne) != 1 || ne[0] != newVal) {
				r.Violation("ech-entries-after-call", fmt.Sprintf("%s: record %s holds ech entries %q after the call (stored value %q), want exactly [%q]", tag, key, ne, np[2], newVal), sc)
			}
			mp := strings.SplitN(cur[key], "|", 3)
			_, me := splitValue(mp[2])
			if now != was { // rewritten: exactly one ech entry with the new value
				if len(ne) != 1 || ne[0] != newVal {
					r.Violation("ech-entry-wrong", fmt.Sprintf("%s: record %s holds ech entries %q after the update, want exactly [%q]", tag, key, ne, newVal), sc)
				}
			} else if !failed && strings.Join(me, ",") != strings.Join(ne, ",") {
				r.Violation("update-not-stored", fmt.Sprintf("%s: record %s reported updated but the stored value is %q", tag, key, np[2]), sc)
			}
		}
		// request oracle
		for path, n := range patches {
			if n > 1 && !failed { // after a failed write, writing again is legitimate
				r.Violation("patched-twice:"+dupKindAny(c.Targets), fmt.Sprintf("%s: %d PATCH requests for %s in one call (the second one writes a value that is already current)", tag, n, path), sc)
			}
		}
		for _, q := range log {
			if q.Method != "PATCH" {
				continue
			}
			id := q.Path[strings.LastIndex(q.Path, "/")+1:]
			ok := false
			for _, t := range c.Targets {
				tp := targetPool[t]
				if strings.HasPrefix(id, "recA") || strings.HasPrefix(id, "recT") {
					break // never a legitimate PATCH target
				}
				if tp.Zone == "example.org" && tp.Name == "sub.example.org" && id == "rec4" || tp.Zone == "sub.example.org" && tp.Name == "sub.example.org" && id == "rec5" {
					ok = true
				}
				if (tp.Zone != "" && tp.Name == "example.org" && id == "rec1") || (tp.Name == "www.example.org" && id == "rec2") || (tp.Name == "example.net" && id == "rec3") || (tp.Zone == "example.org" && tp.Name == "zero-prio.example.org" && id == "rec0") {
					ok = true
				}
			}
			if !ok {
				r.Violation("patch-for-unnamed-record", fmt.Sprintf("%s: PATCH %s for a record that was not requested", tag, q.Path), sc)
			}
		}
		r.Add("transitions", 1)
	}
	r.Eval(fmt.Sprintf("%+v", sc), fmt.Sprintf("calls=%d %s", len(sc.Calls), oc))
}

// isUncomparable: errors.Is compares with ==, which panics for error values of slice type (the API's error list is one)
func isUncomparable(err error) (un bool) {
	defer func() {
		if recover() != nil {
			un = true
		}
	}()
	return !(err == err)
}

func dupKind(ts []int, i int) string {
	for j := 0; j < i; j++ {
		if ts[j] == ts[i] {
			return "duplicate-target"
		}
	}
	return "first-occurrence"
}

func dupKindAny(ts []int) string {
	for i := range ts {
		if dupKind(ts, i) == "duplicate-target" {
			return "duplicate-target"
		}
	}
	return "no-duplicate"
}

func Run(r *ev.Run) {
	r.Rule("E4 histories of publishes on a fresh publisher + in-memory Cloudflare fake: initial value of the first record over 9 parameter strings (empty, no ech, ech first/middle/last, two ech entries, already current quoted/unquoted, a tab inside a quoted value with double blanks between parameters), zone on one page or spread over three pages (48 records), the API honouring the requested page size or capping it at 7/10/19 records per page; a record without parameters listed without its value member; calls = (target list over {r1, r2, missing record, unknown zone, record of a second zone} incl. duplicates, config list L1/L2, plus two lists whose base64 texts differ from each other only in letter case); the zones also hold A/TXT records under the targets' names, a record of priority 65535, and one FQDN exists in a parent zone and in its delegated child zone; a paged zone whose other records carry 4 KB values; ALL histories of <=2 calls with lists of length <=2 (thorough <=3) and ALL histories of 3 calls with lists of length <=1; E2: a single API failure {HTTP 400, success:false with and without an errors list, malformed JSON, the caller's context cancelled} at every request index of every call (1-call and 2-call histories). A map-based model predicts each status; store and request log are checked after each call. distinct = distinct scenarios")
	r.Assume("parameter values contain no blanks (the publisher splits on single spaces); tabs inside quoted values and runs of blanks between parameters are in the alphabet", "a record that already carries several ech entries whose last one is current is outside the alphabet",
		"the fake API follows Cloudflare v4 list semantics: result_info.count is the number of items on the page, total_count the total")
	maxList := 2
	if r.Thorough() {
		maxList = 3
	}
	var lists [][]int
	enum.Sequences(basePool, maxList, func(s []int) { lists = append(lists, append([]int{}, s...)) })
	var calls []call
	for _, l := range lists {
		for c := 0; c < 2; c++ {
			calls = append(calls, call{l, c})
		}
	}
	var small []call
	for _, c := range calls {
		if len(c.Targets) <= 1 {
			small = append(small, c)
		}
	}
	var scs []scenario
	nv := len(r1Values())
	for v := 0; v < nv; v++ {
		for _, pages := range []bool{false, true} {
			for _, a := range calls {
				scs = append(scs, scenario{V1: v, Pages: pages, Calls: []call{a}, FailCall: -1})
				if pages && (v < 2 || r.Thorough()) {
					for _, pc := range []int{7, 10, 19} {
						scs = append(scs, scenario{V1: v, Pages: pages, Calls: []call{a}, FailCall: -1, PageCap: pc})
					}
					scs = append(scs, scenario{V1: v, Pages: pages, Calls: []call{a}, FailCall: -1, R2Empty: true}, scenario{V1: v, Pages: pages, Calls: []call{a, a}, FailCall: -1, R2Empty: true})
				}
				if pages && v > 2 && !r.Thorough() {
					continue
				}
				for _, b := range calls {
					if pages && (len(a.Targets) > 1 || len(b.Targets) > 1) {
						continue
					}
					scs = append(scs, scenario{V1: v, Pages: pages, Calls: []call{a, b}, FailCall: -1})
				}
			}
			if pages {
				continue
			}
			for _, a := range small {
				for _, b := range small {
					for _, c := range small {
						scs = append(scs, scenario{V1: v, Calls: []call{a, b, c}, FailCall: -1})
					}
				}
			}
		}
	}
	// failures: every request index of every call of 1- and 2-call histories (lists <=2)
	for v := 0; v < nv; v += 3 {
		for _, pages := range []bool{false, true} {
			for _, a := range calls {
				if len(a.Targets) == 0 || len(a.Targets) > 2 {
					continue
				}
				for _, kind := range []string{"http400", "success-false", "success-false-no-errors", "bad-json", "cancel-context"} {
					for at := 0; at < 9; at++ {
						scs = append(scs, scenario{V1: v, Pages: pages, Calls: []call{a}, FailCall: 0, FailAt: at, FailKind: kind})
						if !pages && at < 5 {
							scs = append(scs, scenario{V1: v, Calls: []call{a, a}, FailCall: 0, FailAt: at, FailKind: kind})
							scs = append(scs, scenario{V1: v, Calls: []call{a, {a.Targets, 1 - a.Config}}, FailCall: 1, FailAt: at, FailKind: kind})
						}
					}
				}
			}
		}
	}
	// the same FQDN in a parent zone and in its delegated child zone: every ordered list of <=3 over {parent's, child's, r1, a name
	// of another zone asked under the child}, one and two calls
	{
		var l2 [][]int
		enum.Sequences(4, 3, func(s []int) {
			if len(s) == 0 {
				return
			}
			var l []int
			for _, i := range s {
				l = append(l, []int{5, 6, 0, 7}[i])
			}
			l2 = append(l2, l)
		})
		for _, l := range l2 {
			for c := 0; c < 2; c++ {
				scs = append(scs, scenario{V1: 1, Calls: []call{{l, c}}, FailCall: -1}, scenario{V1: 1, Calls: []call{{l, c}, {l, 1 - c}}, FailCall: -1})
			}
		}
	}
	// somebody else edits the zone between two publishes of the same list; a zone of 1005 one-record pages
	for _, l := range [][]int{{0}, {0, 1}, {1, 0}} {
		for c := 0; c < 2; c++ {
			for _, v1 := range []int{1, 3, 6} {
				scs = append(scs, scenario{V1: v1, Calls: []call{{l, c}, {l, c}}, FailCall: -1, ExternalEdit: true}, scenario{V1: v1, Calls: []call{{l, c}, {l, c}, {l, c}}, FailCall: -1, ExternalEdit: true})
			}
		}
	}
	for _, l := range [][]int{{1}, {0, 1}, {1, 2}} {
		scs = append(scs, scenario{V1: 1, Calls: []call{{l, 0}}, FailCall: -1, ManyPages: true}, scenario{V1: 3, Calls: []call{{l, 0}, {l, 1}}, FailCall: -1, ManyPages: true})
	}
	// the zone named with another letter case, alone and next to the canonical spelling
	for _, l := range [][]int{{8}, {8, 0}, {0, 8}, {8, 1}, {8, 2}} {
		for c := 0; c < 2; c++ {
			for _, v1 := range []int{1, 3} {
				scs = append(scs, scenario{V1: v1, Calls: []call{{l, c}}, FailCall: -1}, scenario{V1: v1, Calls: []call{{l, c}, {l, 1 - c}}, FailCall: -1})
			}
		}
	}
	// the name spelled with a final dot, alone, repeated, and next to the plain spelling in both orders
	for _, l := range [][]int{{9}, {9, 9}, {9, 0}, {0, 9}, {9, 0, 9}, {9, 1}} {
		for c := 0; c < 2; c++ {
			for _, v1 := range []int{1, 3} {
				scs = append(scs, scenario{V1: v1, Calls: []call{{l, c}}, FailCall: -1}, scenario{V1: v1, Calls: []call{{l, c}, {l, 1 - c}}, FailCall: -1})
			}
		}
	}
	// round 14: the priority-0 record alone and next to r1; zones spelled with a final dot before and after the plain spelling
	for _, l := range [][]int{{10}, {10, 0}, {0, 10}, {10, 10}, {11}, {11, 0}, {0, 11}, {11, 0, 11}, {11, 1}, {12, 3}, {3, 12}, {12, 0}, {13}, {13, 0}, {0, 13}, {13, 4}, {13, 13}} {
		for c := 0; c < 2; c++ {
			for _, v1 := range []int{1, 3} {
				scs = append(scs, scenario{V1: v1, Calls: []call{{l, c}}, FailCall: -1}, scenario{V1: v1, Calls: []call{{l, c}, {l, 1 - c}}, FailCall: -1},
					scenario{V1: v1, Calls: []call{{l[:1], c}, {[]int{0, 1}, c}}, FailCall: -1})
			}
		}
	}
	// a zone whose other records carry 4 KB values (listing pages beyond 64 KiB)
	for _, a := range small {
		if len(a.Targets) == 1 {
			scs = append(scs, scenario{V1: 1, Pages: true, Calls: []call{a, a, {a.Targets, 1 - a.Config}}, FailCall: -1, BigPad: true})
		}
	}
	// the case-colliding list after (and before) the one it collides with, on every initial value, single-target lists
	for v := 0; v < nv; v++ {
		for _, a := range small {
			if len(a.Targets) != 1 || a.Config != 0 {
				continue
			}
			scs = append(scs, scenario{V1: v, Calls: []call{{a.Targets, 2}, {a.Targets, 3}}, FailCall: -1}, scenario{V1: v, Calls: []call{{a.Targets, 3}, {a.Targets, 2}}, FailCall: -1}, scenario{V1: v, Calls: []call{{a.Targets, 2}, {a.Targets, 2}}, FailCall: -1}, scenario{V1: v, Calls: []call{a, {a.Targets, 3}}, FailCall: -1})
		}
	}
	r.Set("scenarios", len(scs))
	r.Set("states", len(scs))
	r.Set("traces_validated_against_impl", len(scs))
	enum.ParallelFor(len(scs), func(i int) {
		run(r, scs[i])
		if i%(len(scs)/5+1) == 3 {
			r.Sample(scs[i])
		}
	})
}
