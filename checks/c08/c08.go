// Package c08 decides C08 (input part): no peer input can crash, hang or
// balloon a Conn. Grammar-bounded exhaustive fault enumeration (E1), executed in
// memory-capped single-threaded worker processes with a hang watchdog.
package c08

import (
	"bytes"
	"fmt"
	"os"
	"runtime"
	"slices"
	"strings"
	"sync/atomic"
	"time"

	"github.com/c2FmZQ/ech"

	"verif/internal/echx"
	"verif/internal/ev"
	"verif/internal/tlsref"
	"verif/internal/workers"
)

const (
	innerName = "inner.secret.example"
	pubName   = "public.example"
	// retained-memory budget for one Conn (property: "a small multiple of the maximum TLS record size"): 8 x the largest
	// record (or 8 x the hello when a legitimate hello spans several records, at most 64 KiB) + 16 KiB. A sealed hello is held
	// as received, as parsed outer hello, as decrypted and as parsed inner hello and as bytes to forward.
	recSize   = 16384 + 256 + 5
	memBudget = 8*recSize + 16*1024
)

// op is one step of a case: client bytes (then one Read) or backend bytes (one Write).
type op struct {
	Dir  byte   `json:"dir"` // 'c' or 'b'
	Data []byte `json:"-"`
	Hex  string `json:"data,omitempty"`
}

type kase struct {
	Family string `json:"family"`
	Desc   string `json:"desc"`
	Keys   bool   `json:"with_keys"`
	First  []byte `json:"-"`
	Ops    []op   `json:"-"`
	// Budget > 0 replaces the default bound on what the Conn may retain after the calls (cases that end with everything delivered)
	Budget int `json:"retained_budget,omitempty"`
}

type result struct {
	Idx     int    `json:"idx"`
	Family  string `json:"family"`
	Desc    string `json:"desc"`
	Keys    bool   `json:"with_keys"`
	Outcome string `json:"outcome"`
	Viol    string `json:"violation,omitempty"` // key
	What    string `json:"what,omitempty"`
	First   string `json:"first,omitempty"`
	Ops     []op   `json:"ops,omitempty"`
	KeysDoc any    `json:"keys,omitempty"`
}

// ---- alternatives of the extensions the parser interprets ----

type alt struct {
	name string
	ext  tlsref.Ext
}

func interpretedAlternatives() []alt {
	raw := func(t uint16, d ...byte) tlsref.Ext { return tlsref.Ext{Type: t, Data: d} }
	echGarbage := tlsref.ECHOuter(1, 1, 42, tlsref.DetBytes("c08-enc", 32), tlsref.DetBytes("c08-payload", 90))
	long := tlsref.ECHOuter(1, 1, 42, tlsref.DetBytes("c08-enc", 32), tlsref.DetBytes("c08-payload-long", 300))
	out := []alt{
		{"sni-valid", tlsref.SNI(pubName)},
		{"sni-empty-data", raw(0)},
		{"sni-empty-list", raw(0, 0, 0)},
		{"sni-two-names", tlsref.Ext{Type: 0, Data: append([]byte{0, 10}, 0, 0, 2, 'a', 'b', 0, 0, 2, 'c', 'd')}},
		{"sni-nametype1", raw(0, 0, 5, 1, 0, 2, 'a', 'b')},
		{"sni-empty-hostname", raw(0, 0, 3, 0, 0, 0)},
		{"sni-truncated", raw(0, 0, 9, 0, 0, 9, 'a')},
		{"sni-list-short", raw(0, 0, 2, 0, 0)},
		{"alpn-valid", tlsref.ALPN("h2", "http/1.1")},
		{"alpn-empty-data", raw(16)},
		{"alpn-empty-list", raw(16, 0, 0)},
		{"alpn-empty-proto", raw(16, 0, 1, 0)},
		{"alpn-truncated", raw(16, 0, 4, 3, 'h', '2')},
		{"sv-13", tlsref.SupportedVersions(0x0304)},
		{"sv-12", tlsref.SupportedVersions(0x0303)},
		{"sv-empty-data", raw(43)},
		{"sv-empty-list", raw(43, 0)},
		{"sv-odd", raw(43, 3, 3, 4, 3)},
		{"sv-overlong", raw(43, 9, 3, 4)},
		{"eoe-valid", tlsref.OuterExtensions(tlsref.ExtKeyShare)},
		{"eoe-empty", raw(0xfd00)},
		{"ech-outer-garbage", echGarbage},
		{"ech-outer-garbage-long", long},
		{"ech-outer-unknown-id", tlsref.ECHOuter(1, 1, 9, tlsref.DetBytes("c08-enc", 32), tlsref.DetBytes("c08-payload", 90))},
		{"ech-outer-empty-enc", tlsref.ECHOuter(1, 1, 42, nil, tlsref.DetBytes("c08-payload", 90))},
		{"ech-outer-empty-payload", tlsref.ECHOuter(1, 1, 42, tlsref.DetBytes("c08-enc", 32), nil)},
		{"ech-outer-short-enc", tlsref.ECHOuter(1, 1, 42, tlsref.DetBytes("c08-enc", 31), tlsref.DetBytes("c08-payload", 90))},
		{"ech-outer-payload-1", tlsref.ECHOuter(1, 1, 42, tlsref.DetBytes("c08-enc", 32), []byte{7})},
		{"ech-outer-payload-15", tlsref.ECHOuter(1, 1, 42, tlsref.DetBytes("c08-enc", 32), tlsref.DetBytes("p", 15))},
		{"ech-outer-trailing", tlsref.Ext{Type: tlsref.ExtECH, Data: append(append([]byte{}, echGarbage.Data...), 1, 2, 3)}},
		{"ech-inner", tlsref.ECHInner()},
		{"ech-inner-trailing", raw(0xfe0d, 1, 0, 0)},
		{"ech-type2", raw(0xfe0d, 2)},
		{"ech-empty-data", raw(0xfe0d)},
	}
	// every truncation point of the outer ECH structure header
	for _, n := range []int{1, 2, 3, 4, 5, 6, 7, 8, 20, 39, 40, 41, 42} {
		out = append(out, alt{fmt.Sprintf("ech-outer-cut%d", n), tlsref.Ext{Type: tlsref.ExtECH, Data: append([]byte{}, echGarbage.Data[:n]...)}})
	}
	return out
}

func baseOuter() *tlsref.Hello {
	return &tlsref.Hello{Version: 0x0303, Random: tlsref.DetBytes("c08-random", 32), SessionID: tlsref.DetBytes("sid", 32),
		CipherSuites: []byte{0x13, 0x01, 0x13, 0x03}, Compression: []byte{0}}
}

// generate enumerates all cases of the tier deterministically.
func generate(thorough bool, emit func(kase)) {
	key := echx.NewKey("c08", 42, echx.AllSuites, pubName)
	alts := interpretedAlternatives()
	fixed := []tlsref.Ext{tlsref.SupportedGroups(), tlsref.KeyShare(32), tlsref.SigAlgs()}

	sealed := func(encInner []tlsref.Ext, outerExtra []tlsref.Ext, padding []byte) echx.Built {
		outer, idx := echx.StdOuter(pubName, tlsref.DetBytes("sid", 32), 99)
		outer.Exts = append(outer.Exts[:idx:idx], append(slices.Clone(outerExtra), outer.Exts[idx:]...)...)
		idx += len(outerExtra)
		return echx.Spec{Key: key, Suite: tlsref.Suite{KDF: 1, AEAD: 1}, Outer: outer, EchIdx: idx, EncInner: encInner,
			InnerBase: echx.StdInnerBase(), Padding: padding, EphLabel: "c08"}.Build()
	}
	good := sealed(echx.StdEncInner(innerName, []string{"h2"}, true), nil, make([]byte, 4))
	goodRec := good.Outer.Record()
	sid := good.Outer.SessionID

	// F2a: sequences of interpreted-extension alternatives in the OUTER hello (with and without keys)
	maxSeq := 2
	if thorough {
		maxSeq = 3
	}
	var seqs [][]int
	enumSeq(len(alts), maxSeq, func(s []int) { seqs = append(seqs, slices.Clone(s)) })
	for vi, s := range append(slices.Clone(seqs), seqs...) {
		h := baseOuter()
		names := []string{}
		h.Exts = append(h.Exts, fixed[0])
		if vi >= len(seqs) { // second pass: the hello also offers TLS 1.3, so the ECH paths run
			h.Exts = append(h.Exts, tlsref.SupportedVersions(0x0304), tlsref.SNI(pubName))
			names = append(names, "tls13+sni+")
		}
		for _, i := range s {
			h.Exts = append(h.Exts, alts[i].ext)
			names = append(names, alts[i].name)
		}
		h.Exts = append(h.Exts, fixed[1:]...)
		for _, k := range []bool{false, true} {
			emit(kase{Family: "outer-ext-seq", Desc: strings.Join(names, ","), Keys: k, First: h.Record()})
		}
	}
	// F2b: the same alternatives inside a SEALED inner hello (so that the inner parsing paths run)
	innerSeqMax := 2
	var iseqs [][]int
	enumSeq(len(alts), innerSeqMax, func(s []int) { iseqs = append(iseqs, slices.Clone(s)) })
	for _, s := range iseqs {
		if !thorough && len(s) == 2 && (s[0]*31+s[1])%4 != 0 {
			continue // quick: a quarter of the pairs
		}
		for _, withValid := range []bool{true, false} {
			var inner []tlsref.Ext
			names := []string{}
			if withValid {
				inner = echx.StdEncInner(innerName, []string{"h2"}, false)
				names = append(names, "valid-inner+")
			} else {
				inner = []tlsref.Ext{tlsref.KeyShare(32)}
			}
			for _, i := range s {
				inner = append(inner, alts[i].ext)
				names = append(names, alts[i].name)
			}
			b := sealed(inner, nil, nil)
			emit(kase{Family: "sealed-inner-ext-seq", Desc: strings.Join(names, ","), Keys: true, First: b.Outer.Record()})
		}
	}
	// F2c: reference lists of a sealed inner against outer lists (missing, repeated, huge)
	for _, refs := range [][]uint16{{}, {51}, {51, 51}, {43, 51, 13, 10, 45}, {45, 43}, {0xfe0d}, {0xfd00}, {0x7777}, {0}, {0, 0, 0, 0}} {
		inner := append(echx.StdEncInner(innerName, nil, false)[:2:2], tlsref.OuterExtensions(refs...))
		b := sealed(inner, nil, nil)
		emit(kase{Family: "sealed-inner-refs", Desc: fmt.Sprint(refs), Keys: true, First: b.Outer.Record()})
		b = sealed(append(slices.Clone(inner), tlsref.OuterExtensions(refs...)), nil, nil)
		emit(kase{Family: "sealed-inner-refs-twice", Desc: fmt.Sprint(refs), Keys: true, First: b.Outer.Record()})
	}
	{ // references to a LARGE outer extension (15 kB), repeated: the expansion must not be multiplied
		bigExt := tlsref.Opaque(0x5a5a, 15000)
		for _, n := range []int{2, 16, 127} {
			var many []uint16
			for i := 0; i < n; i++ {
				many = append(many, 0x5a5a)
			}
			b := sealed(append(echx.StdEncInner(innerName, nil, false), tlsref.OuterExtensions(many...)), []tlsref.Ext{bigExt}, nil)
			emit(kase{Family: "sealed-inner-refs-big", Desc: fmt.Sprintf("%dx 15kB extension", n), Keys: true, First: b.Outer.Record()})
		}
		b := sealed(append(echx.StdEncInner(innerName, nil, false), tlsref.OuterExtensions(0x5a5a)), []tlsref.Ext{bigExt}, nil)
		emit(kase{Family: "sealed-inner-refs-big", Desc: "1x 15kB extension (legal)", Keys: true, First: b.Outer.Record()})
	}
	{ // hellos spanning several records: legitimate big ones (plain and sealed), lying lengths, empty fragments, endless fragments
		bigPlain := baseOuter()
		bigPlain.Exts = []tlsref.Ext{tlsref.SNI(pubName), tlsref.SupportedVersions(0x0304), tlsref.Opaque(0x6b6b, 60000)}
		for _, k := range []bool{false, true} {
			emit(kase{Family: "multi-record-hello", Desc: "plain 60 kB", Keys: k, First: tlsref.FragmentMax(0x0301, bigPlain.Msg())})
		}
		// a hello in several records whose SECOND or THIRD record has a size around the limits (2^14 the plaintext limit, 2^14+256
		// what this package admits for a record, one more): whatever is decided about such a record, it is decided by a value
		for _, pos := range []int{1, 2} {
			for _, size := range []int{16383, 16384, 16385, 16500, 16639, 16640, 16641} {
				h := baseOuter()
				h.Exts = []tlsref.Ext{tlsref.SNI(pubName), tlsref.SupportedVersions(0x0304), tlsref.Opaque(0x6b6b, 50000)}
				msg := h.Msg()
				cuts := []int{100}
				if pos == 2 {
					cuts = append(cuts, 200)
				}
				cuts = append(cuts, cuts[len(cuts)-1]+size)
				for o := cuts[len(cuts)-1] + 16000; o < len(msg); o += 16000 {
					cuts = append(cuts, o) // (the rest in ordinary records)
				}
				for _, keys := range []bool{false, true} {
					emit(kase{Family: "multi-record-hello-later-record-at-the-size-limit", Desc: fmt.Sprintf("record %d of the hello carries %d bytes keys=%v", pos+1, size, keys), Keys: keys, First: tlsref.Fragment(0x0301, msg, cuts...), Ops: []op{{Dir: 'c'}, {Dir: 'c'}}})
				}
			}
		}
		// a 64 kB hello in ONE-BYTE handshake records (390 kB on the wire), passed through without keys: once the backend has read
		// it - and a few more records have flowed - the Conn holds a small multiple of the hello, not of what travelled
		{
			h := baseOuter()
			h.Exts = []tlsref.Ext{tlsref.SNI(pubName), tlsref.SupportedVersions(0x0304), tlsref.Opaque(0x6b6b, 65000)}
			msg := h.Msg()
			var cuts []int
			for o := 1; o < len(msg); o++ {
				cuts = append(cuts, o)
			}
			// (the session driver reads 70000 bytes at a time: six reads deliver the 390 kB of records)
			after := []op{{Dir: 'c'}, {Dir: 'c'}, {Dir: 'c'}, {Dir: 'c'}, {Dir: 'c'}, {Dir: 'c'}, {Dir: 'c', Data: tlsref.Record(23, 0x0303, make([]byte, 100))}, {Dir: 'b', Data: tlsref.Record(23, 0x0303, make([]byte, 100))}, {Dir: 'c', Data: tlsref.Record(23, 0x0303, make([]byte, 100))}}
			emit(kase{Family: "multi-record-hello-one-byte-records-delivered", Desc: "plain 65 kB, no keys", Keys: false, First: tlsref.Fragment(0x0301, msg, cuts...), Ops: after, Budget: 16*1024 + 3*len(msg)})
		}
		// the same 60 kB made of 15000 EMPTY extensions: what is kept of a hello must not grow with the number of its extensions
		manyExts := baseOuter()
		manyExts.Exts = []tlsref.Ext{tlsref.SNI(pubName), tlsref.SupportedVersions(0x0304)}
		for i := 0; i < 15000; i++ {
			manyExts.Exts = append(manyExts.Exts, tlsref.Ext{Type: 0x6b6b})
		}
		for _, k := range []bool{false, true} {
			emit(kase{Family: "multi-record-hello-many-extensions", Desc: "plain 60 kB, 15000 empty extensions", Keys: k, First: tlsref.FragmentMax(0x0301, manyExts.Msg())})
		}
		// ... and 64 kB made of ONE extension that lists 32000 one-octet protocol names (a legal ALPN extension): what is kept of a
		// hello must not grow with the number of names either
		{
			var names []string
			for i := 0; i < 32000; i++ {
				names = append(names, string(rune('a'+i%26)))
			}
			manyNames := baseOuter()
			manyNames.Exts = []tlsref.Ext{tlsref.SNI(pubName), tlsref.SupportedVersions(0x0304), tlsref.ALPN(names...)}
			for _, k := range []bool{false, true} {
				emit(kase{Family: "multi-record-hello-many-alpn-names", Desc: "plain 64 kB, 32000 one-octet ALPN names", Keys: k, First: tlsref.FragmentMax(0x0301, manyNames.Msg()), Ops: []op{{Dir: 'c'}, {Dir: 'c'}}})
			}
		}
		bs := sealed(append(echx.StdEncInner(innerName, []string{"h2"}, false), tlsref.Opaque(0x7a7a, 25000)), nil, nil)
		emit(kase{Family: "multi-record-hello", Desc: "sealed, 25 kB inner", Keys: true, First: tlsref.FragmentMax(0x0301, bs.Outer.Msg())})
		msgGood := good.Outer.Msg()
		for _, cuts := range [][]int{{1}, {2}, {3}, {4}, {5}, {len(msgGood) - 1}, {1, 2, 3, 4, 5, 6, 7, 8}} {
			emit(kase{Family: "multi-record-hello", Desc: fmt.Sprintf("sealed small, cuts %v", cuts), Keys: true, First: tlsref.Fragment(0x0301, msgGood, cuts...)})
		}
		for _, declared := range []int{65536, 65537, 1 << 20, 0xffffff} {
			body := make([]byte, 16380)
			first := tlsref.Record(22, 0x0301, append([]byte{1, byte(declared >> 16), byte(declared >> 8), byte(declared)}, body...))
			full := slices.Clone(first)
			for i := 0; i < 4; i++ {
				full = append(full, tlsref.Record(22, 0x0301, make([]byte, 16384))...)
			}
			emit(kase{Family: "multi-record-hello-declared", Desc: fmt.Sprintf("declares %d, 80 kB follow", declared), Keys: true, First: full})
			emit(kase{Family: "multi-record-hello-declared", Desc: fmt.Sprintf("declares %d, nothing follows", declared), Keys: true, First: first})
		}
		// the 4-byte handshake header itself split over two records (the announced length becomes known only with the
		// second record), announcing more than the limit, followed by 2 MB of handshake records
		for _, declared := range []int{65537, 0xffffff} {
			for k := 1; k <= 3; k++ {
				hdr := []byte{1, byte(declared >> 16), byte(declared >> 8), byte(declared)}
				full := tlsref.Record(22, 0x0301, hdr[:k])
				full = append(full, tlsref.Record(22, 0x0301, append(slices.Clone(hdr[k:]), make([]byte, 16000)...))...)
				full = append(full, bytes.Repeat(tlsref.Record(22, 0x0301, make([]byte, 16384)), 128)...)
				emit(kase{Family: "multi-record-hello-declared", Desc: fmt.Sprintf("header split after %d bytes declares %d, 2 MB follow", k, declared), Keys: true, First: full})
			}
		}
		// a fragment followed by empty handshake records, by a non-handshake record, by 2000 one-byte fragments
		head := tlsref.Record(22, 0x0301, msgGood[:10])
		emit(kase{Family: "multi-record-hello-continuation", Desc: "empty fragments", Keys: true, First: append(slices.Clone(head), bytes.Repeat(tlsref.Record(22, 0x0301, nil), 3000)...)})
		// nothing but empty handshake records, from the very first one (the 4-byte handshake header never completes, so a length
		// limit alone never fires): 1 MB of them
		emit(kase{Family: "multi-record-hello-continuation", Desc: "only empty handshake records, 200000 of them", Keys: true, First: bytes.Repeat(tlsref.Record(22, 0x0301, nil), 200000)})
		emit(kase{Family: "multi-record-hello-continuation", Desc: "one byte, then 200000 empty handshake records", Keys: true, First: append(tlsref.Record(22, 0x0301, []byte{1}), bytes.Repeat(tlsref.Record(22, 0x0301, nil), 200000)...)})
		emit(kase{Family: "multi-record-hello-continuation", Desc: "application data in the middle", Keys: true, First: append(slices.Clone(head), tlsref.Record(23, 0x0303, []byte{1})...)})
		var drip []byte
		for _, bt := range msgGood[10:] {
			drip = append(drip, tlsref.Record(22, 0x0301, []byte{bt})...)
		}
		emit(kase{Family: "multi-record-hello-continuation", Desc: "one byte per record", Keys: true, First: append(slices.Clone(head), drip...)})
	}
	{ // 127 references to the same extension / to many extensions
		var many []uint16
		for i := 0; i < 127; i++ {
			many = append(many, 51)
		}
		b := sealed(append(echx.StdEncInner(innerName, nil, false)[:2:2], tlsref.OuterExtensions(many...)), nil, nil)
		emit(kase{Family: "sealed-inner-refs", Desc: "127x key_share", Keys: true, First: b.Outer.Record()})
	}

	// F1: length-field values {0, true-1, true+1, max} at every length field; all pairs of fields
	deltas := func(msg []byte, off, width int) [][]byte {
		var outs [][]byte
		for _, d := range []int{-1, +1} {
			if m := tlsref.Bump(msg, off, width, d); m != nil {
				outs = append(outs, m)
			}
		}
		z := slices.Clone(msg)
		mx := slices.Clone(msg)
		for i := 0; i < width; i++ {
			z[off+i] = 0
			mx[off+i] = 0xff
		}
		return append(outs, z, mx)
	}
	plain := baseOuter()
	plain.Exts = []tlsref.Ext{tlsref.SNI(pubName), tlsref.ALPN("h2"), tlsref.SupportedVersions(0x0304), tlsref.KeyShare(32)}
	garbage := baseOuter()
	garbage.Exts = []tlsref.Ext{tlsref.SNI(pubName), tlsref.SupportedVersions(0x0304), alts[21].ext}
	for bi, msg := range [][]byte{plain.Msg(), good.Outer.Msg(), garbage.Msg()} {
		bname := []string{"plain", "sealed", "ech-garbage"}[bi]
		lfs := tlsref.LengthFieldOffsets(msg)
		for i, a := range lfs {
			for _, m := range deltas(msg, a[0], a[1]) {
				for _, k := range []bool{false, true} {
					emit(kase{Family: "length-field", Desc: fmt.Sprintf("%s off%d", bname, a[0]), Keys: k, First: tlsref.Record(22, 0x0301, m)})
				}
				if !thorough && bi != 1 {
					continue
				}
				for _, b := range lfs[i+1:] {
					for _, m2 := range deltas(m, b[0], b[1]) {
						emit(kase{Family: "length-field-pair", Desc: fmt.Sprintf("%s off%d+off%d", bname, a[0], b[0]), Keys: true, First: tlsref.Record(22, 0x0301, m2)})
					}
				}
			}
		}
		// the message cut at every byte, record length consistent; and record length lying (longer than data => transport EOF)
		for cut := 0; cut <= len(msg); cut++ {
			emit(kase{Family: "message-cut", Desc: fmt.Sprintf("%s cut%d", bname, cut), Keys: true, First: tlsref.Record(22, 0x0301, msg[:cut])})
		}
	}
	// first-record header variants: every content type x length {0,1,5}, huge declared lengths
	for ct := 0; ct < 256; ct++ {
		for _, n := range []int{0, 1, 5} {
			emit(kase{Family: "first-record-type", Desc: fmt.Sprintf("type%d len%d", ct, n), Keys: ct%2 == 0, First: tlsref.Record(byte(ct), 0x0303, tlsref.DetBytes("x", n))})
		}
	}
	for _, l := range []int{16384, 16385, 16640, 16641, 65535} {
		hdr := []byte{22, 3, 1, byte(l >> 8), byte(l)}
		emit(kase{Family: "first-record-declared-length", Desc: fmt.Sprint(l), Keys: true, First: append(hdr, tlsref.DetBytes("body", min(l, 200))...)})
		emit(kase{Family: "first-record-declared-length-full", Desc: fmt.Sprint(l), Keys: true, First: append(hdr, make([]byte, l)...)})
	}
	for _, mt := range []byte{0, 1, 2, 11, 255} {
		for cut := 0; cut <= 8; cut++ {
			m := slices.Clone(plain.Msg())
			m[0] = mt
			emit(kase{Family: "first-message-type", Desc: fmt.Sprintf("type%d cut%d", mt, cut), Keys: true, First: tlsref.Record(22, 0x0301, m[:min(len(m), 4+cut)])})
		}
	}

	// F3: records after the first hello, both directions, with the hello accepted / passed through
	firsts := []struct {
		name string
		rec  []byte
	}{{"accepted", goodRec}, {"passthrough", plain.Record()}}
	var recAlphabet []op
	for _, ct := range []byte{0, 20, 21, 22, 23, 24, 255} {
		for _, n := range []int{0, 1, 2, 5, 6} {
			recAlphabet = append(recAlphabet, op{Dir: 'c', Data: tlsref.Record(ct, 0x0303, tlsref.DetBytes("r", n))}, op{Dir: 'b', Data: tlsref.Record(ct, 0x0303, tlsref.DetBytes("r", n))})
		}
	}
	hrr := echx.HRRRecord(sid)
	sh := echx.ServerHelloRecord(sid)
	for _, f := range firsts {
		for _, a := range recAlphabet {
			emit(kase{Family: "record-after-hello", Desc: f.name, Keys: true, First: f.rec, Ops: []op{a}})
			for _, b := range recAlphabet {
				if !thorough && (a.Dir == b.Dir) {
					continue
				}
				emit(kase{Family: "two-records-after-hello", Desc: f.name, Keys: true, First: f.rec, Ops: []op{a, b}})
			}
		}
		// ServerHello / HRR: every truncation (consistent record length), every handshake-length lie, type byte variants
		for _, base := range [][]byte{sh, hrr} {
			body := base[5:]
			for cut := 0; cut <= len(body); cut++ {
				emit(kase{Family: "serverhello-cut", Desc: fmt.Sprintf("%s cut%d", f.name, cut), Keys: true, First: f.rec, Ops: []op{{Dir: 'b', Data: tlsref.Record(22, 0x0303, body[:cut])}}})
			}
			for _, lf := range [][2]int{{1, 3}, {4 + 2 + 32, 1}, {len(body) - 2 - int(body[len(body)-1]) - 0, 0}} {
				if lf[1] == 0 {
					continue
				}
				for _, m := range deltas(body, lf[0], lf[1]) {
					emit(kase{Family: "serverhello-length-field", Desc: fmt.Sprintf("%s off%d", f.name, lf[0]), Keys: true, First: f.rec, Ops: []op{{Dir: 'b', Data: tlsref.Record(22, 0x0303, m)}}})
				}
			}
			// split across two Write calls at every offset (partial record retained)
			for split := 1; split < len(base); split += 3 {
				emit(kase{Family: "serverhello-split", Desc: fmt.Sprintf("%s split%d", f.name, split), Keys: true, First: f.rec, Ops: []op{{Dir: 'b', Data: base[:split]}, {Dir: 'b', Data: base[split:]}}})
			}
		}
		// backend declares huge / illegal record lengths, writes in big and tiny pieces
		for _, l := range []int{16640, 16641, 65535} {
			hdr := []byte{23, 3, 3, byte(l >> 8), byte(l)}
			emit(kase{Family: "backend-declared-length", Desc: fmt.Sprintf("%s %d", f.name, l), Keys: true, First: f.rec, Ops: []op{{Dir: 'b', Data: hdr}, {Dir: 'b', Data: make([]byte, 40000)}, {Dir: 'b', Data: make([]byte, 40000)}}})
			hdr2 := []byte{22, 3, 3, byte(l >> 8), byte(l)}
			emit(kase{Family: "backend-declared-length-hs", Desc: fmt.Sprintf("%s %d", f.name, l), Keys: true, First: f.rec, Ops: []op{{Dir: 'b', Data: append(hdr2, make([]byte, 39000)...)}, {Dir: 'b', Data: make([]byte, 39000)}}})
		}
		// an application-data record and the header of the NEXT record in one Write (pass-through with bytes still buffered), the
		// header announcing a length at the top of the 16-bit range (header + length wraps around in 16 bits for 0xfffb..0xffff)
		for _, l := range []int{16641, 0xfffa, 0xfffb, 0xfffc, 0xffff} {
			app := tlsref.Record(23, 0x0303, make([]byte, 20))
			for _, ct := range []byte{22, 23} {
				hdr := []byte{ct, 3, 3, byte(l >> 8), byte(l)}
				emit(kase{Family: "backend-appdata-then-declared-length", Desc: fmt.Sprintf("%s type%d %d", f.name, ct, l), Keys: true, First: f.rec,
					Ops: []op{{Dir: 'b', Data: append(slices.Clone(app), hdr...)}, {Dir: 'b', Data: make([]byte, 40000)}, {Dir: 'b', Data: make([]byte, 40000)}}})
				emit(kase{Family: "backend-appdata-then-declared-length", Desc: fmt.Sprintf("%s type%d %d split", f.name, ct, l), Keys: true, First: f.rec,
					Ops: []op{{Dir: 'b', Data: append(slices.Clone(app), hdr[:3]...)}, {Dir: 'b', Data: hdr[3:]}, {Dir: 'b', Data: make([]byte, 70000)}}})
			}
		}
		// a ServerHello that announces a long body and continues over many full handshake records: what the Conn keeps of a
		// fragmented ServerHello is bounded by the largest handshake message, not by what the backend announces
		for _, l := range []int{65536, 65537, 1 << 20, 0xffffff} {
			ops := []op{{Dir: 'b', Data: tlsref.Record(22, 0x0303, append([]byte{2, byte(l >> 16), byte(l >> 8), byte(l)}, make([]byte, 100)...))}}
			for i := 0; i < 40; i++ {
				ops = append(ops, op{Dir: 'b', Data: tlsref.Record(22, 0x0303, make([]byte, 16384))})
			}
			emit(kase{Family: "backend-fragmented-serverhello-declared", Desc: fmt.Sprintf("%s %d", f.name, l), Keys: true, First: f.rec, Ops: ops})
		}
		// many small complete records in one large Write, and a long run of partial writes: retained memory must stay bounded
		var many []byte
		for i := 0; i < 3000; i++ {
			many = append(many, tlsref.Record(20, 0x0303, []byte{1})...)
		}
		emit(kase{Family: "backend-many-small-records", Desc: f.name, Keys: true, First: f.rec, Ops: []op{{Dir: 'b', Data: many}, {Dir: 'b', Data: many}, {Dir: 'b', Data: many[:7]}}})
		emit(kase{Family: "client-many-small-records", Desc: f.name, Keys: true, First: append(slices.Clone(f.rec), many...), Ops: []op{{Dir: 'c'}, {Dir: 'c'}, {Dir: 'c'}}})
	}
	// F3b: after HRR: CH2 variants (every truncation, every length field +-1/0/max, type byte, garbage)
	ch2 := echx.Spec{Key: key, Suite: tlsref.Suite{KDF: 1, AEAD: 1}, Outer: good.Outer, EchIdx: len(good.Outer.Exts) - 1,
		EncInner: echx.StdEncInner(innerName, []string{"h2"}, true), InnerBase: echx.StdInnerBase(), Padding: make([]byte, 4), EphLabel: "c08"}
	_ = ch2
	{
		outer2, idx2 := echx.StdOuter(pubName, sid, 99)
		spec2 := echx.Spec{Key: key, Suite: tlsref.Suite{KDF: 1, AEAD: 1}, Outer: outer2, EchIdx: idx2, EncInner: echx.StdEncInner(innerName, []string{"h2"}, true), InnerBase: echx.StdInnerBase(), Padding: make([]byte, 4), EphLabel: "c08"}
		// NOTE: each case needs a fresh sealer state, but sealing at seq 1 is a pure function of the inputs: build once.
		b1 := spec2.Build()
		b2 := spec2.BuildWith(b1.Sealer, false)
		first := b1.Outer.Record()
		msg2 := b2.Outer.Msg()
		pre := []op{{Dir: 'c'}, {Dir: 'b', Data: hrr}}
		add := func(desc string, rec []byte) {
			emit(kase{Family: "retry-hello", Desc: desc, Keys: true, First: first, Ops: append(slices.Clone(pre), op{Dir: 'c', Data: rec})})
		}
		add("valid", tlsref.Record(22, 0x0303, msg2))
		// a valid second hello whose OUTER hello carries 15000 empty extensions (60 kB, four records): what the Conn keeps after a
		// retry is as bounded as what it keeps after the first hello
		{
			big := spec2
			big.Outer = spec2.Outer.Clone()
			ech := big.Outer.Exts[big.EchIdx]
			big.Outer.Exts = big.Outer.Exts[:big.EchIdx]
			for i := 0; i < 15000; i++ {
				big.Outer.Exts = append(big.Outer.Exts, tlsref.Ext{Type: 0x6b6b})
			}
			big.EchIdx = len(big.Outer.Exts)
			big.Outer.Exts = append(big.Outer.Exts, ech)
			bb1 := spec2.Build()
			bb2 := big.BuildWith(bb1.Sealer, false)
			emit(kase{Family: "retry-hello-many-extensions", Desc: "valid, 15000 empty extensions in the outer hello", Keys: true, First: first,
				Ops: append(slices.Clone(pre), op{Dir: 'c', Data: tlsref.FragmentMax(0x0303, bb2.Outer.Msg())}, op{Dir: 'c', Data: tlsref.Record(23, 0x0303, make([]byte, 10))})})
		}
		// records of every content type and of length 0/1/2 that arrive BETWEEN the HelloRetryRequest and the second hello
		// (each read separately, then the hello), and the second hello framed with a first fragment of 0..4 bytes
		for _, ct := range []byte{20, 21, 22, 23, 24, 0, 255} {
			for _, l := range []int{0, 1, 2} {
				between := tlsref.Record(ct, 0x0303, bytes.Repeat([]byte{1}, l))
				emit(kase{Family: "retry-hello-after-small-record", Desc: fmt.Sprintf("type%d len%d", ct, l), Keys: true, First: first,
					Ops: append(slices.Clone(pre), op{Dir: 'c', Data: between}, op{Dir: 'c', Data: tlsref.Record(22, 0x0303, msg2)})})
			}
		}
		for cut := 0; cut <= 4; cut++ {
			emit(kase{Family: "retry-hello-fragmented", Desc: fmt.Sprintf("first fragment %d bytes", cut), Keys: true, First: first,
				Ops: append(slices.Clone(pre), op{Dir: 'c', Data: tlsref.Record(22, 0x0303, msg2[:cut])}, op{Dir: 'c', Data: tlsref.Record(22, 0x0303, msg2[cut:])})})
		}
		for cut := 0; cut <= len(msg2); cut++ {
			if !thorough && cut > 80 && cut < len(msg2)-80 && cut%4 != 0 {
				continue
			}
			add(fmt.Sprintf("cut%d", cut), tlsref.Record(22, 0x0303, msg2[:cut]))
		}
		for _, lf := range tlsref.LengthFieldOffsets(msg2) {
			for _, m := range deltas(msg2, lf[0], lf[1]) {
				add(fmt.Sprintf("len-off%d", lf[0]), tlsref.Record(22, 0x0303, m))
			}
		}
		for _, i := range []int{0, 3, 21, 24, 25, 30, 31, 32} {
			h := b2.Outer.Clone()
			h.Exts = append(h.Exts, alts[i].ext)
			add("extra-"+alts[i].name, h.Record())
			h2 := b2.Outer.Clone()
			h2.Exts = append([]tlsref.Ext{alts[i].ext}, h2.Exts...)
			add("extra-first-"+alts[i].name, h2.Record())
		}
		add("plain-second-hello", plain.Record())
		add("first-hello-again", first)
	}
}

func enumSeq(k, maxLen int, f func([]int)) {
	var rec func(cur []int)
	rec = func(cur []int) {
		f(cur)
		if len(cur) == maxLen {
			return
		}
		for a := 0; a < k; a++ {
			rec(append(cur, a))
		}
	}
	rec(nil)
}

// ---- execution (in the worker) ----

var curCase atomic.Int64
var curStart atomic.Int64

func heapInUse() uint64 {
	// two collections: what sync.Pool kept over the first one (the victim cache) and what finalizers released is gone after
	// the second; the smaller of the two readings is taken
	var ms runtime.MemStats
	runtime.GC()
	runtime.ReadMemStats(&ms)
	a := ms.HeapAlloc
	runtime.GC()
	runtime.ReadMemStats(&ms)
	return min(a, ms.HeapAlloc)
}

func runCase(idx int, k kase, keys []ech.Key, measure bool) (res result) {
	res = result{Idx: idx, Family: k.Family, Desc: k.Desc, Keys: k.Keys}
	fail := func(key, what string) {
		if res.Viol == "" {
			res.Viol, res.What = key, what
			res.First = echx.Hex(k.First)
			if k.Keys {
				res.KeysDoc = echx.KeysDoc(keys)
			}
			for _, o := range k.Ops {
				res.Ops = append(res.Ops, op{Dir: o.Dir, Hex: echx.Hex(o.Data)})
			}
		}
	}
	var ks []ech.Key
	if k.Keys {
		ks = keys
	}
	var before uint64
	var ms0 runtime.MemStats
	if measure {
		before = heapInUse()
		runtime.ReadMemStats(&ms0)
	}
	sess, err, p := echx.OpenSession(k.First, ks)
	if p != nil {
		fail("panic:newconn:"+k.Family, fmt.Sprintf("NewConn panicked: %v", p))
		res.Outcome = "panic"
		return
	}
	// whatever NewConn consumes while it reads the first hello it holds: a hello is at most 64 KiB, in fragments of at least one
	// byte (5 bytes of record header each), so consuming more than that before deciding means holding more than that
	if consumed, lim := len(k.First)-sess.T.Pending(), 6*(65536+4)+recSize; consumed > lim {
		fail("hello-read-unbounded:"+k.Family, fmt.Sprintf("NewConn consumed (and held) %d bytes of the first flight before returning err=%v (limit %d)", consumed, err, lim))
	}
	if err != nil && measure {
		var ms1 runtime.MemStats
		runtime.ReadMemStats(&ms1)
		if lim := uint64(8*len(k.First) + (24+countRecords(k.First))*recSize); ms1.TotalAlloc-ms0.TotalAlloc > lim {
			fail("alloc:"+k.Family, fmt.Sprintf("NewConn allocated %d bytes for a %d-byte first flight (limit %d)", ms1.TotalAlloc-ms0.TotalAlloc, len(k.First), lim))
		}
	}
	if err != nil {
		res.Outcome = "newconn:" + echx.ErrClass(err)
		if strings.HasPrefix(res.Outcome, "newconn:other(memnet") {
			res.Outcome = "newconn:needs-more-input"
		}
		return
	}
	res.Outcome = fmt.Sprintf("newconn:ok accepted=%v", sess.C.ECHAccepted())
	harness := 0
	for oi, o := range k.Ops {
		switch o.Dir {
		case 'c':
			reads := sess.T.Reads
			pend := sess.T.Pending()
			data, err, p := sess.ClientSend(o.Data)
			if p != nil {
				fail("panic:read:"+k.Family, fmt.Sprintf("Read panicked at op %d: %v", oi, p))
				res.Outcome += " read-panic"
				return
			}
			if len(data) == 0 && err == nil && sess.T.Reads == reads {
				fail("spin:read:"+k.Family, fmt.Sprintf("Read returned 0,nil without consulting the transport (op %d, %d bytes pending)", oi, pend))
			}
			if err != nil {
				res.Outcome += " read:" + errClassShort(err)
			} else {
				res.Outcome += " read:ok"
			}
		case 'b':
			n, err, p := sess.BackendSend(o.Data)
			if p != nil {
				fail("panic:write:"+k.Family, fmt.Sprintf("Write panicked at op %d: %v", oi, p))
				res.Outcome += " write-panic"
				return
			}
			if n < 0 || n > len(o.Data) {
				fail("write-count:"+k.Family, fmt.Sprintf("Write returned n=%d for %d bytes", n, len(o.Data)))
			}
			if err != nil {
				res.Outcome += " write:" + errClassShort(err)
			} else {
				res.Outcome += " write:ok"
			}
		}
	}
	if measure {
		// transient allocation of the whole case: a small multiple of the bytes moved plus a few records per call
		var ms1 runtime.MemStats
		runtime.ReadMemStats(&ms1)
		moved := len(k.First)
		for _, o := range k.Ops {
			moved += len(o.Data)
		}
		// (per record a few hundred bytes of bookkeeping are legitimate, and a record can be as short as 5 bytes: 88 B per byte moved)
		// plus one record buffer per input record (the reader allocates a maximum-size buffer for each record it reads)
		nrec := countRecords(k.First)
		for _, o := range k.Ops {
			nrec += countRecords(o.Data)
		}
		if lim := uint64(88*moved + ((2+len(k.Ops))*12+nrec+nrec/4)*recSize); ms1.TotalAlloc-ms0.TotalAlloc > lim {
			fail("alloc:"+k.Family, fmt.Sprintf("the calls allocated %d bytes for %d bytes of input (limit %d): the Conn builds something much larger than a record", ms1.TotalAlloc-ms0.TotalAlloc, moved, lim))
		}
		// what the session driver and its transport hold themselves (by capacity: append rounds up)
		harness = sess.T.HeldBytes() + len(k.First) + sess.HarnessBytes()
		after := heapInUse()
		// a legitimate hello may span several records (up to 64 kB): the Conn then holds the parsed hello(s) and the bytes to forward
		budget := 16*1024 + 8*max(recSize, min(len(k.First), 65536+64))
		if k.Budget > 0 {
			budget = k.Budget
		}
		if after > before && int(after-before)-harness > budget {
			// measure again to rule out noise: rerun the whole case
			res.Outcome += " mem-suspect"
			fail("memory:"+k.Family, fmt.Sprintf("Conn retains about %d bytes after the calls returned (budget %d; harness-held %d subtracted)", int(after-before)-harness, budget, harness))
		}
		runtime.KeepAlive(sess)
	}
	return
}

// countRecords counts the complete records at the start of b.
func countRecords(b []byte) int {
	n := 0
	for len(b) >= 5 {
		l := int(b[3])<<8 | int(b[4])
		if len(b) < 5+l {
			break
		}
		b = b[5+l:]
		n++
	}
	return n
}

func errClassShort(err error) string {
	c := echx.ErrClass(err)
	if strings.HasPrefix(c, "other(memnet") {
		return "needs-more-input"
	}
	if strings.HasPrefix(c, "other(") {
		return "other"
	}
	return c
}

// Worker runs shard i of n and prints one JSON line per case that is a violation,
// plus a summary line; it is executed with GOMAXPROCS=1 under ulimit -v.
func Worker(tier string, shard, nshards int) {
	keys := echx.Keys(echx.NewKey("c08", 42, echx.AllSuites, pubName))
	idx := 0
	workers.ServeIter(shard, nshards, 20*time.Second, func(yield func(describe func() any, run func() workers.Result)) {
		generate(tier == "thorough", func(k kase) {
			i := idx
			idx++
			yield(func() any {
				return map[string]any{"family": k.Family, "desc": k.Desc, "keys": k.Keys, "first": echx.Hex(k.First)}
			}, func() workers.Result {
				r := runCase(i, k, keys, true)
				if r.Viol != "" && strings.HasPrefix(r.Viol, "memory:") {
					// confirm: the same case must exceed the budget again
					if r2 := runCase(i, k, keys, true); !strings.HasPrefix(r2.Viol, "memory:") {
						r.Viol, r.What = "", ""
					}
				}
				res := workers.Result{Outcome: r.Family + " -> " + r.Outcome, Viol: r.Viol, What: r.What}
				if r.Viol != "" {
					res.Replay = r
				}
				if i%9973 == shard {
					res.Sample = map[string]any{"family": r.Family, "desc": r.Desc, "keys": r.Keys, "first": echx.Hex(k.First), "outcome": r.Outcome}
				}
				return res
			})
		})
	})
}

// Run is the parent: spawns the workers and aggregates.
func Run(r *ev.Run) {
	r.Rule("grammar-bounded exhaustive enumeration (E1) in 16 memory-capped (ulimit -v 4 GiB) single-threaded worker processes with a 20 s hang watchdog: (a) every sequence of <=2 (thorough 3) alternatives out of 47 well-/ill-formed variants of the extensions the parser interprets (SNI, ALPN, supported_versions, ech_outer_extensions, ECH: types 0/1/2, empty enc, empty/short payload, every header truncation, trailing bytes) in the outer hello with/without keys and inside a SEALED inner hello; (b) reference lists (missing, repeated, 127 entries, naming ECH); (c) every length field of plain/sealed/garbage hellos set to {0, true-1, true+1, max} and all pairs of fields; the message cut at every byte; (d) first record of every content type x length {0,1,5}, declared lengths up to 65535; (e) after an accepted / passed-through hello: every record over 7 content types x 5 lengths in either direction, all ordered pairs, ServerHello/HRR cut at every byte, length lies, split at every 3rd offset, illegal declared lengths written in 40 kB pieces, 3000 tiny records per call; (f) after HRR: records of every content type x length 0/1/2 before the second hello, the second hello with a first fragment of 0..4 bytes, second hello cut at every byte, every length field mutated, extra extensions. Oracles: no panic (recovered), NewConn consumes at most 6x(64 KiB+4) bytes plus one record of the first flight before it decides, no call returns 0,nil without consulting the transport, bytes allocated by the calls <= 88x the bytes moved + 12 records per call + 1 record per input record (TotalAlloc delta), heap retained by the Conn after the calls <= 8 x max(record, hello up to 64 KiB) + 16 KiB (measured with forced GC, GOMAXPROCS=1, harness-held bytes subtracted, confirmed by re-execution), no call longer than 20 s. distinct = distinct case indexes with distinct bytes")
	r.Assume("byte noise outside the grammar is not explored (that would be fuzzing, another family)", "memory bound applies to what the Conn retains after a call returns; a single Write call may transiently hold the caller's own buffer")
	generate(r.Thorough(), func(k kase) {
		key := string(k.First)
		for _, o := range k.Ops {
			key += "|" + string(o.Dir) + string(o.Data)
		}
		if k.Keys {
			key += "|keys"
		}
		r.Eval(key, "")
	})
	done, total := workers.Spawn(r, "C08", 4*1024*1024)
	r.Set("cases", total)
	r.Set("cases_executed_by_workers", done)
	if done != total {
		r.Cap(fmt.Sprintf("workers executed %d of %d cases", done, total))
	}
	// deadline clause: scheduler-based exploration by the instrumented binary
	r.RunSub(os.Getenv("VERIF_INSTR_BIN"), "C08D", "deadline_clause")
	if done != total {
		r.Cap(fmt.Sprintf("workers executed %d of %d cases", done, total))
	}
}
