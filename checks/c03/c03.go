// Package c03 decides C03: an accepted inner hello is reconstructed byte-exactly.
// Reference model (tlsref/hpkeref, written from the draft) + total replay (E1).
package c03

import (
	"bytes"
	"errors"

	"github.com/c2FmZQ/ech"

	"fmt"
	"slices"

	"verif/internal/echx"
	"verif/internal/enum"
	"verif/internal/ev"
	"verif/internal/memnet"
	"verif/internal/tlsref"
	"verif/internal/tlsx"
)

type layout struct {
	AEAD      uint16 `json:"aead"`
	Refs      []int  `json:"compressed_shared_idx"` // indexes into shared, ascending
	MarkerAt  int    `json:"marker_pos"`
	ECHInAt   int    `json:"inner_ech_pos"`
	OuterKind int    `json:"outer_layout"`
	Padding   int    `json:"padding"`
	SID       int    `json:"session_id_len"`
	BigShare  bool   `json:"big_key_share"`
	Direct    int    `json:"uncompressed_shared"`          // 0 = included directly in inner, 1 = omitted from inner
	InnerSID  int    `json:"encoded_inner_session_id_len"` // 0 (conforming) or a non-empty id that differs from the outer one
	NoSNI     bool   `json:"inner_without_server_name,omitempty"`
	NoALPN    bool   `json:"inner_without_alpn,omitempty"`
	OuterALPN bool   `json:"outer_has_alpn,omitempty"`
	InnerPad  int    `json:"inner_padding_extension_len,omitempty"` // an RFC 7685 padding EXTENSION (type 21) inside the inner hello: an ordinary extension
	// Verbatim: the inner server name has upper-case letters and the inner ALPN list starts with an RFC 8701 GREASE id: both
	// are reported exactly as they stand in the reconstructed hello
	Verbatim bool `json:"mixed_case_name_and_grease_alpn,omitempty"`
	// round 13 (buildWide): CommonN extensions stand in both hellos (Refs indexes into them); the ALPN list has ALPNNames
	// two-octet names and is the inner hello's own extension or (ALPNCommon) one of the common ones, at index ALPNAt of them
	CommonN    int  `json:"common_extension_count,omitempty"`
	ALPNNames  int  `json:"alpn_name_count,omitempty"`
	ALPNCommon bool `json:"alpn_is_a_common_extension,omitempty"`
	ALPNAt     int  `json:"alpn_index_among_common,omitempty"`
}

const verbatimName = "Inner.SECRET.Example"

var verbatimALPN = []string{"\x2a\x2a", "h2", "\xfa\xfa"}

const innerName = "inner.secret.example"

func shared(big bool) []tlsref.Ext {
	ks := tlsref.KeyShare(32)
	if big {
		ks = tlsref.KeyShare(1216)
	}
	return []tlsref.Ext{tlsref.SupportedVersions(0x0304), ks, tlsref.SigAlgs(), tlsref.PSKModes(), tlsref.SupportedGroups(), {Type: 0x1234}}
}

func buildLayout(key echx.KeyPair, l layout) echx.Spec {
	sh := shared(l.BigShare)
	// outer: shared in order, interleaved with unrelated ones according to OuterKind
	var outer []tlsref.Ext
	switch l.OuterKind {
	case 0: // SNI first, shared, ECH last
		outer = append([]tlsref.Ext{tlsref.SNI("public.example")}, sh...)
		outer = append(outer, tlsref.Ext{Type: tlsref.ExtECH})
	case 1: // ECH first, unrelated ones interleaved
		outer = []tlsref.Ext{{Type: tlsref.ExtECH}, {Type: 0x0a0a}}
		for i, e := range sh {
			outer = append(outer, e)
			if i%2 == 0 {
				outer = append(outer, tlsref.Opaque(uint16(0x5500+i), i))
			}
		}
		outer = append(outer, tlsref.SNI("public.example"))
	case 2: // ECH in the middle, ALPN and padding extension around
		outer = []tlsref.Ext{tlsref.ALPN("h2"), tlsref.SNI("public.example")}
		outer = append(outer, sh[:3]...)
		outer = append(outer, tlsref.Ext{Type: tlsref.ExtECH})
		outer = append(outer, sh[3:]...)
		outer = append(outer, tlsref.Ext{Type: tlsref.ExtPadding, Data: make([]byte, 7)})
	}
	echIdx := slices.IndexFunc(outer, func(e tlsref.Ext) bool { return e.Type == tlsref.ExtECH })
	// encoded inner list: SNI, ALPN, non-referenced shared (directly, unless omitted), then marker and ECH-inner inserted at their positions
	var inner []tlsref.Ext
	if l.Verbatim {
		inner = append(inner, tlsref.SNI(verbatimName), tlsref.ALPN(verbatimALPN...))
	} else {
		if !l.NoSNI {
			inner = append(inner, tlsref.SNI(innerName))
		}
		if !l.NoALPN {
			inner = append(inner, tlsref.ALPN("h2", "http/1.1"))
		}
	}
	if l.InnerPad > 0 {
		inner = append(inner, tlsref.Ext{Type: tlsref.ExtPadding, Data: make([]byte, l.InnerPad-1)})
	}
	if l.OuterALPN && l.OuterKind != 2 {
		outer = append(outer, tlsref.ALPN("outer-proto"))
	}
	isRef := map[int]bool{}
	var types []uint16
	for _, i := range l.Refs {
		isRef[i] = true
		types = append(types, sh[i].Type)
	}
	hasVersions := false
	for i, e := range sh {
		if !isRef[i] && (l.Direct == 0 || i == 0) { // supported_versions is always present (else TLS 1.3 is not offered)
			inner = append(inner, e)
		}
		if i == 0 {
			hasVersions = true
		}
	}
	_ = hasVersions
	if len(l.Refs) > 0 {
		at := min(l.MarkerAt, len(inner))
		inner = slices.Insert(inner, at, tlsref.OuterExtensions(types...))
	}
	at := min(l.ECHInAt, len(inner))
	inner = slices.Insert(inner, at, tlsref.ECHInner())
	sid := tlsref.DetBytes("sid", l.SID)
	return echx.Spec{
		Key: key, Suite: tlsref.Suite{KDF: 1, AEAD: l.AEAD},
		Outer:  &tlsref.Hello{Version: 0x0303, Random: tlsref.DetBytes("outer-random", 32), SessionID: sid, CipherSuites: []byte{0x13, 0x01, 0x13, 0x03}, Compression: []byte{0}, Exts: outer},
		EchIdx: echIdx, EncInner: inner, InnerBase: echx.StdInnerBase(), Padding: make([]byte, l.Padding),
		EphLabel: fmt.Sprintf("c03-%d", l.AEAD),
		InnerSID: tlsref.DetBytes("inner-sid", l.InnerSID),
	}
}

// manyNames is a protocol name list of n distinct two-octet names (RFC 7301: opaque ProtocolName<1..2^8-1>).
func manyNames(n int) []string {
	out := make([]string, n)
	for i := range out {
		out[i] = string([]byte{byte(i >> 8), byte(i)})
	}
	return out
}

// wideCommon is the list of extensions that both hellos of a buildWide case carry: the six of shared(), then opaque
// extensions of distinct unassigned types with 0..3 data bytes, up to n; the ALPN extension (if it is a common one) at ALPNAt.
func wideCommon(l layout) []tlsref.Ext {
	n := l.CommonN
	if l.ALPNCommon {
		n--
	}
	c := shared(l.BigShare)
	for i := len(c); i < n; i++ {
		c = append(c, tlsref.Opaque(uint16(0x4000+i), i%4))
	}
	c = c[:n]
	if l.ALPNCommon {
		c = slices.Insert(c, min(l.ALPNAt, len(c)), tlsref.ALPN(manyNames(l.ALPNNames)...))
	}
	return c
}

// buildWide builds a hello pair from a list of common extensions of any length: the outer hello carries all of them in order
// (three layouts as in buildLayout), the encoded inner hello references those at l.Refs through one marker and carries the
// others directly, in the same order.
func buildWide(key echx.KeyPair, l layout) echx.Spec {
	common := wideCommon(l)
	var outer []tlsref.Ext
	switch l.OuterKind {
	case 0:
		outer = append([]tlsref.Ext{tlsref.SNI("public.example")}, common...)
		outer = append(outer, tlsref.Ext{Type: tlsref.ExtECH})
	case 1:
		outer = []tlsref.Ext{{Type: tlsref.ExtECH}, {Type: 0x0a0a}}
		for i, e := range common {
			outer = append(outer, e)
			if i%7 == 0 {
				outer = append(outer, tlsref.Opaque(uint16(0x5500+i), i%3))
			}
		}
		outer = append(outer, tlsref.SNI("public.example"))
	case 2:
		h := len(common) / 2
		outer = append([]tlsref.Ext{tlsref.SNI("public.example")}, common[:h]...)
		outer = append(outer, tlsref.Ext{Type: tlsref.ExtECH})
		outer = append(outer, common[h:]...)
		outer = append(outer, tlsref.Ext{Type: tlsref.ExtPadding, Data: make([]byte, 7)})
	}
	echIdx := slices.IndexFunc(outer, func(e tlsref.Ext) bool { return e.Type == tlsref.ExtECH })
	inner := []tlsref.Ext{tlsref.SNI(innerName)}
	if !l.ALPNCommon {
		if l.ALPNNames > 0 {
			inner = append(inner, tlsref.ALPN(manyNames(l.ALPNNames)...))
		} else {
			inner = append(inner, tlsref.ALPN("h2", "http/1.1"))
		}
	}
	isRef := map[int]bool{}
	var types []uint16
	for _, i := range l.Refs {
		isRef[i] = true
		types = append(types, common[i].Type)
	}
	for i, e := range common {
		if !isRef[i] {
			inner = append(inner, e)
		}
	}
	if len(types) > 127 {
		ev.ToolError("c03: %d references do not fit the marker's one-octet length", len(types))
	}
	if len(types) > 0 {
		inner = slices.Insert(inner, min(l.MarkerAt, len(inner)), tlsref.OuterExtensions(types...))
	}
	inner = slices.Insert(inner, min(l.ECHInAt, len(inner)), tlsref.ECHInner())
	return echx.Spec{
		Key: key, Suite: tlsref.Suite{KDF: 1, AEAD: l.AEAD},
		Outer:  &tlsref.Hello{Version: 0x0303, Random: tlsref.DetBytes("outer-random", 32), SessionID: tlsref.DetBytes("sid", l.SID), CipherSuites: []byte{0x13, 0x01, 0x13, 0x03}, Compression: []byte{0}, Exts: outer},
		EchIdx: echIdx, EncInner: inner, InnerBase: echx.StdInnerBase(), Padding: make([]byte, l.Padding),
		EphLabel: fmt.Sprintf("c03-%d", l.AEAD),
	}
}

// valuesOf reads the host name (RFC 6066 section 3) and the protocol names (RFC 7301 section 3.1) out of a reference hello:
// "the values of that reconstructed hello", whatever their number.
func valuesOf(h *tlsref.Hello) (name string, alpn []string) {
	for _, e := range h.Exts {
		d := e.Data
		switch e.Type {
		case tlsref.ExtSNI:
			// server_name_list<2>: name_type(1) host_name<2>
			if len(d) < 5 || d[2] != 0 || 5+(int(d[3])<<8|int(d[4])) != len(d) {
				ev.ToolError("c03: reference hello with a server_name the generator does not produce: %x", d)
			}
			name = string(d[5:])
		case tlsref.ExtALPN:
			if len(d) < 2 || 2+(int(d[0])<<8|int(d[1])) != len(d) {
				ev.ToolError("c03: reference hello with a malformed ALPN list")
			}
			for d = d[2:]; len(d) > 0; d = d[1+int(d[0]):] {
				if 1+int(d[0]) > len(d) {
					ev.ToolError("c03: reference hello with a malformed ALPN name")
				}
				alpn = append(alpn, string(d[1:1+int(d[0])]))
			}
		}
	}
	return name, alpn
}

// brief prints a list of names; a long one as its length, its ends and (against want) the first index that differs.
func brief(l, want []string) string {
	if len(l) <= 16 {
		return fmt.Sprintf("%q", l)
	}
	d := 0
	for d < len(l) && d < len(want) && l[d] == want[d] {
		d++
	}
	return fmt.Sprintf("[%d names, first %q, last %q; equal to the other list up to index %d]", len(l), l[0], l[len(l)-1], d)
}

// SelfValidate checks the reference sender against crypto/tls: a hello sealed by
// tlsref+hpkeref must be accepted by a tls.Server holding the key.
func SelfValidate(key echx.KeyPair) error {
	for _, aead := range []uint16{1, 2, 3} {
		for _, refs := range [][]int{nil, {0, 1, 2, 3, 4}} {
			b := buildLayout(key, layout{AEAD: aead, Refs: refs, MarkerAt: 2, ECHInAt: 1, SID: 32}).Build()
			seen, err := tlsx.GoServerSees(b.Outer.Record(), echx.Keys(key))
			if err != nil || seen.ServerName != innerName {
				return fmt.Errorf("crypto/tls does not accept the reference sender's hello (aead %d refs %v): seen=%+v err=%v", aead, refs, seen, err)
			}
		}
	}
	return nil
}

func Run(r *ev.Run) {
	r.Rule("E1 exhaustive: 3 AEADs x every subset of 6 shared extensions chosen for compression x every position of the ech_outer_extensions marker x 3 positions of the inner ECH extension x 3 outer layouts (ECH first/middle/last, unrelated extensions interleaved) x padding{0,1,31,32} x session-id length{0,1,32} x key_share 36B/1220B x uncompressed shared extensions kept/omitted x session id inside the encoded inner {empty, 7 B, 32 B differing from the outer one}, plus a size family up to 30 kB (outer hello up to 61 kB) (hellos spanning several records, in and out) small hellos fragmented by the client at 11 cut patterns (incl. 3-4 records with a last fragment of 1-12 bytes), reconstructed hellos of exactly k*2^14 and k*2^14 +-1 bytes, inner hellos without server_name and/or ALPN under outer hellos that carry them, inner hellos carrying a padding extension (type 21) of 0/1/199 bytes, and inner hellos whose server name has upper-case letters and whose ALPN list contains GREASE ids (reported verbatim), every reference count 1..127 of ech_outer_extensions (first/last/alternating n of n, n+2 and - at the limit - 128, 129, 200 common extensions), and ALPN lists of 1..20000 names (around every power of two from 2^8 to 2^14), the inner hello's own or taken from the outer hello through a reference, the reported list being the one read out of the reference reconstruction, and the hello that follows a HelloRetryRequest (history: accepted first hello, backend HelloRetryRequest, second hello sealed with the same HPKE context at sequence number 1): every pair (subset compressed in the first hello, subset compressed in the second) of the 6 shared extensions x cookie extension {absent, carried directly, compressed too} at 4 outer positions, marker positions independent, and the second hello framed in two records cut at every offset of the message and in 3..6 records with first fragments of 1..5 octets; each sealed by the reference sender and fed to the real NewConn; forwarded record compared byte for byte with the reference reconstruction. distinct = distinct outer-hello byte strings")
	r.Assume("tlsref/hpkeref reference sender is correct (validated on every run against crypto/tls and RFC 9180 vectors)", "outer hellos do not repeat an extension type")
	key := echx.NewKey("c03", 7, echx.AllSuites, "public.example")
	if err := SelfValidate(key); err != nil {
		ev.ToolError("%v", err)
	}
	keys := echx.Keys(key)

	var cases []layout
	paddings := []int{0, 1, 31, 32}
	sids := []int{0, 1, 32}
	enum.Subsets(6, func(refs []int) {
		for _, aead := range []uint16{1, 2, 3} {
			for ok := 0; ok < 3; ok++ {
				for _, echAt := range []int{0, 2, 99} {
					for marker := 0; marker <= 9; marker++ {
						if len(refs) == 0 && marker > 0 {
							continue
						}
						nInner := 2 + (6 - len(refs))
						if marker > nInner {
							continue
						}
						// padding/sid/big/direct: full product in thorough; in quick a covering rotation
						if r.Thorough() {
							for _, p := range paddings {
								for _, s := range sids {
									for _, big := range []bool{false, true} {
										for direct := 0; direct < 2; direct++ {
											for _, isid := range []int{0, 7, 32} {
												cases = append(cases, layout{AEAD: aead, Refs: refs, MarkerAt: marker, ECHInAt: echAt, OuterKind: ok, Padding: p, SID: s, BigShare: big, Direct: direct, InnerSID: isid})
											}
										}
									}
								}
							}
						} else {
							k := len(cases)
							cases = append(cases, layout{AEAD: aead, Refs: refs, MarkerAt: marker, ECHInAt: echAt, OuterKind: ok, Padding: paddings[k%4], SID: sids[(k/4)%3], BigShare: k%5 == 0, Direct: (k / 7) % 2, InnerSID: []int{0, 0, 7, 32}[(k/3)%4]})
						}
					}
				}
			}
		}
	})
	r.Set("layouts", len(cases))
	var states, accepted int64
	enum.ParallelFor(len(cases), func(i int) {
		l := cases[i]
		evalCase(r, key, keys, l, buildLayout(key, l))
		if i%(len(cases)/4+1) == 3 {
			r.Sample(l)
		}
	})
	_ = states
	_ = accepted

	// size family: inner hello grown up to the record limit via a large opaque extension
	for _, sz := range []int{1000, 8000, 15000, 16000, 16100, 16200} {
		l := layout{AEAD: 1, Refs: []int{0, 1}, MarkerAt: 1, ECHInAt: 0, SID: 32}
		s := buildLayout(key, l)
		s.EncInner = append(s.EncInner, tlsref.Opaque(0x7a7a, sz))
		b := s.Build()
		l.Padding = sz // recorded in the replay as the size parameter
		evalBuilt(r, keys, l, b, fmt.Sprintf("size%d", sz))
	}
	// hellos larger than one record: the outer hello arrives fragmented (RFC 8446 §5.1) and the reconstructed inner hello
	// is itself delivered in several records; also small hellos that the client chose to fragment
	for _, sz := range []int{17000, 24000, 30000} {
		l := layout{AEAD: 3, Refs: []int{0, 1, 4}, MarkerAt: 2, ECHInAt: 0, SID: 32, Padding: sz}
		s := buildLayout(key, l)
		s.EncInner = append(s.EncInner, tlsref.Opaque(0x7a7a, sz))
		evalBuilt(r, keys, l, s.Build(), fmt.Sprintf("size%d", sz))
	}
	{
		l := layout{AEAD: 1, Refs: []int{1, 2}, MarkerAt: 1, ECHInAt: 2, SID: 32}
		b := buildLayout(key, l).Build()
		msg := b.Outer.Msg()
		for _, cuts := range [][]int{{1}, {4}, {5}, {40}, {len(msg) - 1}, {3, 9}, {100, 200, 300}, {10, len(msg) - 3}, {10, 20, len(msg) - 7}, {10, 20, 30, len(msg) - 12}, {len(msg) - 3, len(msg) - 2, len(msg) - 1}} {
			evalStream(r, keys, l, b, tlsref.Fragment(0x0301, msg, cuts...), fmt.Sprintf("fragmented%v", cuts))
		}
	}
	// inner hellos that lack server_name and/or ALPN (both optional in TLS 1.3) while the outer hello carries them: the
	// reported values are those of the reconstructed hello (empty), never the outer hello's
	extra := 0
	for _, aead := range []uint16{1, 2, 3} {
		for _, refs := range [][]int{nil, {0, 1}, {0, 1, 2, 3, 4, 5}} {
			for ok := 0; ok < 3; ok++ {
				for _, v := range [][2]bool{{true, false}, {false, true}, {true, true}} {
					for _, oa := range []bool{false, true} {
						l := layout{AEAD: aead, Refs: refs, MarkerAt: 0, ECHInAt: 99, OuterKind: ok, SID: 32, NoSNI: v[0], NoALPN: v[1], OuterALPN: oa}
						evalBuilt(r, keys, l, buildLayout(key, l).Build(), ":inner-without-sni-or-alpn")
						extra++
					}
				}
			}
		}
	}
	for _, aead := range []uint16{1, 2, 3} {
		for _, refs := range [][]int{nil, {0, 1, 2, 3, 4, 5}} {
			for ok := 0; ok < 3; ok++ {
				l := layout{AEAD: aead, Refs: refs, MarkerAt: 2, ECHInAt: 0, OuterKind: ok, SID: 32, Verbatim: true}
				evalBuilt(r, keys, l, buildLayout(key, l).Build(), ":verbatim-name-and-alpn")
				extra++
			}
		}
	}
	// an RFC 7685 padding extension (type 21) carried INSIDE the inner hello is an ordinary extension: only the trailing zero
	// bytes of EncodedClientHelloInner are "padding removed"
	for _, aead := range []uint16{1, 3} {
		for _, refs := range [][]int{nil, {0, 2, 4}} {
			for ok := 0; ok < 3; ok++ {
				for _, pl := range []int{1, 2, 200} {
					for _, echAt := range []int{0, 99} {
						l := layout{AEAD: aead, Refs: refs, MarkerAt: 1, ECHInAt: echAt, OuterKind: ok, SID: 32, Padding: 7, InnerPad: pl}
						evalBuilt(r, keys, l, buildLayout(key, l).Build(), ":inner-padding-extension")
						extra++
					}
				}
			}
		}
	}
	// reconstructed messages of exactly k*2^14 bytes and one byte either side (the framing of the forwarded hello must not
	// produce an empty or an over-long record at the boundaries)
	for _, target := range []int{16383, 16384, 16385, 32767, 32768, 32769, 49152} {
		l := layout{AEAD: 2, Refs: []int{1, 3}, MarkerAt: 1, ECHInAt: 0, SID: 32}
		sz := target - 600
		var b echx.Built
		for it := 0; it < 3; it++ {
			s := buildLayout(key, l)
			s.EncInner = append(s.EncInner, tlsref.Opaque(0x7a7a, sz))
			b = s.Build()
			if got := len(b.Expected.Msg()); got != target {
				sz += target - got
				continue
			}
			break
		}
		if len(b.Expected.Msg()) != target {
			ev.ToolError("c03: cannot build a reconstructed hello of exactly %d bytes (got %d)", target, len(b.Expected.Msg()))
		}
		l.Padding = sz
		evalBuilt(r, keys, l, b, fmt.Sprintf(":exact%d", target))
		extra++
	}
	// an outer hello that carries a referenced extension type TWICE (different bodies; not a conforming hello, yet one the
	// walk of the draft's appendix B defines: a reference takes the first extension of its type at or behind the cursor), the
	// second copy before the first reference's extension, right behind it, or at the very end; and an inner hello whose
	// pre_shared_key-typed extension (41) is NOT its last one: nothing is reordered
	for _, where := range []string{"front", "behind", "end"} {
		for _, refs := range [][]int{{0, 2}, {2}, {0, 2, 4}} {
			l := layout{AEAD: 1, Refs: refs, MarkerAt: 1, ECHInAt: 0, SID: 32}
			s := buildLayout(key, l)
			o := s.Outer.Clone()
			typ := shared(false)[refs[len(refs)-1]].Type
			at := -1
			for j, e := range o.Exts {
				if e.Type == typ {
					at = j
				}
			}
			if at < 0 {
				ev.ToolError("c03: shared extension %#x not in the outer hello", typ)
			}
			dup := tlsref.Ext{Type: typ, Data: tlsref.DetBytes("second-copy", len(o.Exts[at].Data)+3)}
			ins := map[string]int{"front": 0, "behind": at + 1, "end": len(o.Exts)}[where]
			o.Exts = slices.Insert(o.Exts, ins, dup)
			if ins <= s.EchIdx {
				s.EchIdx++
			}
			s.Outer = o
			evalBuilt(r, keys, l, s.Build(), ":outer-carries-a-referenced-type-twice:"+where)
			extra++
		}
	}
	for _, at := range []int{0, 1, 2} {
		for _, refs := range [][]int{nil, {0, 2}} {
			l := layout{AEAD: 2, Refs: refs, MarkerAt: 1, ECHInAt: 99, SID: 32}
			s := buildLayout(key, l)
			s.EncInner = slices.Insert(slices.Clone(s.EncInner), min(at, len(s.EncInner)), tlsref.Ext{Type: 41, Data: tlsref.DetBytes("psk", 60)})
			evalBuilt(r, keys, l, s.Build(), ":inner-psk-not-last")
			extra++
		}
	}
	// supported_versions lists as real clients send them: an RFC 8701 GREASE value FIRST (BoringSSL/Chrome), in the middle, last;
	// TLS 1.3 after TLS 1.2 - in the outer hello, in the inner hello, and in both through a reference
	for vi, vers := range [][]uint16{{0x0a0a, 0x0304, 0x0303}, {0x0304, 0x7a7a, 0x0303}, {0x0304, 0xfafa}, {0x0303, 0x0304}, {0xeaea, 0x0304}} {
		for where := 0; where < 3; where++ {
			l := layout{AEAD: 1, MarkerAt: 1, ECHInAt: 0, SID: 32}
			if where == 2 {
				l.Refs = []int{0, 2} // supported_versions is shared(0): the inner hello takes it from the outer one
			}
			s := buildLayout(key, l)
			sv := tlsref.SupportedVersions(vers...)
			if where == 0 || where == 2 {
				s.Outer = s.Outer.Clone()
				for i, e := range s.Outer.Exts {
					if e.Type == tlsref.ExtSupportedVersions {
						s.Outer.Exts[i] = sv
					}
				}
			}
			if where == 1 {
				s.EncInner = slices.Clone(s.EncInner)
				for i, e := range s.EncInner {
					if e.Type == tlsref.ExtSupportedVersions {
						s.EncInner[i] = sv
					}
				}
			}
			evalBuilt(r, keys, l, s.Build(), fmt.Sprintf(":version-list%d-%s", vi, []string{"outer", "inner", "both"}[where]))
			extra++
		}
	}
	// round 13: "each ech_outer_extensions reference replaced in place by the referenced outer extensions in order" holds for
	// every list a client can encode: OuterExtensions<2..254> carries 1..127 references. Every count 1..127 is walked (the
	// first n / the last n / every other one of the common extensions, up to the limit), with exactly as many common
	// extensions as references, two more, and - just beyond the limit - 128, 129 and 200 common extensions of which the client
	// can compress at most 127 and carries the others directly; marker first / behind server_name / last. quick: AEAD, outer
	// layout and marker position rotate over the cases; thorough: full product.
	var wide []layout
	wideTags := map[int]string{}
	addWide := func(l layout, tag string) {
		wideTags[len(wide)] = tag
		wide = append(wide, l)
	}
	pick := func(common, n int, how string) []int {
		var refs []int
		switch how {
		case "first":
			for i := 0; i < n; i++ {
				refs = append(refs, i)
			}
		case "last":
			for i := common - n; i < common; i++ {
				refs = append(refs, i)
			}
		case "alternate": // every other one from the front, then the tail, n in all
			for i := 0; i < common && len(refs) < n; i++ {
				if i%2 == 0 || common-i <= n-len(refs) {
					refs = append(refs, i)
				}
			}
		}
		if len(refs) != n {
			ev.ToolError("c03: pick(%d,%d,%s) chose %d references", common, n, how, len(refs))
		}
		return refs
	}
	k := 0
	for n := 1; n <= 127; n++ {
		commons := []int{n, n + 2}
		if n == 127 {
			commons = []int{127, 128, 129, 200}
		}
		for _, common := range commons {
			for _, how := range []string{"first", "last", "alternate"} {
				if common == n && how != "first" {
					continue
				}
				refs := pick(common, n, how)
				tag := fmt.Sprintf(":%d-references-%s-of-%d-common-extensions", n, how, common)
				if r.Thorough() {
					for _, aead := range []uint16{1, 2, 3} {
						for ok := 0; ok < 3; ok++ {
							for _, marker := range []int{0, 1, 999} {
								addWide(layout{AEAD: aead, Refs: refs, MarkerAt: marker, ECHInAt: []int{0, 2, 999}[(k/2)%3], OuterKind: ok, Padding: paddings[k%4], SID: 32, CommonN: common}, tag)
								k++
							}
						}
					}
				} else {
					addWide(layout{AEAD: uint16(1 + k%3), Refs: refs, MarkerAt: []int{0, 1, 999}[(k/3)%3], ECHInAt: []int{0, 2, 999}[(k/2)%3], OuterKind: (k / 9) % 3, Padding: paddings[k%4], SID: 32, CommonN: common}, tag)
					k++
				}
			}
		}
	}
	refCases := len(wide)
	// round 13: "ServerName and ALPNProtos report the values of that reconstructed hello" - for protocol name lists of every
	// size a hello can carry (RFC 7301: ProtocolName protocol_name_list<2..2^16-1>, i.e. some 21000 two-octet names): 1..3
	// names, then counts around every power of two from 2^8 to 2^14 and some between, up to 20000; the ALPN extension being
	// the inner hello's own, or one the inner hello takes from the outer hello through a reference (first, in the middle or
	// last of the referenced ones, or the only one). ALPNProtos() must be the list in the hello the backend receives.
	for _, n := range []int{1, 2, 3, 100, 255, 256, 257, 511, 512, 513, 1000, 1023, 1024, 1025, 1500, 2047, 2048, 2049, 3000, 4095, 4096, 4097, 6000, 8191, 8192, 8193, 10000, 16383, 16384, 16385, 20000} {
		for _, v := range []struct {
			tag    string
			common bool
			at     int
			refs   []int
		}{
			{"inner-own", false, 0, []int{0, 1}},
			{"inner-own-nothing-referenced", false, 0, nil},
			{"referenced-first", true, 0, []int{0, 1, 2}},
			{"referenced-middle", true, 3, []int{0, 1, 3, 5}},
			{"referenced-last", true, 6, []int{1, 2, 6}},
			{"referenced-alone", true, 2, []int{2}},
			{"common-not-referenced", true, 2, []int{0, 1}},
		} {
			if v.tag == "common-not-referenced" && n > 10000 {
				continue // the list would stand in the outer hello and in the payload: more than an extensions block<0..2^16-1> holds
			}
			common := 6
			if v.common {
				common = 7
			}
			tag := fmt.Sprintf(":%d-alpn-names-%s", n, v.tag)
			aeads := []uint16{uint16(1 + k%3)}
			if r.Thorough() {
				aeads = []uint16{1, 2, 3}
			}
			for _, aead := range aeads {
				addWide(layout{AEAD: aead, Refs: v.refs, MarkerAt: []int{0, 1, 999}[(k/3)%3], ECHInAt: []int{0, 2, 999}[(k/2)%3], OuterKind: k % 3, Padding: paddings[k%4], SID: 32, CommonN: common, ALPNNames: n, ALPNCommon: v.common, ALPNAt: v.at}, tag)
				k++
			}
		}
	}
	enum.ParallelFor(len(wide), func(i int) {
		b := buildWide(key, wide[i]).Build()
		if len(tlsref.ExtsBytes(b.Outer.Exts)) > 65535 || b.Expected != nil && len(tlsref.ExtsBytes(b.Expected.Exts)) > 65535 {
			ev.ToolError("c03: generator produced a hello whose extensions do not fit their two-octet length: %+v", wide[i])
		}
		evalBuilt(r, keys, wide[i], b, wideTags[i])
	})
	r.Set("reference_count_cases", refCases)
	r.Set("alpn_name_count_cases", len(wide)-refCases)
	extra += len(wide)
	extra += retriedFamily(r, key, keys)
	r.Set("boundary_and_optional_extension_cases", extra)
	r.Set("states", len(cases))
	r.Set("traces_validated_against_impl", len(cases))
}

func evalCase(r *ev.Run, key echx.KeyPair, keys []ech.Key, l layout, s echx.Spec) {
	evalBuilt(r, keys, l, s.Build(), "")
}

func evalBuilt(r *ev.Run, keys []ech.Key, l layout, b echx.Built, tag string) {
	evalStream(r, keys, l, b, tlsref.FragmentMax(0x0301, b.Outer.Msg()), tag)
}

// evalStream feeds the given framing of the outer hello.
func evalStream(r *ev.Run, keys []ech.Key, l layout, b echx.Built, stream []byte, tag string) {
	if b.Expected == nil {
		ev.ToolError("c03 generator produced an unresolvable reference list: %+v", l)
	}
	res := echx.Feed(stream, keys)
	replay := map[string]any{"layout": l, "stream": echx.Hex(stream), "encoded_inner": echx.Hex(b.EncodedInner), "keys": echx.KeysDoc(keys)}
	r.Add("transitions", 1)
	switch {
	case res.Panic != nil:
		r.Violation("panic"+tag, fmt.Sprintf("panic: %v", res.Panic), replay)
	case res.Err != nil:
		r.Violation("valid-hello-refused:"+echx.ErrClass(res.Err)+tag, fmt.Sprintf("NewConn refused a valid ECH hello: %v", res.Err), replay)
	case !res.Accepted:
		r.Violation("valid-hello-not-accepted"+tag, "NewConn did not accept a valid ECH hello", replay)
	default:
		// the backend must receive exactly the reconstructed message, in well-formed handshake records of at most 2^14 bytes, and nothing else
		wantMsg := b.Expected.Msg()
		got, rest := tlsref.HandshakeBytes(res.Forwarded, len(wantMsg))
		recs, _ := tlsref.SplitRecords(res.Forwarded)
		wellFramed := len(rest) == 0
		for _, rc := range recs {
			if rc[0] != 22 || len(rc)-5 > 16384 || len(rc) == 5 {
				wellFramed = false
			}
		}
		if !bytes.Equal(got, wantMsg) || !wellFramed || len(wantMsg) <= 16384 && len(recs) != 1 {
			r.Violation("reconstruction-differs"+tag+diffKind(append([]byte{0, 0, 0, 0, 0}, got...), append([]byte{0, 0, 0, 0, 0}, wantMsg...)), fmt.Sprintf("forwarded inner hello differs from the reference reconstruction (well framed: %v, %d records):\n got  %x\n want %x", wellFramed, len(recs), got[:min(len(got), 400)], wantMsg[:min(len(wantMsg), 400)]), replay)
		}
		wantName, wantALPN := innerName, []string{"h2", "http/1.1"}
		if l.NoSNI {
			wantName = "" // the reconstructed hello has no server_name: that, not the outer hello's public name, is its value
		}
		if l.NoALPN {
			wantALPN = nil
		}
		if l.Verbatim {
			wantName, wantALPN = verbatimName, verbatimALPN
		}
		if l.CommonN > 0 {
			// round 13: the expected values are read out of the reference reconstruction itself (the hello the backend must
			// receive), so that the accessors are held to "the values of that reconstructed hello" for lists of any length
			wantName, wantALPN = valuesOf(b.Expected)
			n := l.ALPNNames
			if n == 0 {
				n = 2 // "h2", "http/1.1"
			}
			if len(wantALPN) != n {
				ev.ToolError("c03: the reference hello lists %d protocol names, the generator meant %d", len(wantALPN), n)
			}
		}
		if res.ServerName != wantName || !slices.Equal(res.ALPN, wantALPN) {
			r.Violation("reported-name-alpn"+tag, fmt.Sprintf("ServerName=%q ALPN=%s, want %q %s (the values of the reconstructed hello)", res.ServerName, brief(res.ALPN, wantALPN), wantName, brief(wantALPN, res.ALPN)), replay)
		}
		// a caller that edits the list it was given must not change what the Conn reports afterwards
		if l := res.Conn.ALPNProtos(); len(l) > 0 {
			slices.Reverse(l)
			l[0] = "tampered"
			if again := res.Conn.ALPNProtos(); !slices.Equal(again, wantALPN) {
				r.Violation("reported-alpn-aliases-state"+tag, fmt.Sprintf("after the caller modified the slice returned by ALPNProtos(), a second call reports %s", brief(again, wantALPN)), replay)
			}
		}
		if len(res.ClientOut) != 0 || res.Closed != 0 {
			r.Violation("wrote-to-client"+tag, fmt.Sprintf("NewConn wrote %x / closed the transport on an accepted hello", res.ClientOut), replay)
		}
	}
	r.Eval(string(stream), fmt.Sprintf("accepted=%v refs=%d", res.Accepted, len(l.Refs)))
}

func diffKind(got, want []byte) string {
	if len(got) != len(want) {
		return ":length"
	}
	if bytes.Equal(got[5:], want[5:]) {
		return ":header"
	}
	return ":content"
}

// ---- round 14: the hello that follows a HelloRetryRequest ----

// cookieExt is the cookie extension (type 44, RFC 8446 4.2.2) a retried hello echoes from the HelloRetryRequest.
func cookieExt() tlsref.Ext {
	c := tlsref.DetBytes("cookie", 40)
	return tlsref.Ext{Type: 44, Data: append([]byte{byte(len(c) >> 8), byte(len(c))}, c...)}
}

// second describes how the hello that answers the HelloRetryRequest differs from a first hello of layout L: it always has
// another key_share (RFC 8446 4.1.2); Cookie: 0 = no cookie, 1 = the cookie stands in the outer hello and directly in the
// encoded inner hello, 2 = it stands in the outer hello and the inner hello takes it from there (one more reference);
// CookieAt: where the outer hello carries it (0 first, 1 in front of key_share, 2 behind key_share, 3 last).
type second struct {
	L        layout `json:"layout"`
	Cookie   int    `json:"cookie"`
	CookieAt int    `json:"cookie_outer_pos"`
	Cuts     []int  `json:"record_cuts,omitempty"` // the message is framed in records cut at these offsets
}

// buildSecond is buildLayout for the retried hello. The list of references is written from the outer hello: the chosen
// shared extensions and (Cookie == 2) the cookie, in the order the outer hello carries them.
func buildSecond(key echx.KeyPair, v second) echx.Spec {
	l := v.L
	s := buildLayout(key, l)
	ks := tlsref.KeyShare(65)
	if l.BigShare {
		ks = tlsref.KeyShare(1249)
	}
	o := s.Outer.Clone()
	for i, e := range o.Exts {
		if e.Type == tlsref.ExtKeyShare {
			o.Exts[i] = ks
		}
	}
	inner := slices.Clone(s.EncInner)
	for i, e := range inner {
		if e.Type == tlsref.ExtKeyShare {
			inner[i] = ks
		}
	}
	if v.Cookie > 0 {
		ksAt := slices.IndexFunc(o.Exts, func(e tlsref.Ext) bool { return e.Type == tlsref.ExtKeyShare })
		at := []int{0, ksAt, ksAt + 1, len(o.Exts)}[v.CookieAt]
		o.Exts = slices.Insert(o.Exts, at, cookieExt())
	}
	switch v.Cookie {
	case 1:
		inner = append(inner, cookieExt())
	case 2:
		want := map[uint16]bool{44: true}
		sh := shared(l.BigShare)
		for _, i := range l.Refs {
			want[sh[i].Type] = true
		}
		var types []uint16
		for _, e := range o.Exts {
			if want[e.Type] {
				types = append(types, e.Type)
			}
		}
		if len(types) != len(l.Refs)+1 {
			ev.ToolError("c03: the retried outer hello carries %d of the %d extensions to reference", len(types), len(l.Refs)+1)
		}
		m := tlsref.OuterExtensions(types...)
		if at := slices.IndexFunc(inner, func(e tlsref.Ext) bool { return e.Type == tlsref.ExtOuterExtensions }); at >= 0 {
			inner[at] = m
		} else {
			inner = slices.Insert(inner, min(l.MarkerAt, len(inner)), m)
		}
	}
	s.Outer, s.EncInner = o, inner
	s.EchIdx = slices.IndexFunc(o.Exts, func(e tlsref.Ext) bool { return e.Type == tlsref.ExtECH })
	s.RetrySeq = 1 // same ephemeral key (EphLabel depends on the AEAD only), context advanced by one, empty enc
	return s
}

// retriedFamily: round 14. "Whenever ECH is accepted" covers the hello that follows a HelloRetryRequest: the backend must be
// handed the ClientHelloInner the client committed to in THAT hello - decrypted, padding removed, the session id of the outer
// hello it travelled in, its own ech_outer_extensions list resolved against its own outer hello. How a client ENCODES the
// inner hello is its choice per hello (the cookie exists in the second hello only and may be compressed; key_share may be
// compressed in one hello and not in the other; one of the two may have no marker at all), and so is the framing (RFC 8446
// 5.1: a handshake message may be split over records at any offset, only empty fragments are forbidden). So the PAIR
// (compressed subset of hello 1, compressed subset of hello 2) is walked as a full product, x cookie absent / direct /
// compressed, and the second hello is framed in two records at every offset and in several records with first fragments
// of 1..5 octets. Oracle: what Read yields after the HelloRetryRequest is exactly the reference reconstruction of the SECOND
// hello (never the outer hello's records), the accessors keep reporting the reconstructed hello's values, nothing but the
// HelloRetryRequest reaches the client.
func retriedFamily(r *ev.Run, key echx.KeyPair, keys []ech.Key) int {
	type pairCase struct {
		first layout
		sec   second
		tag   string
	}
	var cases []pairCase
	paddings := []int{0, 1, 31, 32}
	var subsets [][]int
	enum.Subsets(6, func(refs []int) { subsets = append(subsets, slices.Clone(refs)) })
	relation := func(a, b []int, cookie int) string {
		switch {
		case len(a) == 0 && len(b) == 0 && cookie != 2:
			return ":no-marker-in-either-hello"
		case len(a) == 0:
			return ":marker-in-the-second-hello-only"
		case len(b) == 0 && cookie != 2:
			return ":marker-in-the-first-hello-only"
		case slices.Equal(a, b) && cookie != 2:
			return ":same-reference-list-in-both-hellos"
		case slices.Equal(a, b):
			return ":second-hello-references-the-cookie-too"
		}
		return ":reference-lists-differ"
	}
	k := 0
	for _, refs1 := range subsets {
		for _, refs2 := range subsets {
			for cookie := 0; cookie < 3; cookie++ {
				aeads, kinds := []uint16{uint16(1 + k%3)}, []int{(k / 3) % 3}
				if r.Thorough() {
					aeads, kinds = []uint16{1, 2, 3}, []int{0, 1, 2}
				}
				for _, aead := range aeads {
					for _, ok := range kinds {
						big := k%5 == 0
						l1 := layout{AEAD: aead, Refs: refs1, MarkerAt: k % (9 - len(refs1)), ECHInAt: []int{0, 2, 99}[(k/2)%3], OuterKind: ok, Padding: paddings[k%4], SID: 32, BigShare: big}
						l2 := layout{AEAD: aead, Refs: refs2, MarkerAt: (k / 7) % (9 - len(refs2)), ECHInAt: []int{0, 2, 99}[(k/5)%3], OuterKind: ok, Padding: paddings[(k/4)%4], SID: 32, BigShare: big}
						cases = append(cases, pairCase{l1, second{L: l2, Cookie: cookie, CookieAt: (k / 3) % 4}, relation(refs1, refs2, cookie)})
						k++
					}
				}
			}
		}
	}
	pairs := len(cases)
	// framing of the second hello: four pairs x every two-record split x some splits into 3..6 records whose first fragments are tiny
	for pi, p := range []struct {
		a, b   []int
		cookie int
	}{{nil, nil, 0}, {[]int{1}, []int{1}, 2}, {[]int{0, 1, 2, 3, 4, 5}, nil, 1}, {[]int{1, 2}, []int{0, 1, 4}, 2}} {
		l1 := layout{AEAD: uint16(1 + pi%3), Refs: p.a, MarkerAt: 1, ECHInAt: 2, OuterKind: pi % 3, Padding: paddings[pi], SID: 32}
		l2 := l1
		l2.Refs, l2.MarkerAt, l2.Padding = p.b, 2, paddings[(pi+1)%4]
		v := second{L: l2, Cookie: p.cookie, CookieAt: pi}
		n := len(buildSecond(key, v).Build().Outer.Msg())
		var cutSets [][]int
		for c := 1; c < n; c++ {
			cutSets = append(cutSets, []int{c})
		}
		cutSets = append(cutSets, []int{1, 2}, []int{1, 2, 3}, []int{1, 2, 3, 4}, []int{1, 2, 3, 4, 5}, []int{2, 4}, []int{3, 6, 9}, []int{1, 5}, []int{2, n - 1}, []int{3, 4, n - 2}, []int{4, 8}, []int{5, 9, n - 12}, []int{1, n - 3, n - 2, n - 1}, []int{3, 40, 41, n - 1})
		for _, cuts := range cutSets {
			v.Cuts = cuts
			cases = append(cases, pairCase{l1, v, fmt.Sprintf(":second-hello-in-%d-records", len(cuts)+1)})
		}
	}
	enum.ParallelFor(len(cases), func(i int) {
		evalRetried(r, key, keys, cases[i].first, cases[i].sec, cases[i].tag)
	})
	r.Set("retried_hello_reference_list_pairs", pairs)
	r.Set("retried_hello_framings", len(cases)-pairs)
	return len(cases)
}

// evalRetried drives accepted first hello -> Read -> backend HelloRetryRequest -> second hello on one Conn.
func evalRetried(r *ev.Run, key echx.KeyPair, keys []ech.Key, l1 layout, v second, tag string) {
	b1 := buildLayout(key, l1).Build()
	b2 := buildSecond(key, v).Build()
	if b1.Expected == nil || b2.Expected == nil {
		ev.ToolError("c03 generator produced an unresolvable reference list: %+v / %+v", l1, v)
	}
	first := tlsref.FragmentMax(0x0301, b1.Outer.Msg())
	stream := tlsref.Fragment(0x0303, b2.Outer.Msg(), v.Cuts...)
	hrr := echx.HRRRecord(b1.Outer.SessionID)
	replay := map[string]any{"history": "first, Read, backend writes hello_retry_request, second, Read until nothing is left", "first_layout": l1, "second": v, "first": echx.Hex(first), "hello_retry_request": echx.Hex(hrr), "stream": echx.Hex(stream), "encoded_inner_of_second": echx.Hex(b2.EncodedInner), "keys": echx.KeysDoc(keys)}
	r.Add("transitions", 1)
	oc := "ok"
	defer func() {
		r.Eval(string(first)+"|hrr|"+string(stream), "retried"+tag+" -> "+oc)
	}()
	fail := func(key, text string) {
		oc = key
		r.Violation(key, text, replay)
	}
	sess, err, p := echx.OpenSession(first, keys)
	if p != nil || err != nil || !sess.C.ECHAccepted() {
		fail("retried:first-hello-not-accepted"+tag, fmt.Sprintf("valid first hello: err=%v panic=%v", err, p))
		return
	}
	got1, err, p := sess.ReadOnce()
	want1 := b1.Expected.Msg()
	if m, rest := tlsref.HandshakeBytes(got1, len(want1)); err != nil || p != nil || !bytes.Equal(m, want1) || len(rest) != 0 {
		fail("retried:first-hello-reconstruction-differs"+tag, fmt.Sprintf("reading the first hello: err=%v panic=%v\n got  %x\n want %x", err, p, m[:min(len(m), 400)], want1[:min(len(want1), 400)]))
		return
	}
	if n, err, p := sess.BackendSend(hrr); err != nil || p != nil || n != len(hrr) || !bytes.Equal(sess.T.OutBytes(), hrr) {
		fail("retried:hello-retry-request-not-relayed"+tag, fmt.Sprintf("writing the HelloRetryRequest: n=%d err=%v panic=%v, the client received %x", n, err, p, sess.T.OutBytes()))
		return
	}
	// everything the backend is handed for the second hello: Read until the transport has nothing left
	sess.T.Feed(stream)
	var fwd []byte
	var rerr error
	for i := 0; i < len(v.Cuts)+8 && rerr == nil; i++ {
		var d []byte
		var p any
		d, rerr, p = sess.ReadOnce()
		if p != nil {
			fail("retried:panic"+tag, fmt.Sprintf("panic while reading the second hello: %v", p))
			return
		}
		fwd = append(fwd, d...)
	}
	wantMsg := b2.Expected.Msg()
	switch {
	case rerr == nil:
		fail("retried:read-does-not-end"+tag, fmt.Sprintf("Read keeps returning data after the second hello (%d bytes so far)", len(fwd)))
		return
	case !errors.Is(rerr, memnet.ErrStall):
		fail("retried:valid-second-hello-refused:"+echx.ErrClass(rerr)+tag, fmt.Sprintf("a valid second hello (references %v, cookie mode %d; the first hello's references %v) was refused: %v; delivered before that: %d bytes; written to the client after the HelloRetryRequest: %x", v.L.Refs, v.Cookie, l1.Refs, rerr, len(fwd), sess.T.OutBytes()[len(hrr):]))
		return
	}
	got, rest := tlsref.HandshakeBytes(fwd, len(wantMsg))
	recs, _ := tlsref.SplitRecords(fwd)
	wellFramed := len(rest) == 0
	for _, rc := range recs {
		if rc[0] != 22 || len(rc)-5 > 16384 || len(rc) == 5 {
			wellFramed = false
		}
	}
	if !bytes.Equal(got, wantMsg) || !wellFramed || len(wantMsg) <= 16384 && len(recs) != 1 {
		what := diffKind(append([]byte{0, 0, 0, 0, 0}, got...), append([]byte{0, 0, 0, 0, 0}, wantMsg...))
		if om := b2.Outer.Msg(); bytes.Equal(got, om[:min(len(om), len(got))]) || bytes.Equal(fwd, stream) {
			what = ":outer-hello-forwarded"
		}
		fail("retried:reconstruction-differs"+tag+what, fmt.Sprintf("what the backend receives for the second hello (framed by the client in %d records) differs from the reference reconstruction of the second hello (well framed: %v, %d records; equal to the client's own records: %v):\n got  %x\n want %x", len(v.Cuts)+1, wellFramed, len(recs), bytes.Equal(fwd, stream), got[:min(len(got), 400)], wantMsg[:min(len(wantMsg), 400)]))
	}
	wantName, wantALPN := valuesOf(b2.Expected)
	if !sess.C.ECHAccepted() || sess.C.ServerName() != wantName || !slices.Equal(sess.C.ALPNProtos(), wantALPN) {
		fail("retried:reported-name-alpn"+tag, fmt.Sprintf("after the second hello: ECHAccepted=%v ServerName=%q ALPN=%q, want true %q %q (the values of the reconstructed hello)", sess.C.ECHAccepted(), sess.C.ServerName(), sess.C.ALPNProtos(), wantName, wantALPN))
	}
	if out := sess.T.OutBytes(); !bytes.Equal(out, hrr) || sess.T.CloseCount != 0 {
		fail("retried:wrote-to-client"+tag, fmt.Sprintf("the Conn wrote %x to the client / closed the transport (%d) on a valid second hello", out[min(len(out), len(hrr)):], sess.T.CloseCount))
	}
}
