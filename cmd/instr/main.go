// Command instr rewrites the goroutine/channel/lock/context/timer operations of
// selected source files of the library into calls to the vsched shim (engine E3)
// and writes a `go build -overlay` file. The rewriting is syntactic and
// conservative: a construct it does not know is a tool error (exit 2), never a
// silent pass. Nothing under /repo is modified.
//
// usage: instr -repo /repo -vsched /verif/vsched -out /verif/.work/instr file.go...
package main

import (
	"bytes"
	"encoding/json"
	"flag"
	"fmt"
	"go/ast"
	"go/format"
	"go/parser"
	"go/token"
	"os"
	"path/filepath"
	"strconv"
	"strings"

	"golang.org/x/tools/go/ast/astutil"
)

const vsPath = "github.com/c2FmZQ/ech/vsched"

func fatal(format string, a ...any) {
	fmt.Fprintf(os.Stderr, "instr: "+format+"\n", a...)
	os.Exit(2)
}

func sel(x, s string) *ast.SelectorExpr {
	return &ast.SelectorExpr{X: ast.NewIdent(x), Sel: ast.NewIdent(s)}
}

func call(fun ast.Expr, args ...ast.Expr) *ast.CallExpr { return &ast.CallExpr{Fun: fun, Args: args} }

func isSel(e ast.Expr, x, s string) bool {
	se, ok := e.(*ast.SelectorExpr)
	if !ok {
		return false
	}
	id, ok := se.X.(*ast.Ident)
	return ok && id.Name == x && se.Sel.Name == s
}

// isDoneCall: <expr>.Done() with no arguments.
func isDoneCall(e ast.Expr) (ast.Expr, bool) {
	c, ok := e.(*ast.CallExpr)
	if !ok || len(c.Args) != 0 {
		return nil, false
	}
	se, ok := c.Fun.(*ast.SelectorExpr)
	if !ok || se.Sel.Name != "Done" {
		return nil, false
	}
	return se.X, true
}

func isTimeAfter(e ast.Expr) (ast.Expr, bool) {
	c, ok := e.(*ast.CallExpr)
	if !ok || len(c.Args) != 1 || !isSel(c.Fun, "time", "After") {
		return nil, false
	}
	return c.Args[0], true
}

type rewriter struct {
	fset    *token.FileSet
	file    string
	chans   map[string]bool
	selN    int
	pos     func(n ast.Node) string
	yieldOn map[string]bool // method names on identifier "cache" that get a yield before
}

func (r *rewriter) errorf(n ast.Node, format string, a ...any) {
	fatal("%s: %s", r.fset.Position(n.Pos()), fmt.Sprintf(format, a...))
}

// makeChan recognises make(chan T[, n]).
func makeChan(e ast.Expr) (elem ast.Expr, capExpr ast.Expr, ok bool) {
	c, isCall := e.(*ast.CallExpr)
	if !isCall {
		return nil, nil, false
	}
	id, isID := c.Fun.(*ast.Ident)
	if !isID || id.Name != "make" || len(c.Args) == 0 {
		return nil, nil, false
	}
	ct, isChan := c.Args[0].(*ast.ChanType)
	if !isChan {
		return nil, nil, false
	}
	capExpr = &ast.BasicLit{Kind: token.INT, Value: "0"}
	if len(c.Args) > 1 {
		capExpr = c.Args[1]
	}
	return ct.Value, capExpr, true
}

func (r *rewriter) recvOperand(x ast.Expr) ast.Expr { return x }

// rewriteSelect builds the block replacing a select statement.
func (r *rewriter) rewriteSelect(s *ast.SelectStmt) ast.Stmt {
	r.selN++
	var pre []ast.Stmt
	var args []ast.Expr
	var clauses []ast.Stmt
	hasDefault := false
	idx := 0
	for _, cl := range s.Body.List {
		cc := cl.(*ast.CommClause)
		body := cc.Body
		if cc.Comm == nil {
			hasDefault = true
			clauses = append(clauses, &ast.CaseClause{List: nil, Body: body})
			continue
		}
		var caseExpr ast.Expr
		switch c := cc.Comm.(type) {
		case *ast.SendStmt:
			caseExpr = call(sel("vs", "CaseSend"), c.Chan, c.Value)
		case *ast.ExprStmt, *ast.AssignStmt:
			var recv *ast.UnaryExpr
			var assign *ast.AssignStmt
			if es, ok := c.(*ast.ExprStmt); ok {
				recv, _ = es.X.(*ast.UnaryExpr)
			} else {
				assign = c.(*ast.AssignStmt)
				if len(assign.Rhs) == 1 {
					recv, _ = assign.Rhs[0].(*ast.UnaryExpr)
				}
			}
			if recv == nil || recv.Op != token.ARROW {
				r.errorf(cc, "unsupported select case")
			}
			if ctx, ok := isDoneCall(recv.X); ok {
				if assign != nil {
					r.errorf(cc, "assignment from ctx.Done() in select is not supported")
				}
				caseExpr = call(sel("vs", "CaseDone"), ctx)
			} else if d, ok := isTimeAfter(recv.X); ok {
				if assign != nil {
					r.errorf(cc, "assignment from time.After in select is not supported")
				}
				caseExpr = call(sel("vs", "CaseAfter"), d)
			} else {
				name := fmt.Sprintf("_vsc%d_%d", r.selN, idx)
				pre = append(pre, &ast.AssignStmt{Lhs: []ast.Expr{ast.NewIdent(name)}, Tok: token.DEFINE, Rhs: []ast.Expr{call(sel("vs", "CaseRecv"), recv.X)}})
				caseExpr = ast.NewIdent(name)
				if assign != nil {
					rhs := []ast.Expr{sel(name, "Val")}
					if len(assign.Lhs) == 2 {
						rhs = append(rhs, sel(name, "Ok"))
					}
					body = append([]ast.Stmt{&ast.AssignStmt{Lhs: assign.Lhs, Tok: assign.Tok, Rhs: rhs}}, body...)
				}
			}
		default:
			r.errorf(cc, "unsupported select case %T", cc.Comm)
		}
		args = append(args, caseExpr)
		clauses = append(clauses, &ast.CaseClause{List: []ast.Expr{&ast.BasicLit{Kind: token.INT, Value: strconv.Itoa(idx)}}, Body: body})
		idx++
	}
	def := "false"
	if hasDefault {
		def = "true"
	}
	sw := &ast.SwitchStmt{Tag: call(sel("vs", "Select"), append([]ast.Expr{ast.NewIdent(def)}, args...)...), Body: &ast.BlockStmt{List: clauses}}
	return &ast.BlockStmt{List: append(pre, sw)}
}

func (r *rewriter) rewriteFile(f *ast.File) {
	// 1. collect channel identifiers: x := make(chan ...), var x = make(chan ...)
	ast.Inspect(f, func(n ast.Node) bool {
		if as, ok := n.(*ast.AssignStmt); ok && len(as.Lhs) == len(as.Rhs) {
			for i, rhs := range as.Rhs {
				if _, _, ok := makeChan(rhs); ok {
					if id, ok := as.Lhs[i].(*ast.Ident); ok {
						r.chans[id.Name] = true
					} else {
						r.errorf(as, "channel stored in a non-identifier")
					}
				}
			}
		}
		return true
	})
	// 2. reject constructs we do not model
	ast.Inspect(f, func(n ast.Node) bool {
		switch x := n.(type) {
		case *ast.SelectorExpr:
			for _, bad := range [][2]string{{"sync", "Cond"}, {"sync", "Map"}, {"sync", "Pool"}, {"time", "Tick"}, {"context", "WithCancelCause"}, {"context", "WithTimeoutCause"}, {"context", "WithDeadlineCause"}, {"context", "WithoutCancel"}} {
				if isSel(x, bad[0], bad[1]) {
					r.errorf(x, "unsupported construct %s.%s", bad[0], bad[1])
				}
			}
		case *ast.LabeledStmt:
			if _, ok := x.Stmt.(*ast.SelectStmt); ok {
				r.errorf(x, "labeled select is not supported")
			}
		}
		return true
	})
	// 3. rewrite, post-order so that inner constructs are handled first
	astutil.Apply(f, nil, func(c *astutil.Cursor) bool {
		switch n := c.Node().(type) {
		case *ast.GoStmt:
			fl, ok := n.Call.Fun.(*ast.FuncLit)
			if !ok || len(n.Call.Args) != 0 {
				r.errorf(n, "only `go func(){...}()` is supported")
			}
			c.Replace(&ast.ExprStmt{X: call(sel("vs", "Go"), fl)})
		case *ast.SendStmt:
			if _, ok := c.Parent().(*ast.CommClause); ok {
				return true // handled by the select rewrite
			}
			c.Replace(&ast.ExprStmt{X: call(&ast.SelectorExpr{X: n.Chan, Sel: ast.NewIdent("Send")}, n.Value)})
		case *ast.SelectStmt:
			c.Replace(r.rewriteSelect(n))
		case *ast.CallExpr:
			if elem, capExpr, ok := makeChan(n); ok {
				c.Replace(call(&ast.IndexExpr{X: sel("vs", "NewChan"), Index: elem}, capExpr))
				return true
			}
			if id, ok := n.Fun.(*ast.Ident); ok && id.Name == "close" && len(n.Args) == 1 {
				c.Replace(call(&ast.SelectorExpr{X: n.Args[0], Sel: ast.NewIdent("Close")}))
			}
		case *ast.UnaryExpr:
			if n.Op != token.ARROW {
				return true
			}
			switch p := c.Parent().(type) {
			case *ast.ExprStmt:
				if _, ok := c.Parent().(*ast.ExprStmt); ok {
					// parent of parent may be a CommClause: leave for the select rewrite
					_ = p
				}
			}
			if r.inCommClause(c) {
				return true
			}
			if ctx, ok := isDoneCall(n.X); ok {
				c.Replace(call(sel("vs", "WaitDone"), ctx))
				return true
			}
			if d, ok := isTimeAfter(n.X); ok {
				c.Replace(call(&ast.SelectorExpr{X: call(sel("vs", "After"), d), Sel: ast.NewIdent("Recv")}))
				return true
			}
			c.Replace(call(&ast.SelectorExpr{X: n.X, Sel: ast.NewIdent("Recv")}))
		case *ast.AssignStmt:
			// v, ok := <-ch
			if len(n.Lhs) == 2 && len(n.Rhs) == 1 {
				if ce, ok := n.Rhs[0].(*ast.CallExpr); ok {
					if se, ok := ce.Fun.(*ast.SelectorExpr); ok && se.Sel.Name == "Recv" && len(ce.Args) == 0 {
						se.Sel = ast.NewIdent("Recv2")
					}
				}
			}
		case *ast.RangeStmt:
			id, ok := n.X.(*ast.Ident)
			if !ok || !r.chans[id.Name] {
				return true
			}
			var lhs ast.Expr = ast.NewIdent("_")
			tok := token.DEFINE
			if n.Key != nil {
				lhs = n.Key
				tok = n.Tok
			}
			if n.Value != nil {
				r.errorf(n, "range over channel with two variables")
			}
			okName := ast.NewIdent("_vsok")
			recv := &ast.AssignStmt{Lhs: []ast.Expr{lhs, okName}, Tok: token.DEFINE, Rhs: []ast.Expr{call(&ast.SelectorExpr{X: id, Sel: ast.NewIdent("Recv2")})}}
			if tok == token.ASSIGN {
				recv = &ast.AssignStmt{Lhs: []ast.Expr{ast.NewIdent("_vsv"), okName}, Tok: token.DEFINE, Rhs: recv.Rhs}
			}
			brk := &ast.IfStmt{Cond: &ast.UnaryExpr{Op: token.NOT, X: okName}, Body: &ast.BlockStmt{List: []ast.Stmt{&ast.BranchStmt{Tok: token.BREAK}}}}
			body := []ast.Stmt{recv, brk}
			if tok == token.ASSIGN {
				body = append(body, &ast.AssignStmt{Lhs: []ast.Expr{lhs}, Tok: token.ASSIGN, Rhs: []ast.Expr{ast.NewIdent("_vsv")}})
			}
			body = append(body, n.Body.List...)
			c.Replace(&ast.ForStmt{Body: &ast.BlockStmt{List: body}})
		case *ast.SelectorExpr:
			for _, m := range [][3]string{{"sync", "Mutex", "Mutex"}, {"sync", "RWMutex", "RWMutex"}, {"sync", "WaitGroup", "WaitGroup"}, {"sync", "Once", "Once"},
				{"context", "WithCancel", "WithCancel"}, {"context", "WithTimeout", "WithTimeout"}, {"context", "WithDeadline", "WithDeadline"}, {"context", "AfterFunc", "AfterFunc"},
				{"time", "Now", "Now"}, {"time", "Sleep", "Sleep"}, {"time", "NewTicker", "NewTicker"}, {"time", "NewTimer", "NewTimer"}, {"time", "AfterFunc", "TimeAfterFunc"},
				{"time", "Ticker", "Ticker"}, {"time", "Timer", "Timer"}} {
				if isSel(n, m[0], m[1]) {
					c.Replace(sel("vs", m[2]))
				}
			}
		case *ast.ChanType:
			if !r.insideMake(c) {
				// a variable declared with a (bidirectional) channel type and given its channel later: `var c chan T` ... `c = make(chan T, n)`
				if n.Dir != ast.SEND|ast.RECV {
					r.errorf(n, "directional channel type outside make(chan ...) is not supported (channels must stay local)")
				}
				c.Replace(&ast.StarExpr{X: &ast.IndexExpr{X: sel("vs", "Chan"), Index: n.Value}})
			}
		}
		return true
	})
	// 4. yield points before calls on the identifier "cache" (the LRU): Get/Add/Peek/Remove/Resize, and before the operations of
	// sync/atomic values (Load/Store/Swap/CompareAndSwap; Add on a field or variable named *Count/*count): an atomic operation
	// is a synchronisation operation, the other threads may run before it. The test is syntactic; a yield before a call that is
	// not an atomic operation after all is one more scheduling point and changes nothing else.
	atomicOp := map[string]bool{"Load": true, "Store": true, "Swap": true, "CompareAndSwap": true}
	astutil.Apply(f, nil, func(c *astutil.Cursor) bool {
		st, ok := c.Node().(ast.Stmt)
		if !ok || c.Index() < 0 {
			return true
		}
		// what is evaluated when control reaches the statement (not the bodies of compound statements)
		var parts []ast.Node
		switch x := st.(type) {
		case *ast.ExprStmt, *ast.AssignStmt, *ast.ReturnStmt:
			parts = []ast.Node{st}
		case *ast.IfStmt:
			if x.Init != nil {
				parts = append(parts, x.Init)
			}
			parts = append(parts, x.Cond)
		case *ast.SwitchStmt:
			if x.Init != nil {
				parts = append(parts, x.Init)
			}
			if x.Tag != nil {
				parts = append(parts, x.Tag)
			}
			for _, cc := range x.Body.List {
				for _, e := range cc.(*ast.CaseClause).List {
					parts = append(parts, e)
				}
			}
		default:
			return true
		}
		found := ""
		for _, part := range parts {
			ast.Inspect(part, func(n ast.Node) bool {
				if _, ok := n.(*ast.FuncLit); ok {
					return false
				}
				if ce, ok := n.(*ast.CallExpr); ok {
					if se, ok := ce.Fun.(*ast.SelectorExpr); ok {
						if id, ok := se.X.(*ast.Ident); ok && id.Name == "cache" && r.yieldOn[se.Sel.Name] {
							found = "lru." + se.Sel.Name
						} else if id, ok := se.X.(*ast.Ident); ok && (id.Name == "vs" || id.Name == "cache") {
							// the scheduler's own entry points / other LRU calls
						} else if atomicOp[se.Sel.Name] {
							found = "atomic." + se.Sel.Name
						} else if se.Sel.Name == "Add" {
							var last string
							switch y := se.X.(type) {
							case *ast.Ident:
								last = y.Name
							case *ast.SelectorExpr:
								last = y.Sel.Name
							}
							if strings.HasSuffix(last, "Count") || strings.HasSuffix(last, "count") {
								found = "atomic.Add"
							}
						}
					}
				}
				return true
			})
		}
		_ = found
		if found != "" {
			c.InsertBefore(&ast.ExprStmt{X: call(sel("vs", "Yield"), &ast.BasicLit{Kind: token.STRING, Value: strconv.Quote(found)})})
		}
		return true
	})
	// 5. imports
	astutil.AddNamedImport(r.fset, f, "vs", vsPath)
	for _, imp := range []string{"sync", "time", "context"} {
		if !astutil.UsesImport(f, imp) {
			astutil.DeleteImport(r.fset, f, imp)
		}
	}
}

func (r *rewriter) inCommClause(c *astutil.Cursor) bool {
	// the receive expression of a select case: parent is ExprStmt/AssignStmt whose parent is a CommClause; astutil gives only one level,
	// so we mark comm statements beforehand
	return commExprs[c.Node()]
}

func (r *rewriter) insideMake(c *astutil.Cursor) bool {
	if ce, ok := c.Parent().(*ast.CallExpr); ok {
		if id, ok := ce.Fun.(*ast.Ident); ok && id.Name == "make" {
			return true
		}
	}
	return false
}

var commExprs = map[ast.Node]bool{}

func markComm(f *ast.File) {
	ast.Inspect(f, func(n ast.Node) bool {
		cc, ok := n.(*ast.CommClause)
		if !ok || cc.Comm == nil {
			return true
		}
		switch c := cc.Comm.(type) {
		case *ast.ExprStmt:
			commExprs[c.X] = true
		case *ast.AssignStmt:
			for _, rhs := range c.Rhs {
				commExprs[rhs] = true
			}
		}
		return true
	})
}

func main() {
	repo := flag.String("repo", "/repo", "library root")
	vsrc := flag.String("vsched", "", "directory holding the vsched sources")
	out := flag.String("out", "", "output directory")
	flag.Parse()
	if *out == "" || *vsrc == "" || flag.NArg() == 0 {
		fatal("usage: instr -repo DIR -vsched DIR -out DIR file.go...")
	}
	if err := os.MkdirAll(*out, 0o755); err != nil {
		fatal("%v", err)
	}
	overlay := map[string]string{}
	for _, name := range flag.Args() {
		src := filepath.Join(*repo, name)
		fset := token.NewFileSet()
		f, err := parser.ParseFile(fset, src, nil, parser.ParseComments)
		if err != nil {
			fatal("%v", err)
		}
		markComm(f)
		r := &rewriter{fset: fset, file: name, chans: map[string]bool{}, yieldOn: map[string]bool{"Get": true, "Add": true, "Peek": true, "Remove": true, "Resize": true}}
		r.rewriteFile(f)
		var buf bytes.Buffer
		if err := format.Node(&buf, fset, f); err != nil {
			fatal("%s: %v", name, err)
		}
		dst := filepath.Join(*out, strings.ReplaceAll(name, "/", "_"))
		if err := os.WriteFile(dst, buf.Bytes(), 0o644); err != nil {
			fatal("%v", err)
		}
		overlay[src] = dst
	}
	// the shim package becomes github.com/c2FmZQ/ech/vsched through the overlay
	ents, err := os.ReadDir(*vsrc)
	if err != nil {
		fatal("%v", err)
	}
	for _, e := range ents {
		if strings.HasSuffix(e.Name(), ".go") && !strings.HasSuffix(e.Name(), "_test.go") {
			abs, _ := filepath.Abs(filepath.Join(*vsrc, e.Name()))
			overlay[filepath.Join(*repo, "vsched", e.Name())] = abs
		}
	}
	b, _ := json.MarshalIndent(map[string]any{"Replace": overlay}, "", " ")
	if err := os.WriteFile(filepath.Join(*out, "overlay.json"), b, 0o644); err != nil {
		fatal("%v", err)
	}
}
