package main

import (
	"verif/checks/c07"
	"verif/internal/ev"
)

func init() { registry["C07"] = checkFn{"fault_enumeration", func(r *ev.Run, _ string) { c07.Run(r) }} }
