package main

import (
	"verif/checks/c01"
	"verif/internal/ev"
)

func init() { registry["C01"] = checkFn{"exploration", func(r *ev.Run, _ string) { c01.Run(r) }} }
