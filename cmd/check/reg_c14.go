package main

import (
	"verif/checks/c14"
	"verif/internal/ev"
)

func init() { registry["C14"] = checkFn{"model_checking", func(r *ev.Run, _ string) { c14.Run(r) }} }
