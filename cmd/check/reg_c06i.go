//go:build vsched

package main

import (
	"strconv"

	"verif/checks/c06"
	"verif/internal/ev"
)

func init() {
	registry["C06I"] = checkFn{"model_checking", func(r *ev.Run, _ string) { c06.RunInter(r) }}
	workers["C06I"] = func(a []string) {
		i, _ := strconv.Atoi(a[1])
		n, _ := strconv.Atoi(a[2])
		c06.InterWorker(a[0], i, n)
	}
}
