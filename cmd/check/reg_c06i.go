//go:build vsched

package main

import (
	"verif/checks/c06"
	"verif/internal/ev"
)

func init() {
	registry["C06I"] = checkFn{"model_checking", func(r *ev.Run, _ string) { c06.RunInter(r) }}
}
