package main

import (
	"strconv"

	"verif/checks/c16"
	"verif/internal/ev"
)

func init() {
	registry["C16"] = checkFn{"model_checking", func(r *ev.Run, _ string) { c16.Run(r) }}
	workers["C16"] = func(a []string) {
		i, _ := strconv.Atoi(a[1])
		n, _ := strconv.Atoi(a[2])
		c16.HistWorker(a[0], i, n)
	}
}
