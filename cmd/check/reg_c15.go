package main

import (
	"verif/checks/c15"
	"verif/internal/ev"
)

func init() { registry["C15"] = checkFn{"model_checking", func(r *ev.Run, _ string) { c15.Run(r) }} }
