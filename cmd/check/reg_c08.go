package main

import (
	"strconv"

	"verif/checks/c08"
	"verif/internal/ev"
)

func init() {
	registry["C08"] = checkFn{"fault_enumeration", func(r *ev.Run, _ string) { c08.Run(r) }}
	workers["C08"] = func(a []string) {
		i, _ := strconv.Atoi(a[1])
		n, _ := strconv.Atoi(a[2])
		c08.Worker(a[0], i, n)
	}
}
