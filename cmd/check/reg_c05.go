package main

import (
	"verif/checks/c05"
	"verif/internal/ev"
)

func init() { registry["C05"] = checkFn{"exploration", func(r *ev.Run, _ string) { c05.Run(r) }} }
