//go:build vsched

package main

import (
	"strconv"

	"verif/checks/c16"
	"verif/internal/ev"
)

func init() {
	registry["C16I"] = checkFn{"model_checking", func(r *ev.Run, replay string) {
		if r.Tier == "replay" {
			c16.ReplayInter(replay)
			return
		}
		c16.RunInter(r)
	}}
	workers["C16I"] = func(a []string) {
		i, _ := strconv.Atoi(a[1])
		n, _ := strconv.Atoi(a[2])
		c16.InterWorker(a[0], i, n)
	}
}
