package main

import (
	"verif/checks/c04"
	"verif/internal/ev"
)

func init() { registry["C04"] = checkFn{"fault_enumeration", func(r *ev.Run, _ string) { c04.Run(r) }} }
