package main

import (
	"verif/checks/c20"
	"verif/internal/ev"
)

func init() { registry["C20"] = checkFn{"model_checking", func(r *ev.Run, _ string) { c20.Run(r) }} }
