// Command check runs one property check: check <ID> <quick|thorough|replay> [replay-file].
package main

import (
	"fmt"
	"os"

	"verif/internal/ev"
)

type checkFn struct {
	level string
	run   func(r *ev.Run, replay string)
}

var registry = map[string]checkFn{}

// workers are sub-process entry points: check <ID> worker <args...>
var workers = map[string]func(args []string){}

func main() {
	if len(os.Args) < 3 {
		fmt.Fprintln(os.Stderr, "usage: check <ID> <quick|thorough|replay> [file]")
		os.Exit(2)
	}
	id, tier := os.Args[1], os.Args[2]
	if w, ok := workers[id]; ok && tier == "worker" {
		w(os.Args[3:])
		return
	}
	c, ok := registry[id]
	if !ok {
		ev.ToolError("unknown check %q", id)
	}
	if tier != "quick" && tier != "thorough" && tier != "replay" {
		ev.ToolError("unknown tier %q", tier)
	}
	replay := ""
	if len(os.Args) > 3 {
		replay = os.Args[3]
	}
	r := ev.Begin(id, tier, c.level)
	c.run(r, replay)
	r.Finish()
}
